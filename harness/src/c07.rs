//! C07: cluster reads only expose the quorum-confirmed prefix of a partition.
//!
//! One REAL single-node `ClusterActor` per harness process (kameo's global swarm can be
//! initialised once per process, and the actor's replication factor is fixed at start): the `c07`
//! family re-executes this binary once per replication factor 1..12 (`C07_RF`) and merges the
//! children's transcripts.  A child fills real `sierradb::Database`s through
//! `Database::append_events` with transactions carrying ARBITRARY confirmation counts
//! (`Transaction::with_confirmation_count`), swaps them in with the real `ResetCluster` message
//! (the real `ConfirmationActor` derives the watermarks from the on-disk counts), appends more
//! transactions, raises counts through the real `ConfirmTransaction` message (the real
//! confirmation machinery advances the watermark) and then sends ReadEvent / ReadPartition /
//! ReadStream / GetStreamVersion / GetPartitionSequence as local actor messages.
//! Every reply is mirrored by the Lean model (`c07 …` lines) and the property is evaluated
//! directly on the real replies (oracles (a)-(e), see `Case::check_*`).
use crate::util::*;
use kameo::actor::{ActorRef, Spawn};
use sierradb::bucket::segment::EventRecord;
use sierradb::database::{Database, DatabaseBuilder, ExpectedVersion, NewEvent, Transaction};
use sierradb::id::uuid_v7_with_partition_hash;
use sierradb::StreamId;
use sierradb_cluster::read::{GetPartitionSequence, GetStreamVersion, ReadEvent, ReadPartition, ReadRequestMetadata, ReadStream};
use sierradb_cluster::write::confirm::ConfirmTransaction;
use sierradb_cluster::{ClusterActor, ClusterArgs, ResetCluster};
use smallvec::SmallVec;
use std::collections::{HashMap, HashSet};
use std::time::Duration;
use uuid::Uuid;

pub const PARTS: u16 = 32;
const BUCKETS: u16 = 4;

fn quorum(rf: u8) -> u8 { rf / 2 + 1 }

/// one transaction of a generated history
#[derive(Clone, Debug)]
pub struct TxSpec {
    pub streams: Vec<u64>, // stream number of each event
    pub c0: u8,            // confirmation count stored by the append
    pub c1: Option<u8>,    // count of a later ConfirmTransaction (>= c0), None = never confirmed
}

/// a history: the first `npre` transactions are on disk before the cluster (re)initialises
#[derive(Clone, Debug)]
pub struct Hist { pub txs: Vec<TxSpec>, pub npre: usize }

#[derive(Clone, Debug)]
#[allow(dead_code)]
pub struct MEv { pub seq: u64, pub stream: u64, pub version: u64, pub tx: u64, pub count: u8 }

impl Hist {
    /// the log the history produces (final counts)
    pub fn log(&self) -> Vec<MEv> {
        let mut out = vec![]; let mut vers: HashMap<u64, u64> = HashMap::new();
        for (t, tx) in self.txs.iter().enumerate() {
            for s in &tx.streams {
                let v = vers.entry(*s).or_insert(0);
                out.push(MEv { seq: out.len() as u64, stream: *s, version: *v, tx: t as u64, count: tx.c1.unwrap_or(tx.c0) });
                *v += 1;
            }
        }
        out
    }
    /// the watermark the confirmation machinery must reach (C08): the longest prefix of transactions
    /// REPORTED with a quorum count; reports = the on-disk counts of the pre-filled transactions
    /// (re-scanned by `initialize`) and the `ConfirmTransaction` counts
    pub fn expected_wm(&self, rf: u8) -> u64 {
        let q = quorum(rf); let mut wm = 0u64;
        for (i, t) in self.txs.iter().enumerate() {
            let rep = (if i < self.npre { t.c0 } else { 0 }).max(t.c1.unwrap_or(0));
            if (i < self.npre || t.c1.is_some()) && rep >= q { wm += t.streams.len() as u64; } else { break; }
        }
        wm
    }
    /// `<npre> <tx>*` with tx = `s1.s2:c0:c1|-`
    pub fn show(&self) -> String {
        let t: Vec<String> = self.txs.iter().map(|t| format!("{}:{}:{}", t.streams.iter().map(|s| s.to_string()).collect::<Vec<_>>().join("."), t.c0,
            t.c1.map_or("-".into(), |c| c.to_string()))).collect();
        format!("{} {}", self.npre, t.join(" "))
    }
    pub fn parse(toks: &[&str]) -> Option<Hist> {
        let npre: usize = toks.first()?.parse().ok()?;
        let mut txs = vec![];
        for t in &toks[1..] {
            let p: Vec<&str> = t.split(':').collect();
            if p.len() != 3 { return None; }
            let streams: Option<Vec<u64>> = p[0].split('.').map(|x| x.parse().ok()).collect();
            txs.push(TxSpec { streams: streams?, c0: p[1].parse().ok()?, c1: if p[2] == "-" { None } else { Some(p[2].parse().ok()?) } });
        }
        if npre > txs.len() { return None; }
        Some(Hist { npre, txs })
    }
}

// ------------------------------------------------------------------ the real cluster
pub struct World {
    pub cluster: ActorRef<ClusterActor>,
    pub rf: u8,
    db: Option<Database>,
    old: Option<Database>,
    dirs: Vec<tempfile::TempDir>,
    root: std::path::PathBuf,
    next_pid: u16,
    pub stride: u16,
    uniq: u64,
}

fn open_db(root: &std::path::Path, n: u64) -> (tempfile::TempDir, Database) {
    let _ = n;
    let dir = tempfile::tempdir_in(root).unwrap();
    let db = DatabaseBuilder::new().segment_size_bytes(64 << 20).total_buckets(BUCKETS).bucket_ids_from_range(0..BUCKETS)
        .reader_threads(2).writer_threads(2).sync_interval(Duration::from_millis(1)).open(dir.path()).expect("open database");
    (dir, db)
}

/// a real transaction realised on a partition
pub struct RealTx { pub id: Uuid, pub event_ids: Vec<Uuid>, pub first_seq: u64 }

impl World {
    pub async fn new(rf: u8) -> World {
        let root = if std::path::Path::new("/dev/shm").is_dir() { std::path::PathBuf::from("/dev/shm") } else { std::env::temp_dir() };
        let (dir, db) = open_db(&root, 0);
        let cluster = ClusterActor::spawn(ClusterArgs {
            keypair: libp2p::identity::Keypair::generate_ed25519(), database: db.clone(), listen_addrs: vec![],
            node_count: 1, node_index: 0, bucket_count: BUCKETS, partition_count: PARTS, replication_factor: rf,
            assigned_partitions: HashSet::from_iter(0..PARTS),
            heartbeat_timeout: Duration::from_millis(1_000), heartbeat_interval: Duration::from_millis(6_000),
            replication_buffer_size: 1_000, replication_buffer_timeout: Duration::from_millis(8_000),
            replication_catchup_timeout: Duration::from_millis(2_000), mdns: false,
        });
        cluster.wait_for_startup().await;
        World { cluster, rf, db: Some(db), old: None, dirs: vec![dir], root, next_pid: 0, stride: 1, uniq: 0 }
    }
    pub fn db(&self) -> &Database { self.db.as_ref().unwrap() }
    /// a fresh database becomes the cluster's database (after `prefill` ran on it): the real
    /// ConfirmationActor initialises the watermarks from the on-disk confirmation counts
    pub async fn fresh_db(&mut self) {
        self.old = self.db.take();
        let (dir, db) = open_db(&self.root, 0);
        self.dirs.push(dir); self.db = Some(db); self.next_pid = 0;
    }
    pub async fn reset(&mut self) {
        self.cluster.ask(ResetCluster { database: self.db().clone() }).await.expect("ResetCluster");
        if let Some(old) = self.old.take() { old.shutdown().await; self.dirs.remove(0); }
    }
    pub async fn shutdown(&mut self) { if let Some(db) = self.db.take() { db.shutdown().await; } self.dirs.clear(); }
    pub fn take_pid(&mut self) -> Option<u16> { if self.next_pid * self.stride < PARTS { self.next_pid += 1; Some((self.next_pid - 1) * self.stride) } else { None } }
    pub fn key(pid: u16) -> Uuid { Uuid::from_u128(((pid as u128) << 46) | (0x7u128 << 64) | (0x2u128 << 62) | 0xC07) }
    pub fn stream(&self, case: u64, s: u64) -> StreamId { StreamId::new(format!("c07-{case}-{s}")).unwrap() }
    pub fn next_case(&mut self) -> u64 { self.uniq += 1; self.uniq }
    /// append one transaction through the real `Database::append_events`
    pub async fn append(&self, pid: u16, case: u64, tx: &TxSpec) -> Result<RealTx, String> {
        let event_ids: Vec<Uuid> = tx.streams.iter().map(|_| uuid_v7_with_partition_hash(pid)).collect();
        let evs: SmallVec<[NewEvent; 4]> = tx.streams.iter().zip(&event_ids).map(|(s, id)| NewEvent {
            event_id: *id, stream_id: self.stream(case, *s), stream_version: ExpectedVersion::Any, event_name: "e".into(),
            timestamp: 1_700_000_000_000, metadata: vec![], payload: vec![7] }).collect();
        let t = Transaction::new(Self::key(pid), pid, evs).map_err(|e| format!("{e:?}"))?.with_confirmation_count(tx.c0);
        let id = t.transaction_id();
        let r = self.db().append_events(t).await.map_err(|e| format!("{e:?}"))?;
        Ok(RealTx { id, event_ids, first_seq: r.first_partition_sequence })
    }
    /// raise the stored count and report it, through the real `ConfirmTransaction` message
    pub async fn confirm(&self, pid: u16, rt: &RealTx, count: u8) -> Result<(), String> {
        let n = rt.event_ids.len() as u64;
        self.cluster.ask(ConfirmTransaction { partition_id: pid, transaction_id: rt.id, event_ids: rt.event_ids.iter().copied().collect(),
            confirmation_versions: (0..n).map(|i| rt.first_seq + i + 1).collect(), confirmation_count: count }).await.map_err(|e| format!("{e:?}"))
    }
}

// ------------------------------------------------------------------ one history on one partition
pub struct Case {
    pub pid: u16, pub case: u64, pub rf: u8, pub hist: Hist, pub log: Vec<MEv>, pub wm: u64,
    real: Vec<RealTx>, ids: Vec<Uuid>, header: String, reported: HashSet<String>, pub broken: bool,
    /// an earlier case of the same database whose partition lies in the SAME bucket: its streams are
    /// addressed by stream numbers >= 100 (a request naming the wrong partition for a stream)
    pub foreign: Option<Foreign>,
}

#[derive(Clone, Debug)]
pub struct Foreign { pub case: u64, pub header: String, pub hist: String, pub nstreams: u64 }

#[derive(Clone, Debug)]
pub enum Req {
    Ev { id: Option<u64>, nf: u8 },
    Part { start: u64, end: Option<u64>, count: u64 },
    Stream { s: u64, start: u64, end: Option<u64>, count: u64 },
    SVer { s: u64 },
    PSeq,
    /// the store interface itself: the groups a scan yields (forward partition / forward stream / reverse stream from u64::MAX)
    ScanP { start: u64 },
    ScanS { s: u64, start: u64 },
    ScanR { s: u64 },
}

fn opt(x: Option<u64>) -> String { x.map_or("-".into(), |v| v.to_string()) }
fn popt(x: &str) -> Option<Option<u64>> { if x == "-" { Some(None) } else { x.parse().ok().map(Some) } }

impl Req {
    pub fn line(&self) -> String {
        match self {
            Req::Ev { id, nf } => format!("c07 ev {} {nf}", id.map_or("x".into(), |v| v.to_string())),
            Req::Part { start, end, count } => format!("c07 part {start} {} {count}", opt(*end)),
            Req::Stream { s, start, end, count } => format!("c07 stream {s} {start} {} {count}", opt(*end)),
            Req::SVer { s } => format!("c07 sver {s}"),
            Req::PSeq => "c07 pseq".into(),
            Req::ScanP { start } => format!("c07 scanp {start}"),
            Req::ScanS { s, start } => format!("c07 scans {s} {start}"),
            Req::ScanR { s } => format!("c07 scanr {s}"),
        }
    }
    pub fn parse(t: &[&str]) -> Option<Req> {
        match t {
            ["c07", "ev", id, nf] => Some(Req::Ev { id: if *id == "x" { None } else { Some(id.parse().ok()?) }, nf: nf.parse().ok()? }),
            ["c07", "part", a, b, c] => Some(Req::Part { start: a.parse().ok()?, end: popt(b)?, count: c.parse().ok()? }),
            ["c07", "stream", s, a, b, c] => Some(Req::Stream { s: s.parse().ok()?, start: a.parse().ok()?, end: popt(b)?, count: c.parse().ok()? }),
            ["c07", "sver", s] => Some(Req::SVer { s: s.parse().ok()? }),
            ["c07", "pseq"] => Some(Req::PSeq),
            ["c07", "scanp", a] => Some(Req::ScanP { start: a.parse().ok()? }),
            ["c07", "scans", s, a] => Some(Req::ScanS { s: s.parse().ok()?, start: a.parse().ok()? }),
            ["c07", "scanr", s] => Some(Req::ScanR { s: s.parse().ok()? }),
            _ => None,
        }
    }
}

fn show_seqs(evs: &[EventRecord]) -> String { evs.iter().map(|e| e.partition_sequence.to_string()).collect::<Vec<_>>().join(",") }
fn show_sv(evs: &[EventRecord]) -> String { evs.iter().map(|e| format!("{}:{}", e.partition_sequence, e.stream_version)).collect::<Vec<_>>().join(",") }

impl Case {
    /// phase 1: the pre-filled transactions (before the cluster initialises on this database)
    pub async fn prefill(w: &mut World, hist: Hist) -> Option<Case> {
        let pid = w.take_pid()?; let case = w.next_case();
        let mut c = Case { pid, case, rf: w.rf, log: hist.log(), hist, wm: 0, real: vec![], ids: vec![], header: String::new(), reported: HashSet::new(), broken: false, foreign: None };
        for i in 0..c.hist.npre { c.append(w, i).await; }
        Some(c)
    }
    async fn append(&mut self, w: &World, i: usize) {
        match w.append(self.pid, self.case, &self.hist.txs[i]).await {
            Ok(rt) => { if rt.first_seq != self.ids.len() as u64 { self.broken = true; } self.ids.extend(rt.event_ids.iter().copied()); self.real.push(rt); }
            Err(_) => self.broken = true,
        }
    }
    /// phase 2 (after ResetCluster): the remaining transactions, the confirmations, the watermark
    pub async fn complete(&mut self, ctx: &mut Ctx, w: &World) {
        for i in self.hist.npre..self.hist.txs.len() { self.append(w, i).await; }
        if self.broken { return; }
        let mut order: Vec<usize> = (0..self.hist.txs.len()).filter(|i| self.hist.txs[*i].c1.is_some()).collect();
        if self.hist.txs.len() % 2 == 1 { order.reverse(); }
        for i in order { if w.confirm(self.pid, &self.real[i], self.hist.txs[i].c1.unwrap()).await.is_err() { self.broken = true; } }
        // the confirmation actor processes the reports asynchronously: wait for the expected watermark
        let want = self.hist.expected_wm(self.rf);
        let mut got = None;
        for k in 0..400 {
            got = w.cluster.ask(GetPartitionSequence { partition_id: self.pid }).await.ok();
            if got == Some(want.checked_sub(1)) { break; }
            tokio::time::sleep(Duration::from_millis(if k < 20 { 1 } else { 5 })).await;
        }
        self.wm = want;
        let defwm = self.log.iter().take_while(|e| e.count >= quorum(self.rf)).count() as u64;
        self.header = format!("c07 log {} {} {}", self.rf, self.wm, self.hist.show());
        ctx.emit(&self.header, &format!("ok n={} defwm={defwm}", self.log.len()));
        if got != Some(want.checked_sub(1)) {
            self.broken = true;
            self.fail(ctx, "watermark", None, format!("the watermark observed through GetPartitionSequence is {got:?}, the confirmation history gives {want}"));
        }
        if self.wm > defwm { self.fail(ctx, "wm-unsound", None, format!("watermark {} exceeds the quorum-confirmed prefix {defwm}", self.wm)); }
        ctx.stat(if self.wm == defwm { "cases_wm_eq_defwm" } else { "cases_wm_below_defwm" });
        if self.wm == 0 { ctx.stat("cases_wm_zero"); }
        if self.wm == self.log.len() as u64 { ctx.stat("cases_wm_covers_log"); }
        if (self.wm as usize) < self.log.len() && self.log[self.wm as usize].count >= quorum(self.rf) { ctx.stat("cases_first_event_beyond_wm_is_quorate"); }
    }
    fn fail(&mut self, ctx: &mut Ctx, kind: &str, req: Option<&Req>, what: String) {
        // one report per (kind, request class) and case; the key identifies the concrete input
        let cls = format!("{kind}/{}", req.map_or("-".into(), |r| r.line()));
        if !self.reported.insert(cls) { return; }
        ctx.stat(&format!("oracle_{kind}"));
        let uses_foreign = matches!(req, Some(Req::Stream { s, .. }) | Some(Req::SVer { s }) if *s >= 100);
        let mut key = format!("C07:{kind} rf={} wm={} log={} req={}", self.rf, self.wm, self.hist.show().replace(' ', ","), req.map_or("-".into(), |r| r.line().trim_start_matches("c07 ").replace(' ', "_")));
        let mut rp = vec![];
        if let (true, Some(f)) = (uses_foreign, &self.foreign) { key.push_str(&format!(" foreign={}", f.hist.replace(' ', ","))); rp.push(f.header.clone()); }
        rp.push(self.header.clone()); if let Some(r) = req { rp.push(r.line()); }
        ctx.oracle_fail(&key, &what, &rp);
    }
}

impl Case {
    fn stream_id(&self, w: &World, s: u64) -> StreamId {
        match (&self.foreign, s >= 100) { (Some(f), true) => w.stream(f.case, s - 100), _ => w.stream(self.case, s) }
    }
    fn admissible(&self) -> &[MEv] { &self.log[..(self.wm as usize).min(self.log.len())] }
    /// oracles (a) and (b) on one returned record
    fn check_event(&mut self, ctx: &mut Ctx, req: &Req, e: &EventRecord) {
        let q = quorum(self.rf);
        let defwm = self.log.iter().take_while(|e| e.count >= q).count() as u64;
        if e.partition_id != self.pid {
            self.fail(ctx, "foreign-partition", Some(req), format!("a read of partition {} returned event seq {} of partition {} (gated by the wrong partition's watermark {})", self.pid, e.partition_sequence, e.partition_id, self.wm));
            return;
        }
        if e.partition_sequence >= self.wm || e.partition_sequence >= defwm {
            self.fail(ctx, "beyond-watermark", Some(req), format!("returned the event with partition sequence {} although the watermark is {} (quorum-confirmed prefix {defwm})", e.partition_sequence, self.wm));
        }
        let stored = self.log.get(e.partition_sequence as usize).map(|m| m.count);
        if e.confirmation_count < q || stored.map_or(true, |c| c < q) {
            self.fail(ctx, "unquorate", Some(req), format!("returned event seq {} whose transaction has confirmation count {} < quorum {q}", e.partition_sequence, e.confirmation_count));
        }
        if self.ids.get(e.partition_sequence as usize) != Some(&e.event_id) {
            self.fail(ctx, "wrong-event", Some(req), format!("returned event seq {} is not the event appended at that sequence", e.partition_sequence));
        }
    }

    /// send one request to the real actor, emit the canonical reply, evaluate the property on it
    pub async fn run(&mut self, ctx: &mut Ctx, w: &World, req: &Req) {
        if self.broken { return; }
        let line = req.line();
        let res: String = match req {
            Req::Ev { id, nf } => {
                let eid = match id { Some(s) if (*s as usize) < self.ids.len() => self.ids[*s as usize], _ => uuid_v7_with_partition_hash(self.pid) };
                let msg = ReadEvent { event_id: eid, metadata: ReadRequestMetadata { tried_peers: HashSet::new(), partition_hash: self.pid, not_found_count: *nf } };
                match w.cluster.ask(msg).await {
                    Ok(Some(e)) => {
                        ctx.stat("ev_found");
                        self.check_event(ctx, req, &e);
                        if e.event_id != eid { self.fail(ctx, "wrong-event", Some(req), "another event than the requested one".into()); }
                        format!("some {}", e.partition_sequence)
                    }
                    Ok(None) => {
                        // (c)-analogue for lookups: an admissible event must be found
                        let adm = id.map_or(false, |s| s < self.wm && (s as usize) < self.log.len());
                        ctx.stat(if id.is_none() { "ev_unknown_id" } else if adm { "ev_none_admissible" } else { "ev_none_gated" });
                        if adm { self.fail(ctx, "withheld", Some(req), format!("event seq {} is below the watermark {} but the lookup answered not-found", id.unwrap(), self.wm)); }
                        "none".into()
                    }
                    Err(_) => { ctx.stat("ev_trap"); self.fail(ctx, "trap", Some(req), "the ReadEvent handler panicked (no reply)".into()); "trap".into() }
                }
            }
            Req::Part { start, end, count } => {
                match w.cluster.ask(ReadPartition { partition_id: self.pid, start_sequence: *start, end_sequence: *end, count: *count }).await {
                    Ok(r) => {
                        for e in &r.events { self.check_event(ctx, req, e); }
                        let want: Vec<u64> = self.admissible().iter().map(|e| e.seq).filter(|s| *s >= *start && end.map_or(true, |e| *s <= e)).collect();
                        let got: Vec<u64> = r.events.iter().map(|e| e.partition_sequence).collect();
                        let k = (*count).min(want.len() as u64) as usize;
                        let leaked = r.events.iter().any(|e| e.partition_sequence >= self.wm || e.partition_id != self.pid);
                        if leaked {} else if got.len() > want.len() || got[..] != want[..got.len().min(want.len())] || got.len() as u64 > *count {
                            self.fail(ctx, "range", Some(req), format!("returned sequences {got:?}; the admissible events of the range are {want:?}, count {count}"));
                        } else if got.len() < want.len() && !r.has_more {
                            self.fail(ctx, "has-more", Some(req), format!("has_more=false but the admissible events {:?} of the range were withheld", &want[got.len()..]));
                        } else if got.len() < k {
                            self.fail(ctx, "withheld", Some(req), format!("returned {got:?} (has_more={}) although {:?} are admissible, in range and within count {count}", r.has_more, &want[..k]));
                        }
                        ctx.stat(&format!("part_{}_{}", if got.is_empty() { "empty" } else if got.len() == want.len() { "all" } else { "cut" }, if r.has_more { "more" } else { "nomore" }));
                        if got.len() > BATCH { ctx.stat("part_multi_batch"); }
                        format!("[{}] more={}", show_seqs(&r.events), r.has_more)
                    }
                    Err(_) => { ctx.stat("part_trap"); self.fail(ctx, "trap", Some(req), "the ReadPartition handler panicked (no reply)".into()); "trap".into() }
                }
            }
            Req::Stream { s, start, end, count } => {
                match w.cluster.ask(ReadStream { partition_id: self.pid, stream_id: self.stream_id(w, *s), start_version: *start, end_version: *end, count: *count }).await {
                    Ok(r) => {
                        for e in &r.events { self.check_event(ctx, req, e); }
                        let want: Vec<(u64, u64)> = self.admissible().iter().filter(|e| e.stream == *s && e.version >= *start && end.map_or(true, |x| e.version <= x)).map(|e| (e.seq, e.version)).collect();
                        let got: Vec<(u64, u64)> = r.events.iter().map(|e| (e.partition_sequence, e.stream_version)).collect();
                        let k = (*count).min(want.len() as u64) as usize;
                        let leaked = r.events.iter().any(|e| e.partition_sequence >= self.wm || e.partition_id != self.pid);
                        if leaked {} else if got.len() > want.len() || got[..] != want[..got.len().min(want.len())] || got.len() as u64 > *count {
                            self.fail(ctx, "range", Some(req), format!("returned (seq,version) {got:?}; the admissible events of the range are {want:?}, count {count}"));
                        } else if got.len() < want.len() && !r.has_more {
                            self.fail(ctx, "has-more", Some(req), format!("has_more=false but the admissible events {:?} of the range were withheld", &want[got.len()..]));
                        } else if got.len() < k {
                            self.fail(ctx, "withheld", Some(req), format!("returned {got:?} (has_more={}) although {:?} are admissible, in range and within count {count}", r.has_more, &want[..k]));
                        }
                        ctx.stat(&format!("stream_{}_{}", if got.is_empty() { "empty" } else if got.len() == want.len() { "all" } else { "cut" }, if r.has_more { "more" } else { "nomore" }));
                        if got.len() > BATCH { ctx.stat("stream_multi_batch"); }
                        format!("[{}] more={}", show_sv(&r.events), r.has_more)
                    }
                    Err(_) => { ctx.stat("stream_trap"); self.fail(ctx, "trap", Some(req), "the ReadStream handler panicked (no reply)".into()); "trap".into() }
                }
            }
            Req::SVer { s } => {
                match w.cluster.ask(GetStreamVersion { partition_id: self.pid, stream_id: self.stream_id(w, *s) }).await {
                    Ok(v) => {
                        // (d): the version of the latest admissible event of the stream
                        let want = self.admissible().iter().filter(|e| e.stream == *s).map(|e| e.version).max();
                        let hidden = self.log.iter().filter(|e| e.stream == *s).count() > self.admissible().iter().filter(|e| e.stream == *s).count();
                        ctx.stat(&format!("sver_{}_{}", if v.is_some() { "some" } else { "none" }, if hidden { "with_hidden_tail" } else { "no_hidden_tail" }));
                        if v != want { self.fail(ctx, "stream-version", Some(req), format!("answered {v:?}; the latest admissible event of the stream has version {want:?}")); }
                        format!("{}", v.map_or("none".into(), |x| format!("some {x}")))
                    }
                    Err(_) => { ctx.stat("sver_trap"); self.fail(ctx, "trap", Some(req), "the GetStreamVersion handler panicked (no reply)".into()); "trap".into() }
                }
            }
            Req::PSeq => {
                match w.cluster.ask(GetPartitionSequence { partition_id: self.pid }).await {
                    Ok(v) => {
                        let want = self.admissible().last().map(|e| e.seq);
                        if v != want { self.fail(ctx, "partition-sequence", Some(req), format!("answered {v:?}; the latest admissible event has sequence {want:?}")); }
                        format!("{}", v.map_or("none".into(), |x| format!("some {x}")))
                    }
                    Err(_) => { self.fail(ctx, "trap", Some(req), "the GetPartitionSequence handler panicked (no reply)".into()); "trap".into() }
                }
            }
            Req::ScanP { .. } | Req::ScanS { .. } | Req::ScanR { .. } => {
                // the scan the handlers are built on, straight from the real Database
                use sierradb::IterDirection::{Forward, Reverse};
                let mut groups: Vec<String> = vec![]; let mut ok = true;
                macro_rules! drain { ($it:expr) => { match $it { Ok(mut it) => loop { match it.next_batch(BATCH).await {
                    Ok(Some(b)) => for c in b { groups.push(format!("[{}]", c.into_iter().map(|e| e.partition_sequence.to_string()).collect::<Vec<_>>().join(","))); },
                    Ok(None) => break, Err(_) => { ok = false; break; } } }, Err(_) => ok = false } } }
                match req {
                    Req::ScanP { start } => drain!(w.db().read_partition(self.pid, *start, Forward).await),
                    Req::ScanS { s, start } => drain!(w.db().read_stream(self.pid, w.stream(self.case, *s), *start, Forward).await),
                    Req::ScanR { s } => drain!(w.db().read_stream(self.pid, w.stream(self.case, *s), u64::MAX, Reverse).await),
                    _ => {}
                }
                ctx.stat("store_scans");
                if groups.iter().any(|g| g.contains(',')) { ctx.stat("store_scans_with_multi_event_groups"); }
                if ok { groups.join("") } else { "err".into() }
            }
        };
        ctx.emit(&line, &res);
    }
}
const BATCH: usize = 50;

// ------------------------------------------------------------------ generators
fn gen_count(rng: &mut Rng, rf: u8, quorate: bool) -> u8 {
    let q = quorum(rf);
    if quorate { *rng.pick(&[q, q, q, (q + 1).min(12), rf.max(q).min(12), 12]) } else { *rng.pick(&[0, 0, q - 1, q - 1, q / 2]) }
}

/// a history: a (mostly) confirmed head, then transactions of every class around the watermark
pub fn gen_hist(rng: &mut Rng, rf: u8, long: bool) -> Hist {
    let q = quorum(rf);
    let ntx = if long { rng.range(45, 130) } else { rng.range(1, 8) } as usize;
    let nstreams = rng.range(1, 3);
    let npre = match rng.below(4) { 0 => 0, 1 => ntx, _ => rng.below(ntx as u64 + 1) as usize };
    // the index where the confirmed head ends (the tail is a mix)
    let head = if long { ntx - rng.below(ntx as u64 / 4 + 1) as usize } else { match rng.below(10) { 0 => 0, 1 | 2 => ntx, _ => (rng.below(ntx as u64 + 1)).max(rng.below(ntx as u64 + 1)) as usize } };
    let mut txs = vec![];
    for i in 0..ntx {
        let n = if rng.chance(3, 5) { 1 } else { rng.range(2, 4) };
        let streams: Vec<u64> = (0..n).map(|_| rng.below(nstreams)).collect();
        let good = if i < head { !rng.chance(1, 40) } else if i == head { false } else { rng.chance(1, 2) };
        let (c0, c1) = if i < npre {
            // pre-filled: the count is on disk when the cluster initialises
            match (good, rng.below(4)) {
                (true, 0) => { let c = gen_count(rng, rf, false); (c, Some(gen_count(rng, rf, true))) }       // confirmed later
                (true, _) => { let c = gen_count(rng, rf, true); (c, if rng.chance(1, 4) { Some(c.max(gen_count(rng, rf, true))) } else { None }) }
                (false, 0) => { let c = gen_count(rng, rf, false); (c, Some(c.max(rng.below(q as u64) as u8))) } // re-confirmed below quorum
                (false, _) => (gen_count(rng, rf, false), None),
            }
        } else {
            match (good, rng.below(4)) {
                (true, 0) => { let c = gen_count(rng, rf, true); (c, Some(c.max(gen_count(rng, rf, true)))) }
                (true, _) => { let c = gen_count(rng, rf, false); (c, Some(gen_count(rng, rf, true))) }       // the normal write path
                (false, 0) | (false, 3) => (gen_count(rng, rf, true), None),                                  // quorate on disk, never reported
                (false, 1) => { let c = gen_count(rng, rf, false); (c, Some(c.max(rng.below(q as u64) as u8))) }
                (false, _) => (gen_count(rng, rf, false), None),
            }
        };
        txs.push(TxSpec { streams, c0, c1 });
    }
    Hist { txs, npre }
}

fn points(rng: &mut Rng, n: u64, wm: u64, extra: &[u64]) -> Vec<u64> {
    let mut p = vec![0, 0, 1, wm.saturating_sub(1), wm, wm + 1, n.saturating_sub(1), n, u64::MAX, n / 2, wm / 2];
    if rng.chance(1, 3) { p.push(n + 1); p.push(u64::MAX - 1); }
    p.extend_from_slice(extra);
    for _ in 0..3 { p.push(rng.below(n + 2)); }
    p.sort(); p
}

pub fn gen_reqs(rng: &mut Rng, c: &Case, thorough: bool) -> Vec<Req> {
    let n = c.log.len() as u64; let wm = c.wm; let q = quorum(c.rf);
    let mut reqs = vec![Req::PSeq, Req::ScanP { start: 0 }, Req::ScanP { start: rng.below(n + 2) }, Req::ScanP { start: wm }];
    let nstreams = c.log.iter().map(|e| e.stream).max().unwrap_or(0) + 1;
    for s in 0..=nstreams { reqs.push(Req::SVer { s }); reqs.push(Req::ScanR { s }); reqs.push(Req::ScanS { s, start: 0 }); reqs.push(Req::ScanS { s, start: rng.below(4) }); }
    // event lookups: every event of a short log, the boundary events of a long one
    let ids: Vec<u64> = if n <= 20 { (0..n).collect() } else { points(rng, n, wm, &[]).into_iter().filter(|x| *x < n).collect() };
    for id in ids { reqs.push(Req::Ev { id: Some(id), nf: *rng.pick(&[0, 0, 0, 1, q - 1, q, 254]) }); }
    reqs.push(Req::Ev { id: None, nf: 0 });
    reqs.push(Req::Ev { id: None, nf: 255 });
    if n > 0 { reqs.push(Req::Ev { id: Some(rng.below(n)), nf: 255 }); reqs.push(Req::Ev { id: Some(wm.min(n - 1)), nf: 255 }); }
    // partition scans
    let counts = [0u64, 1, 2, 3, 49, 50, 51, 100, u64::MAX];
    let pts = points(rng, n, wm, if n > 40 { &[49, 50, 51, 99, 100, 101] } else { &[] });
    let budget = if thorough { 90 } else { 36 };
    for _ in 0..budget {
        let start = if rng.chance(1, 2) { rng.below(wm + 1) } else { *rng.pick(&pts) };
        let end = match rng.below(8) { 0 | 1 => None, 2 => Some(start), 3 => Some(start.saturating_sub(1)), 4 => Some(start.saturating_add(*rng.pick(&[1, 2, 49, 50, 51]))), _ => Some(*rng.pick(&pts)) };
        reqs.push(Req::Part { start, end, count: *rng.pick(&counts) });
    }
    // the F18 shapes, always: the whole partition, from the watermark, up to the watermark
    for (start, end) in [(0, None), (wm, None), (wm.saturating_sub(1), None), (0, Some(wm)), (0, Some(wm.saturating_sub(1))), (wm, Some(wm)), (0, Some(n / 2)), (n / 2, Some(n / 2))] {
        reqs.push(Req::Part { start, end, count: 1000 });
    }
    // stream scans
    for s in 0..=nstreams {
        let vs: Vec<&MEv> = c.log.iter().filter(|e| e.stream == s).collect();
        let nv = vs.len() as u64; let adm = vs.iter().filter(|e| e.seq < wm).count() as u64;
        let pts = points(rng, nv, adm, if nv > 40 { &[49, 50, 51] } else { &[] });
        reqs.push(Req::Stream { s, start: 0, end: None, count: 1000 });
        reqs.push(Req::Stream { s, start: adm, end: None, count: 1000 });
        reqs.push(Req::Stream { s, start: 0, end: Some(adm), count: 1000 });
        reqs.push(Req::Stream { s, start: adm.saturating_sub(1), end: Some(adm.saturating_sub(1)), count: 1 });
        let budget = if thorough { 30 } else { 12 };
        for _ in 0..budget {
            let start = if rng.chance(1, 2) { rng.below(adm + 1) } else { *rng.pick(&pts) };
            let end = match rng.below(8) { 0 | 1 => None, 2 => Some(start), 3 => Some(start.saturating_sub(1)), 4 => Some(start.saturating_add(*rng.pick(&[1, 2, 49, 50]))), _ => Some(*rng.pick(&pts)) };
            reqs.push(Req::Stream { s, start, end, count: *rng.pick(&counts) });
        }
    }
    // the wrong partition for a stream: streams of another partition of the same bucket
    if let Some(f) = &c.foreign {
        for s in 100..100 + f.nstreams.min(2) {
            reqs.push(Req::SVer { s });
            reqs.push(Req::Stream { s, start: 0, end: None, count: 1000 });
            reqs.push(Req::Stream { s, start: rng.below(3), end: if rng.chance(1, 2) { None } else { Some(rng.below(6)) }, count: *rng.pick(&counts) });
        }
    }
    reqs
}

// ------------------------------------------------------------------ running
async fn run_group(ctx: &mut Ctx, w: &mut World, hists: Vec<Hist>, reqs: Option<Vec<Vec<Req>>>) {
    w.fresh_db().await;
    let mut cases = vec![];
    for h in hists { if let Some(c) = Case::prefill(w, h).await { cases.push(c); } }
    w.reset().await;
    let mut last_in_bucket: HashMap<u16, Foreign> = HashMap::new();
    for (i, c) in cases.iter_mut().enumerate() {
        c.foreign = last_in_bucket.get(&(c.pid % BUCKETS)).cloned();
        c.complete(ctx, w).await;
        if !c.broken {
            let ns = c.log.iter().map(|e| e.stream + 1).max().unwrap_or(0);
            if ns > 0 { last_in_bucket.insert(c.pid % BUCKETS, Foreign { case: c.case, header: c.header.clone(), hist: c.hist.show(), nstreams: ns }); }
        }
        if c.foreign.is_some() { ctx.stat("cases_with_foreign_stream_requests"); }
        if c.broken { ctx.stat("cases_broken"); continue; }
        let th = ctx.thorough();
        let rs = match &reqs { Some(r) => r[i].clone(), None => gen_reqs(&mut ctx.rng, c, th) };
        for r in &rs { c.run(ctx, w, r).await; }
        ctx.stat("cases"); ctx.stat_add("events", c.log.len() as u64);
        if c.log.len() > BATCH { ctx.stat("cases_longer_than_a_batch"); }
        if c.hist.txs.iter().any(|t| t.streams.len() > 1) { ctx.stat("cases_with_multi_event_tx"); }
        ctx.nontrivial(&format!("{} {}", c.rf, c.hist.show()));
    }
}

/// hand-written histories (stream numbers, c0, c1) relative to the quorum q of the rf
fn scripted(rf: u8) -> Vec<Hist> {
    let q = quorum(rf); let lo = q - 1;
    let t = |s: &[u64], c0: u8, c1: Option<u8>| TxSpec { streams: s.to_vec(), c0, c1 };
    vec![
        // F18: confirmed head, then an unconfirmed single event exactly at the watermark
        Hist { npre: 3, txs: vec![t(&[0], q, None), t(&[0], q, None), t(&[0], lo, None)] },
        // F18 with multi-event commits: the watermark ends at a transaction boundary
        Hist { npre: 0, txs: vec![t(&[0, 0], lo, Some(q)), t(&[0, 1, 0], lo, Some(q)), t(&[0, 0], lo, None), t(&[1], lo, None)] },
        // quorate on disk but beyond the watermark (never reported)
        Hist { npre: 1, txs: vec![t(&[0], q, None), t(&[0], q, None), t(&[0, 0], q, None)] },
        // hole in the middle: later confirmed transactions stay hidden
        Hist { npre: 2, txs: vec![t(&[0], q, None), t(&[1], lo, None), t(&[0], lo, Some(q)), t(&[1, 1], q, Some(12))] },
        // latest transaction has several events of one stream (stream version = its LAST event)
        Hist { npre: 0, txs: vec![t(&[0], lo, Some(q)), t(&[0, 0, 0], lo, Some(q))] },
        Hist { npre: 2, txs: vec![t(&[0, 1], q, None), t(&[1, 0, 1, 0], q, None), t(&[0, 0], lo, None)] },
        // nothing confirmed / empty partition
        Hist { npre: 1, txs: vec![t(&[0, 0], lo, None), t(&[0], q, None)] },
        Hist { npre: 0, txs: vec![] },
        // ten confirmed single events (end_sequence inside the confirmed prefix)
        Hist { npre: 5, txs: (0..10).map(|i| t(&[i % 2], if i < 5 { q } else { lo }, if i < 5 { None } else { Some(q) })).collect() },
    ]
}

fn child(ctx: &mut Ctx, rf: u8) {
    let rt = tokio::runtime::Builder::new_multi_thread().worker_threads(2).enable_all().build().unwrap();
    // every child draws its own cases
    ctx.rng = Rng(ctx.seed ^ 0x5EED_0000_0000_0000 ^ (rf as u64).wrapping_mul(0x9E37_79B9_7F4A_7C15));
    rt.block_on(async {
        let mut w = World::new(rf).await;
        if let Some(lines) = ctx.replay.clone() {
            // replay: every `c07 log` line is a case (own database), followed by its requests
            let mut cur: Option<(Hist, Vec<Req>)> = None; let mut all = vec![];
            for l in &lines {
                let t: Vec<&str> = l.split_whitespace().collect();
                if t.len() >= 5 && t[1] == "log" {
                    if let Some(c) = cur.take() { all.push(c); }
                    if t[2].parse::<u8>().ok() != Some(rf) { continue; }
                    if let Some(h) = Hist::parse(&t[4..]) { cur = Some((h, vec![])); }
                } else if let (Some(r), Some(c)) = (Req::parse(&t), cur.as_mut()) { c.1.push(r); }
            }
            if let Some(c) = cur.take() { all.push(c); }
            w.stride = BUCKETS; // consecutive replayed cases share a bucket: an earlier one is the `foreign` of the next
            for ch in all.chunks((PARTS / BUCKETS) as usize) {
                run_group(ctx, &mut w, ch.iter().map(|x| x.0.clone()).collect(), Some(ch.iter().map(|x| x.1.clone()).collect())).await;
            }
        } else {
            run_group(ctx, &mut w, scripted(rf), None).await;
            let groups = if ctx.thorough() { 14 } else { 3 };
            for g in 0..groups {
                let th = ctx.thorough();
                let hs: Vec<Hist> = (0..PARTS as usize).map(|i| gen_hist(&mut ctx.rng, rf, i == 0 && g % 2 == 0 || (th && i == 1))).collect();
                run_group(ctx, &mut w, hs, None).await;
            }
        }
        w.shutdown().await;
    });
}

/// run one child process per replication factor (one real ClusterActor each), merge transcripts
fn parent(ctx: &mut Ctx, out: &str, rfs: &[u8], replay: Option<&str>) {
    let exe = std::env::current_exe().expect("current_exe");
    let par = 4;
    for chunk in rfs.chunks(par) {
        let mut kids = vec![];
        for rf in chunk {
            let dir = format!("{out}/rf{rf}");
            let mut cmd = std::process::Command::new(&exe);
            cmd.arg("c07").arg("--out").arg(&dir).arg("--tier").arg(&ctx.tier).arg("--seed").arg(ctx.seed.to_string()).env("C07_RF", rf.to_string());
            if let Some(r) = replay { cmd.arg("--replay").arg(r); }
            kids.push((*rf, dir, cmd.spawn().expect("spawn child harness")));
        }
        for (rf, dir, mut k) in kids {
            let ok = k.wait().map(|s| s.success()).unwrap_or(false);
            if !ok { ctx.stat("children_failed"); ctx.oracle_fail(&format!("C07:harness-child rf={rf}"), "the harness child process failed", &[]); continue; }
            let rd = |n: &str| std::fs::read_to_string(format!("{dir}/{n}")).unwrap_or_default();
            let (ops, imp) = (rd("ops.txt"), rd("impl.txt"));
            for (o, i) in ops.lines().zip(imp.lines()) { if o.starts_with("c07 log ") { ctx.nontrivial(o); } ctx.emit(o, i); }
            for l in rd("oracle.txt").lines() {
                let p: Vec<&str> = l.split('\t').collect();
                if p.len() < 3 { continue; }
                let rp: Vec<String> = p[2].split("\\n").filter(|x| !x.starts_with("@seed")).map(|x| x.to_string()).collect();
                ctx.oracle_fail(p[0], p[1], &rp);
            }
            let st = rd("stats.json");
            if let Some(i) = st.find("\"stats\": {") {
                let body = &st[i + 10..]; let body = &body[..body.find('}').unwrap_or(0)];
                for kv in body.split(", ") { if let Some((k, v)) = kv.rsplit_once(": ") { if let Ok(v) = v.trim().parse::<u64>() { ctx.stat_add(k.trim().trim_matches('"'), v); ctx.stat_add(&format!("rf{rf}_total"), 0); } } }
            }
            ctx.stat("children");
        }
    }
}

fn arg(name: &str) -> Option<String> { let a: Vec<String> = std::env::args().collect(); a.iter().position(|x| x == name).and_then(|i| a.get(i + 1).cloned()) }

pub fn run(ctx: &mut Ctx) {
    let out = arg("--out").unwrap_or_else(|| "/tmp/ws-c07/verif/work/tmp".into()); let out = out.as_str();
    let replay_path = arg("--replay"); let replay_path = replay_path.as_deref();
    if let Ok(rf) = std::env::var("C07_RF") { child(ctx, rf.parse().expect("C07_RF")); return; }
    if let Some(lines) = ctx.replay.clone() {
        // the replication factors named by the replay's `c07 log` lines, one child each
        let mut rfs: Vec<u8> = lines.iter().filter_map(|l| { let t: Vec<&str> = l.split_whitespace().collect(); if t.len() >= 3 && t[1] == "log" { t[2].parse().ok() } else { None } }).collect();
        rfs.sort(); rfs.dedup();
        parent(ctx, out, &rfs, replay_path);
        return;
    }
    let rfs: Vec<u8> = (1..=12).collect();
    parent(ctx, out, &rfs, None);
}
