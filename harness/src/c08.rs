//! C08: the confirmed watermark is sound, monotone and survives restarts.
//!
//! Part A drives the real `PartitionConfirmationState::update_confirmation` directly: every
//! delivery order of report sets of <= 6 reports (multi-event transactions, duplicates, stale
//! lower counts, overlapping ranges), PRNG longer sequences, rf in 1..12, the u64/u8 boundaries.
//! Part B drives the real `BucketConfirmationManager` against a real `sierradb::Database`:
//! reports, persists, every crash point of `persist_bucket_state` (the `verif` hook stops the real
//! function after its k-th file operation), re-initialisation from the crashed directory and the
//! on-disk confirmation counts.
//! Oracles (on the implementation's own values, independent of the Lean model):
//!   (a) the watermark never decreases, (b) it never exceeds the longest prefix of versions whose
//!   maximum reported count is a quorum, (c) after the last report it equals that prefix and is the
//!   same for every delivery order, (d) after crash + restart it is >= the value before (when every
//!   reported count is on disk), and no call panics.
use crate::util::*;
use sierradb::database::{Database, DatabaseBuilder, NewEvent, Transaction};
use sierradb::id::{uuid_to_partition_hash, uuid_v7_with_partition_hash};
use sierradb::StreamId;
use sierradb_cluster::confirmation::verif::{PERSIST_CRASH_AFTER, PERSIST_OPS_DONE};
use sierradb_cluster::confirmation::{AtomicWatermark, BucketConfirmationManager, PartitionConfirmationState};
use sierradb_protocol::ExpectedVersion;
use std::collections::{BTreeMap, HashMap, HashSet};
use std::panic::AssertUnwindSafe;
use std::path::{Path, PathBuf};
use std::sync::atomic::Ordering;
use std::sync::Arc;

type Rep = (u64, u64, u8); // first version, event count, confirmation count

fn quorum(rf: u8) -> u8 { rf / 2 + 1 } // a majority of rf replicas

fn show_reps(reps: &[Rep]) -> String { reps.iter().map(|r| format!("{}:{}:{}", r.0, r.1, r.2)).collect::<Vec<_>>().join(" ") }
fn show_nats<T: ToString>(v: &[T]) -> String { if v.is_empty() { "-".into() } else { v.iter().map(|x| x.to_string()).collect::<Vec<_>>().join(",") } }

/// specification side: longest run w0+1, w0+2, ... of versions whose maximum reported count is a quorum
fn prefix_from(w0: u64, maxc: &BTreeMap<u64, u8>, q: u8) -> u64 {
    let mut p = w0;
    while p < u64::MAX { match maxc.get(&(p + 1)) { Some(c) if *c >= q => p += 1, _ => break } }
    p
}
fn note_report(maxc: &mut BTreeMap<u64, u8>, r: Rep) {
    for i in 0..r.1 { let e = maxc.entry(r.0 + i).or_insert(0); if r.2 > *e { *e = r.2; } }
}

fn show_p(s: &PartitionConfirmationState) -> String {
    let unc: Vec<String> = s.unconfirmed_events.iter().map(|(v, i)| format!("{}:{}:{}", v, i.confirmation_count, i.attempts)).collect();
    format!("wm={} hi={} unc={}", s.confirmed_watermark.get(), s.highest_version, if unc.is_empty() { "-".into() } else { unc.join(",") })
}

/// one report on the real state: per-version `watermark_advanced`, None = panicked
fn apply(s: &mut PartitionConfirmationState, rf: u8, r: Rep) -> Option<Vec<bool>> {
    let mut adv = vec![];
    for i in 0..r.1 {
        let v = r.0 + i;
        adv.push(catch(AssertUnwindSafe(|| s.update_confirmation(v, r.2, rf)))?);
    }
    Some(adv)
}
fn show_adv(a: &[bool]) -> String { if a.is_empty() { "-".into() } else { a.iter().map(|b| if *b { "1" } else { "0" }).collect::<Vec<_>>().join(",") } }

/// `wm run`: a whole delivery order on a fresh state, one line.  Returns the final watermark.
fn run_case(ctx: &mut Ctx, rf: u8, reps: &[Rep]) -> Option<u64> {
    let op = format!("wm run {rf} {}", show_reps(reps));
    let ident = format!("rf={rf} reports={}", show_reps(reps).replace(' ', ","));
    let q = quorum(rf);
    let mut s = PartitionConfirmationState::new(7);
    let mut maxc = BTreeMap::new();
    let mut wms = vec![];
    let mut prev = 0u64;
    for r in reps {
        if apply(&mut s, rf, *r).is_none() {
            ctx.oracle_fail(&format!("C08:panic {ident}"), "update_confirmation panicked", &[op.clone()]);
            ctx.emit(&op, "trap");
            return None;
        }
        note_report(&mut maxc, *r);
        let w = s.confirmed_watermark.get();
        if w < prev { ctx.oracle_fail(&format!("C08:monotone {ident}"), &format!("watermark decreased {prev} -> {w}"), &[op.clone()]); }
        let p = prefix_from(0, &maxc, q);
        if w > p { ctx.oracle_fail(&format!("C08:sound {ident}"), &format!("watermark {w} exceeds the quorum-confirmed prefix {p} reported so far"), &[op.clone()]); }
        prev = w; wms.push(w);
    }
    let p = prefix_from(0, &maxc, q);
    if prev != p { ctx.oracle_fail(&format!("C08:complete {ident}"), &format!("all reports delivered: watermark {prev} != quorum-confirmed prefix {p}"), &[op.clone()]); }
    ctx.emit(&op, &format!("wms={} {}", show_nats(&wms), show_p(&s)));
    Some(prev)
}

/// next lexicographic permutation (distinct permutations of a multiset)
fn next_perm<T: Ord>(v: &mut [T]) -> bool {
    if v.len() < 2 { return false; }
    let mut i = v.len() - 1;
    while i > 0 && v[i - 1] >= v[i] { i -= 1; }
    if i == 0 { return false; }
    let mut j = v.len() - 1;
    while v[j] <= v[i - 1] { j -= 1; }
    v.swap(i - 1, j); v[i..].reverse(); true
}

/// every distinct delivery order of a report multiset
fn all_orders(ctx: &mut Ctx, rf: u8, base: &[Rep]) {
    let mut v = base.to_vec(); v.sort();
    ctx.nontrivial(&format!("set {rf} {}", show_reps(&v)));
    ctx.stat(&format!("perm_sets_of_{}_reports", v.len()));
    if v.iter().any(|r| r.1 > 1) { ctx.stat("perm_sets_with_multi_event_tx"); }
    let q = quorum(rf);
    if v.iter().any(|r| v.iter().any(|o| o.0 == r.0 && o.1 == r.1 && o.2 < r.2 && r.2 >= q)) { ctx.stat("perm_sets_with_stale_lower_count"); }
    { let mut d = v.clone(); d.dedup(); if d.len() < v.len() { ctx.stat("perm_sets_with_duplicates"); } }
    let mut first: Option<(u64, String)> = None;
    loop {
        ctx.stat("delivery_orders");
        if let Some(w) = run_case(ctx, rf, &v) {
            match &first {
                None => first = Some((w, show_reps(&v))),
                Some((w0, o0)) => if *w0 != w {
                    ctx.oracle_fail(&format!("C08:order rf={rf} reports={}", show_reps(&v).replace(' ', ",")),
                        &format!("final watermark {w} differs from {w0} reached by the order [{o0}] of the same reports"),
                        &[format!("wm run {rf} {o0}"), format!("wm run {rf} {}", show_reps(&v))]);
                }
            }
        }
        if !next_perm(&mut v) { break; }
    }
}

/// a report multiset of `total` reports over contiguous multi-event transactions
fn gen_set(rng: &mut Rng, rf: u8, total: usize) -> Vec<Rep> {
    let q = quorum(rf);
    let ntx = rng.range(1, total.min(4) as u64) as usize;
    let mut txs: Vec<(u64, u64)> = vec![]; let mut next = 1u64;
    for _ in 0..ntx {
        if rng.chance(1, 8) { next += 1; } // a hole nobody reports
        let n = if rng.chance(1, 2) { 1 } else { rng.range(2, 3) };
        txs.push((next, n)); next += n;
    }
    let mut reps: Vec<Rep> = vec![];
    for &(f, n) in &txs {
        let c = if rng.chance(4, 5) { q.saturating_add(rng.below(2) as u8) } else { rng.below(q as u64) as u8 };
        reps.push((f, n, c));
    }
    while reps.len() < total {
        let (f, n, c) = reps[rng.below(txs.len() as u64) as usize];
        let k = rng.below(10);
        let r = if k < 5 { (f, n, rng.below(c as u64 + 1) as u8) }          // stale lower (or equal) count
            else if k < 7 { (f, n, c) }                                       // duplicate
            else if k < 8 { (f, n, c.saturating_add(1)) }                     // later, higher count
            else if k < 9 { (f + rng.below(n), 1, rng.below(q as u64 + 2) as u8) } // single version inside a tx
            else { (f.saturating_sub(rng.below(2)).max(1), n + 1, rng.below(q as u64 + 2) as u8) }; // overlapping range
        reps.push(r);
    }
    reps
}

// ------------------------------------------------------------------ stepwise direct runs
struct Direct { s: PartitionConfirmationState, rf: u8, w0: u64, maxc: BTreeMap<u64, u8>, hist: Vec<String>, prev: u64, dead: bool }
impl Direct {
    fn new(ctx: &mut Ctx, rf: u8, at: Option<u64>) -> Direct {
        let mut s = PartitionConfirmationState::new(7);
        let op = match at {
            None => format!("wm new {rf}"),
            Some(w) => { s.highest_version = w; s.confirmed_watermark = Arc::new(AtomicWatermark::new(w)); format!("wm at {rf} {w}") }
        };
        ctx.emit(&op, "ok");
        Direct { s, rf, w0: at.unwrap_or(0), maxc: BTreeMap::new(), hist: vec![op], prev: at.unwrap_or(0), dead: false }
    }
    fn rep(&mut self, ctx: &mut Ctx, r: Rep) {
        if self.dead { return; }
        let op = format!("wm rep {} {} {}", r.0, r.1, r.2);
        self.hist.push(op.clone());
        let ident = format!("rf={} at={} n_ops={} last={}:{}:{}", self.rf, self.w0, self.hist.len(), r.0, r.1, r.2);
        let Some(adv) = apply(&mut self.s, self.rf, r) else {
            ctx.oracle_fail(&format!("C08:panic {ident}"), "update_confirmation panicked", &self.hist);
            ctx.emit(&op, "trap"); self.dead = true; return;
        };
        note_report(&mut self.maxc, r);
        let w = self.s.confirmed_watermark.get();
        if w < self.prev { ctx.oracle_fail(&format!("C08:monotone {ident}"), &format!("watermark decreased {} -> {w}", self.prev), &self.hist); }
        let p = prefix_from(self.w0, &self.maxc, quorum(self.rf));
        if w > p { ctx.oracle_fail(&format!("C08:sound {ident}"), &format!("watermark {w} exceeds the quorum-confirmed prefix {p}"), &self.hist); }
        self.prev = w;
        ctx.emit(&op, &format!("adv={} {}", show_adv(&adv), show_p(&self.s)));
    }
    fn finish(&mut self, ctx: &mut Ctx) {
        if self.dead { return; }
        let p = prefix_from(self.w0, &self.maxc, quorum(self.rf));
        if self.prev != p {
            ctx.oracle_fail(&format!("C08:complete rf={} at={} n_ops={}", self.rf, self.w0, self.hist.len()),
                &format!("all reports delivered: watermark {} != quorum-confirmed prefix {p}", self.prev), &self.hist);
        }
        ctx.nontrivial(&self.hist.join(";"));
    }
}

fn long_random(ctx: &mut Ctx) {
    let rf = ctx.rng.range(1, 12) as u8; let q = quorum(rf);
    let mut d = Direct::new(ctx, rf, None);
    // transactions covering 1..N, a final count each, delivered shuffled with stale repeats
    let ntx = ctx.rng.range(3, 14); let mut txs = vec![]; let mut next = 1u64;
    for _ in 0..ntx { let n = if ctx.rng.chance(1, 2) { 1 } else { ctx.rng.range(2, 4) }; txs.push((next, n)); next += n; }
    let mut pending: Vec<Rep> = vec![];
    for &(f, n) in &txs {
        let fin = if ctx.rng.chance(9, 10) { q + ctx.rng.below(2) as u8 } else { ctx.rng.below(q as u64) as u8 };
        for c in 0..=fin { if c == fin || ctx.rng.chance(1, 3) { pending.push((f, n, c)); } } // rising counts
        if ctx.rng.chance(1, 3) { pending.push((f, n, fin)); }
    }
    // shuffle (Fisher-Yates from ctx.rng): any order, stale lower counts after higher ones included
    for i in (1..pending.len()).rev() { let j = ctx.rng.below(i as u64 + 1) as usize; pending.swap(i, j); }
    ctx.stat_add("long_run_reports", pending.len() as u64);
    for r in pending { d.rep(ctx, r); }
    d.finish(ctx);
    ctx.stat("long_runs");
}

fn boundaries(ctx: &mut Ctx) {
    // u64::MAX: the watermark may reach the last version (checked `next_expected + 1`)
    for rf in [1u8, 3, 12] {
        let q = quorum(rf);
        let mut d = Direct::new(ctx, rf, Some(u64::MAX - 3));
        d.rep(ctx, (u64::MAX, 1, q)); d.rep(ctx, (u64::MAX - 2, 2, q)); d.rep(ctx, (u64::MAX, 1, q)); d.finish(ctx);
        let mut d = Direct::new(ctx, rf, Some(u64::MAX - 1));
        d.rep(ctx, (u64::MAX, 1, q.saturating_sub(1))); d.rep(ctx, (u64::MAX, 1, q)); d.rep(ctx, (u64::MAX, 1, q)); d.finish(ctx);
        let mut d = Direct::new(ctx, rf, Some(u64::MAX));
        d.rep(ctx, (u64::MAX, 1, q)); d.rep(ctx, (0, 1, q)); d.finish(ctx);
        ctx.stat_add("u64_max_boundary_runs", 3);
    }
    // u8 `attempts`: the same sub-quorum report retried more than 255 times, then the quorum
    for rf in [2u8, 3, 5] {
        let q = quorum(rf);
        let mut d = Direct::new(ctx, rf, None);
        for _ in 0..300 { d.rep(ctx, (1, 1, q - 1)); }
        d.rep(ctx, (1, 1, q)); d.finish(ctx);
        ctx.stat("many_duplicates_runs");
    }
    // version 0 does not exist; counts/rf at the u8 maximum
    let mut d = Direct::new(ctx, 255, None);
    d.rep(ctx, (0, 2, 255)); d.rep(ctx, (2, 1, 127)); d.rep(ctx, (2, 1, 128)); d.rep(ctx, (1, 1, 255)); d.finish(ctx);
    let mut d = Direct::new(ctx, 0, None);
    d.rep(ctx, (1, 3, 0)); d.rep(ctx, (1, 3, 1)); d.finish(ctx);
}

fn replay_direct(ctx: &mut Ctx, lines: &[String]) {
    let mut d: Option<Direct> = None;
    for l in lines {
        let t: Vec<&str> = l.split_whitespace().collect();
        match t.as_slice() {
            ["wm", "run", rf, rest @ ..] => {
                let reps: Vec<Rep> = rest.iter().filter_map(|x| { let p: Vec<&str> = x.split(':').collect();
                    if p.len() == 3 { Some((p[0].parse().ok()?, p[1].parse().ok()?, p[2].parse().ok()?)) } else { None } }).collect();
                run_case(ctx, rf.parse().unwrap_or(1), &reps);
            }
            ["wm", "new", rf] => { if let Some(mut o) = d.take() { o.finish(ctx); } d = Some(Direct::new(ctx, rf.parse().unwrap_or(1), None)); }
            ["wm", "at", rf, w] => { if let Some(mut o) = d.take() { o.finish(ctx); } d = Some(Direct::new(ctx, rf.parse().unwrap_or(1), w.parse().ok())); }
            ["wm", "rep", f, n, c] => { if let (Some(o), Ok(f), Ok(n), Ok(c)) = (d.as_mut(), f.parse(), n.parse(), c.parse()) { o.rep(ctx, (f, n, c)); } }
            _ => {}
        }
    }
    if let Some(mut o) = d.take() { o.finish(ctx); }
}

// ------------------------------------------------------------------ manager + database
const BUCKETS: u16 = 4;

struct World {
    rt: tokio::runtime::Runtime,
    _root: tempfile::TempDir,
    root: PathBuf,
    db: Database,        // holds the events (on-disk confirmation counts)
    db_empty: Database,  // used to decode a state file through the real loader
    labels: HashMap<Vec<u8>, String>,
    next_pid: u16,
    flip: bool,
}

fn conf_dir(data_dir: &Path, bucket: u16) -> PathBuf { data_dir.join("buckets").join(format!("{bucket:05}")).join("confirmation") }
const FILES: [&str; 3] = ["bucket_state.current.dat", "bucket_state.previous.dat", "bucket_state.temp.dat"];

impl World {
    fn new() -> World {
        let rt = tokio::runtime::Builder::new_current_thread().enable_all().build().unwrap();
        // crashes are simulated by the hook, not by power loss: a memory-backed directory is enough
        let root_td = if Path::new("/dev/shm").is_dir() { tempfile::tempdir_in("/dev/shm").unwrap() } else { tempfile::tempdir().unwrap() };
        let root = root_td.path().to_path_buf();
        let open = |p: PathBuf| { std::fs::create_dir_all(&p).unwrap();
            DatabaseBuilder::new().segment_size_bytes(64 << 20).total_buckets(BUCKETS).bucket_ids_from_range(0..BUCKETS)
                .reader_threads(2).writer_threads(2).sync_interval(std::time::Duration::from_millis(1)).open(p).expect("open database") };
        let (db, db_empty) = { let _g = rt.enter(); (open(root.join("db")), open(root.join("db_empty"))) };
        World { rt, _root: root_td, root, db, db_empty, labels: HashMap::new(), next_pid: 0, flip: false }
    }

    /// decode a state file with the real loader: a manager over an empty database whose only
    /// assigned partition is another partition of the same bucket
    fn label(&mut self, path: &Path, pid: u16, rf: u8) -> String {
        let Ok(bytes) = std::fs::read(path) else { return "-".into() };
        if let Some(l) = self.labels.get(&bytes) { return l.clone(); }
        let bucket = pid % BUCKETS;
        let td = tempfile::tempdir_in(&self.root).unwrap();
        let cd = conf_dir(td.path(), bucket); std::fs::create_dir_all(&cd).unwrap();
        std::fs::write(cd.join(FILES[0]), &bytes).unwrap();
        let other = if pid >= BUCKETS { pid - BUCKETS } else { pid + BUCKETS };
        let mut m = BucketConfirmationManager::new(td.path().to_path_buf(), BUCKETS, rf, HashSet::from_iter([other]));
        let ok = self.rt.block_on(m.initialize(&self.db_empty)).is_ok();
        let l = match (ok, m.get_watermark(pid)) {
            (true, Some(w)) => { let st = m.get_stuck_events(pid, 0, 0);
                format!("w{}u{}", w.get(), if st.is_empty() { "-".into() } else { st.iter().map(|x| x.to_string()).collect::<Vec<_>>().join(".") }) }
            _ => "?".into(),
        };
        self.labels.insert(bytes, l.clone());
        l
    }
    fn files(&mut self, data_dir: &Path, pid: u16, rf: u8) -> String {
        let cd = conf_dir(data_dir, pid % BUCKETS);
        let l: Vec<String> = FILES.iter().map(|f| self.label(&cd.join(f), pid, rf)).collect();
        format!("cur={} prev={} tmp={}", l[0], l[1], l[2])
    }
    fn show_m(&mut self, m: &BucketConfirmationManager, data_dir: &Path, pid: u16, rf: u8) -> String {
        let w = m.get_watermark(pid).map(|w| w.get()).unwrap_or(0);
        format!("wm={w} gap={} stuck={} {}", m.get_confirmation_gap(pid), show_nats(&m.get_stuck_events(pid, 0, 0)), self.files(data_dir, pid, rf))
    }
    /// append one transaction of `n` events with on-disk confirmation count `c`; returns its first version
    fn append(&mut self, key: uuid::Uuid, pid: u16, n: u64, c: u8) -> u64 {
        let h = uuid_to_partition_hash(key);
        let evs: smallvec::SmallVec<[NewEvent; 4]> = (0..n).map(|_| NewEvent {
            event_id: uuid_v7_with_partition_hash(h), stream_id: StreamId::new(format!("c08-{pid}")).unwrap(),
            stream_version: ExpectedVersion::Any, event_name: "e".into(), timestamp: 1_700_000_000_000, metadata: vec![], payload: vec![1, 2, 3] }).collect();
        // half of the time the count reaches the disk the way the cluster writes it: appended with a
        // lower count, then raised by `set_confirmations` on the EVENT offsets (the commit record of a
        // multi-event transaction keeps its append-time count)
        self.flip = !self.flip;
        let two_step = self.flip && c > 0;
        let tx = Transaction::new(key, pid, evs).expect("transaction").with_confirmation_count(if two_step { 0 } else { c });
        let txid = tx.transaction_id();
        let r = self.rt.block_on(self.db.append_events(tx)).expect("append");
        assert_eq!(r.last_partition_sequence - r.first_partition_sequence + 1, n);
        if two_step { self.rt.block_on(self.db.set_confirmations(pid, r.offsets.clone(), txid, c)).expect("set_confirmations"); }
        r.first_partition_sequence + 1
    }
}

fn snapshot_dir(cd: &Path) -> Vec<Option<Vec<u8>>> { FILES.iter().map(|f| std::fs::read(cd.join(f)).ok()).collect() }
fn restore_dir(cd: &Path, snap: &[Option<Vec<u8>>]) {
    for (f, c) in FILES.iter().zip(snap) { match c { Some(b) => std::fs::write(cd.join(f), b).unwrap(), None => { let _ = std::fs::remove_file(cd.join(f)); } } }
}

struct MCase { pid: u16, rf: u8, dir: PathBuf, hist: Vec<String>, maxc: BTreeMap<u64, u8>, ident: String }

fn m_emit(ctx: &mut Ctx, c: &mut MCase, op: String, res: &str) { c.hist.push(op.clone()); ctx.emit(&op, res); }

/// deliver one report to the live manager (per version, as the confirmation actor does)
fn m_rep(ctx: &mut Ctx, w: &mut World, c: &mut MCase, m: &mut BucketConfirmationManager, r: Rep, prev: &mut u64) -> bool {
    let op = format!("wm mrep {} {} {}", r.0, r.1, r.2);
    let mut adv = vec![];
    for i in 0..r.1 {
        let v = r.0 + i;
        let res = catch(AssertUnwindSafe(|| w.rt.block_on(m.update_confirmation(c.pid, v, r.2))));
        match res {
            Some(Ok(a)) => adv.push(a),
            _ => { c.hist.push(op.clone()); ctx.oracle_fail(&format!("C08:panic {}", c.ident), "manager update_confirmation failed/panicked", &c.hist); ctx.emit(&op, "trap"); return false; }
        }
    }
    note_report(&mut c.maxc, r);
    let wm = m.get_watermark(c.pid).map(|x| x.get()).unwrap_or(0);
    if wm < *prev { ctx.oracle_fail(&format!("C08:monotone {}", c.ident), &format!("watermark decreased {} -> {wm}", *prev), &c.hist); }
    *prev = wm;
    let res = format!("adv={} {}", show_adv(&adv), w.show_m(m, &c.dir, c.pid, c.rf));
    m_emit(ctx, c, op, &res);
    true
}

/// one persistence scenario on a fresh partition and a fresh confirmation directory
fn persist_case(ctx: &mut Ctx, w: &mut World, big: bool) {
    let pid = w.next_pid; w.next_pid += 1;
    let rf = ctx.rng.range(1, 12) as u8; let q = quorum(rf);
    let dir = w.root.join(format!("case{pid}")); std::fs::create_dir_all(&dir).unwrap();
    let mut c = MCase { pid, rf, dir: dir.clone(), hist: vec![], maxc: BTreeMap::new(), ident: format!("seed={} pid={pid} rf={rf}", ctx.seed) };
    let cd = conf_dir(&dir, pid % BUCKETS);
    let hyp_holds = !ctx.rng.chance(1, 7);     // every reported count is on disk with at least that count
    let preexisting = ctx.rng.chance(1, 3);    // events are on disk before the first manager initialises
    // layout: transactions, their on-disk count, the reports that will be delivered
    let ntx = if big { 60 } else { ctx.rng.range(1, 7) };
    let mut txs: Vec<(u64, u8)> = vec![]; // (event count, disk count)
    let mut reports: Vec<(usize, u8)> = vec![]; // (tx index, count)
    for t in 0..ntx as usize {
        let n = if ctx.rng.chance(1, 2) { 1 } else { ctx.rng.range(2, 3) };
        let confirmed = ctx.rng.chance(if t as u64 + 2 >= ntx { 1 } else { 5 }, 6); // the tail is often unconfirmed
        let top = if confirmed { q + ctx.rng.below(2) as u8 } else { ctx.rng.below(q as u64) as u8 };
        let reported = !ctx.rng.chance(1, 6);   // some transactions are on disk but were never reported
        let mut disk = if ctx.rng.chance(1, 4) { top.saturating_add(1) } else { top };
        if !hyp_holds && reported && ctx.rng.chance(1, 2) { disk = ctx.rng.below(top as u64 + 1) as u8; }
        txs.push((n, disk));
        if reported { for cc in 0..=top { if cc == top || ctx.rng.chance(1, 3) { reports.push((t, cc)); } } if ctx.rng.chance(1, 3) { reports.push((t, top)); } }
    }
    for i in (1..reports.len()).rev() { let j = ctx.rng.below(i as u64 + 1) as usize; reports.swap(i, j); }
    let hyp_holds = hyp_holds || !reports.iter().any(|(t, cc)| *cc > txs[*t].1);
    ctx.stat(if hyp_holds { "restart_cases_disk_covers_reports" } else { "restart_cases_disk_below_reports" });
    ctx.stat(if preexisting { "restart_cases_events_before_first_init" } else { "restart_cases_events_after_first_init" });

    let op = format!("wm mdir {rf}"); let res = w.files(&dir, pid, rf); m_emit(ctx, &mut c, op, &res);
    let mut firsts: Vec<u64> = vec![]; let mut disk: Vec<u8> = vec![];
    let key = uuid::Uuid::from_u128(((ctx.rng.next() as u128) << 64) | ctx.rng.next() as u128); // the stream's partition key
    let append_all = |w: &mut World, firsts: &mut Vec<u64>, disk: &mut Vec<u8>| {
        for &(n, d) in &txs { firsts.push(w.append(key, pid, n, d)); for _ in 0..n { disk.push(d); } }
    };
    if preexisting { append_all(w, &mut firsts, &mut disk); }
    // first manager
    let mut m = BucketConfirmationManager::new(dir.clone(), BUCKETS, rf, HashSet::from_iter([pid]));
    let r = catch(AssertUnwindSafe(|| w.rt.block_on(m.initialize(&w.db))));
    if !matches!(r, Some(Ok(()))) { ctx.oracle_fail(&format!("C08:panic {}", c.ident), "initialize failed/panicked", &c.hist); return; }
    let op = format!("wm minit {}", show_nats(&disk)); let res = w.show_m(&m, &dir, pid, rf); m_emit(ctx, &mut c, op, &res);
    m_emit(ctx, &mut c, "wm madopt".into(), "ok");
    // what the rescan reported counts as reports too (they are reports of the on-disk counts)
    for (i, d) in disk.iter().enumerate() { note_report(&mut c.maxc, (i as u64 + 1, 1, *d)); }
    if !preexisting { append_all(w, &mut firsts, &mut disk); }
    let mut prev = m.get_watermark(pid).map(|x| x.get()).unwrap_or(0);
    // deliver a random part of the reports, with explicit persists in between
    let deliver = if reports.is_empty() { 0 } else { ctx.rng.range(reports.len() as u64 / 2, reports.len() as u64) as usize };
    for (t, cc) in reports.iter().take(deliver) {
        if !m_rep(ctx, w, &mut c, &mut m, (firsts[*t], txs[*t].0, *cc), &mut prev) { return; }
        if ctx.rng.chance(1, 5) {
            PERSIST_CRASH_AFTER.store(0, Ordering::SeqCst);
            if w.rt.block_on(m.persist_bucket_state(pid % BUCKETS)).is_err() { ctx.oracle_fail(&format!("C08:panic {}", c.ident), "persist failed", &c.hist); return; }
            let res = w.files(&dir, pid, rf); m_emit(ctx, &mut c, "wm mpersist".into(), &res);
            ctx.stat("explicit_persists");
        }
    }
    // soundness of the live watermark against everything reported (incl. rescanned disk counts)
    let p = prefix_from(0, &c.maxc, q);
    if prev > p { ctx.oracle_fail(&format!("C08:sound {}", c.ident), &format!("watermark {prev} exceeds the quorum-confirmed prefix {p}"), &c.hist); }
    // the re-scan of a restart reports the on-disk counts
    for (i, d) in disk.iter().enumerate() { note_report(&mut c.maxc, (i as u64 + 1, 1, *d)); }
    // every crash point of a persist of the live state, each followed by a restart
    let before = snapshot_dir(&cd);
    let disk_s = show_nats(&disk);
    let mut last: Option<BucketConfirmationManager> = None;
    for k in 0..=5u32 {
        restore_dir(&cd, &before);
        let mut ops_done = 0;
        if k > 0 {
            PERSIST_CRASH_AFTER.store(k, Ordering::SeqCst);
            let r = w.rt.block_on(m.persist_bucket_state(pid % BUCKETS));
            PERSIST_CRASH_AFTER.store(0, Ordering::SeqCst);
            ops_done = PERSIST_OPS_DONE.load(Ordering::SeqCst);
            ctx.stat(if r.is_err() { "crash_points_hit" } else { "crash_point_beyond_end_persist_completed" });
        }
        ctx.stat(&format!("crash_after_{}_file_ops", ops_done));
        let res = w.files(&dir, pid, rf); m_emit(ctx, &mut c, format!("wm mcrash {k}"), &res);
        if res.contains("cur=- ") { ctx.stat("crash_states_without_current_file"); }
        // watermark of the state the restart will load (current, else previous, else empty)
        let loaded: u64 = res.split(' ').take(2).filter_map(|f| f.split('=').nth(1)).filter_map(|l| l.strip_prefix('w'))
            .filter_map(|l| l.split('u').next()?.parse().ok()).next().unwrap_or(0);
        if prev > 0 { ctx.stat("restarts_with_positive_watermark_before"); }
        if loaded < prev { ctx.stat("restarts_loading_a_state_older_than_the_live_one"); }
        if firsts.iter().zip(&txs).any(|(f, (n, _))| *f <= loaded && loaded < *f + *n - 1) { ctx.stat("restarts_loading_a_watermark_inside_a_transaction"); }
        if res.contains("tmp=?") { ctx.stat("crash_states_with_partial_temp_file"); }
        let mut m2 = BucketConfirmationManager::new(dir.clone(), BUCKETS, rf, HashSet::from_iter([pid]));
        let r = catch(AssertUnwindSafe(|| w.rt.block_on(m2.initialize(&w.db))));
        if !matches!(r, Some(Ok(()))) { ctx.oracle_fail(&format!("C08:panic {}", c.ident), &format!("initialize after crash point {k} failed/panicked"), &c.hist); return; }
        let w2 = m2.get_watermark(pid).map(|x| x.get()).unwrap_or(0);
        let res = w.show_m(&m2, &dir, pid, rf); m_emit(ctx, &mut c, format!("wm minit {disk_s}"), &res);
        ctx.stat("restarts");
        if hyp_holds && w2 < prev {
            ctx.oracle_fail(&format!("C08:restart {} k={k}", c.ident), &format!("watermark after restart {w2} < watermark before {prev} (crash after {ops_done} file operations)"), &c.hist);
        }
        // whatever the disk counts say: a complete persisted state on disk (current, else previous) is not lost
        if w2 < loaded {
            ctx.oracle_fail(&format!("C08:restart-persisted {} k={k}", c.ident), &format!("watermark after restart {w2} < watermark {loaded} of the newest complete state file on disk (crash after {ops_done} file operations: {})", res.split(" | ").next().unwrap_or("")), &c.hist);
        }
        if w2 > prev { ctx.stat("restarts_that_advanced_from_disk_counts"); }
        { let p = prefix_from(0, &c.maxc, q); if w2 > p { ctx.oracle_fail(&format!("C08:sound {} k={k}", c.ident), &format!("restarted watermark {w2} exceeds the quorum-confirmed prefix {p}"), &c.hist); } }
        last = Some(m2);
    }
    // continue on the restarted manager with the remaining reports
    if let Some(mut m2) = last {
        m_emit(ctx, &mut c, "wm madopt".into(), "ok");
        let mut prev2 = m2.get_watermark(pid).map(|x| x.get()).unwrap_or(0);
        for (t, cc) in reports.iter().skip(deliver) {
            if !m_rep(ctx, w, &mut c, &mut m2, (firsts[*t], txs[*t].0, *cc), &mut prev2) { return; }
        }
        {
            let p = prefix_from(0, &c.maxc, q);
            if prev2 != p { ctx.oracle_fail(&format!("C08:complete {}", c.ident), &format!("all reports delivered after restart: watermark {prev2} != quorum-confirmed prefix {p}"), &c.hist); }
        }
    }
    ctx.nontrivial(&c.hist.join(";"));
}

pub fn run(ctx: &mut Ctx) {
    if let Some(lines) = ctx.replay.clone() {
        if !lines.is_empty() && lines.iter().all(|l| { let t: Vec<&str> = l.split_whitespace().collect(); t.len() > 1 && matches!(t[1], "run" | "new" | "at" | "rep") }) {
            replay_direct(ctx, &lines); return;
        }
        // manager scenarios are regenerated from their seed (`@seed` line, handled by Ctx)
    }
    // ---- A1: hand-written report sets, every order, every rf in 1..12
    for rf in 1..=12u8 {
        let q = quorum(rf); let lo = q - 1;
        all_orders(ctx, rf, &[(2, 1, q), (2, 1, lo), (1, 1, q)]);                         // stale lower count after quorum (F17)
        all_orders(ctx, rf, &[(1, 1, q), (2, 1, q), (3, 1, q), (4, 1, q), (5, 1, q)]);   // gap filler last in some order
        all_orders(ctx, rf, &[(1, 2, q), (3, 3, q), (6, 1, q), (3, 3, lo), (1, 2, lo)]); // multi-event, rising counts
        all_orders(ctx, rf, &[(1, 2, q), (1, 2, q), (3, 1, lo), (4, 2, q), (4, 2, q)]);  // duplicates, unconfirmed middle
        all_orders(ctx, rf, &[(1, 3, q), (2, 3, lo), (4, 1, q), (2, 1, 0)]);              // overlapping ranges
        all_orders(ctx, rf, &[(1, 1, q), (2, 2, lo), (2, 2, q), (2, 2, lo), (4, 1, q), (4, 1, 0)]);
    }
    // ---- A2: generated report sets of <= 6 reports, every order
    let sets = if ctx.thorough() { 700 } else { 70 };
    for i in 0..sets {
        let rf = 1 + (i % 12) as u8;
        let total = if i % 3 == 0 { 6 } else { ctx.rng.range(3, 6) as usize };
        let set = gen_set(&mut ctx.rng, rf, total);
        all_orders(ctx, rf, &set);
    }
    // ---- A3: boundaries and long random deliveries
    boundaries(ctx);
    let longs = if ctx.thorough() { 4000 } else { 400 };
    for _ in 0..longs { long_random(ctx); }
    // ---- B: manager + database: persistence, crash points, restart
    let t_b = std::time::Instant::now();
    let mut w = World::new();
    let cases = if ctx.thorough() { 1500 } else { 150 };
    for i in 0..cases { persist_case(ctx, &mut w, i == 3); }
    w.rt.block_on(w.db.shutdown()); w.rt.block_on(w.db_empty.shutdown());
    if std::env::var("VH_TIMING").is_ok() { eprintln!("part B: {:?}", t_b.elapsed()); }
}
