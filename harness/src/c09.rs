//! C09: subscriptions deliver confirmed events in order, once, without gaps.
//!
//! A real `Database`, a real `ConfirmationActor` (the broadcaster) and a real
//! `SubscriptionManager`; the subscription task and the broadcaster are parked at the
//! `subscription::verif::pause` points and released one stretch at a time, so an exact interleaving
//! of {append, confirm, advance, broadcaster send, ack, subscription step} is forced on the real
//! tasks.  Every action is one `c09 ...` line for the Lean model (`Cluster/Subscription.lean`);
//! the implementation's result line carries what the step delivered and where the tasks park next.
//! Independently the property is evaluated on the real deliveries (per key contiguous from the
//! start position, no duplicate, confirmed at delivery, outstanding <= window).
use crate::util::*;
use kameo::actor::{ActorRef, Spawn};
use sierradb::bucket::segment::EventRecord;
use sierradb::database::{Database, DatabaseBuilder, ExpectedVersion, NewEvent, Transaction};
use sierradb::id::{uuid_to_partition_hash, uuid_v7_with_partition_hash};
use sierradb::StreamId;
use sierradb_cluster::confirmation::actor::{ConfirmationActor, UpdateConfirmation, UpdateConfirmationWithBroadcast};
use sierradb_cluster::confirmation::{AtomicWatermark, BucketConfirmationManager};
use sierradb_cluster::subscription::{verif, FromSequences, FromVersions, SubscriptionEvent, SubscriptionManager, SubscriptionMatcher};
use std::collections::{HashMap, HashSet};
use std::sync::{Arc, Mutex};
use std::time::Duration;
use tokio::sync::{broadcast, mpsc, oneshot, watch, Notify};
use uuid::Uuid;

pub const NP: u16 = 3; // partitions of a world

// ---------------------------------------------------------------------------------------------
// controller: who is parked where

pub struct Parked { pub point: &'static str, pub detail: String, go: oneshot::Sender<()> }

#[derive(Default)]
pub struct CtlInner { sub: Option<Parked>, bc: Option<Parked>, window_notes: Vec<u64>, hist_len: Vec<u64>, active: bool }

pub struct Ctl { m: Mutex<CtlInner>, n: Notify }

impl Ctl {
    pub fn install() -> Arc<Ctl> {
        let ctl = Arc::new(Ctl { m: Mutex::new(CtlInner { active: true, ..Default::default() }), n: Notify::new() });
        let c = ctl.clone();
        verif::set_scheduler(Some(Arc::new(move |point: &'static str, detail: String| -> verif::PauseFuture {
            let mut g = c.m.lock().unwrap();
            if !g.active { return Box::pin(async {}); }
            let (tx, rx) = oneshot::channel();
            let p = Parked { point, detail, go: tx };
            if point.starts_with("bc:") { g.bc = Some(p); } else { g.sub = Some(p); }
            drop(g);
            c.n.notify_one();
            Box::pin(async move { let _ = rx.await; })
        })));
        let c = ctl.clone();
        verif::set_observer(Some(Arc::new(move |point: &'static str, v: u64| {
            if point == "send:window" { c.m.lock().unwrap().window_notes.push(v); c.n.notify_one(); }
            if point == "hist:len" { c.m.lock().unwrap().hist_len.push(v); }
        })));
        ctl
    }
    /// stop parking: every task runs freely from now on (tear-down)
    pub fn free_run(&self) {
        let mut g = self.m.lock().unwrap();
        g.active = false;
        if let Some(p) = g.sub.take() { let _ = p.go.send(()); }
        if let Some(p) = g.bc.take() { let _ = p.go.send(()); }
    }
    pub fn sub_at(&self) -> Option<(&'static str, String)> { self.m.lock().unwrap().sub.as_ref().map(|p| (p.point, p.detail.clone())) }
    pub fn bc_at(&self) -> Option<(&'static str, String)> { self.m.lock().unwrap().bc.as_ref().map(|p| (p.point, p.detail.clone())) }
    pub fn release_sub(&self) -> bool { match self.m.lock().unwrap().sub.take() { Some(p) => p.go.send(()).is_ok(), None => false } }
    pub fn release_bc(&self) -> bool { match self.m.lock().unwrap().bc.take() { Some(p) => p.go.send(()).is_ok(), None => false } }
    pub fn take_hist_len(&self) -> Vec<u64> { std::mem::take(&mut self.m.lock().unwrap().hist_len) }
    pub fn take_window_notes(&self) -> Vec<u64> { std::mem::take(&mut self.m.lock().unwrap().window_notes) }
    /// wait (real time bound) until `cond` holds on the controller state
    pub async fn wait<F: Fn(&CtlInner) -> bool>(&self, cond: F, ms: u64) -> bool {
        let deadline = std::time::Instant::now() + Duration::from_millis(ms);
        loop {
            if cond(&self.m.lock().unwrap()) { return true; }
            let left = deadline.saturating_duration_since(std::time::Instant::now());
            if left.is_zero() { return false; }
            let _ = tokio::time::timeout(left.min(Duration::from_millis(50)), self.n.notified()).await;
        }
    }
    pub async fn wait_sub_parked(&self, ms: u64) -> bool { self.wait(|g| g.sub.is_some(), ms).await }
}

impl CtlInner {
    pub fn sub_parked(&self) -> bool { self.sub.is_some() }
    pub fn bc_parked(&self) -> bool { self.bc.is_some() }
    pub fn has_window_note(&self) -> bool { !self.window_notes.is_empty() }
}

// ---------------------------------------------------------------------------------------------
// world: one real database; per scenario a fresh block of partitions with its own real
// ConfirmationActor (the broadcaster, ring of the scenario's capacity) and SubscriptionManager,
// wired as in ClusterActor::new (lib.rs)

pub const P_TOTAL: u16 = 6000;

pub struct World {
    pub db: Database,
    pub pkeys: Vec<Uuid>, // partition p -> a partition key hashing to p
    pub next: u16,
    _dir: tempfile::TempDir,
}

pub async fn world() -> World {
    let dir = if std::path::Path::new("/dev/shm").is_dir() { tempfile::tempdir_in("/dev/shm").unwrap() } else { tempfile::tempdir().unwrap() };
    let db = DatabaseBuilder::new().total_buckets(2).bucket_ids_from_range(0..2).writer_threads(1).reader_threads(1)
        .sync_interval(Duration::from_millis(1)).sync_idle_interval(Duration::from_millis(1)).min_sync_bytes(1)
        .segment_size_bytes(64 * 1024 * 1024).open(dir.path()).expect("open database");
    let mut pkeys = vec![Uuid::nil(); P_TOTAL as usize];
    let mut found = 0; let mut i: u128 = 1;
    while found < P_TOTAL as usize {
        let u = Uuid::from_u128(i.wrapping_mul(0x9E37_79B9_7F4A_7C15_F39C_C060_5CED_C835)); i += 1;
        let p = (uuid_to_partition_hash(u) % P_TOTAL) as usize;
        if pkeys[p].is_nil() { pkeys[p] = u; found += 1; }
    }
    World { db, pkeys, next: 0, _dir: dir }
}

/// the real components of one scenario
pub struct Node {
    pub db: Database,
    pub base: u16,
    pub conf: ActorRef<ConfirmationActor>,
    pub mgr: SubscriptionManager,
    pub tx: broadcast::Sender<EventRecord>,
    pub wms: HashMap<u16, Arc<AtomicWatermark>>,
    pub pkeys: Vec<Uuid>,
}

impl World {
    pub fn exhausted(&self) -> bool { self.next as u32 + NP as u32 > P_TOTAL as u32 }
    pub async fn node(&mut self, cap: usize) -> Node {
        let base = self.next; self.next += NP;
        let assigned: HashSet<u16> = (base..base + NP).collect();
        // the persisted confirmation state of earlier scenarios (other partitions) is not ours
        for b in 0..self.db.total_buckets() { let _ = std::fs::remove_dir_all(self.db.dir().join("buckets").join(format!("{b:05}")).join("confirmation")); }
        let mut manager = BucketConfirmationManager::new(self.db.dir().clone(), self.db.total_buckets(), 1, assigned.clone());
        manager.initialize(&self.db).await.expect("initialize");
        let (tx, _) = broadcast::channel(cap);
        let wms = manager.get_watermarks();
        let actor = ConfirmationActor { manager, database: self.db.clone(), broadcast_tx: tx.clone(),
            pending_events: HashMap::new(), next_broadcast_seq: HashMap::new() };
        let conf = ConfirmationActor::spawn(actor);
        let mgr = SubscriptionManager::new(self.db.clone(), Arc::new(assigned), Arc::new(wms.clone()), P_TOTAL, tx.clone());
        Node { db: self.db.clone(), base, conf, mgr, tx, wms, pkeys: self.pkeys[base as usize..(base + NP) as usize].to_vec() }
    }
    pub async fn close(self) { self.db.shutdown().await; }
}

impl Node {
    pub fn stream_name(&self, p: u16, s: u64) -> String { format!("p{}s{s}", self.base + p) }
    /// append one event (one transaction) to partition p, stream s; returns (sequence, version)
    pub async fn append(&self, p: u16, s: u64) -> Result<(u64, u64), String> {
        let key = self.pkeys[p as usize];
        let sid = StreamId::new(self.stream_name(p, s)).map_err(|e| format!("{e:?}"))?;
        let t = Transaction::new(key, self.base + p, smallvec::smallvec![NewEvent {
            event_id: uuid_v7_with_partition_hash(uuid_to_partition_hash(key)), stream_id: sid.clone(),
            stream_version: ExpectedVersion::Any, event_name: "E".into(), timestamp: 1, metadata: vec![], payload: vec![] }])
            .map_err(|e| format!("{e:?}"))?;
        let r = self.db.append_events(t).await.map_err(|e| format!("{e:?}"))?;
        Ok((r.first_partition_sequence, *r.stream_versions.get(&sid).unwrap_or(&u64::MAX)))
    }
    /// stop the broadcaster and drop every sender: the subscription task sees `Closed` and ends
    pub async fn close(self) {
        let _ = self.conf.stop_gracefully().await;
        self.conf.wait_for_shutdown().await;
    }
}

// ---------------------------------------------------------------------------------------------
// scenario description

#[derive(Clone, Copy, Debug, PartialEq, Eq, Hash, PartialOrd, Ord)]
pub enum Key { Part(u16), Stream(u16, u64) }
impl Key {
    pub fn pid(&self) -> u16 { match self { Key::Part(p) | Key::Stream(p, _) => *p } }
    pub fn tok(&self) -> String { match self { Key::Part(p) => format!("{p}"), Key::Stream(p, s) => format!("{p}/{s}") } }
    pub fn matches(&self, r: &Rec) -> bool { match self { Key::Part(p) => r.p == *p, Key::Stream(p, s) => r.p == *p && r.s == *s } }
    pub fn pos(&self, r: &Rec) -> u64 { match self { Key::Part(_) => r.seq, Key::Stream(..) => r.ver } }
}

#[derive(Clone, Copy, Debug, PartialEq, Eq)]
pub enum Kind { Part, Parts, Stream, Streams }
impl Kind { pub fn tok(&self) -> &'static str { match self { Kind::Part => "part", Kind::Parts => "parts", Kind::Stream => "stream", Kind::Streams => "streams" } } }

#[derive(Clone, Debug)]
pub struct SubSpec { pub kind: Kind, pub keys: Vec<(Key, Option<u64>)>, pub window: u64, pub form: u64 }

/// a delivered record in model coordinates
#[derive(Clone, Copy, Debug, PartialEq, Eq)]
pub struct Rec { pub p: u16, pub seq: u64, pub s: u64, pub ver: u64 }

#[derive(Clone, Debug)]
pub enum Act {
    Append(u16, u64), Confirm(u16, u64), Advance(u16, u64), Bsend, OtherOn, OtherOff,
    Subscribe(SubSpec), Ack(u64), Sub,
}

pub fn from_tok(f: &Option<u64>) -> String { match f { Some(f) => f.to_string(), None => "L".into() } }

impl SubSpec {
    pub fn line(&self) -> String {
        format!("c09 subscribe {} {} {}", self.kind.tok(), self.window,
            self.keys.iter().map(|(k, f)| format!("{}:{}", k.tok(), from_tok(f))).collect::<Vec<_>>().join(" "))
    }
    /// the real matcher; `form` selects among the equivalent surface forms (AllPartitions(n),
    /// fallback, AllStreams(n), AllPartitions matcher) when they denote the same starts
    pub fn matcher(&self, n: &Node) -> SubscriptionMatcher {
        let abs = |p: u16| n.base + p;
        let sid = |p: u16, s: u64| StreamId::new(n.stream_name(p, s)).unwrap();
        let all_none = self.keys.iter().all(|(_, f)| f.is_none());
        let same: Option<u64> = match self.keys.first() { Some((_, Some(f))) if self.keys.iter().all(|(_, g)| *g == Some(*f)) => Some(*f), _ => None };
        match self.kind {
            Kind::Part => { let (k, f) = self.keys[0]; SubscriptionMatcher::Partition { partition_id: abs(k.pid()), from_sequence: f } }
            Kind::Stream => { let (k, f) = self.keys[0]; let Key::Stream(p, s) = k else { panic!("stream key") };
                SubscriptionMatcher::Stream { partition_key: n.pkeys[p as usize], stream_id: sid(p, s), from_version: f } }
            Kind::Parts => {
                let map: HashMap<u16, u64> = self.keys.iter().filter_map(|(k, f)| f.map(|f| (abs(k.pid()), f))).collect();
                let from_sequences = if all_none { FromSequences::Latest }
                    else if let (Some(f), 1) = (same, self.form % 3) { FromSequences::AllPartitions(f) }
                    else if let (Some(f), 2) = (same, self.form % 3) {
                        // fallback for every key but the first
                        let first = abs(self.keys[0].0.pid());
                        FromSequences::Partitions { from_sequences: HashMap::from_iter([(first, f)]), fallback: Some(f) }
                    } else { FromSequences::Partitions { from_sequences: map, fallback: None } };
                if self.keys.len() == NP as usize && (self.form / 3) % 2 == 1 { SubscriptionMatcher::AllPartitions { from_sequences } }
                else { SubscriptionMatcher::Partitions { partition_ids: self.keys.iter().map(|(k, _)| abs(k.pid())).collect(), from_sequences } }
            }
            Kind::Streams => {
                let ids: HashSet<(Uuid, StreamId)> = self.keys.iter().map(|(k, _)| { let Key::Stream(p, s) = *k else { panic!("stream key") }; (n.pkeys[p as usize], sid(p, s)) }).collect();
                let from_versions = if all_none { FromVersions::Latest }
                    else if let (Some(f), 1) = (same, self.form % 2) { FromVersions::AllStreams(f) }
                    else { FromVersions::Streams(self.keys.iter().filter_map(|(k, f)| { let Key::Stream(p, s) = *k else { panic!() }; f.map(|f| ((n.pkeys[p as usize], sid(p, s)), f)) }).collect()) };
                SubscriptionMatcher::Streams { stream_ids: ids, from_versions }
            }
        }
    }
}

// ---------------------------------------------------------------------------------------------
// executing actions on the real tasks

pub static PANICKED: std::sync::atomic::AtomicBool = std::sync::atomic::AtomicBool::new(false);
fn panicked() -> bool { PANICKED.load(std::sync::atomic::Ordering::SeqCst) }

pub struct SubLive {
    pub spec: SubSpec,
    pub rx: mpsc::UnboundedReceiver<SubscriptionEvent>,
    pub ack_tx: watch::Sender<Option<u64>>,
    pub delivered: Vec<Rec>,
    pub last_ack: Option<u64>,
    pub start_wm: Vec<u64>,          // real watermark cells read just before `subscribe`
    pub start: HashMap<Key, u64>,    // start position per key (LATEST: confirmed matching events at subscribe)
    pub q: std::collections::VecDeque<(u16, u64)>, // mirror of our ring slots (guides generation only)
    pub lagged: bool,
    pub armed: bool,                 // released into a full window: inside `wait_for`
    pub lag_before_first: HashSet<Key>,
    pub broken: bool,
}

pub struct Run<'a> {
    pub ctx: &'a mut Ctx,
    pub node: Node,
    pub ctl: Arc<Ctl>,
    pub cap: usize,
    pub evs: Vec<Vec<(u64, u64)>>,   // per partition: (stream, version) as reported by append
    pub wm: Vec<u64>,                // watermark the harness asked for
    pub other: Option<broadcast::Receiver<EventRecord>>,
    pub sub: Option<SubLive>,
    pub bc: Option<tokio::task::JoinHandle<bool>>,
    pub lines: Vec<String>,
    pub bad: Vec<(String, String)>,
    pub stuck: bool,
}

const STEP_MS: u64 = 8000;

impl<'a> Run<'a> {
    pub async fn start(ctx: &'a mut Ctx, w: &mut World, cap: usize) -> Run<'a> {
        if w.exhausted() { let old = std::mem::replace(w, world().await); old.close().await; ctx.stat("worlds"); }
        let ctl = Ctl::install();
        let node = w.node(cap).await;
        let line = format!("c09 new {cap}");
        ctx.emit(&line, "ok");
        Run { ctx, node, ctl, cap, evs: vec![vec![]; NP as usize], wm: vec![0; NP as usize], other: None, sub: None, bc: None,
              lines: vec![line], bad: vec![], stuck: false }
    }
    fn emit(&mut self, op: String, res: String) { self.ctx.emit(&op, &res); self.lines.push(op); }
    fn fail(&mut self, key: &str, what: String) { if !self.bad.iter().any(|b| b.0 == key) { self.bad.push((key.to_string(), what)); } }

    fn bc_str(&self) -> String {
        match self.ctl.bc_at() { Some(("bc:send", d)) => format!("bc={}", self.local_ps(&d)), Some((pt, d)) => format!("bc=?{pt}:{d}"), None => "bc=idle".into() }
    }
    /// "abs:seq" -> "p:seq"
    fn local_ps(&self, d: &str) -> String {
        match d.split_once(':') { Some((a, b)) => format!("{}:{}", a.parse::<u16>().map(|a| a.wrapping_sub(self.node.base)).unwrap_or(9999), b), None => format!("?{d}") }
    }
    fn sub_at_str(&self) -> (String, Option<String>) {
        match self.ctl.sub_at() {
            None => ("at=running".into(), None),
            Some(("hist:batch", d)) => {
                let k = match d.split_once('/') {
                    None => format!("{}", d.parse::<u16>().map(|a| a.wrapping_sub(self.node.base)).unwrap_or(9999)),
                    Some((a, sid)) => format!("{}/{}", a.parse::<u16>().map(|a| a.wrapping_sub(self.node.base)).unwrap_or(9999), sid.rsplit_once('s').map(|x| x.1).unwrap_or("?")),
                };
                (format!("at=hist:batch:{k}"), Some(k))
            }
            Some(("send:wait", d)) => (format!("at=send:wait:{}", self.local_ps(&d)), None),
            Some((pt, _)) => (format!("at={pt}"), None),
        }
    }
    fn rec_of(&self, r: &EventRecord) -> Rec {
        let s = r.stream_id.to_string().rsplit_once('s').and_then(|x| x.1.parse().ok()).unwrap_or(u64::MAX);
        Rec { p: r.partition_id.wrapping_sub(self.node.base), seq: r.partition_sequence, s, ver: r.stream_version }
    }

    pub async fn append(&mut self, p: u16, s: u64) {
        let res = match self.node.append(p, s).await {
            Ok((seq, ver)) => { self.evs[p as usize].push((s, ver)); format!("seq={seq} ver={ver}") }
            Err(e) => { self.fail("C09:append-error", e.clone()); "error".into() }
        };
        self.emit(format!("c09 append {p} {s}"), res);
    }
    pub fn can_confirm(&self, p: u16, n: u64) -> bool { self.bc.is_none() && self.wm[p as usize] < n && n <= self.evs[p as usize].len() as u64 }

    async fn wait_bc(&mut self) {
        // the handler either parks at a bc: point or returns
        let deadline = std::time::Instant::now() + Duration::from_millis(STEP_MS);
        loop {
            if self.ctl.bc_at().is_some() { return; }
            if self.bc.as_ref().map(|h| h.is_finished()).unwrap_or(true) {
                if let Some(h) = self.bc.take() { if !h.await.unwrap_or(false) { self.fail("C09:confirm-error", "UpdateConfirmationWithBroadcast failed".into()); } }
                return;
            }
            if std::time::Instant::now() > deadline || panicked() { self.stuck = true; return; }
            let _ = tokio::time::timeout(Duration::from_millis(20), self.ctl.n.notified()).await;
        }
    }
    pub async fn confirm(&mut self, p: u16, n: u64) {
        let abs = self.node.base + p; let w0 = self.wm[p as usize];
        let msg = UpdateConfirmationWithBroadcast { partition_id: abs, versions: ((w0 + 1)..=n).collect(), confirmation_count: 1, partition_sequences: (w0, n - 1) };
        let conf = self.node.conf.clone();
        let ctl = self.ctl.clone();
        self.bc = Some(tokio::spawn(async move { let ok = conf.ask(msg).await.is_ok(); ctl.n.notify_one(); ok }));
        self.wm[p as usize] = n;
        self.wait_bc().await;
        let res = format!("wm={} {}", self.node.wms[&abs].get(), self.bc_str());
        self.emit(format!("c09 confirm {p} {n}"), res);
    }
    pub async fn advance(&mut self, p: u16, n: u64) {
        let abs = self.node.base + p; let w0 = self.wm[p as usize];
        let msg = UpdateConfirmation { partition_id: abs, versions: ((w0 + 1)..=n).collect(), confirmation_count: 1 };
        if self.node.conf.ask(msg).await.is_err() { self.fail("C09:confirm-error", "UpdateConfirmation failed".into()); }
        self.wm[p as usize] = n;
        let res = format!("wm={}", self.node.wms[&abs].get());
        self.emit(format!("c09 advance {p} {n}"), res);
    }
    pub fn can_bsend(&self) -> bool { matches!(self.ctl.bc_at(), Some(("bc:send", _))) }
    pub async fn bsend(&mut self) {
        let d = self.ctl.bc_at().map(|x| self.local_ps(&x.1)).unwrap_or_default();
        self.ctl.release_bc();
        self.wait_bc().await;
        let res = if matches!(self.ctl.bc_at(), Some(("bc:sent", _))) {
            // our mirror of the ring (generation guide only)
            if let Some(sl) = self.sub.as_mut() {
                if let Some((p, q)) = d.split_once(':') { let x = (p.parse().unwrap_or(0), q.parse().unwrap_or(0));
                    if sl.q.len() >= self.cap { sl.q.pop_front(); sl.lagged = true; } sl.q.push_back(x); }
            }
            self.ctl.release_bc();
            self.wait_bc().await;
            format!("sent={d} {}", self.bc_str())
        } else { format!("norecv {}", self.bc_str()) };
        self.emit("c09 bsend".into(), res);
    }
    pub fn other(&mut self, on: bool) {
        if on { self.other = Some(self.node.tx.subscribe()); } else { self.other = None; }
        self.emit(format!("c09 other {}", if on { "on" } else { "off" }), "ok".into());
    }
}

fn room(sl: &SubLive) -> bool {
    let cursor = sl.delivered.len() as u64;
    match sl.last_ack { Some(a) => cursor.saturating_sub(a) <= sl.spec.window, None => cursor + 1 <= sl.spec.window }
}

impl<'a> Run<'a> {
    pub async fn subscribe(&mut self, spec: SubSpec) {
        let matcher = spec.matcher(&self.node);
        let start_wm: Vec<u64> = (0..NP).map(|p| self.node.wms[&(self.node.base + p)].get()).collect();
        let mut start = HashMap::new();
        for (k, f) in &spec.keys {
            let st = match f { Some(f) => *f, None => {
                let w = start_wm[k.pid() as usize] as usize;
                self.evs[k.pid() as usize].iter().take(w).filter(|(s, _)| match k { Key::Part(_) => true, Key::Stream(_, ks) => s == ks }).count() as u64 } };
            start.insert(*k, st);
        }
        let (ack_tx, ack_rx) = watch::channel(None);
        let (utx, urx) = mpsc::unbounded_channel();
        let line = spec.line();
        self.node.mgr.subscribe(Uuid::from_u128(7), matcher, ack_rx, utx, spec.window);
        self.sub = Some(SubLive { spec, rx: urx, ack_tx, delivered: vec![], last_ack: None, start_wm, start, q: Default::default(),
            lagged: false, armed: false, lag_before_first: HashSet::new(), broken: false });
        if !self.ctl.wait_sub_parked(STEP_MS).await { self.stuck = true; }
        let res = self.sub_at_str().0;
        self.emit(line, res);
    }
    pub fn sub_point(&self) -> Option<&'static str> { self.ctl.sub_at().map(|x| x.0) }
    pub fn sub_enabled(&self) -> bool {
        let Some(sl) = &self.sub else { return false };
        if sl.armed || sl.broken || self.stuck { return false; }
        match self.sub_point() { None => false, Some("send:wait") => room(sl), Some("live:recv") => sl.lagged || !sl.q.is_empty(), Some(_) => true }
    }
    pub fn can_probe(&self) -> bool {
        match &self.sub { Some(sl) => !sl.armed && !sl.broken && !self.stuck && self.sub_point() == Some("send:wait") && !room(sl), None => false }
    }
    pub fn can_ack(&self) -> Option<u64> {
        let sl = self.sub.as_ref()?;
        let n = sl.delivered.len() as u64;
        if n == 0 { return None; }
        match sl.last_ack { Some(a) if a + 1 >= n => None, _ => Some(n - 1) }
    }

    /// property oracle on one real delivery (independent of the model)
    fn check_delivery(&mut self, r: Rec, cursor: u64) {
        let Some(sl) = self.sub.as_ref() else { return };
        let kind = sl.spec.kind.tok();
        let mut fails: Vec<(String, String)> = vec![];
        if cursor != sl.delivered.len() as u64 { fails.push((format!("C09:cursor {kind}"), format!("record {r:?} carries cursor {cursor}, expected {}", sl.delivered.len()))); }
        match self.evs[r.p as usize % NP as usize].get(r.seq as usize) {
            Some(&(s, v)) if s == r.s && v == r.ver && r.p < NP => {}
            other => fails.push((format!("C09:content {kind}"), format!("delivered {r:?} but the event appended at that sequence is {other:?}"))),
        }
        if r.p < NP {
            let w = self.node.wms[&(self.node.base + r.p)].get();
            if r.seq >= w { fails.push((format!("C09:unconfirmed {kind}"), format!("delivered {r:?} while the watermark of partition {} is {w}", r.p))); }
        }
        let acked = sl.last_ack.map(|a| a + 1).unwrap_or(0);
        let outstanding = (sl.delivered.len() as u64 + 1).saturating_sub(acked);
        if outstanding > sl.spec.window { fails.push((format!("C09:window {kind}"), format!("{outstanding} unacknowledged records outstanding, window {}", sl.spec.window))); }
        match sl.spec.keys.iter().map(|x| x.0).find(|k| k.matches(&r)) {
            None => fails.push((format!("C09:unmatched {kind}"), format!("delivered {r:?} which matches no subscribed key"))),
            Some(k) => {
                let prev: Vec<u64> = sl.delivered.iter().filter(|d| k.matches(d)).map(|d| k.pos(d)).collect();
                let st = sl.start[&k];
                let tag = if sl.lag_before_first.contains(&k) { "latest-lagged" } else { kind };
                let pos = k.pos(&r);
                let lost = sl.lag_before_first.contains(&k);
                match prev.last() {
                    None if lost => if pos != st { fails.push((format!("C09:latest-lagged {}", if matches!(k, Key::Part(_)) { "partition" } else { "stream" }), format!("LATEST key {} lagged before its first delivery: first record has position {pos}, start position is {st}", k.tok()))); }
                    None => if pos != st { fails.push((format!("C09:start {tag}"), format!("first record of key {} has position {pos}, start position is {st}", k.tok()))); }
                    Some(&l) => if pos <= l { fails.push((format!("C09:duplicate {tag}"), format!("key {}: position {pos} delivered after {l}", k.tok()))); }
                        else if pos != l + 1 { fails.push((format!("C09:gap {tag}"), format!("key {}: position {pos} delivered after {l} (positions {}..{} skipped)", k.tok(), l + 1, pos - 1))); }
                }
            }
        }
        for (k, w) in fails { self.fail(&k, w); }
    }

    /// after releasing the task: wait until it parks again, collect what it delivered, emit `c09 sub`
    async fn finish_sub_step(&mut self, from: &'static str) {
        let ok = self.ctl.wait(|g| g.sub_parked(), STEP_MS).await && !panicked();
        if !ok { self.stuck = true; }
        let mut dl: Vec<String> = vec![];
        loop {
            let ev = match self.sub.as_mut().unwrap().rx.try_recv() { Ok(ev) => ev, Err(_) => break };
            match ev {
                SubscriptionEvent::Record { cursor, record, .. } => {
                    let r = self.rec_of(&record);
                    self.check_delivery(r, cursor);
                    self.sub.as_mut().unwrap().delivered.push(r);
                    dl.push(format!("{}:{}:{}:{}@{}", r.p, r.seq, r.s, r.ver, cursor));
                }
                SubscriptionEvent::Error { error, .. } => { self.fail("C09:error", format!("subscription reported {error:?}")); self.sub.as_mut().unwrap().broken = true; }
                SubscriptionEvent::Closed { .. } => { self.fail("C09:closed", "subscription closed".into()); self.sub.as_mut().unwrap().broken = true; }
            }
        }
        let sl = self.sub.as_mut().unwrap();
        sl.armed = false;
        if from == "live:recv" {
            if sl.lagged {
                sl.lagged = false;
                for (k, f) in &sl.spec.keys { if f.is_none() && !sl.delivered.iter().any(|d| k.matches(d)) { sl.lag_before_first.insert(*k); } }
            } else { sl.q.pop_front(); }
        }
        let (at, ch) = self.sub_at_str();
        let at = if self.stuck { if panicked() { "at=panicked".to_string() } else { "at=stuck".to_string() } } else { at };
        if self.stuck { self.fail("C09:stuck", format!("the subscription task did not reach a pause point after {from} ({at})")); }
        let res = format!("dlv={} {at}", if dl.is_empty() { "-".into() } else { dl.join(",") });
        let lens = self.ctl.take_hist_len();
        if lens.len() > 1 { self.fail("C09:harness", format!("two history batches in one step: {lens:?}")); }
        if let Some(n) = lens.last() { self.ctx.stat(&format!("batch_len:{}", if *n < 50 { "<50" } else if *n == 50 { "50" } else { ">50" })); }
        self.emit(format!("c09 sub {} {}", ch.unwrap_or("-".into()), lens.last().copied().unwrap_or(0)), res);
    }
    pub async fn sub_step(&mut self) {
        let from = self.sub_point().unwrap_or("?");
        self.ctx.stat(&format!("sub_step_from:{from}"));
        self.ctl.take_window_notes();
        self.ctl.take_hist_len();
        self.ctl.release_sub();
        self.finish_sub_step(from).await;
    }
    /// release the task into a full window and see that it blocks (no model action)
    pub async fn probe(&mut self) {
        self.ctl.take_window_notes();
        self.ctl.release_sub();
        let ok = self.ctl.wait(|g| g.has_window_note() || g.sub_parked(), STEP_MS).await;
        let notes = self.ctl.take_window_notes();
        self.ctx.stat("window_probe");
        if !ok { self.stuck = true; return; }
        if self.ctl.sub_at().is_some() || notes.last() == Some(&1) {
            // it went through a full window: collect the delivery (the oracle flags the window)
            self.finish_sub_step("send:wait").await;
        } else { self.sub.as_mut().unwrap().armed = true; self.emit("c09 probe".into(), "blocked".into()); }
    }
    pub async fn ack(&mut self, c: u64) {
        let armed = { let sl = self.sub.as_mut().unwrap(); self.ctl.take_window_notes(); let _ = sl.ack_tx.send(Some(c)); sl.last_ack = Some(c); sl.armed };
        self.emit(format!("c09 ack {c}"), "ok".into());
        if armed {
            if room(self.sub.as_ref().unwrap()) { self.ctx.stat("window_wakeup"); self.finish_sub_step("send:wait").await; }
            else { let _ = self.ctl.wait(|g| g.has_window_note(), STEP_MS).await; self.ctl.take_window_notes(); }
        }
    }
}

impl<'a> Run<'a> {
    pub async fn act(&mut self, a: &Act) -> bool {
        match a {
            Act::Append(p, s) => self.append(*p, *s).await,
            Act::Confirm(p, n) => { if !self.can_confirm(*p, *n) { return false; } self.confirm(*p, *n).await }
            Act::Advance(p, n) => { if !self.can_confirm(*p, *n) { return false; } self.advance(*p, *n).await }
            Act::Bsend => { if !self.can_bsend() { return false; } self.bsend().await }
            Act::OtherOn => self.other(true),
            Act::OtherOff => self.other(false),
            Act::Subscribe(spec) => { if self.sub.is_some() { return false; } self.subscribe(spec.clone()).await }
            Act::Ack(c) => { let ok = self.sub.as_ref().map(|sl| (*c as usize) < sl.delivered.len() && sl.last_ack.map(|a| a < *c).unwrap_or(true)).unwrap_or(false);
                if !ok { return false; } self.ack(*c).await }
            Act::Sub => { if self.can_probe() { self.probe().await; return true; } if !self.sub_enabled() { return false; } self.sub_step().await }
        }
        true
    }
    /// run to quiescence: every subscribed partition gets one more confirmed write, the
    /// broadcaster finishes, everything is acknowledged; then every confirmed matching event from
    /// the start position must have been delivered
    pub async fn drain(&mut self) {
        if self.sub.is_none() || self.stuck { return; }
        while self.can_bsend() && !self.stuck { self.bsend().await; }
        let keys: Vec<Key> = self.sub.as_ref().unwrap().spec.keys.iter().map(|x| x.0).collect();
        let mut pids: Vec<u16> = keys.iter().map(|k| k.pid()).collect(); pids.sort(); pids.dedup();
        for p in pids {
            let s = keys.iter().find_map(|k| match k { Key::Stream(q, s) if *q == p => Some(*s), _ => None }).unwrap_or(0);
            self.append(p, s).await;
            let n = self.evs[p as usize].len() as u64;
            if self.can_confirm(p, n) { self.confirm(p, n).await; }
            while self.can_bsend() && !self.stuck { self.bsend().await; }
            self.settle().await;
        }
        self.settle().await;
        if self.stuck { return; }
        let sl = self.sub.as_ref().unwrap();
        let kind = sl.spec.kind.tok();
        let mut fails = vec![];
        // a window of 0 admits no record at all (`cursor + 1 <= window` never holds)
        if sl.spec.window == 0 { self.ctx.stat("schedules_window_0"); if !sl.delivered.is_empty() { self.fail("C09:window 0", "a record was delivered with window 0".into()); } return; }
        for k in &keys {
            let p = k.pid() as usize;
            let total = self.evs[p].iter().take(self.wm[p] as usize).filter(|(s, _)| match k { Key::Part(_) => true, Key::Stream(_, ks) => s == ks }).count() as u64;
            let got: Vec<u64> = sl.delivered.iter().filter(|d| k.matches(d)).map(|d| k.pos(d)).collect();
            let want: Vec<u64> = (sl.start[k]..total.max(sl.start[k])).collect();
            if got != want && sl.lag_before_first.contains(k) {
                fails.push((format!("C09:latest-lagged {}", if matches!(k, Key::Part(_)) { "partition" } else { "stream" }), format!("LATEST key {} lagged before its first delivery: delivered positions {:?}, confirmed positions from the start are {}..{}", k.tok(), got, sl.start[k], total)));
            } else if got != want {
                let tag = kind;
                fails.push((format!("C09:complete {tag}"), format!("key {} at quiescence: delivered positions {:?}, confirmed positions from the start are {}..{}", k.tok(), got, sl.start[k], total)));
            }
        }
        for (k, w) in fails { self.fail(&k, w); }
    }
    /// acknowledge and step the subscription until nothing is enabled
    async fn settle(&mut self) {
        for _ in 0..2000 {
            if self.stuck { return; }
            if self.sub_enabled() { self.sub_step().await; continue; }
            if let Some(c) = self.can_ack() { self.ack(c).await; continue; }
            break;
        }
    }
    /// report oracle failures, tear the scenario down (every task of it ends)
    pub async fn finish(mut self) -> usize {
        let nbad = self.bad.len();
        for (k, what) in std::mem::take(&mut self.bad) {
            self.ctx.stat(&format!("oracle:{}", k.split(' ').next().unwrap_or("?")));
            let lines = self.lines.clone();
            self.ctx.oracle_fail(&k, &what, &lines);
        }
        if let Some(sl) = &self.sub { self.ctx.stat_add("delivered_records", sl.delivered.len() as u64); if !sl.lag_before_first.is_empty() { self.ctx.stat("schedules_with_lag_before_first_delivery"); } }
        self.ctl.free_run();
        self.other = None;
        let Run { node, sub, bc, .. } = self;
        if let Some(h) = bc { let _ = tokio::time::timeout(Duration::from_millis(2000), h).await; }
        node.close().await;
        if let Some(sl) = sub {
            let SubLive { mut rx, ack_tx, .. } = sl;
            drop(ack_tx);
            let _ = tokio::time::timeout(Duration::from_millis(3000), async { while rx.recv().await.is_some() {} }).await;
        }
        PANICKED.store(false, std::sync::atomic::Ordering::SeqCst);
        nbad
    }
}

// ---------------------------------------------------------------------------------------------
// schedules: the environment's script is interleaved with broadcaster sends, subscription steps
// and acknowledgements; `choose` picks among the currently enabled entities

#[derive(Clone, Debug)]
pub struct Scenario { pub name: &'static str, pub cap: usize, pub setup: Vec<Act>, pub writer: Vec<Act>, pub acks: usize, pub probes: usize }

const E_WRITER: usize = 0; const E_BSEND: usize = 1; const E_SUB: usize = 2; const E_ACK: usize = 3;

pub async fn run_schedule(ctx: &mut Ctx, w: &mut World, sc: &Scenario, choose: &mut dyn FnMut(&[usize]) -> usize) -> usize {
    let mut r = Run::start(ctx, w, sc.cap).await;
    for a in &sc.setup { if r.stuck { break; } if !r.act(a).await { r.ctx.stat("setup_action_not_enabled"); } }
    let (mut wi, mut acks, mut probes, mut steps) = (0usize, 0usize, 0usize, 0usize);
    while !r.stuck && steps < 400 {
        let mut en: Vec<usize> = vec![];
        if wi < sc.writer.len() {
            let ok = match &sc.writer[wi] { Act::Confirm(p, n) | Act::Advance(p, n) => r.can_confirm(*p, *n), Act::Subscribe(_) => r.sub.is_none(), _ => true };
            if ok { en.push(E_WRITER); }
        }
        if r.can_bsend() { en.push(E_BSEND); }
        if r.sub_enabled() || (probes < sc.probes && r.can_probe()) { en.push(E_SUB); }
        if acks < sc.acks && r.can_ack().is_some() { en.push(E_ACK); }
        if en.is_empty() {
            // a writer action that can never become enabled (e.g. confirm beyond the log) is dropped
            if wi < sc.writer.len() && !r.can_bsend() { wi += 1; r.ctx.stat("writer_action_dropped"); continue; }
            break;
        }
        let c = en[choose(&en).min(en.len() - 1)];
        match c {
            E_WRITER => { let a = sc.writer[wi].clone(); wi += 1; r.act(&a).await; }
            E_BSEND => r.bsend().await,
            E_SUB => { if r.can_probe() { probes += 1; r.probe().await; } else { r.sub_step().await; } }
            _ => { let c = r.can_ack().unwrap(); acks += 1; r.ack(c).await; }
        }
        steps += 1;
    }
    r.drain().await;
    r.ctx.stat("schedules");
    r.ctx.stat(&format!("scenario:{}", sc.name));
    r.finish().await
}

/// interleavings by stateless DFS (re-execution), at most `cap`; then `extra` PRNG schedules
pub async fn explore(ctx: &mut Ctx, w: &mut World, sc: &Scenario, cap: usize, extra: usize) {
    let mut stack: Vec<(usize, usize)> = vec![];
    let mut count = 0;
    let mut exhausted = false;
    while count < cap {
        let mut depth = 0;
        let mut st = std::mem::take(&mut stack);
        run_schedule(ctx, w, sc, &mut |en| {
            let k = en.len();
            if depth == st.len() { st.push((0, k)); }
            let c = st[depth].0.min(k - 1);
            st[depth].1 = k; depth += 1; c
        }).await;
        count += 1;
        st.truncate(depth);
        // next schedule: bump the deepest choice that has an alternative left
        while let Some((c, k)) = st.pop() { if c + 1 < k { st.push((c + 1, k)); break; } }
        if st.is_empty() { exhausted = true; break; }
        stack = st;
    }
    ctx.stat(if exhausted { "scenarios_explored_exhaustively" } else { "scenarios_capped" });
    if !exhausted {
        for _ in 0..extra {
            let mut seed = Rng(ctx.rng.next());
            run_schedule(ctx, w, sc, &mut |en| seed.below(en.len() as u64) as usize).await;
            ctx.stat("prng_schedules");
        }
    }
}

/// a fixed action list (setup + schedule), then the drain
pub async fn run_script(ctx: &mut Ctx, w: &mut World, cap: usize, acts: &[Act]) -> usize {
    let mut r = Run::start(ctx, w, cap).await;
    for a in acts { if r.stuck { break; } if !r.act(a).await { r.ctx.stat("script_action_not_enabled"); } }
    r.drain().await;
    r.ctx.stat("schedules");
    r.finish().await
}

pub fn part_spec(p: u16, from: Option<u64>, window: u64) -> SubSpec { SubSpec { kind: Kind::Part, keys: vec![(Key::Part(p), from)], window, form: 0 } }
pub fn stream_spec(p: u16, s: u64, from: Option<u64>, window: u64) -> SubSpec { SubSpec { kind: Kind::Stream, keys: vec![(Key::Stream(p, s), from)], window, form: 0 } }

/// F19: a stream longer than one batch, the watermark in the middle of the first batch, and a
/// confirmation between the two batches
pub fn script_f19() -> Vec<Act> {
    let mut a = vec![];
    for _ in 0..60 { a.push(Act::Append(0, 1)); }
    a.push(Act::Confirm(0, 30));
    a.push(Act::Subscribe(stream_spec(0, 1, Some(0), 1000)));
    a.push(Act::Sub);                       // sub:start -> hist:batch
    a.push(Act::Sub);                       // next_batch -> send:wait
    for _ in 0..30 { a.push(Act::Sub); }    // delivers 0..29; the 31st commit is unconfirmed
    for _ in 0..30 { a.push(Act::Bsend); }  // the broadcaster finishes 0..29 (we listen now)
    a.push(Act::Confirm(0, 60));            // the watermark moves between the two batches
    for _ in 0..30 { a.push(Act::Bsend); }
    for _ in 0..80 { a.push(Act::Sub); }
    a
}
/// F20: confirmed history nobody listened to, then a LATEST subscriber and one more confirmation
pub fn script_f20() -> Vec<Act> {
    let mut a = vec![Act::Append(0, 1), Act::Append(0, 1), Act::Append(0, 2), Act::Confirm(0, 3), Act::Bsend];
    a.push(Act::Subscribe(part_spec(0, None, 1000)));
    a.extend([Act::Sub, Act::Append(0, 1), Act::Confirm(0, 4), Act::Bsend, Act::Bsend, Act::Bsend, Act::Bsend]);
    for _ in 0..10 { a.push(Act::Sub); }
    a
}

// ---------------------------------------------------------------------------------------------
// scenarios

fn sc(name: &'static str, cap: usize, setup: Vec<Act>, writer: Vec<Act>) -> Scenario { Scenario { name, cap, setup, writer, acks: 2, probes: 1 } }

/// small scenarios whose interleavings are enumerated
pub fn tiny_scenarios() -> Vec<Scenario> {
    use Act::*;
    let parts = |keys: Vec<(Key, Option<u64>)>, window: u64, form: u64| SubSpec { kind: Kind::Parts, keys, window, form };
    let streams = |keys: Vec<(Key, Option<u64>)>, window: u64, form: u64| SubSpec { kind: Kind::Streams, keys, window, form };
    vec![
        // history -> live hand-over of one partition, a confirmation racing with it
        sc("part-from0", 1024, vec![Append(0, 1), Append(0, 2), Confirm(0, 1), Bsend, Subscribe(part_spec(0, Some(0), 2))],
           vec![Confirm(0, 2), Append(0, 1), Confirm(0, 3)]),
        // F20 neighbourhood: history nobody listened to, LATEST subscriber arriving around a confirmation
        sc("part-latest", 1024, vec![Append(0, 1), Append(0, 1), Confirm(0, 1), Bsend],
           vec![Subscribe(part_spec(0, None, 2)), Confirm(0, 2), Append(0, 1), Confirm(0, 3)]),
        // start position in the future
        sc("part-future", 1024, vec![Append(0, 1), Confirm(0, 1), Bsend, Subscribe(part_spec(0, Some(2), 1))],
           vec![Append(0, 1), Append(0, 1), Confirm(0, 3)]),
        // two streams interleaved in one partition
        sc("stream-from0", 1024, vec![Append(0, 1), Append(0, 2), Append(0, 1), Confirm(0, 2), Bsend, Subscribe(stream_spec(0, 1, Some(0), 1))],
           vec![Confirm(0, 3), Append(0, 1), Confirm(0, 4)]),
        sc("stream-latest", 1024, vec![Append(0, 1), Append(0, 2), Confirm(0, 2), Bsend],
           vec![Subscribe(stream_spec(0, 1, None, 2)), Append(0, 1), Confirm(0, 3)]),
        // multi-partition: explicit + LATEST
        sc("parts-mixed", 1024, vec![Append(0, 1), Append(1, 1), Append(1, 1), Confirm(0, 1), Bsend, Confirm(1, 1), Bsend,
               Subscribe(parts(vec![(Key::Part(0), Some(0)), (Key::Part(1), None)], 3, 0))],
           vec![Confirm(1, 2), Append(0, 1), Confirm(0, 2)]),
        sc("parts-all", 1024, vec![Append(0, 1), Append(1, 1), Append(2, 1), Confirm(0, 1), Bsend, Confirm(1, 1), Bsend,
               Subscribe(parts(vec![(Key::Part(0), Some(0)), (Key::Part(1), Some(0)), (Key::Part(2), Some(0))], 2, 4))],
           vec![Confirm(2, 1), Append(1, 1), Confirm(1, 2)]),
        // the AllPartitions MATCHER with an explicit per-partition map (form 3) and with map + fallback (form 5):
        // several live events per partition after the history
        sc("parts-all-map", 1024, vec![Append(0, 1), Append(1, 1), Append(2, 1), Confirm(0, 1), Bsend, Confirm(1, 1), Bsend,
               Subscribe(parts(vec![(Key::Part(0), Some(0)), (Key::Part(1), Some(0)), (Key::Part(2), Some(0))], 3, 3))],
           vec![Confirm(2, 1), Append(1, 1), Confirm(1, 2), Append(1, 1), Confirm(1, 3)]),
        sc("parts-all-fallback", 1024, vec![Append(0, 1), Append(1, 1), Append(2, 1), Confirm(0, 1), Bsend, Confirm(1, 1), Bsend,
               Subscribe(parts(vec![(Key::Part(0), Some(0)), (Key::Part(1), Some(0)), (Key::Part(2), Some(0))], 3, 5))],
           vec![Confirm(2, 1), Append(1, 1), Confirm(1, 2), Append(0, 1), Confirm(0, 2)]),
        // AllPartitions(n) on a node whose partitions hold exactly n events: the very first delivery is a LIVE event at the start position
        sc("parts-all-empty", 1024, vec![Subscribe(parts(vec![(Key::Part(0), Some(0)), (Key::Part(1), Some(0)), (Key::Part(2), Some(0))], 3, 4))],
           vec![Append(0, 1), Confirm(0, 1), Append(0, 1), Confirm(0, 2)]),
        sc("parts-all-at-head", 1024, vec![Append(0, 1), Append(1, 1), Append(2, 1), Confirm(0, 1), Bsend, Confirm(1, 1), Bsend, Confirm(2, 1), Bsend,
               Subscribe(parts(vec![(Key::Part(0), Some(1)), (Key::Part(1), Some(1)), (Key::Part(2), Some(1))], 3, 4))],
           vec![Append(1, 1), Confirm(1, 2), Append(1, 1), Confirm(1, 3)]),
        sc("streams-mixed", 1024, vec![Append(0, 1), Append(0, 2), Append(1, 1), Confirm(0, 2), Bsend, Bsend,
               Subscribe(streams(vec![(Key::Stream(0, 1), Some(0)), (Key::Stream(0, 2), None), (Key::Stream(1, 1), Some(0))], 2, 0))],
           vec![Confirm(1, 1), Append(0, 2), Confirm(0, 3)]),
        // a ring of one slot: lag during history and in the live loop
        sc("part-lag", 1, vec![Append(0, 1), Append(0, 1), Append(0, 1), Confirm(0, 1), Bsend, Subscribe(part_spec(0, Some(0), 1000))],
           vec![Confirm(0, 3), Append(0, 1), Confirm(0, 4)]),
        sc("stream-latest-lag", 2, vec![Append(0, 1), Append(0, 1), Append(0, 1), Append(0, 1), Subscribe(stream_spec(0, 1, None, 1000))],
           vec![Confirm(0, 3), Confirm(0, 4)]),
        sc("part-latest-lag", 2, vec![Append(0, 1), Append(0, 1), Append(0, 1), Append(0, 1), Subscribe(part_spec(0, None, 1000))],
           vec![Confirm(0, 3), Confirm(0, 4)]),
        sc("parts-latest-lag", 2, vec![Append(0, 1), Append(1, 1), Append(1, 1), Append(1, 1), Confirm(0, 1), Bsend,
               Subscribe(parts(vec![(Key::Part(0), Some(0)), (Key::Part(1), None)], 1000, 0))],
           vec![Confirm(1, 3), Append(0, 1), Confirm(0, 2)]),
        // another listener keeps the broadcaster's cursor moving before we subscribe; replica-path advance
        sc("other-listener", 1024, vec![OtherOn, Append(0, 1), Append(0, 1), Confirm(0, 1), Bsend, OtherOff],
           vec![Subscribe(part_spec(0, Some(0), 1)), Advance(0, 2), Append(0, 1), Confirm(0, 3)]),
    ]
}

fn rand_spec(rng: &mut Rng, lens: &[u64; NP as usize]) -> SubSpec {
    let window = *rng.pick(&[0u64, 1, 1, 2, 3, 1000, 1000]);
    let from = |rng: &mut Rng, hi: u64| -> Option<u64> { if rng.chance(1, 3) { None } else { Some(rng.below(hi + 2)) } };
    let form = rng.below(12);
    match rng.below(4) {
        0 => { let p = rng.below(NP as u64) as u16; part_spec(p, from(rng, lens[p as usize]), window) }
        1 => {
            let mut ps: Vec<u16> = (0..NP).collect(); let n = rng.range(1, NP as u64) as usize;
            while ps.len() > n { let i = rng.below(ps.len() as u64) as usize; ps.remove(i); }
            let same = if rng.chance(1, 3) { Some(from(rng, 2)) } else { None };
            SubSpec { kind: Kind::Parts, keys: ps.iter().map(|p| (Key::Part(*p), same.unwrap_or_else(|| from(rng, lens[*p as usize])))).collect(), window, form }
        }
        2 => { let p = rng.below(NP as u64) as u16; stream_spec(p, rng.range(1, 2), from(rng, lens[p as usize] / 2), window) }
        _ => {
            let mut ks: Vec<Key> = vec![]; let n = rng.range(1, 3);
            while (ks.len() as u64) < n { let k = Key::Stream(rng.below(2) as u16, rng.range(1, 2)); if !ks.contains(&k) { ks.push(k); } }
            let same = if rng.chance(1, 3) { Some(from(rng, 1)) } else { None };
            SubSpec { kind: Kind::Streams, keys: ks.iter().map(|k| (*k, same.unwrap_or_else(|| from(rng, lens[k.pid() as usize] / 2)))).collect(), window, form }
        }
    }
}

/// random environment action given the current lengths / watermarks
fn rand_env(rng: &mut Rng, lens: &mut [u64; NP as usize], wms: &mut [u64; NP as usize], other: &mut bool) -> Act {
    let p = if rng.chance(3, 4) { rng.below(2) as u16 } else { rng.below(NP as u64) as u16 };
    let pi = p as usize;
    match rng.below(10) {
        0..=3 => { lens[pi] += 1; Act::Append(p, rng.range(1, 2)) }
        4..=7 if wms[pi] < lens[pi] => { let n = rng.range(wms[pi] + 1, lens[pi]); wms[pi] = n; if rng.chance(1, 5) { Act::Advance(p, n) } else { Act::Confirm(p, n) } }
        8 => { *other = !*other; if *other { Act::OtherOn } else { Act::OtherOff } }
        _ => { lens[pi] += 1; Act::Append(p, rng.range(1, 2)) }
    }
}

/// a random scenario: random prefix, a subscription somewhere, a short writer script
pub fn rand_scenario(rng: &mut Rng, long: bool) -> Scenario {
    let (mut lens, mut wms, mut other) = ([0u64; NP as usize], [0u64; NP as usize], false);
    let cap = *rng.pick(&[1usize, 2, 4, 1024, 1024, 1024]);
    let mut setup = vec![];
    if long {
        // more than one history batch (DEFAULT_BATCH_SIZE = 50) in partition 0
        let n = rng.range(51, 110);
        for _ in 0..n { lens[0] += 1; setup.push(Act::Append(0, if rng.chance(1, 6) { 2 } else { 1 })); }
        if rng.chance(2, 3) { other = true; setup.push(Act::OtherOn); }
        let w = rng.range(1, n); wms[0] = w; setup.push(Act::Confirm(0, w));
        for _ in 0..w { setup.push(Act::Bsend); }
        if other && rng.chance(1, 2) { other = false; setup.push(Act::OtherOff); }
    }
    for _ in 0..rng.below(7) { let a = rand_env(rng, &mut lens, &mut wms, &mut other); let c = matches!(a, Act::Confirm(..)); setup.push(a); if c { for _ in 0..8 { setup.push(Act::Bsend); } } }
    let mut writer = vec![];
    let mut spec = rand_spec(rng, &lens);
    if long { // follow partition 0 / its big stream
        spec = match rng.below(4) { 0 => part_spec(0, Some(rng.below(lens[0])), spec.window.max(1)), 1 => stream_spec(0, 1, Some(rng.below(lens[0] / 2)), spec.window.max(1)),
            2 => SubSpec { kind: Kind::Parts, keys: vec![(Key::Part(0), Some(rng.below(lens[0]))), (Key::Part(1), Some(0))], window: spec.window.max(1), form: spec.form },
            _ => SubSpec { kind: Kind::Streams, keys: vec![(Key::Stream(0, 1), Some(rng.below(lens[0] / 2))), (Key::Stream(0, 2), Some(0))], window: spec.window.max(1), form: spec.form } };
    }
    if rng.chance(1, 2) { setup.push(Act::Subscribe(spec)); } else { writer.push(Act::Subscribe(spec)); }
    let n = if long { rng.range(3, 10) } else { rng.range(2, 5) };
    for _ in 0..n { writer.push(rand_env(rng, &mut lens, &mut wms, &mut other)); }
    if writer.len() > 1 && rng.chance(1, 2) { let i = rng.below(writer.len() as u64) as usize; let a = writer.remove(0); writer.insert(i, a); }
    Scenario { name: if long { "random-long" } else { "random" }, cap, setup, writer, acks: if long { 200 } else { 3 }, probes: 1 }
}

pub fn parse_key(t: &str) -> Option<Key> {
    match t.split_once('/') { None => t.parse().ok().map(Key::Part), Some((p, s)) => Some(Key::Stream(p.parse().ok()?, s.parse().ok()?)) }
}
/// an operation line back into an action (replay)
pub fn parse_act(l: &str) -> Option<Act> {
    let t: Vec<&str> = l.split_whitespace().collect();
    if t.first() != Some(&"c09") { return None; }
    Some(match t.get(1).copied()? {
        "append" => Act::Append(t.get(2)?.parse().ok()?, t.get(3)?.parse().ok()?),
        "confirm" => Act::Confirm(t.get(2)?.parse().ok()?, t.get(3)?.parse().ok()?),
        "advance" => Act::Advance(t.get(2)?.parse().ok()?, t.get(3)?.parse().ok()?),
        "bsend" => Act::Bsend,
        "other" => if t.get(2) == Some(&"on") { Act::OtherOn } else { Act::OtherOff },
        "ack" => Act::Ack(t.get(2)?.parse().ok()?),
        "sub" | "probe" => Act::Sub,
        "subscribe" => {
            let kind = match t.get(2).copied()? { "part" => Kind::Part, "parts" => Kind::Parts, "stream" => Kind::Stream, "streams" => Kind::Streams, _ => return None };
            let window = t.get(3)?.parse().ok()?;
            let mut keys = vec![];
            for kt in &t[4..] { let (k, f) = kt.rsplit_once(':')?; keys.push((parse_key(k)?, if f == "L" { None } else { Some(f.parse().ok()?) })); }
            Act::Subscribe(SubSpec { kind, keys, window, form: 0 })
        }
        _ => return None,
    })
}

pub fn run(ctx: &mut Ctx) {
    std::panic::set_hook(Box::new(|info| {
        PANICKED.store(true, std::sync::atomic::Ordering::SeqCst);
        if std::env::var("VH_PANIC").is_ok() { eprintln!("panic: {info}"); }
    }));
    let rt = tokio::runtime::Builder::new_current_thread().enable_all().build().unwrap();
    rt.block_on(async {
        let mut w = world().await;
        if let Some(lines) = ctx.replay.clone() {
            // one or more recorded schedules (each starts with `c09 new N cap`)
            let mut cur: Option<(usize, Vec<Act>)> = None;
            let mut all = vec![];
            for l in &lines {
                if let Some(r) = l.strip_prefix("c09 new ") { if let Some(c) = cur.take() { all.push(c); }
                    cur = Some((r.split_whitespace().next().and_then(|x| x.parse().ok()).unwrap_or(1024), vec![])); }
                else if let (Some(a), Some(c)) = (parse_act(l), cur.as_mut()) { c.1.push(a); }
            }
            if let Some(c) = cur.take() { all.push(c); }
            for (cap, acts) in all { run_script(ctx, &mut w, cap, &acts).await; }
            w.close().await;
            return;
        }
        let t0 = std::time::Instant::now();
        let thorough = ctx.thorough();
        let budget = Duration::from_secs(if thorough { 500 } else { 50 });
        // regression scripts of the two repaired defects
        run_script(ctx, &mut w, 1024, &script_f20()).await;
        run_script(ctx, &mut w, 1024, &script_f19()).await;
        for sc in tiny_scenarios() { explore(ctx, &mut w, &sc, if thorough { 800 } else { 60 }, if thorough { 200 } else { 25 }).await; }
        let mut i = 0u64;
        while t0.elapsed() < budget {
            let long = i % 4 == 3; i += 1;
            let mut rng = Rng(ctx.rng.next());
            let sc = rand_scenario(&mut rng, long);
            ctx.nontrivial(&format!("{:?}", sc));
            explore(ctx, &mut w, &sc, if long { 1 } else { 6 }, if long { 3 } else { 6 }).await;
        }
        w.close().await;
    });
}
