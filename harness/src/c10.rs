//! C10 / C11: agreement and durability of acknowledged replicated writes — component-level tie of the
//! protocol model (`lean/SierraModel/Cluster/Protocol.lean`) to the real code.
//!  (a) the replica: a real `PartitionReplicatorActor` on a real `Database` receives `ReplicateWrite`s
//!      of two scripted coordinators (honest re-implementations of `transaction::run` on their own
//!      real databases), catch-up responses built from the coordinators' real commits
//!      (`verif_sync_response` hook), gap detections, restarts; after every message its log (with
//!      counts), buffer, `next` and replies are compared with the model's node (`c10 …` driver ops);
//!  (b) `ConfirmTransaction` as a local message to the real `ClusterActor` sharing that database;
//!  (c) the coordinator at its locally reachable boundaries: `ExecuteTransaction` on the real
//!      single-node `ClusterActor` (rf = 1) and `run` with rf = 3 and no reachable replica.
//! Oracles are evaluated on the real databases only (independent of the model).
use crate::util::*;
#[path = "c10_world.rs"]
mod world;
#[path = "c10_run.rs"]
mod scen;

pub fn run(ctx: &mut Ctx) {
    let rt = tokio::runtime::Builder::new_multi_thread().worker_threads(2).enable_all().build().unwrap();
    rt.block_on(async {
        let mut w = world::world().await;
        if let Some(lines) = ctx.replay.clone() {
            if lines.iter().any(|l| l.starts_with("c10 quorum") || l.starts_with("c10 exec") || l.starts_with("c10 setconf")) { scen::run_coordinator_boundaries(ctx, &mut w).await; }
            else if let Some(ops) = scen::parse_replay(&lines) { scen::run_scenario(ctx, &mut w, &ops).await; }
        } else {
            for ops in scen::scripted() { scen::run_scenario(ctx, &mut w, &ops).await; }
            scen::run_generated(ctx, &mut w).await;
            scen::run_coordinator_boundaries(ctx, &mut w).await;
        }
        w.db.shutdown().await;
        for d in &w.cdb { d.shutdown().await; }
    });
}
