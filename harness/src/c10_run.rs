//! C10/C11 harness, part 2: scenarios (ops), their execution on the real components, the oracles.
use super::world::{self, Replica, Txs, World};
use crate::util::*;
use smallvec::SmallVec;
use std::collections::{BTreeMap, BTreeSet, HashMap};

pub const RF: u64 = 3;
pub const QUORUM: u8 = 2;
/// node ids: scripted coordinators 0 and 1, the real replica 2
pub const ME: u64 = 2;

#[derive(Clone, Debug, PartialEq)]
pub enum Op {
    /// coordinator `k` appends fresh transaction `t` at the end of its own (real) log
    CoStart(usize, u64),
    /// `ReplicateWrite(t)` of coordinator `k` reaches the other coordinator node (its database, `Exact`)
    CoRep(usize, u64),
    /// coordinator `k` persists its count for `t` if it has a quorum of successful appends
    CoCount(usize, u64),
    /// `ReplicateWrite(t, s)` from node `src` is delivered to the real replica
    Rw(u64, u64, u64),
    Gaps,
    /// coordinator `k` answers a `PartitionSyncRequest { from, to }` with watermark `wm`; delivered
    Sync(usize, u64, u64, u64),
    SyncFail,
    /// the replica's node coordinates `t` itself (`run`, rf = 3, no reachable replica)
    Local(u64),
    /// `ConfirmTransaction(t, versions = [s + 1], count)` to the replica's `ClusterActor`
    Confirm(u64, u64, u8),
    Restart,
}

pub fn line(op: &Op) -> String {
    match op {
        Op::CoStart(k, t) => format!("c10 co start {k} {t}"),
        Op::CoRep(k, t) => format!("c10 co rep {k} {t}"),
        Op::CoCount(k, t) => format!("c10 co count {k} {t}"),
        Op::Rw(src, t, s) => format!("c10 rw {src} {t} {s}"),
        Op::Gaps => "c10 gaps".into(),
        Op::Sync(k, f, to, wm) => format!("c10 sync {k} {f} {to} {wm}"),
        Op::SyncFail => "c10 syncfail".into(),
        Op::Local(t) => format!("c10 local {t}"),
        Op::Confirm(t, s, c) => format!("c10 confirm {t} {s} {c}"),
        Op::Restart => "c10 restart".into(),
    }
}

pub fn parse_replay(lines: &[String]) -> Option<Vec<Op>> {
    let mut ops = vec![];
    for l in lines {
        let t: Vec<&str> = l.split_whitespace().collect();
        if t.len() < 2 || t[0] != "c10" { continue; }
        let n = |i: usize| -> Option<u64> { t.get(i)?.parse().ok() };
        let op = match t[1] {
            "co" => match *t.get(2)? { "start" => Op::CoStart(n(3)? as usize, n(4)?), "rep" => Op::CoRep(n(3)? as usize, n(4)?),
                                      "count" => Op::CoCount(n(3)? as usize, n(4)?), _ => return None },
            "rw" => Op::Rw(n(2)?, n(3)?, n(4)?),
            "gaps" => Op::Gaps,
            "sync" => Op::Sync(n(2)? as usize, n(3)?, n(4)?, n(5)?),
            "syncfail" => Op::SyncFail,
            "local" => Op::Local(n(2)?),
            "confirm" => Op::Confirm(n(2)?, n(3)?, n(4)? as u8),
            "restart" => Op::Restart,
            _ => continue,   // "new", "exec", "run3" lines of other parts
        };
        ops.push(op);
    }
    if ops.is_empty() { None } else { Some(ops) }
}

pub struct Run {
    pid: u16,
    pub txs: Txs,
    pub rep: Replica,
    pub hist: Vec<String>,
    /// transaction -> (coordinating node, assigned sequence)
    assign: HashMap<u64, (u64, u64)>,
    /// coordinator-side offsets of the local append (for `set_confirmations`)
    offsets: HashMap<(usize, u64), SmallVec<[u64; 4]>>,
    /// (t, s) the real replica answered `Ok` for
    r_ok: BTreeSet<(u64, u64)>,
    prev_log: Vec<(u64, u64, u8)>,
    failed: BTreeSet<String>,
}

fn show_log(l: &[(u64, u64, u8)]) -> String { l.iter().map(|(_, t, c)| format!("{t}:{c}")).collect::<Vec<_>>().join(",") }

impl Run {
    pub async fn new(ctx: &mut Ctx, w: &mut World) -> Run {
        let pid = w.next_partition; w.next_partition += 1;
        assert!(pid < world::PARTITIONS, "partition budget exhausted");
        let rep = Replica::new(w, pid).await;
        let mut r = Run { pid, txs: Txs::new(pid), rep, hist: vec![], assign: HashMap::new(), offsets: HashMap::new(),
                          r_ok: BTreeSet::new(), prev_log: vec![], failed: BTreeSet::new() };
        let op = format!("c10 new {RF} {ME}");
        r.hist.push(op.clone());
        let d = r.digest(w).await;
        ctx.emit(&op, &format!("out=[] | {d}"));
        r
    }
    fn fail(&mut self, ctx: &mut Ctx, prop: &str, kind: &str, what: String) {
        if !self.failed.insert(kind.to_string()) { return; }
        ctx.stat(&format!("oracle_{kind}"));
        let key = format!("{prop}:{kind} {}", self.hist.iter().map(|l| l.trim_start_matches("c10 ").replace(' ', "_")).collect::<Vec<_>>().join(";"));
        ctx.oracle_fail(&key, &what, &self.hist);
    }
    async fn digest(&mut self, w: &World) -> String {
        let st = self.rep.probe().await;
        let log = world::read_log(&w.db, &self.txs).await;
        let Some(st) = st else { return format!("dead log=[{}]", show_log(&log)); };
        let mut buf: Vec<String> = st.buffered.iter().map(|(k, id, _, m)| format!("{k}:{}:{m}", self.txs.num(id))).collect();
        buf.sort();
        format!("log=[{}] next={} buf=[{}] catching={}", show_log(&log), st.next, buf.join(","), st.catching_up)
    }
    async fn answers(&mut self, ctx: &mut Ctx, w: &World) -> String {
        let ans = self.rep.new_answers().await;
        let log = world::read_log(&w.db, &self.txs).await;
        let mut out = vec![];
        for (src, t, s, ok, at) in ans {
            ctx.stat(if ok { "reply_ok" } else { "reply_err" });
            if ok {
                self.r_ok.insert((t, s));
                // Inv2 on the real replica: `Ok` only if it stores t at s
                let stored = log.iter().any(|(p, tt, _)| *p == s && *tt == t);
                if at != Some(s) || !stored {
                    self.fail(ctx, "C11", "reply-ok-but-not-stored", format!("the replica answered Ok for transaction {t} sent for sequence {s} (applied at {at:?}) but its log does not hold it there: [{}]", show_log(&log)));
                }
            }
            out.push(format!("{src}:{t}:{s}:{ok}"));
        }
        format!("out=[{}]", out.join(","))
    }
    /// the properties on the real databases (replica + the two coordinators' logs)
    async fn oracles(&mut self, ctx: &mut Ctx, w: &World) {
        let rl = world::read_log(&w.db, &self.txs).await;
        let c0 = world::read_log(&w.cdb[0], &self.txs).await;
        let c1 = world::read_log(&w.cdb[1], &self.txs).await;
        let all = [(0u64, &c0), (1, &c1), (2, &rl)];
        // C10: no two different transactions with a quorum count at one sequence
        let mut conf: BTreeMap<u64, BTreeSet<u64>> = BTreeMap::new();
        for (_, l) in all.iter() { for (p, t, c) in l.iter() { if *c >= QUORUM { conf.entry(*p).or_default().insert(*t); } } }
        if let Some((p, ts)) = conf.iter().find(|(_, ts)| ts.len() > 1) {
            let (p, ts) = (*p, ts.clone());
            self.fail(ctx, "C10", "two-confirmed-at-one-sequence", format!("sequence {p} holds the transactions {ts:?} each with a quorum confirmation count (logs tx:count — node0 [{}] node1 [{}] replica [{}])", show_log(&c0), show_log(&c1), show_log(&rl)));
        }
        // C11: a write its coordinator acknowledged (own quorum count persisted) is never superseded:
        // no node carries a quorum count for another transaction at that sequence
        for (k, l) in [(0u64, &c0), (1, &c1)] {
            for (p, t, c) in l.iter() {
                if *c < QUORUM || self.assign.get(t) != Some(&(k, *p)) { continue; }
                for (node, ol) in all.iter() {
                    if let Some((_, t2, c2)) = ol.iter().find(|(pp, tt, cc)| pp == p && tt != t && *cc >= QUORUM) {
                        let (t2, c2, node) = (*t2, *c2, *node);
                        self.fail(ctx, "C11", "acked-write-superseded", format!("coordinator {k} acknowledged transaction {t} at sequence {p} (quorum count {c}) but node {node} stores transaction {t2} there with quorum count {c2} (node0 [{}] node1 [{}] replica [{}])", show_log(&c0), show_log(&c1), show_log(&rl)));
                    }
                }
            }
        }
        // Inv3: a quorum count on the replica is backed by a quorum of copies
        for (p, t, c) in rl.iter() {
            let holders = all.iter().filter(|(_, l)| l.iter().any(|(pp, tt, _)| pp == p && tt == t)).count();
            if *c >= QUORUM && holders < QUORUM as usize {
                self.fail(ctx, "C10", "quorum-count-without-quorum", format!("the replica stores transaction {t} at sequence {p} with confirmation count {c} but only {holders} node(s) store it there (node0 [{}] node1 [{}] replica [{}])", show_log(&c0), show_log(&c1), show_log(&rl)));
            }
        }
        // acceptance rule: every transaction sits at the sequence its coordinator assigned
        for (p, t, _) in rl.iter() {
            match self.assign.get(t) { Some((_, s)) if s == p => {}
                other => { let o = other.copied(); self.fail(ctx, "C10", "replica-applied-at-wrong-sequence", format!("the replica stores transaction {t} at sequence {p}; its coordinator assigned {o:?} (replica log [{}])", show_log(&rl))); } }
        }
        // Inv1 / C11: the replica's log only grows; what it answered Ok for stays; quorum counts stay
        for (i, (p, t, c)) in self.prev_log.clone().iter().enumerate() {
            match rl.get(i) {
                Some((pp, tt, cc)) if pp == p && tt == t && (*c < QUORUM || *cc >= QUORUM) => {}
                other => { let o = other.copied(); self.fail(ctx, "C11", "replica-log-rewritten", format!("the replica's slot {p} held transaction {t} (count {c}) and now holds {o:?}")); }
            }
        }
        for (t, s) in self.r_ok.clone() {
            if !rl.iter().any(|(p, tt, _)| *p == s && *tt == t) {
                self.fail(ctx, "C11", "acked-copy-lost", format!("the replica answered Ok for transaction {t} at sequence {s} and no longer stores it there ([{}])", show_log(&rl)));
            }
        }
        self.prev_log = rl;
    }
    pub async fn step(&mut self, ctx: &mut Ctx, w: &World, op: &Op) {
        let mut l = line(op);
        let res: String = match op {
            Op::CoStart(k, t) => {
                ctx.stat("co_start");
                let tx = self.txs.get(*t);
                if let Ok(a) = w.cdb[*k].append_events(tx).await {
                    self.assign.insert(*t, (*k as u64, a.first_partition_sequence));
                    self.offsets.insert((*k, *t), a.offsets.clone());
                }
                "-".into()
            }
            Op::CoRep(k, t) => {
                if let Some((_, s)) = self.assign.get(t).copied() {
                    let tx = self.txs.get(*t).expected_partition_sequence(world::exact(s));
                    match w.cdb[1 - *k].append_events(tx).await { Ok(_) => ctx.stat("co_rep_ok"), Err(_) => ctx.stat("co_rep_rejected") }
                }
                "-".into()
            }
            Op::CoCount(k, t) => {
                if let (Some((_, s)), Some(offs)) = (self.assign.get(t).copied(), self.offsets.get(&(*k, *t)).cloned()) {
                    let other = world::read_log(&w.cdb[1 - *k], &self.txs).await;
                    let acks = 1 + self.r_ok.contains(&(*t, s)) as u8 + other.iter().any(|(p, tt, _)| *p == s && tt == t) as u8;
                    if acks >= QUORUM {
                        ctx.stat("co_count_quorum");
                        let _ = w.cdb[*k].set_confirmations(self.pid, offs, self.txs.get(*t).transaction_id(), acks).await;
                    } else { ctx.stat("co_count_no_quorum"); }
                }
                "-".into()
            }
            Op::Rw(src, t, s) => {
                ctx.stat("rw");
                let tx = self.txs.get(*t);
                self.rep.replicate(w, *src, *t, *s, tx).await;
                self.answers(ctx, w).await
            }
            Op::Gaps => {
                let before = self.rep.probe().await.map(|s| s.catching_up).unwrap_or(false);
                let after = self.rep.gaps().await.map(|s| s.catching_up).unwrap_or(false);
                let r = if after && !before { ctx.stat("gaps_request"); "req" } else { ctx.stat("gaps_none"); "none" };
                format!("{r} {}", self.answers(ctx, w).await)
            }
            Op::Sync(k, from, to, wm) => {
                let commits = world::serve_sync(&w.cdb[*k], self.pid, *from, *to, *wm).await;
                ctx.stat(&format!("sync_commits_{}", commits.len().min(3)));
                // what the exact-sequence rule has to decide for each commit (generator visibility)
                let before = world::read_log(&w.db, &self.txs).await;
                let mut len = before.len() as u64;
                for c in &commits {
                    let (t, sq) = (self.txs.num(c.transaction_id()), c.first_partition_sequence().unwrap_or(0));
                    if before.iter().any(|(_, tt, _)| *tt == t) { ctx.stat("sync_commit_already_stored_abort"); break; }
                    else if sq == len { ctx.stat(if c.confirmation_count() >= QUORUM { "sync_commit_applies_confirmed" } else { "sync_commit_applies_unconfirmed" }); len += 1; }
                    else if sq < len { ctx.stat("sync_commit_log_advanced_skip"); } else { ctx.stat("sync_commit_log_behind_skip"); }
                }
                l.push_str(&format!(" | {}", commits.len()));
                for c in &commits { l.push_str(&format!(" {} {} {}", self.txs.num(c.transaction_id()), c.first_partition_sequence().unwrap_or(0), c.confirmation_count())); }
                self.rep.sync_response(Some(commits)).await;
                self.answers(ctx, w).await
            }
            Op::SyncFail => { ctx.stat("syncfail"); self.rep.sync_response(None).await; self.answers(ctx, w).await }
            Op::Local(t) => {
                ctx.stat("local");
                let s = world::read_log(&w.db, &self.txs).await.len() as u64;
                let tx = self.txs.get(*t);
                self.assign.insert(*t, (ME, s));
                match world::run_alone(w, &w.db, RF as u8, tx).await {
                    Err(_) => {}
                    Ok((_, n)) => self.fail(ctx, "C11", "ack-without-quorum", format!("run (rf = 3, no reachable replica) reported success with {n} confirmation(s)")),
                }
                self.answers(ctx, w).await
            }
            Op::Confirm(t, s, c) => {
                // honest coordinators only confirm what they counted a quorum for
                let mut counted = !self.assign.contains_key(t);
                for d in w.cdb.iter() { if world::read_log(d, &self.txs).await.iter().any(|(_, tt, cc)| tt == t && *cc >= QUORUM) { counted = true; } }
                if !counted { ctx.stat("confirm_skipped_no_quorum"); self.hist.push(line(op)); ctx.emit("c10 co skip", "-"); return; }
                ctx.stat("confirm");
                let tx = self.txs.get(*t);
                let r = world::confirm(w, self.pid, &tx, *s, *c).await;
                ctx.stat(&format!("confirm_{}", r.split(':').next().unwrap()));
                format!("{r} {}", self.answers(ctx, w).await)
            }
            Op::Restart => { ctx.stat("restart"); self.rep.restart(w, self.pid).await; self.answers(ctx, w).await }
        };
        self.hist.push(line(op));
        if res == "-" { ctx.emit(&l, "-"); } else { let d = self.digest(w).await; ctx.emit(&l, &format!("{res} | {d}")); }
        if self.rep.dead { self.fail(ctx, "C10", "replica-trap", "the replicator actor died".into()); }
        self.oracles(ctx, w).await;
    }
    pub async fn finish(self) { let _ = self.rep.rep.stop_gracefully().await; }
}

pub async fn run_scenario(ctx: &mut Ctx, w: &mut World, ops: &[Op]) {
    let mut r = Run::new(ctx, w).await;
    for op in ops { r.step(ctx, w, op).await; if r.rep.dead { break; } }
    ctx.nontrivial(&r.hist.join(";"));
    ctx.stat("scenarios");
    r.finish().await;
}

/// hand-written scenarios; the first one is finding F22
pub fn scripted() -> Vec<Vec<Op>> {
    use Op::*;
    vec![
        // F22: coordinator 0 confirms 1@0 (with node 1) and starts 3@1; the replica buffers 3, asks for
        // catch-up; meanwhile its own node coordinates 2 (lands at 0); the response re-appends 1
        vec![CoStart(0, 1), CoRep(0, 1), CoCount(0, 1), CoStart(0, 3), Rw(0, 3, 1), Gaps, Local(2), Sync(0, 0, 0, 1),
             CoRep(0, 3), CoCount(0, 3)],
        // in-order replication with duplicates, confirmations (exact, repeated, lower count, unknown tx)
        vec![CoStart(0, 1), Rw(0, 1, 0), Rw(0, 1, 0), CoCount(0, 1), Confirm(1, 0, 2), CoStart(0, 2), Rw(0, 2, 1), CoRep(0, 2),
             CoCount(0, 2), Confirm(2, 1, 3), Confirm(2, 1, 2), Confirm(9, 0, 2), Confirm(1, 5, 2)],
        // two coordinators race for sequence 0; the loser's write is rejected by the replica
        vec![CoStart(0, 1), CoStart(1, 2), Rw(1, 2, 0), Rw(0, 1, 0), CoCount(1, 2), CoCount(0, 1), Confirm(2, 0, 2), CoRep(0, 1)],
        // catch-up that is still needed: gap, request, response, buffered write drains; late duplicate response
        vec![CoStart(0, 1), CoRep(0, 1), CoCount(0, 1), CoStart(0, 2), CoRep(0, 2), CoCount(0, 2), CoStart(0, 3), Rw(0, 3, 2), Gaps,
             Sync(0, 0, 1, 2), Sync(0, 0, 1, 2), CoCount(0, 3), Confirm(3, 2, 2)],
        // delayed original overtakes the catch-up response; restart drops the buffer; failed catch-up
        vec![CoStart(0, 1), CoRep(0, 1), CoCount(0, 1), CoStart(0, 2), Rw(0, 2, 1), Gaps, Rw(0, 1, 0), Sync(0, 0, 0, 1), Restart,
             CoStart(0, 3), Rw(0, 3, 2), Rw(0, 3, 2), Gaps, SyncFail, Gaps],
        // two coordinators on divergent views send DIFFERENT transactions for the same sequence while the
        // replica is behind and buffering: the second must be refused (conflict), never merged into the first
        vec![CoStart(0, 1), CoRep(0, 1), CoCount(0, 1), CoStart(0, 2), CoStart(1, 3), Rw(0, 2, 1), Rw(1, 3, 1), Rw(0, 2, 1), Gaps,
             Sync(0, 0, 0, 1), CoCount(0, 2), CoCount(1, 3)],
        // the same with the conflicting write arriving first and a duplicate of it afterwards
        vec![CoStart(0, 1), CoRep(0, 1), CoCount(0, 1), CoStart(0, 2), CoStart(1, 3), Rw(1, 3, 1), Rw(0, 2, 1), Rw(1, 3, 1), Gaps,
             Sync(0, 0, 0, 1), CoCount(1, 3), CoCount(0, 2)],
    ]
}

// ------------------------------------------------------------------------------------------
// generated scenarios: ops are chosen online (the real replica's probe decides catch-up ranges)
// ------------------------------------------------------------------------------------------

/// generator-side bookkeeping of what the scripted coordinators did
#[derive(Default)]
struct Shadow { next_tx: u64, started: Vec<(usize, u64, u64)>, clen: [u64; 2], counted: Vec<(usize, u64, u64)> }

impl Shadow {
    fn fresh(&mut self) -> u64 { self.next_tx += 1; self.next_tx }
    fn start(&mut self, k: usize) -> (u64, u64) { let t = self.fresh(); let s = self.clen[k]; self.clen[k] += 1; self.started.push((k, t, s)); (t, s) }
    /// coordinator k's write reaches the other coordinator node
    fn rep(&mut self, k: usize, s: u64) { if self.clen[1 - k] == s { self.clen[1 - k] += 1; } }
}

async fn sync_range(r: &mut Run) -> (u64, u64) {
    match r.rep.probe().await {
        Some(st) => { let oldest = st.buffered.iter().map(|b| b.0).min();
            match oldest { Some(o) if o > st.next => (st.next, o - 1), _ => (st.next, st.next) } }
        None => (0, 0),
    }
}

/// one abstract symbol expanded into concrete ops against the current state
async fn expand(sym: u8, sh: &mut Shadow, r: &mut Run) -> Vec<Op> {
    let newest0 = sh.started.iter().rev().find(|x| x.0 == 0).copied();
    match sym {
        0 => { let (t, s) = sh.start(0); sh.rep(0, s); sh.counted.push((0, t, s)); vec![Op::CoStart(0, t), Op::CoRep(0, t), Op::CoCount(0, t)] }
        1 => newest0.map(|(_, t, s)| vec![Op::Rw(0, t, s)]).unwrap_or_default(),
        2 => sh.started.iter().find(|x| x.0 == 0).map(|(_, t, s)| vec![Op::Rw(0, *t, *s)]).unwrap_or_default(),
        3 => vec![Op::Gaps],
        4 => { let (f, t) = sync_range(r).await; vec![Op::Sync(0, f, t, sh.counted.iter().filter(|c| c.0 == 0).count() as u64)] }
        5 => { let t = sh.fresh(); vec![Op::Local(t)] }
        6 => vec![Op::Restart],
        7 => { let (t, s) = sh.start(1); vec![Op::CoStart(1, t), Op::Rw(1, t, s)] }
        _ => newest0.map(|(_, t, s)| vec![Op::CoCount(0, t), Op::Confirm(t, s, 2)]).unwrap_or_default(),
    }
}
const SYMS: u8 = 9;

async fn run_symbols(ctx: &mut Ctx, w: &mut World, syms: &[u8]) {
    let mut r = Run::new(ctx, w).await;
    let mut sh = Shadow::default();
    for s in syms { for op in expand(*s, &mut sh, &mut r).await { r.step(ctx, w, &op).await; } if r.rep.dead { break; } }
    ctx.nontrivial(&r.hist.join(";"));
    ctx.stat("scenarios");
    r.finish().await;
}

async fn run_random(ctx: &mut Ctx, w: &mut World, len: u64) {
    let mut r = Run::new(ctx, w).await;
    let mut sh = Shadow::default();
    for _ in 0..len {
        // a gap in the real replica's buffer: often drive the catch-up path with real confirmed commits
        if let Some(st) = r.rep.probe().await {
            if let Some((okey, oid, ..)) = st.buffered.iter().min_by_key(|b| b.0).cloned() {
                if okey > st.next && ctx.rng.chance(1, 2) {
                    let ot = r.txs.num(&oid);
                    let k = sh.started.iter().find(|x| x.1 == ot).map(|x| x.0).unwrap_or(0);
                    let mut ops = vec![];
                    if ctx.rng.chance(2, 3) {
                        for (kk, t, sq) in sh.started.clone() { if kk == k && sq < okey { sh.rep(k, sq); sh.counted.push((k, t, sq)); ops.push(Op::CoRep(k, t)); ops.push(Op::CoCount(k, t)); } }
                    }
                    if ctx.rng.chance(1, 2) { ops.push(Op::Gaps); }
                    if ctx.rng.chance(1, 4) { let t = sh.fresh(); ops.push(Op::Local(t)); }
                    ops.push(Op::Sync(k, st.next, okey - 1, okey));
                    for op in ops { r.step(ctx, w, &op).await; }
                    continue;
                }
            }
        }
        let pick = ctx.rng.below(100);
        let any = if sh.started.is_empty() { None } else { Some(*ctx.rng.pick(&sh.started)) };
        let ops: Vec<Op> = match pick {
            0..=14 => { let k = ctx.rng.below(2) as usize; let (t, _) = sh.start(k); vec![Op::CoStart(k, t)] }
            15..=44 => match any { Some((k, t, s)) => vec![Op::Rw(k as u64, t, s)], None => vec![] },
            45..=54 => match any { Some((k, t, s)) => { sh.rep(k, s); vec![Op::CoRep(k, t)] } None => vec![] },
            55..=66 => match any { Some((k, t, s)) => { sh.counted.push((k, t, s)); vec![Op::CoCount(k, t)] } None => vec![] },
            67..=74 => match any { Some((_, t, s)) => { let s2 = if ctx.rng.chance(1, 6) { s + 1 } else { s }; vec![Op::Confirm(t, s2, *ctx.rng.pick(&[2u8, 2, 3])) ] } None => vec![Op::Confirm(999, 0, 2)] },
            75..=80 => vec![Op::Gaps],
            81..=90 => { let (f, t) = sync_range(&mut r).await; let k = ctx.rng.below(2) as usize;
                         let (f, t) = match ctx.rng.below(6) { 0 => (0, f + ctx.rng.below(3)), 1 => (f + 1, t + 2), _ => (f, t) };
                         vec![Op::Sync(k, f, t, ctx.rng.below(sh.clen[k] + 2))] }
            91..=94 => { let t = sh.fresh(); vec![Op::Local(t)] }
            95..=97 => vec![Op::Restart],
            _ => vec![Op::SyncFail],
        };
        for op in ops { r.step(ctx, w, &op).await; }
        if r.rep.dead { break; }
    }
    ctx.nontrivial(&r.hist.join(";"));
    ctx.stat("scenarios");
    r.finish().await;
}

pub async fn run_generated(ctx: &mut Ctx, w: &mut World) {
    // exhaustive: every sequence of abstract symbols up to length 3
    let mut seqs: Vec<Vec<u8>> = vec![];
    for a in 0..SYMS { seqs.push(vec![a]); for b in 0..SYMS { seqs.push(vec![a, b]); for c in 0..SYMS { seqs.push(vec![a, b, c]); } } }
    for s in seqs.iter() { run_symbols(ctx, w, s).await; ctx.stat("exhaustive_sequences"); }
    // thorough: PRNG symbol sequences of length 4-6 on top
    if ctx.thorough() {
        for _ in 0..2000 { let len = ctx.rng.range(4, 6); let s: Vec<u8> = (0..len).map(|_| ctx.rng.below(SYMS as u64) as u8).collect();
                           run_symbols(ctx, w, &s).await; ctx.stat("sampled_sequences"); }
    }
    let n = if ctx.thorough() { 1200 } else { 120 };
    for _ in 0..n { let len = ctx.rng.range(6, if ctx.thorough() { 40 } else { 24 }); run_random(ctx, w, len).await; ctx.stat("random_scenarios"); }
}

// ------------------------------------------------------------------------------------------
// (c) the coordinator at its locally reachable boundaries
// ------------------------------------------------------------------------------------------
pub async fn run_coordinator_boundaries(ctx: &mut Ctx, w: &mut World) {
    let n = if ctx.thorough() { 60 } else { 12 };
    for i in 0..n {
        // rf = 1: the real ClusterActor is the only replica; every ack must be stored with a quorum (1) count
        let pid = w.next_partition; w.next_partition += 1;
        let mut txs = Txs::new(pid);
        let mut hist = vec!["c10 new 1 0".to_string()];
        ctx.emit("c10 new 1 0", "out=[] | log=[] next=0 buf=[] catching=false");
        let writes = 1 + i % 4;
        for t in 1..=writes as u64 {
            let op = format!("c10 exec {t}");
            hist.push(op.clone());
            let res = world::execute(w, txs.get(t)).await;
            let log = world::read_log(&w.db, &txs).await;
            let line = match &res { Ok(a) => format!("ack:{}", a.first_partition_sequence), Err(e) => format!("err:{}", e.replace(' ', "_")) };
            ctx.stat(if res.is_ok() { "exec_ack" } else { "exec_err" });
            if let Ok(a) = &res {
                let s = a.first_partition_sequence;
                if !log.iter().any(|(p, tt, c)| *p == s && *tt == t && *c >= 1) {
                    ctx.stat("oracle_acked-write-not-confirmed");
                    ctx.oracle_fail(&format!("C11:acked-write-not-confirmed {}", hist.join(";").replace(' ', "_")),
                        &format!("ExecuteTransaction (rf = 1) acknowledged transaction {t} at sequence {s} but the log is [{}]", show_log(&log)), &hist);
                }
            }
            ctx.emit(&op, &format!("{line} | log=[{}]", show_log(&log)));
        }
        ctx.stat("boundary_rf1");
    }
    // the coordinator acknowledges only after its confirmation count is stored: when every attempt
    // to store it fails, set_confirmations_with_retry must fail too (and leave the count unchanged);
    // with the right arguments it stores the count
    {
        let pid = w.next_partition; w.next_partition += 1;
        let mut txs = Txs::new(pid);
        let tx = txs.get(1); let txid = tx.transaction_id();
        if let Ok(app) = w.db.append_events(tx).await {
            let wrong = uuid::Uuid::from_u128(txid.as_u128() ^ (1 << 40));
            let r1 = sierradb_cluster::write::transaction::set_confirmations_with_retry(&w.db, pid, app.offsets.clone(), wrong, 2).await;
            let c1 = world::read_log(&w.db, &txs).await.first().map(|x| x.2).unwrap_or(255);
            if r1.is_ok() || c1 != 0 {
                ctx.oracle_fail("C11:confirmation-retry", &format!("storing the confirmation count failed on every attempt (wrong transaction id) but set_confirmations_with_retry returned {} and the stored count is {c1}: the write would be acknowledged without its count", if r1.is_ok() { "Ok" } else { "Err" }), &["c10 setconf".to_string()]);
            }
            let r2 = sierradb_cluster::write::transaction::set_confirmations_with_retry(&w.db, pid, app.offsets.clone(), txid, 2).await;
            let c2 = world::read_log(&w.db, &txs).await.first().map(|x| x.2).unwrap_or(255);
            if r2.is_err() || c2 != 2 { ctx.oracle_fail("C11:confirmation-store", &format!("set_confirmations_with_retry with the right arguments returned {:?}, stored count {c2}", r2.map_err(|e| e.to_string())), &["c10 setconf".to_string()]); }
            ctx.stat("boundary_confirmation_retry");
        }
    }
    // confirmation counts of transactions that live in SEALED segments: the count is looked up at
    // the transaction's offsets in every segment, newest first; the same offset in a newer segment
    // holds another record (first event) or the middle of one (second event)
    {
        let dir = tempfile::tempdir().unwrap();
        let db = sierradb::database::DatabaseBuilder::new().segment_size_bytes(128 * 1024).total_buckets(1).bucket_ids_from_range(0..1)
            .writer_threads(1).reader_threads(1).compression(false).open(dir.path()).expect("open database");
        let pid = 0u16; let mut txs = Txs::new(pid);
        let (a, b) = (txs.get(1), txs.get(2));
        let (ida, idb) = (a.transaction_id(), b.transaction_id());
        let ra = db.append_events(a).await; let rb = db.append_events(b).await;
        let mut rolled = 0;
        for t in 3..40u64 {
            let big = txs.get_with_payload(t, 20_000);
            if let Ok(r) = db.append_events(big).await { if r.offsets.first() == Some(&48) { rolled += 1; if rolled == 2 { break; } } }
        }
        if let (Ok(ra), Ok(rb)) = (ra, rb) {
            for (name, id, offs, want) in [("first", ida, ra.offsets.clone(), 2u8), ("second", idb, rb.offsets.clone(), 3u8)] {
                let r = sierradb_cluster::write::transaction::set_confirmations_with_retry(&db, pid, offs.clone(), id, want).await;
                let log = world::read_log(&db, &txs).await;
                let stored = log.iter().find(|x| x.1 == if name == "first" { 1 } else { 2 }).map(|x| x.2);
                // what C11 needs: a reported success means the count IS stored (the acknowledgement follows it);
                // a failure must leave the count unchanged.  (That the update FAILS for a sealed-segment
                // transaction whose offset is not a record boundary of a newer segment is a defect outside
                // the listed properties: the write is then not acknowledged. Counted, see DESIGN 10.2e.)
                match (&r, stored) {
                    (Ok(()), s) if s != Some(want) => ctx.oracle_fail(&format!("C11:confirmation-sealed {name}"), &format!("set_confirmations_with_retry reported success for the {name} transaction of a sealed segment (offsets {offs:?}) but the stored count is {s:?}, not {want}"), &["c10 setconf".to_string()]),
                    (Err(_), s) if s != Some(0) => ctx.oracle_fail(&format!("C11:confirmation-sealed {name}"), &format!("set_confirmations_with_retry failed for the {name} transaction of a sealed segment but changed its stored count to {s:?}"), &["c10 setconf".to_string()]),
                    (Err(_), _) => ctx.stat("boundary_confirmation_sealed_update_failed"),
                    _ => ctx.stat("boundary_confirmation_sealed_update_ok"),
                }
            }
            ctx.stat("boundary_confirmation_sealed_segment");
        }
        db.shutdown().await;
    }
    // the coordinator's quorum arithmetic for EVERY replication factor: `run` with no reachable
    // replica holds exactly one copy (its own), so it may acknowledge iff rf/2+1 <= 1, and the
    // quorum it reports must be rf/2+1 (compared with the model's `quorum`)
    for rf in 1..=12u8 {
        let pid = w.next_partition; w.next_partition += 1;
        let mut txs = Txs::new(pid);
        let op = format!("c10 quorum {rf}");
        let res = world::run_alone(w, &w.db, rf, txs.get(1)).await;
        let need = rf as u64 / 2 + 1;
        let line = match &res {
            Ok((_, n)) => format!("ack {n}"),
            Err(e) => match e.split("required: ").nth(1).and_then(|x| x.split(|c: char| !c.is_ascii_digit()).next()).and_then(|x| x.parse::<u64>().ok()) {
                Some(q) if e.contains("ReplicationQuorumFailed") => format!("noquorum {q}"),
                _ => format!("err:{}", e.replace(' ', "_").chars().take(80).collect::<String>()),
            },
        };
        ctx.stat("boundary_quorum_rf");
        let ok = if need <= 1 { line.starts_with("ack") } else { line == format!("noquorum {need}") };
        if !ok {
            ctx.oracle_fail(&format!("C11:coordinator-quorum rf={rf}"), &format!("run with replication factor {rf} and no reachable replica (1 copy, a quorum is {need}) answered `{line}`"), &[op.clone()]);
        }
        ctx.emit(&op, &line);
    }
}
