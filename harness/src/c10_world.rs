//! C10/C11 harness, part 1: the real components.  One real single-node `ClusterActor` (rf = 1, owns
//! every partition; it serves `ExecuteTransaction` and `ConfirmTransaction`) sharing the replica's
//! real `Database`; per scenario a real `PartitionReplicatorActor` spawned on that database (the
//! replica under test, node 2 of a 3-node replica set); two more real `Database`s are the logs of the
//! scripted coordinators (nodes 0 and 1): their commits are read back as `CommittedEvents` to build
//! catch-up responses exactly as `PartitionSyncRequest`'s handler does.
use futures::FutureExt;
use kameo::actor::{ActorRef, RemoteActorRef, Spawn};
use kameo::error::SendError;
use kameo::request::PendingReply;
use sierradb::bucket::segment::CommittedEvents;
use sierradb::database::{Database, DatabaseBuilder, ExpectedVersion, NewEvent, Transaction};
use sierradb::id::{uuid_to_partition_hash, uuid_v7_with_partition_hash};
use sierradb::writer_thread_pool::AppendResult;
use sierradb::{IterDirection, StreamId};
use sierradb_cluster::confirmation::actor::ConfirmationActor;
use sierradb_cluster::write::confirm::ConfirmTransaction;
use sierradb_cluster::write::error::{ConfirmTransactionError, WriteError};
use sierradb_cluster::write::execute::ExecuteTransaction;
use sierradb_cluster::write::replicate::verif::{verif_sync_response, BufferState, DetectGaps, Probe};
use sierradb_cluster::write::replicate::{PartitionReplicatorActor, PartitionReplicatorActorArgs, ReplicateWrite};
use sierradb_cluster::write::transaction::verif_run;
use sierradb_cluster::{ClusterActor, ClusterArgs};
use smallvec::SmallVec;
use std::collections::HashMap;
use std::time::Duration;
use uuid::Uuid;

pub const PARTITIONS: u16 = 8192;
type Pending = PendingReply<ReplicateWrite, kameo::reply::DelegatedReply<Result<AppendResult, WriteError>>>;

pub struct World {
    pub cluster: ActorRef<ClusterActor>,
    pub coord: RemoteActorRef<ClusterActor>,
    pub db: Database,
    pub cdb: Vec<Database>,
    pub confirmation: ActorRef<ConfirmationActor>,
    pub next_partition: u16,
    _dirs: Vec<tempfile::TempDir>,
}

fn open_db(dir: &tempfile::TempDir) -> Database {
    DatabaseBuilder::new().total_buckets(4).bucket_ids_from_range(0..4).writer_threads(2).reader_threads(2)
        .open(dir.path()).expect("open database")
}

pub async fn world() -> World {
    let dirs: Vec<tempfile::TempDir> = (0..3).map(|_| tempfile::tempdir().unwrap()).collect();
    let db = open_db(&dirs[0]);
    let cdb = vec![open_db(&dirs[1]), open_db(&dirs[2])];
    let cluster = ClusterActor::spawn(ClusterArgs {
        keypair: libp2p::identity::Keypair::generate_ed25519(),
        database: db.clone(),
        listen_addrs: vec![],
        node_count: 1,
        node_index: 0,
        bucket_count: 4,
        partition_count: PARTITIONS,
        replication_factor: 1,
        assigned_partitions: (0..PARTITIONS).collect(),
        heartbeat_timeout: Duration::from_secs(1_000_000),
        heartbeat_interval: Duration::from_secs(1_000_000),
        replication_buffer_size: 1000,
        replication_buffer_timeout: Duration::from_secs(1_000_000),
        replication_catchup_timeout: Duration::from_secs(1_000_000),
        mdns: false,
    });
    cluster.wait_for_startup().await;
    // the coordinator reference carried by ReplicateWrite: a prepared, never started actor — catch-up
    // requests sent to it are never answered (responses are injected with the verif hook instead)
    let prepared = ClusterActor::prepare();
    let coord = prepared.actor_ref().clone().into_remote_ref().await;
    std::mem::forget(prepared);
    let conf = ConfirmationActor::new(db.clone(), 3, (0..PARTITIONS).collect()).await.expect("confirmation actor");
    let confirmation = ConfirmationActor::spawn(conf);
    World { cluster, coord, db, cdb, confirmation, next_partition: 0, _dirs: dirs }
}

/// transactions of one scenario: model number -> real single-event transaction
pub struct Txs { pub pid: u16, pub by_num: HashMap<u64, Transaction>, pub num_of: HashMap<Uuid, u64> }

impl Txs {
    pub fn new(pid: u16) -> Txs { Txs { pid, by_num: HashMap::new(), num_of: HashMap::new() } }
    /// the transaction `t` (created on first use; every transaction writes its own stream)
    /// like `get`, with a payload of `plen` bytes (fillers that roll segments over)
    pub fn get_with_payload(&mut self, t: u64, plen: usize) -> Transaction {
        let pk = Uuid::new_v4();
        let ev = NewEvent {
            event_id: uuid_v7_with_partition_hash(uuid_to_partition_hash(pk)),
            stream_id: StreamId::new(format!("p{}-t{t}", self.pid)).unwrap(),
            stream_version: ExpectedVersion::Any, event_name: "e".into(), timestamp: 1_700_000_000_000_000_000,
            metadata: vec![], payload: vec![t as u8; plen],
        };
        let mut evs: SmallVec<[NewEvent; 4]> = SmallVec::new(); evs.push(ev);
        let x = Transaction::new(pk, self.pid, evs).unwrap();
        self.num_of.insert(x.transaction_id(), t);
        self.by_num.insert(t, x.clone());
        x
    }
    pub fn get(&mut self, t: u64) -> Transaction {
        if let Some(x) = self.by_num.get(&t) { return x.clone(); }
        let pk = Uuid::new_v4();
        let ev = NewEvent {
            event_id: uuid_v7_with_partition_hash(uuid_to_partition_hash(pk)),
            stream_id: StreamId::new(format!("p{}-t{t}", self.pid)).unwrap(),
            stream_version: ExpectedVersion::Any, event_name: "e".into(), timestamp: 1_700_000_000_000_000_000,
            metadata: vec![], payload: vec![t as u8],
        };
        let mut evs: SmallVec<[NewEvent; 4]> = SmallVec::new(); evs.push(ev);
        let x = Transaction::new(pk, self.pid, evs).unwrap();
        self.num_of.insert(x.transaction_id(), t);
        self.by_num.insert(t, x.clone());
        x
    }
    pub fn num(&self, id: &Uuid) -> u64 { self.num_of.get(id).copied().unwrap_or(999_999) }
}

pub fn exact(s: u64) -> ExpectedVersion { if s == 0 { ExpectedVersion::Empty } else { ExpectedVersion::Exact(s - 1) } }

/// the partition log of a database: (sequence, transaction number, confirmation count)
pub async fn read_log(db: &Database, txs: &Txs) -> Vec<(u64, u64, u8)> {
    let mut out = vec![];
    if let Ok(mut it) = db.read_partition(txs.pid, 0, IterDirection::Forward).await {
        while let Ok(Some(batch)) = it.next_batch(64).await {
            for c in batch {
                let Some(first) = c.first_partition_sequence() else { continue };
                out.push((first, txs.num(c.transaction_id()), c.confirmation_count()));
            }
        }
    }
    out.sort();
    out
}

/// the commits a coordinator serves for `PartitionSyncRequest { from, to }` with watermark `wm`
/// (same selection as the handler in replicate.rs: first sequence < watermark and <= to)
pub async fn serve_sync(db: &Database, pid: u16, from: u64, to: u64, wm: u64) -> Vec<CommittedEvents> {
    let mut out = vec![];
    if let Ok(mut it) = db.read_partition(pid, from, IterDirection::Forward).await {
        'outer: while let Ok(Some(batch)) = it.next_batch(64).await {
            for c in batch {
                let Some(first) = c.first_partition_sequence() else { continue };
                if first >= wm || first > to { break 'outer; }
                out.push(c);
            }
        }
    }
    out
}

pub struct Ask { pub src: u64, pub t: u64, pub s: u64, pending: Option<Pending>, pub answer: Option<Result<(u64, u64), String>>, reported: bool }

/// the replica under test: a real `PartitionReplicatorActor` on the real database `w.db`
pub struct Replica { pub rep: ActorRef<PartitionReplicatorActor>, pub asks: Vec<Ask>, pub dead: bool }

fn classify(r: Result<AppendResult, SendError<ReplicateWrite, WriteError>>) -> Result<(u64, u64), String> {
    match r {
        Ok(ap) => Ok((ap.first_partition_sequence, ap.last_partition_sequence)),
        Err(SendError::HandlerError(e)) => Err(format!("{e:?}")),
        Err(e) => Err(format!("dropped:{e:?}")),
    }
}

fn spawn_rep(w: &World, pid: u16) -> ActorRef<PartitionReplicatorActor> {
    PartitionReplicatorActor::spawn(PartitionReplicatorActorArgs {
        partition_id: pid, database: w.db.clone(), confirmation_ref: w.confirmation.clone(),
        buffer_size: 1000, buffer_timeout: Duration::from_secs(1_000_000), catchup_timeout: Duration::from_secs(1_000_000),
    })
}

impl Replica {
    pub async fn new(w: &World, pid: u16) -> Replica {
        let rep = spawn_rep(w, pid); rep.wait_for_startup().await;
        Replica { rep, asks: vec![], dead: false }
    }
    /// crash + restart of the node's memory: the actor is stopped (buffer, reply senders lost) and a
    /// new one started on the same database
    pub async fn restart(&mut self, w: &World, pid: u16) {
        let _ = self.rep.stop_gracefully().await; self.rep.wait_for_shutdown().await;
        // every ask still buffered in the stopped actor fails on the asker's side
        for a in self.asks.iter_mut() {
            if let Some(p) = a.pending.take() {
                a.answer = Some(match tokio::time::timeout(Duration::from_secs(5), p).await { Ok(r) => classify(r), Err(_) => Err("no-answer".into()) });
            }
        }
        self.rep = spawn_rep(w, pid); self.rep.wait_for_startup().await;
    }
    pub async fn probe(&mut self) -> Option<BufferState> {
        match self.rep.ask(Probe).await { Ok(s) => Some(s), Err(_) => { self.dead = true; None } }
    }
    pub async fn replicate(&mut self, w: &World, src: u64, t: u64, s: u64, tx: Transaction) {
        let tx = tx.expected_partition_sequence(exact(s));
        let pending = self.rep.ask(ReplicateWrite { coordinator_ref: w.coord.clone(), coordinator_alive_since: 0, transaction: tx })
            .enqueue().await.ok();
        if pending.is_none() { self.dead = true; }
        self.asks.push(Ask { src, t, s, pending, answer: None, reported: false });
    }
    pub async fn gaps(&mut self) -> Option<BufferState> {
        match self.rep.ask(DetectGaps).await { Ok(s) => Some(s), Err(_) => { self.dead = true; None } }
    }
    pub async fn sync_response(&mut self, commits: Option<Vec<CommittedEvents>>) {
        if !verif_sync_response(&self.rep, commits).await { self.dead = true; }
    }
    /// answers that arrived since the last call: (src, t, s, ok, applied-at)
    pub async fn new_answers(&mut self) -> Vec<(u64, u64, u64, bool, Option<u64>)> {
        let _ = self.probe().await;                       // everything before it in the mailbox is done
        for _ in 0..3 { tokio::task::yield_now().await; }
        let mut out = vec![];
        for a in self.asks.iter_mut() {
            if let Some(p) = a.pending.as_mut() {
                if let Some(r) = p.now_or_never() { a.pending = None; a.answer = Some(classify(r)); }
            }
            if let (false, Some(ans)) = (a.reported, a.answer.as_ref()) {
                a.reported = true;
                out.push((a.src, a.t, a.s, ans.is_ok(), ans.as_ref().ok().map(|x| x.0)));
            }
        }
        out.sort();
        out
    }
}

/// `ConfirmTransaction` as a local message to the real `ClusterActor` owning the handler
pub async fn confirm(w: &World, pid: u16, tx: &Transaction, s: u64, count: u8) -> String {
    let msg = ConfirmTransaction {
        partition_id: pid, transaction_id: tx.transaction_id(),
        event_ids: tx.events().iter().map(|e| e.event_id).collect(),
        confirmation_versions: [s + 1].into_iter().collect(), confirmation_count: count,
    };
    match w.cluster.ask(msg).await {
        Ok(()) => "found".into(),
        Err(SendError::HandlerError(ConfirmTransactionError::TransactionNotFound)) => "notfound".into(),
        Err(SendError::HandlerError(e)) => format!("error:{e:?}").replace(' ', "_"),
        Err(e) => format!("send-error:{e:?}").replace(' ', "_"),
    }
}

/// a client write through the real `ClusterActor` (rf = 1: it is the only replica)
pub async fn execute(w: &World, tx: Transaction) -> Result<AppendResult, String> {
    w.cluster.ask(ExecuteTransaction::new(tx)).await.map_err(|e| format!("{e:?}"))
}

/// the coordinator's `run` with replication factor `rf` and NO reachable replica
pub async fn run_alone(w: &World, db: &Database, rf: u8, tx: Transaction) -> Result<(AppendResult, u8), String> {
    let replicas = sierradb_cluster::ReplicaRefs::new();
    verif_run(db, &w.coord, 0, replicas, rf, tx).await.map_err(|e| format!("{e:?}"))
}
