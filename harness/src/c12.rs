//! C12: replica buffering.  Part 1 drives the REAL `OrderedQueue` (public) the way the replicator
//! uses it (insert / progress_to / pop) plus raw API sequences; part 2 drives the REAL
//! `PartitionReplicatorActor` (spawned locally with a real `Database` and `ConfirmationActor`,
//! paused tokio clock) through `ReplicateWrite` asks and the `verif::{Probe, DetectGaps}` hooks.
//! Every primitive operation is mirrored by the Lean model (`c12 q …` / `c12 r …`); the oracles
//! evaluate the property on the implementation's own outputs.
use crate::util::*;
use sierradb_cluster::write::ordered_queue::{Error as QErr, OrderedQueue, OrderedValue};
use std::collections::{BTreeMap, BTreeSet};
use std::panic::AssertUnwindSafe;

// ------------------------------------------------------------------------------------------
// part 1: the bare queue
// ------------------------------------------------------------------------------------------

#[derive(Clone, Debug, PartialEq)]
struct HV { tx: u64, n: u64, rids: Vec<u64> }
impl OrderedValue for HV {
    fn key_eq(&self, other: &Self) -> bool { self.tx == other.tx }
    fn merge(&mut self, new: Self) { self.rids.extend(new.rids); }
}

/// `progress_to` returns the removed stale entries after the fix and `()` before it: accept both so
/// that the harness builds (and the oracle — not the compiler — reports) when the fix is reverted.
trait StaleOut { fn into_stale(self) -> Vec<(u64, HV)>; }
impl StaleOut for () { fn into_stale(self) -> Vec<(u64, HV)> { vec![] } }
impl StaleOut for BTreeMap<u64, HV> { fn into_stale(self) -> Vec<(u64, HV)> { self.into_iter().collect() } }
impl StaleOut for Vec<(u64, HV)> { fn into_stale(self) -> Vec<(u64, HV)> { self } }

fn show_rids(r: &[u64]) -> String { r.iter().map(|x| x.to_string()).collect::<Vec<_>>().join(".") }
fn show_hv(v: &HV) -> String { format!("{}:{}:{}", v.tx, v.n, show_rids(&v.rids)) }
fn show_entries<'a>(it: impl Iterator<Item = (&'a u64, &'a HV)>) -> String {
    format!("[{}]", it.map(|(k, v)| format!("{k}:{}", show_hv(v))).collect::<Vec<_>>().join(","))
}
fn q_digest(q: &OrderedQueue<u64, HV>) -> String { format!("next={} map={}", q.next(), show_entries(q.map.iter())) }

#[derive(Clone, Debug)]
enum Ins { Ready(HV), Buffered, Rejected, Trap }

struct QRun {
    q: OrderedQueue<u64, HV>,
    limit: usize,
    hist: Vec<String>,
    inserted: BTreeSet<u64>,
    returned: BTreeSet<u64>,
    rid: u64,
    failed: bool,
}

impl QRun {
    fn new(ctx: &mut Ctx, next: u64, limit: usize) -> QRun {
        let q: OrderedQueue<u64, HV> = OrderedQueue::new(next, limit);
        let op = format!("c12 q new {next} {limit}");
        ctx.emit(&op, &q_digest(&q));
        QRun { q, limit, hist: vec![op], inserted: BTreeSet::new(), returned: BTreeSet::new(), rid: 0, failed: false }
    }
    fn fail(&mut self, ctx: &mut Ctx, kind: &str, what: String) {
        if self.failed { return; }
        self.failed = true;
        ctx.stat(&format!("oracle_{kind}"));
        let key = format!("C12:{kind} {}", compact(&self.hist));
        ctx.oracle_fail(&key, &what, &self.hist);
    }
    fn give_back(&mut self, ctx: &mut Ctx, v: &HV) {
        for r in &v.rids { if !self.returned.insert(*r) { self.fail(ctx, "queue-answered-twice", format!("reply sender {r} handed back twice")); } }
    }
    /// invariants of the property on the real queue, after every operation
    fn check(&mut self, ctx: &mut Ctx) {
        let next = *self.q.next();
        if let Some((k, v)) = self.q.map.iter().find(|(k, _)| **k < next) {
            let (k, v) = (*k, v.clone());
            self.fail(ctx, "queue-pending-below-next", format!("entry key={k} ({}) is still buffered below next={next}: it can never be popped nor answered, and `oldest - next` underflows", show_hv(&v)));
        }
        if self.q.map.len() > self.limit { let l = self.q.map.len(); self.fail(ctx, "queue-over-limit", format!("{l} entries buffered, limit {}", self.limit)); }
        let in_map: BTreeSet<u64> = self.q.map.values().flat_map(|v| v.rids.iter().copied()).collect();
        let n_in_map: usize = self.q.map.values().map(|v| v.rids.len()).sum();
        if n_in_map != in_map.len() || in_map.intersection(&self.returned).next().is_some() {
            self.fail(ctx, "queue-answered-twice", "a reply sender is both buffered and handed back (or buffered twice)".into());
        }
        let lost: Vec<u64> = self.inserted.iter().copied().filter(|r| !in_map.contains(r) && !self.returned.contains(r)).collect();
        if !lost.is_empty() {
            self.fail(ctx, "queue-lost-write", format!("reply senders {lost:?} are neither buffered nor handed back to the caller: these writes are never answered"));
        }
    }
    fn ins(&mut self, ctx: &mut Ctx, key: u64, tx: u64, n: u64) -> Ins {
        let rid = self.rid; self.rid += 1;
        let op = format!("c12 q ins {key} {tx} {n} {rid}");
        self.hist.push(op.clone());
        self.inserted.insert(rid);
        let before = q_digest(&self.q);
        let next = *self.q.next();
        let had = self.q.map.get(&key).cloned();
        let len_before = self.q.map.len();
        let maxk = self.q.map.keys().next_back().copied();
        let v = HV { tx, n, rids: vec![rid] };
        let q = &mut self.q;
        let res = catch(AssertUnwindSafe(|| q.insert(key, v)));
        let (line, out) = match res {
            None => ("trap".to_string(), Ins::Trap),
            Some(Ok(r)) => {
                let ev = match &r.evicted { None => "-".to_string(), Some((k, v)) => format!("{k}:{}", show_hv(v)) };
                if let Some((ek, evv)) = &r.evicted {
                    ctx.stat("q_evict");
                    self.give_back(ctx, evv);
                    if !(len_before >= self.limit && had.is_none() && Some(*ek) == maxk && *ek > key) {
                        self.fail(ctx, "queue-needless-eviction", format!("insert key={key} evicted key={ek} although the key was already buffered or the queue was not full / {ek} not the largest key above it"));
                    }
                }
                match r.next {
                    Some(v) => { ctx.stat(if r.merged_with_existing { "q_next_merge" } else { "q_next_vacant" });
                        self.give_back(ctx, &v);
                        (format!("ready merged={} v={}", r.merged_with_existing, show_hv(&v)), Ins::Ready(v)) }
                    None => { ctx.stat(if r.merged_with_existing { "q_future_merge" } else if r.evicted.is_some() { "q_future_vacant_evict" } else { "q_future_vacant" });
                        (format!("buffered merged={} ev={ev}", r.merged_with_existing), Ins::Buffered) }
                }
            }
            Some(Err(e)) => {
                let (s, v) = match e {
                    QErr::Conflict { value } => { ctx.stat(if key == next { "q_next_conflict" } else { "q_future_conflict" }); (format!("conflict v={}", show_hv(&value)), value) }
                    QErr::Full { key, value } => { ctx.stat("q_full"); (format!("full k={key} v={}", show_hv(&value)), value) }
                    QErr::Stale { key, value } => { ctx.stat("q_stale"); (format!("stale k={key} v={}", show_hv(&value)), value) }
                };
                self.give_back(ctx, &v);
                if q_digest(&self.q) != before {
                    self.fail(ctx, "queue-rejected-insert-changed-queue", format!("rejected insert ({s}) changed the queue: {before} -> {}", q_digest(&self.q)));
                }
                if let Some(ex) = &had { if ex.tx == tx && key >= next {
                    self.fail(ctx, "queue-duplicate-not-merged", format!("duplicate of the buffered write key={key} tx={tx} was rejected ({s}) instead of merged"));
                } }
                (s, Ins::Rejected)
            }
        };
        if matches!(out, Ins::Trap) { self.fail(ctx, "queue-trap", format!("insert key={key} panicked")); }
        ctx.emit(&op, &format!("{line} | {}", q_digest(&self.q)));
        self.check(ctx);
        out
    }
    fn pop(&mut self, ctx: &mut Ctx) -> Option<HV> {
        let op = "c12 q pop".to_string();
        self.hist.push(op.clone());
        let r = self.q.pop();
        if let Some(v) = &r { ctx.stat("q_pop_some"); self.give_back(ctx, v); } else { ctx.stat("q_pop_none"); }
        let s = match &r { None => "none".to_string(), Some(v) => format!("some {}", show_hv(v)) };
        ctx.emit(&op, &format!("{s} | {}", q_digest(&self.q)));
        self.check(ctx);
        r
    }
    fn prog(&mut self, ctx: &mut Ctx, next: u64) {
        let op = format!("c12 q prog {next}");
        self.hist.push(op.clone());
        let inside = self.q.map.keys().filter(|k| **k < next).count();
        if inside > 0 { ctx.stat("q_progress_over_buffered_keys"); }
        let stale = self.q.progress_to(next).into_stale();
        for (_, v) in &stale { self.give_back(ctx, v); }
        ctx.emit(&op, &format!("stale={} | {}", show_entries(stale.iter().map(|(k, v)| (k, v))), q_digest(&self.q)));
        self.check(ctx);
    }
    /// what the replicator does with a write it may apply: append (n events) => progress_to(last+1),
    /// then pop while the next key is buffered
    fn apply_and_drain(&mut self, ctx: &mut Ctx, first: HV) {
        let mut cur = Some(first);
        let mut guard = 0;
        while let Some(v) = cur {
            let next = *self.q.next();
            self.prog(ctx, next + v.n.max(1));
            cur = self.pop(ctx);
            guard += 1; if guard > 100 { break; }
        }
    }
    fn deliver(&mut self, ctx: &mut Ctx, key: u64, tx: u64, n: u64) {
        match self.ins(ctx, key, tx, n) {
            Ins::Ready(v) => self.apply_and_drain(ctx, v),
            Ins::Buffered => { if let Some(v) = self.pop(ctx) { self.apply_and_drain(ctx, v); } }
            Ins::Rejected | Ins::Trap => {}
        }
    }
}

fn compact(hist: &[String]) -> String {
    hist.iter().map(|l| l.trim_start_matches("c12 ").replace(' ', "_")).collect::<Vec<_>>().join(";")
}

fn permutations(n: usize) -> Vec<Vec<usize>> {
    fn go(k: usize, a: &mut Vec<usize>, out: &mut Vec<Vec<usize>>) {
        if k == a.len() { out.push(a.clone()); return; }
        for i in k..a.len() { a.swap(k, i); go(k + 1, a, out); a.swap(k, i); }
    }
    let mut a: Vec<usize> = (0..n).collect(); let mut out = vec![]; go(0, &mut a, &mut out); out
}

/// write sets (key offset from the initial next, tx, events): every delivery order is run
fn write_sets() -> Vec<Vec<(u64, u64, u64)>> {
    vec![
        // six single-event writes: pure reordering
        vec![(0, 10, 1), (1, 11, 1), (2, 12, 1), (3, 13, 1), (4, 14, 1), (5, 15, 1)],
        // multi-event transactions, contiguous assignment
        vec![(0, 10, 2), (2, 12, 1), (3, 13, 3), (6, 16, 1), (7, 17, 2), (9, 19, 1)],
        // duplicates and conflicts
        vec![(0, 10, 1), (1, 11, 1), (1, 11, 1), (1, 21, 1), (2, 12, 1), (2, 12, 1)],
        // a second coordinator assigned sequences inside a multi-event transaction's range (F21)
        vec![(0, 10, 3), (1, 21, 1), (2, 22, 1), (3, 13, 1), (4, 14, 1), (1, 21, 1)],
        // overlapping multi-event ranges + duplicate of the head
        vec![(0, 10, 2), (1, 21, 2), (2, 12, 2), (0, 10, 2), (4, 14, 1), (3, 23, 1)],
        // gap that never closes + duplicates of far keys (eviction / full with small limits)
        vec![(1, 11, 1), (3, 13, 1), (5, 15, 1), (5, 15, 1), (5, 25, 1), (2, 12, 1)],
    ]
}

fn run_queue(ctx: &mut Ctx) {
    // (a) exhaustive delivery orders
    let limits: &[usize] = if ctx.thorough() { &[1, 2, 3, 4, 6] } else { &[1, 2, 3, 6] };
    let mut sets = write_sets();
    let extra = if ctx.thorough() { 12 } else { 2 };
    for _ in 0..extra {
        // random write set of 5-6 writes over keys 0..6
        let k = ctx.rng.range(5, 6) as usize;
        let s: Vec<(u64, u64, u64)> = (0..k).map(|_| { let key = ctx.rng.below(6); (key, key + 10 * (1 + ctx.rng.below(2)), 1 + ctx.rng.below(3) * ctx.rng.below(2)) }).collect();
        sets.push(s);
    }
    for (si, set) in sets.iter().enumerate() {
        let perms = permutations(set.len());
        for &limit in limits {
            for base in [0u64, 7] {
                if base != 0 && (limit == 1 || limit == 4) { continue; }
                for p in &perms {
                    let mut r = QRun::new(ctx, base, limit);
                    for &i in p { let (k, tx, n) = set[i]; r.deliver(ctx, base + k, tx, n); }
                    ctx.stat("q_delivery_orders");
                    if si < 6 && limit == 3 && base == 0 { ctx.nontrivial(&compact(&r.hist)); }
                    else { ctx.nontrivial(&format!("{si}/{limit}/{base}/{p:?}")); }
                }
            }
        }
    }
    // (b) PRNG sequences, small limits, raw API calls mixed in
    let seqs = if ctx.thorough() { 60_000 } else { 6_000 };
    for _ in 0..seqs {
        let limit = ctx.rng.range(1, 4) as usize;
        let base = *ctx.rng.pick(&[0u64, 0, 1, 5, 1000, u64::MAX - 1000]);
        let mut r = QRun::new(ctx, base, limit);
        let len = ctx.rng.range(3, 40);
        for _ in 0..len {
            let next = *r.q.next();
            let d = *ctx.rng.pick(&[-2i64, -1, 0, 0, 1, 1, 1, 2, 2, 3, 4, 6]);
            let key = if d < 0 { next.saturating_sub((-d) as u64) } else { next + d as u64 };
            let tx = key.wrapping_mul(4) % 1000 + ctx.rng.below(2) + if ctx.rng.chance(1, 10) { 2 } else { 0 };
            let n = *ctx.rng.pick(&[1u64, 1, 1, 2, 3]);
            match ctx.rng.below(20) {
                0..=12 => r.deliver(ctx, key, tx, n),
                13..=14 => { r.ins(ctx, key, tx, n); }
                15..=16 => { r.pop(ctx); }
                _ => { let j = ctx.rng.below(4); r.prog(ctx, next + j); }
            }
        }
        ctx.stat("q_random_sequences");
        ctx.nontrivial(&compact(&r.hist));
    }
}

fn replay_queue(ctx: &mut Ctx, lines: &[String]) {
    let mut r: Option<QRun> = None;
    for l in lines {
        let t: Vec<&str> = l.split_whitespace().collect();
        if t.len() < 3 || t[0] != "c12" || t[1] != "q" { continue; }
        match (t[2], t.len()) {
            ("new", 5) => r = Some(QRun::new(ctx, t[3].parse().unwrap(), t[4].parse().unwrap())),
            ("ins", 7) => { if let Some(r) = r.as_mut() { r.rid = t[6].parse().unwrap(); r.ins(ctx, t[3].parse().unwrap(), t[4].parse().unwrap(), t[5].parse().unwrap()); } }
            ("pop", 3) => { if let Some(r) = r.as_mut() { r.pop(ctx); } }
            ("prog", 4) => { if let Some(r) = r.as_mut() { r.prog(ctx, t[3].parse().unwrap()); } }
            _ => {}
        }
    }
}

// ------------------------------------------------------------------------------------------
// part 2: the real PartitionReplicatorActor
// ------------------------------------------------------------------------------------------
mod actor {
    use super::*;
    use futures::FutureExt;
    use kameo::actor::{ActorRef, RemoteActorRef, Spawn};
    use kameo::error::SendError;
    use kameo::request::PendingReply;
    use sierradb::database::{Database, DatabaseBuilder, ExpectedVersion, NewEvent, Transaction};
    use sierradb::id::{uuid_to_partition_hash, uuid_v7_with_partition_hash};
    use sierradb::writer_thread_pool::AppendResult;
    use sierradb::{IterDirection, StreamId};
    use sierradb_cluster::confirmation::actor::ConfirmationActor;
    use sierradb_cluster::write::error::WriteError;
    use sierradb_cluster::write::replicate::verif::{BufferState, DetectGaps, Probe};
    use sierradb_cluster::write::replicate::{PartitionReplicatorActor, PartitionReplicatorActorArgs, ReplicateWrite};
    use sierradb_cluster::ClusterActor;
    use smallvec::SmallVec;
    use std::collections::HashMap;
    use std::time::Duration;
    use uuid::Uuid;

    type Pending = PendingReply<ReplicateWrite, kameo::reply::DelegatedReply<Result<AppendResult, WriteError>>>;

    pub struct World {
        pub db: Database,
        pub confirmation: ActorRef<ConfirmationActor>,
        pub coord: RemoteActorRef<ClusterActor>,
        pub next_partition: u16,
        _dir: tempfile::TempDir,
    }

    pub const PARTITIONS: u16 = 4096;

    pub async fn world() -> World {
        // a global kameo swarm handle is needed to *hold* a RemoteActorRef (never dialled)
        let kameo = Box::leak(Box::new(kameo::remote::Behaviour::new(libp2p::PeerId::random(), kameo::remote::messaging::Config::default())));
        kameo.init_global();
        let prepared = ClusterActor::prepare();
        let coord = prepared.actor_ref().into_remote_ref().await;
        std::mem::forget(prepared);
        let dir = tempfile::tempdir().unwrap();
        let db = DatabaseBuilder::new().total_buckets(4).bucket_ids_from_range(0..4).writer_threads(2).reader_threads(2)
            .open(dir.path()).expect("open database");
        let conf = ConfirmationActor::new(db.clone(), 1, (0..PARTITIONS).collect()).await.expect("confirmation actor");
        let confirmation = ConfirmationActor::spawn(conf);
        World { db, confirmation, coord, next_partition: 0, _dir: dir }
    }

    struct Ask { key: u64, tx: u64, pending: Option<Pending>, answer: Option<String> }

    pub struct ARun {
        pid: u16,
        rep: ActorRef<PartitionReplicatorActor>,
        limit: usize,
        now: u64,
        pub hist: Vec<String>,
        txs: HashMap<u64, Transaction>,     // model tx number -> real transaction (cloned for duplicates)
        tx_of: HashMap<Uuid, u64>,
        asks: Vec<Ask>,
        dead: bool,
        failed: bool,
    }

    fn classify(r: Result<AppendResult, SendError<ReplicateWrite, WriteError>>) -> String {
        match r {
            Ok(a) => format!("applied@{}-{}", a.first_partition_sequence, a.last_partition_sequence),
            Err(SendError::HandlerError(e)) => match e {
                WriteError::StaleWrite => "stale".into(),
                WriteError::SequenceConflict => "conflict".into(),
                WriteError::BufferFull => "full".into(),
                WriteError::BufferEvicted => "evicted".into(),
                WriteError::WrongExpectedSequence { .. } | WriteError::DatabaseOperationFailed(_) => "dbfailed".into(),
                other => format!("error:{other:?}").replace(' ', "_"),
            },
            Err(_) => "dropped".into(),
        }
    }

    impl ARun {
        pub async fn new(ctx: &mut Ctx, w: &mut World, limit: usize, timeout: u64) -> ARun {
            let pid = w.next_partition; w.next_partition += 1;
            assert!(pid < PARTITIONS, "partition budget exhausted");
            let rep = PartitionReplicatorActor::spawn(PartitionReplicatorActorArgs {
                partition_id: pid, database: w.db.clone(), confirmation_ref: w.confirmation.clone(),
                buffer_size: limit, buffer_timeout: Duration::from_millis(timeout),
                // the catch-up timer is never allowed to fire by itself: gap detection is invoked explicitly
                catchup_timeout: Duration::from_secs(1_000_000_000),
            });
            rep.wait_for_startup().await;
            let mut r = ARun { pid, rep, limit, now: 0, hist: vec![], txs: HashMap::new(), tx_of: HashMap::new(), asks: vec![], dead: false, failed: false };
            let op = format!("c12 r new 0 {limit} {timeout}");
            r.hist.push(op.clone());
            let d = r.digest(ctx, w).await;
            ctx.emit(&op, &d);
            r
        }
        fn make_tx(&mut self, key: u64, tx: u64, n: u64) -> Transaction {
            if let Some(t) = self.txs.get(&tx) { return t.clone(); }
            let pk = Uuid::new_v4();
            let events: SmallVec<[NewEvent; 4]> = (0..n).map(|i| NewEvent {
                event_id: uuid_v7_with_partition_hash(uuid_to_partition_hash(pk)),
                stream_id: StreamId::new(format!("p{}-t{tx}-{i}", self.pid)).unwrap(),
                stream_version: ExpectedVersion::Any, event_name: "e".into(), timestamp: 1_700_000_000_000_000_000 + i,
                metadata: vec![], payload: vec![tx as u8],
            }).collect();
            let t = Transaction::new(pk, self.pid, events).unwrap()
                .expected_partition_sequence(if key == 0 { ExpectedVersion::Empty } else { ExpectedVersion::Exact(key - 1) });
            self.tx_of.insert(t.transaction_id(), tx);
            self.txs.insert(tx, t.clone());
            t
        }
        fn fail(&mut self, ctx: &mut Ctx, kind: &str, what: String) {
            if self.failed { return; }
            self.failed = true;
            ctx.stat(&format!("oracle_{kind}"));
            ctx.oracle_fail(&format!("C12:{kind} {}", compact(&self.hist)), &what, &self.hist);
        }
        async fn advance_to(&mut self, now: u64) {
            if now > self.now { tokio::time::advance(Duration::from_millis(now - self.now)).await; self.now = now; }
        }
        async fn probe(&mut self) -> Option<BufferState> {
            if self.dead { return None; }
            match self.rep.ask(Probe).await { Ok(s) => Some(s), Err(_) => { self.dead = true; None } }
        }
        fn poll_answers(&mut self, ctx: &mut Ctx) {
            for a in self.asks.iter_mut() {
                if let Some(p) = a.pending.as_mut() {
                    if let Some(r) = p.now_or_never() { let c = classify(r); ctx.stat(&format!("r_ans_{}", c.split('@').next().unwrap())); a.answer = Some(c); a.pending = None; }
                }
            }
        }
        /// canonical state of the real replica: next (queue), db next, log (read back from the real
        /// database), buffer (hook), answers observed by the askers
        async fn digest(&mut self, ctx: &mut Ctx, w: &World) -> String {
            let st = self.probe().await;
            // let reply tasks run
            for _ in 0..3 { tokio::task::yield_now().await; }
            self.poll_answers(ctx);
            let dbnext = match w.db.get_partition_sequence(self.pid).await { Ok(Some(s)) => s.sequence + 1, Ok(None) => 0, Err(_) => u64::MAX };
            let mut log: Vec<String> = vec![];
            let mut entries: Vec<(u64, u64, u64)> = vec![];
            if let Ok(mut it) = w.db.read_partition(self.pid, 0, IterDirection::Forward).await {
                while let Ok(Some(batch)) = it.next_batch(64).await {
                    for c in batch {
                        let Some(first) = c.first_partition_sequence() else { continue };
                        let last = c.last_partition_sequence().unwrap_or(first);
                        let tx = self.tx_of.get(c.transaction_id()).copied().unwrap_or(999_999);
                        entries.push((first, tx, last - first + 1));
                    }
                }
            }
            entries.sort();
            for (f, tx, n) in &entries { log.push(format!("{f}:{tx}:{n}")); }
            let Some(st) = st else { return format!("dead dbnext={dbnext} log=[{}]", log.join(",")); };
            // reply senders of a buffered entry = the still unanswered asks of that (key, tx), in delivery order
            let mut buf: Vec<String> = vec![];
            for (key, txid, n, senders) in &st.buffered {
                let tx = self.tx_of.get(txid).copied().unwrap_or(999_999);
                let rids: Vec<u64> = self.asks.iter().enumerate().filter(|(_, a)| a.key == *key && a.tx == tx && a.answer.is_none()).map(|(i, _)| i as u64).collect();
                let mark = if rids.len() == *senders { "" } else { "!senders" };
                buf.push(format!("{key}:{tx}:{n}:{}{mark}", show_rids(&rids)));
            }
            let ans: Vec<String> = self.asks.iter().enumerate().filter_map(|(i, a)| a.answer.as_ref().map(|s| format!("{i}:{s}"))).collect();
            // ---- property oracles on the real replica ----
            let next = st.next;
            if let Some((k, ..)) = st.buffered.iter().find(|(k, ..)| *k < next) {
                let k = *k;
                self.fail(ctx, "replica-pending-below-next", format!("buffered write key={k} is below the next expected sequence {next}: never applied, never answered"));
            }
            let stuck: Vec<usize> = self.asks.iter().enumerate().filter(|(_, a)| a.answer.is_none() && a.key < next).map(|(i, _)| i).collect();
            if !stuck.is_empty() { self.fail(ctx, "replica-write-never-answered", format!("asks {stuck:?} (keys below next={next}) have no reply and can no longer get one")); }
            if st.buffered.len() > self.limit { self.fail(ctx, "replica-over-limit", format!("{} buffered, limit {}", st.buffered.len(), self.limit)); }
            if next != dbnext { self.fail(ctx, "replica-next-differs-from-log", format!("queue next={next} but the database's next partition sequence is {dbnext}")); }
            // the log: contiguous from 0, each transaction at the sequence its coordinator assigned, at most once
            let mut expect = 0u64; let mut seen: BTreeSet<(u64, u64)> = BTreeSet::new();
            for (f, tx, n) in &entries {
                if *f != expect { self.fail(ctx, "replica-log-gap", format!("log entry at {f}, expected {expect}")); break; }
                expect = f + n;
                let assigned = self.asks.iter().any(|a| a.tx == *tx && a.key == *f);
                if !assigned { self.fail(ctx, "replica-applied-at-wrong-sequence", format!("transaction {tx} appended at sequence {f}, which no delivery assigned")); }
                if !seen.insert((*f, *tx)) { self.fail(ctx, "replica-applied-twice", format!("transaction {tx} appended twice")); }
            }
            format!("next={next} dbnext={dbnext} log=[{}] buf=[{}] ans=[{}] catching={} trapped=false", log.join(","), buf.join(","), ans.join(","), st.catching_up)
        }
        pub async fn deliver(&mut self, ctx: &mut Ctx, w: &World, now: u64, key: u64, tx: u64, n: u64) {
            let rid = self.asks.len() as u64;
            let op = format!("c12 r del {now} {key} {tx} {n} {rid}");
            self.hist.push(op.clone());
            self.advance_to(now).await;
            let t = self.make_tx(key, tx, n);
            let log_before = self.log_len(w).await;
            let buf_before = self.probe().await.map(|s| s.buffered);
            let pending = if self.dead { None } else {
                self.rep.ask(ReplicateWrite { coordinator_ref: w.coord.clone(), coordinator_alive_since: 0, transaction: t }).enqueue().await.ok()
            };
            if pending.is_none() { self.dead = true; }
            self.asks.push(Ask { key, tx, pending, answer: None });
            let d = self.digest(ctx, w).await;
            // rejected deliveries must not change the log
            if let Some(a) = self.asks.last().and_then(|a| a.answer.clone()) {
                if matches!(a.as_str(), "stale" | "conflict" | "full") && self.log_len(w).await != log_before {
                    self.fail(ctx, "replica-rejected-write-changed-log", format!("delivery answered {a} but the log grew"));
                }
            }
            if let Some(a) = self.asks.last().and_then(|a| a.answer.clone()) {
                if matches!(a.as_str(), "stale" | "conflict" | "full") {
                    let buf_after = self.probe().await.map(|s| s.buffered);
                    if buf_before.is_some() && buf_after.is_some() && buf_before != buf_after {
                        self.fail(ctx, "replica-rejected-write-changed-buffer", format!("delivery answered {a} but the buffer changed: {:?} -> {:?} (a buffered write was dropped without its asker being told)",
                            buf_before.unwrap().iter().map(|e| (e.0, e.3)).collect::<Vec<_>>(), buf_after.unwrap().iter().map(|e| (e.0, e.3)).collect::<Vec<_>>()));
                    }
                }
            }
            if self.dead { self.fail(ctx, "replica-trap", "the replicator actor died".into()); }
            ctx.emit(&op, &d);
        }
        async fn log_len(&self, w: &World) -> u64 {
            match w.db.get_partition_sequence(self.pid).await { Ok(Some(s)) => s.sequence + 1, _ => 0 }
        }
        pub async fn gaps(&mut self, ctx: &mut Ctx, w: &World, now: u64) {
            let op = format!("c12 r gaps {now} 1");
            self.hist.push(op.clone());
            self.advance_to(now).await;
            let before = self.probe().await;
            let res = if self.dead { None } else { self.rep.ask(DetectGaps).await.ok() };
            let out = match (&before, &res) {
                (Some(b), Some(a)) => {
                    if a.catching_up && !b.catching_up { ctx.stat("r_gaps_catch_up"); "catch-up".to_string() }
                    else if a.buffered.is_empty() { ctx.stat("r_gaps_empty"); "empty".to_string() }
                    else { ctx.stat("r_gaps_no_action"); "no-action".to_string() }
                }
                _ => { self.dead = true; "trap".to_string() }
            };
            if self.dead {
                ctx.stat("r_gaps_trap");
                self.failed = false; // the trap is reported even if this history already failed another oracle
                self.fail(ctx, "replica-gap-arithmetic-trap", "detect_and_handle_gaps panicked (`oldest_buffered_seq - next` underflow): the replicator actor is dead".into());
            }
            let d = self.digest(ctx, w).await;
            ctx.emit(&op, &format!("{out} | {d}"));
        }
        pub async fn finish(self) { let _ = self.rep.stop_gracefully().await; }
    }

    /// scenarios: (limit, timeout, ops) with op = Ok((now,key,tx,n)) deliver | Err(now) gaps
    pub type Op = Result<(u64, u64, u64, u64), u64>;

    pub async fn run_scenario(ctx: &mut Ctx, w: &mut World, limit: usize, timeout: u64, ops: &[Op]) {
        let mut r = ARun::new(ctx, w, limit, timeout).await;
        for op in ops {
            match *op {
                Ok((now, key, tx, n)) => r.deliver(ctx, w, now, key, tx, n).await,
                Err(now) => r.gaps(ctx, w, now).await,
            }
            if r.dead { break; }
        }
        ctx.nontrivial(&compact(&r.hist));
        ctx.stat("r_scenarios");
        r.finish().await;
    }

    pub fn scripted() -> Vec<(usize, u64, Vec<Op>)> {
        let big = 1_000_000u64;
        vec![
            // F21: multi-event head jumps over buffered keys 1 and 2; then gap detection
            (4, big, vec![Ok((0, 1, 21, 1)), Ok((0, 2, 22, 1)), Ok((0, 4, 14, 1)), Ok((0, 0, 10, 3)), Err(1), Ok((1, 3, 13, 1)), Err(2)]),
            // in-order, duplicates merged, conflict rejected
            (4, big, vec![Ok((0, 1, 11, 1)), Ok((0, 1, 11, 1)), Ok((0, 1, 31, 1)), Ok((0, 0, 10, 1)), Ok((0, 0, 10, 1)), Err(5)]),
            // eviction / full, then a conflicting and a duplicate write while full
            (2, big, vec![Ok((0, 3, 13, 1)), Ok((0, 5, 15, 1)), Ok((0, 7, 17, 1)), Ok((0, 2, 12, 1)), Ok((0, 2, 32, 1)), Ok((0, 3, 13, 1)), Ok((0, 2, 12, 1)), Err(3), Ok((3, 0, 10, 2)), Ok((3, 4, 14, 1))]),
            // expiry: buffered writes outlive the buffer timeout
            (4, 100, vec![Ok((0, 2, 12, 1)), Ok((50, 1, 11, 1)), Ok((120, 2, 12, 1)), Err(130), Ok((160, 0, 10, 1)), Err(400)]),
        ]
    }

    pub fn random(ctx: &mut Ctx) -> (usize, u64, Vec<Op>) {
        let limit = ctx.rng.range(1, 4) as usize;
        let timeout = *ctx.rng.pick(&[1_000_000u64, 1_000_000, 100]);
        let len = ctx.rng.range(4, if ctx.thorough() { 40 } else { 16 });
        let mut ops = vec![]; let mut now = 0u64; let mut guess_next = 0u64;
        for _ in 0..len {
            if ctx.rng.chance(1, 3) { now += *ctx.rng.pick(&[1u64, 10, 60, 120]); }
            if ctx.rng.chance(1, 8) { ops.push(Err(now)); continue; }
            let d = *ctx.rng.pick(&[-1i64, 0, 0, 0, 1, 1, 2, 2, 3, 5]);
            let key = if d < 0 { guess_next.saturating_sub(1) } else { guess_next + d as u64 };
            let alt = ctx.rng.below(8) == 0;
            let n = if (key % 3 == 0) != alt { 1 + key % 3 + (key / 3) % 2 * 2 } else { 1 };
            // transaction number determines (key, events): duplicates re-use it, conflicts use alt
            let tx = key * 10 + if alt { 5 } else { 0 };
            ops.push(Ok((now, key, tx, n.min(3))));
            if d == 0 { guess_next = key + n.min(3); }
        }
        (limit, timeout, ops)
    }

    pub fn parse_replay(lines: &[String]) -> Option<(usize, u64, Vec<Op>)> {
        let mut limit = None; let mut ops = vec![];
        for l in lines {
            let t: Vec<&str> = l.split_whitespace().collect();
            if t.len() < 3 || t[0] != "c12" || t[1] != "r" { continue; }
            match (t[2], t.len()) {
                ("new", 6) => limit = Some((t[4].parse().ok()?, t[5].parse().ok()?)),
                ("del", 8) => ops.push(Ok((t[3].parse().ok()?, t[4].parse().ok()?, t[5].parse().ok()?, t[6].parse().ok()?))),
                ("gaps", 5) => ops.push(Err(t[3].parse().ok()?)),
                _ => {}
            }
        }
        limit.map(|(l, t)| (l, t, ops))
    }
}

fn run_actor(ctx: &mut Ctx, replay: Option<&[String]>) {
    let rt = tokio::runtime::Builder::new_current_thread().enable_all().start_paused(true).build().unwrap();
    rt.block_on(async {
        // a parked blocking task keeps tokio from auto-advancing the paused clock while the
        // database's own threads work: time moves only by `advance`
        let (hold_tx, hold_rx) = std::sync::mpsc::channel::<()>();
        let hold = tokio::task::spawn_blocking(move || { let _ = hold_rx.recv(); });
        let mut w = actor::world().await;
        if let Some(lines) = replay {
            if let Some((limit, timeout, ops)) = actor::parse_replay(lines) { actor::run_scenario(ctx, &mut w, limit, timeout, &ops).await; }
        } else {
            for (limit, timeout, ops) in actor::scripted() { actor::run_scenario(ctx, &mut w, limit, timeout, &ops).await; }
            let n = if ctx.thorough() { 1500 } else { 150 };
            for _ in 0..n { let (limit, timeout, ops) = actor::random(ctx); actor::run_scenario(ctx, &mut w, limit, timeout, &ops).await; }
        }
        w.db.shutdown().await;
        let _ = hold_tx.send(()); let _ = hold.await;
    });
}

pub fn run(ctx: &mut Ctx) {
    if let Some(lines) = ctx.replay.clone() {
        if lines.iter().any(|l| l.starts_with("c12 q ")) { replay_queue(ctx, &lines); }
        if lines.iter().any(|l| l.starts_with("c12 r ")) { run_actor(ctx, Some(&lines)); }
        return;
    }
    // the real actor first: its findings come first in the (capped) oracle file
    run_actor(ctx, None);
    run_queue(ctx);
}
