//! C13 / C14: placement (AppConfig vs TopologyManager) and membership handling.
use crate::util::*;
use kameo::actor::ActorId;
use libp2p::PeerId;
use sierradb_server::config::*;
use sierradb_topology::test_helpers::create_test_peer_id;
use sierradb_topology::TopologyManager;
use std::collections::{HashMap, HashSet};
use std::time::{Duration, Instant};

fn mk_cfg(i: u32, n: u32, b: u16, p: u16, rf: u8) -> AppConfig {
    AppConfig {
        append: AppendConfig { strict_versioning: false },
        bucket: BucketConfig { count: b, ids: None },
        cache: CacheConfig { capacity_bytes: 1 << 20 },
        dir: "/nonexistent".into(),
        heartbeat: HeartbeatConfig { interval_ms: 1000, timeout_ms: 6000 },
        network: NetworkConfig { cluster_enabled: true, cluster_address: "/ip4/0.0.0.0/udp/0/quic-v1".parse().unwrap(),
            client_address: "0.0.0.0:9090".into(), mdns: false },
        node: NodeConfig { count: Some(n), index: i },
        partition: PartitionConfig { count: p, ids: None },
        replication: ReplicationConfig { buffer_size: 1000, buffer_timeout_ms: 8000, catchup_timeout_ms: 2000, factor: rf },
        segment: SegmentConfig { size_bytes: 256 * 1024 * 1024, compression: true },
        sync: SyncConfig { interval_ms: 5, idle_interval_ms: None, max_batch_size: 50, min_bytes: 4096 },
        threads: Threads::default(),
        nodes: None,
    }
}

fn sorted<T: Ord + Copy + ToString>(s: impl IntoIterator<Item = T>) -> String {
    let mut v: Vec<T> = s.into_iter().collect(); v.sort();
    v.iter().map(|x| x.to_string()).collect::<Vec<_>>().join(",")
}

/// peers: deterministic PeerIds; the model's peer number = rank of the ActorId in `Ord` order
pub struct Peers { pub refs: Vec<ActorId>, pub rank: HashMap<PeerId, usize> }
impl Peers {
    pub fn new(k: usize) -> Peers {
        let mut refs: Vec<ActorId> = (0..k).map(|i| ActorId::new_with_peer_id(0, create_test_peer_id(i + 1))).collect();
        refs.sort();
        let rank = refs.iter().enumerate().map(|(i, r)| (*r.peer_id().unwrap(), i)).collect();
        Peers { refs, rank }
    }
    pub fn rk(&self, a: &ActorId) -> usize { self.rank[a.peer_id().unwrap()] }
}

fn c13_case(ctx: &mut Ctx, i: u32, n: u32, b: u16, p: u16, rf: u8) {
    let cfg = mk_cfg(i, n, b, p, rf);
    let valid = matches!(cfg.validate(), Ok(e) if e.is_empty());
    ctx.stat(if valid { "cfg_valid" } else { "cfg_invalid" });
    if !valid || n == 0 || b == 0 { return; }
    let Some(Ok(buckets)) = catch(std::panic::AssertUnwindSafe(|| cfg.assigned_buckets())) else {
        ctx.oracle_fail(&format!("C13:cfg i={i},n={n},B={b},P={p},rf={rf}"), "assigned_buckets panicked/failed", &[format!("c13 cfg {i} {n} {b} {p} {rf}")]); return; };
    let parts = cfg.assigned_partitions(&buckets);
    let op = format!("c13 cfg {i} {n} {b} {p} {rf}");
    ctx.nontrivial(&op);
    ctx.emit(&op, &format!("buckets={} partitions={}", sorted(buckets.iter().copied()), sorted(parts.iter().copied())));
    // the topology's view: a real TopologyManager for node i that knows every node
    let k = n as usize;
    if k <= 64 {
        let peers = Peers::new(k);
        let built = catch(std::panic::AssertUnwindSafe(|| {
            let mut m = TopologyManager::new(peers.refs[i as usize], i as usize, k, p, b, rf, Duration::from_secs(500));
            for j in 0..k { if j != i as usize { m.on_node_connected(peers.refs[j], &HashSet::new(), 100 + j as u64, j, k); } }
            m
        }));
        let Some(m) = built else {
            ctx.oracle_fail(&format!("C14:panic n={n},B={b},P={p},rf={rf}"), "TopologyManager panicked while nodes connected (validated configuration)", &[op.clone()]);
            return;
        };
        let topo = m.get_assigned_partitions().clone();
        ctx.emit(&format!("c13 topo {i} {n} {p} {b} {rf}"), &sorted(topo.iter().copied()));
        let key = format!("C13:cfg i={i},n={n},B={b},P={p},rf={rf}");
        if topo != parts { ctx.oracle_fail(&key, "storage partitions != topology's assigned partitions", &[op.clone()]); }
        for pid in 0..p {
            let routed = m.partition_replicas.get(&pid).map(|r| r.contains(&peers.refs[i as usize])).unwrap_or(false);
            let stored_bucket = buckets.contains(&(pid % b));
            if routed != stored_bucket {
                ctx.oracle_fail(&key, &format!("partition {pid}: routed to node={routed} but bucket {} opened={stored_bucket}", pid % b), &[op.clone()]);
                break;
            }
            let want = (rf as usize).min(k);
            let reps = m.partition_replicas.get(&pid).cloned().unwrap_or_default();
            let distinct: HashSet<_> = reps.iter().collect();
            if reps.len() != want || distinct.len() != want {
                ctx.oracle_fail(&format!("C14:count n={n},B={b},P={p},rf={rf}"), &format!("partition {pid} has {} replicas ({} distinct), want min(rf,N)={want}", reps.len(), distinct.len()), &[op.clone()]);
                break;
            }
        }
        ctx.stat("cfg_with_topology_oracle");
    } else {
        // large clusters: the static assignment function of the topology only
        let topo = catch(move || {
            let peers = Peers::new(1);
            let m = TopologyManager::new(peers.refs[0], i as usize, k, p, b, rf, Duration::from_secs(500));
            (m.get_assigned_partitions().clone(), m.partition_replicas.clone(), peers.refs[0])
        });
        match topo {
            Some((topo, reps, me)) => {
                ctx.emit(&format!("c13 topo {i} {n} {p} {b} {rf}"), &sorted(topo.iter().copied()));
                if topo != parts { ctx.oracle_fail(&format!("C13:cfg i={i},n={n},B={b},P={p},rf={rf}"), "storage partitions != topology's assigned partitions", &[op.clone()]); }
                for pid in 0..p {
                    let routed = reps.get(&pid).map(|r| r.contains(&me)).unwrap_or(false);
                    if routed != topo.contains(&pid) {
                        ctx.oracle_fail(&format!("C14:owner n={n},B={b},P={p},rf={rf},i={i}"), &format!("partition {pid}: owns={} but in own replica set={routed}", topo.contains(&pid)), &[op.clone()]);
                        break;
                    }
                }
                ctx.stat("cfg_large_cluster");
            }
            None => ctx.oracle_fail(&format!("C13:cfg i={i},n={n},B={b},P={p},rf={rf}"), "TopologyManager::new panicked", &[op.clone()]),
        }
    }
}

pub fn run_c13(ctx: &mut Ctx) {
    if let Some(lines) = ctx.replay.clone() {
        for l in lines { let t: Vec<&str> = l.split_whitespace().collect();
            if t.len() == 7 && t[0] == "c13" && t[1] == "cfg" { c13_case(ctx, t[2].parse().unwrap(), t[3].parse().unwrap(), t[4].parse().unwrap(), t[5].parse().unwrap(), t[6].parse().unwrap()); } }
        return;
    }
    let (nmax, bmax, pmax) = if ctx.thorough() { (8u32, 16u16, 32u16) } else { (5, 8, 12) };
    // exhaustive small configurations (validation filters)
    for n in 1..=nmax { for i in 0..n { for b in 1..=bmax { for p in 1..=pmax { for rf in 1..=(n.min(12) as u8) {
        if p >= b && p as u32 >= n { c13_case(ctx, i, n, b, p, rf); }
    } } } } }
    // large clusters incl. the u8 truncation boundary
    for &n in &[13u32, 64, 255, 256, 257, 300] {
        for &b in &[1u16, 2, 7, 64, 256, 300, 1000] { for &rf in &[1u8, 2, 3, 12] {
            let p = (b.max(n as u16)).max(300) + (ctx.rng.below(50) as u16);
            for &i in &[0u32, 1, n / 2, n - 1] { c13_case(ctx, i, n, b, p, rf); }
        } }
    }
    let samples = if ctx.thorough() { 3000 } else { 400 };
    for _ in 0..samples {
        let n = ctx.rng.range(1, 40) as u32; let i = ctx.rng.below(n as u64) as u32;
        let b = ctx.rng.range(1, 80) as u16; let p = ctx.rng.range(1, 200) as u16; let rf = ctx.rng.range(0, 13) as u8;
        c13_case(ctx, i, n, b, p, rf);
    }
}

// ---------------------------------------------------------------- C14: membership events
struct Node { m: TopologyManager<ActorId>, slot: usize }

fn digest(m: &TopologyManager<ActorId>, peers: &Peers) -> String {
    let reps: Vec<String> = (0..m.num_partitions).map(|p| m.partition_replicas.get(&p).map(|r| r.iter().map(|x| peers.rk(x).to_string()).collect::<Vec<_>>().join(",")).unwrap_or_default()).collect();
    let mut act: Vec<(usize, u64, usize)> = m.active_nodes.iter().map(|(p, (s, i))| (peers.rank[p], *s, *i)).collect(); act.sort();
    let mut refs: Vec<usize> = m.cluster_nodes.keys().map(|p| peers.rank[p]).collect(); refs.sort();
    format!("replicas=[{}] active=[{}] refs=[{}]", reps.join("|"), act.iter().map(|(p, s, i)| format!("{p}:{s}:{i}")).collect::<Vec<_>>().join(","),
        refs.iter().map(|x| x.to_string()).collect::<Vec<_>>().join(","))
}

fn oracle_c14(ctx: &mut Ctx, nodes: &[Node], peers: &Peers, hist: &[String]) {
    // owner iff member (each node, for itself)
    for nd in nodes {
        let me = nd.m.local_cluster_ref;
        for p in 0..nd.m.num_partitions {
            let owns = nd.m.has_partition(p);
            let member = nd.m.partition_replicas.get(&p).map(|r| r.contains(&me)).unwrap_or(false);
            if owns != member {
                ctx.oracle_fail(&format!("C14:owner-iff-member slot={}", nd.slot), &format!("node owns partition {p}={owns} but appears in its replica set={member}"), hist);
                return;
            }
        }
    }
    // same members => same replica sets and coordinator order
    for a in 0..nodes.len() { for b in (a + 1)..nodes.len() {
        if nodes[a].m.active_nodes == nodes[b].m.active_nodes {
            ctx.stat("pairs_with_same_members");
            for p in 0..nodes[a].m.num_partitions {
                let ra: Vec<usize> = nodes[a].m.partition_replicas.get(&p).map(|r| r.iter().map(|x| peers.rk(x)).collect()).unwrap_or_default();
                let rb: Vec<usize> = nodes[b].m.partition_replicas.get(&p).map(|r| r.iter().map(|x| peers.rk(x)).collect()).unwrap_or_default();
                let (mut sa, mut sb) = (ra.clone(), rb.clone()); sa.sort(); sb.sort();
                if sa != sb { ctx.oracle_fail("C14:same-members", &format!("partition {p}: replica sets differ between two nodes with equal live members: {ra:?} vs {rb:?}"), hist); return; }
                let oa: Vec<usize> = nodes[a].m.get_available_replicas(p).iter().map(|(x, _)| peers.rk(x)).collect();
                let ob: Vec<usize> = nodes[b].m.get_available_replicas(p).iter().map(|(x, _)| peers.rk(x)).collect();
                if oa != ob { ctx.oracle_fail("C14:same-members", &format!("partition {p}: coordinator order differs: {oa:?} vs {ob:?}"), hist); return; }
            }
        }
    } }
}

fn c14_history(ctx: &mut Ctx, script: Option<&[String]>) {
    // configuration
    let n = ctx.rng.range(1, 5) as usize;
    let b = ctx.rng.range(1, 6) as u16; let p = ctx.rng.range(b as u64, 10) as u16; let rf = ctx.rng.range(1, 4) as u8;
    let peers = Peers::new(n + 1); // one spare peer (a stranger / late joiner)
    let nm = ctx.rng.range(1, 3.min(n as u64)) as usize;
    let mut hist: Vec<String> = vec![];
    let _ = script;
    let mut nodes: Vec<Node> = vec![];
    // node j <-> peer refs[j], configured index j, alive_since 100 + (j*7 % 5) (ties possible)
    let since = |j: usize| 100 + ((j * 7) % 3) as u64;
    for slot in 0..nm {
        let mut m = TopologyManager::new(peers.refs[slot], slot, n, p, b, rf, Duration::from_secs(500));
        m.alive_since = since(slot);
        // `new` recorded alive_since from the clock: re-register ourselves with the scripted value
        let me = *peers.refs[slot].peer_id().unwrap();
        m.active_nodes.insert(me, (since(slot), slot));
        let op = format!("c14 {slot} new {n} {p} {b} {rf} {} {slot} {}", peers.rk(&peers.refs[slot]), since(slot));
        hist.push(op.clone());
        ctx.emit(&op, &digest(&m, &peers));
        nodes.push(Node { m, slot });
    }
    let steps = ctx.rng.range(3, 14);
    for _ in 0..steps {
        let s = ctx.rng.below(nm as u64) as usize;
        let other = ctx.rng.below(n as u64 + 1) as usize; // may be the spare peer (index n: out of range)
        let kind = ctx.rng.below(100);
        let local_rank = peers.rk(&nodes[s].m.local_cluster_ref);
        let (op, res) = if kind < 30 {
            let r = peers.refs[other];
            if other == s { continue; }
            nodes[s].m.on_node_connected(r, &HashSet::new(), since(other), other, n);
            ctx.stat("ev_connect");
            (format!("c14 {s} connect {} {} {other}", peers.rk(&r), since(other)), digest(&nodes[s].m, &peers))
        } else if kind < 45 {
            if other == s { continue; }
            let pid = *peers.refs[other].peer_id().unwrap();
            nodes[s].m.on_node_disconnected(&pid);
            ctx.stat("ev_disconnect");
            (format!("c14 {s} disconnect {}", peers.rk(&peers.refs[other])), digest(&nodes[s].m, &peers))
        } else if kind < 70 {
            if other == s { continue; }
            // usually the configured index; sometimes an index change to an unused out-of-range index and back
            let idx = if ctx.rng.chance(1, 6) { n + 1 + other } else { other };
            let sn = if ctx.rng.chance(1, 5) { since(other) + 50 } else { since(other) };
            let ch = nodes[s].m.on_heartbeat(peers.refs[other], &HashSet::new(), sn, idx, n);
            ctx.stat(if ch { "ev_heartbeat_changed" } else { "ev_heartbeat_same" });
            (format!("c14 {s} heartbeat {} {sn} {idx}", peers.rk(&peers.refs[other])), format!("{ch} {}", digest(&nodes[s].m, &peers)))
        } else if kind < 82 {
            // age the heartbeats of a random subset, then check timeouts
            let mut aged = vec![];
            for j in 0..=n { if ctx.rng.chance(1, 3) {
                let pid = *peers.refs[j].peer_id().unwrap();
                if nodes[s].m.node_heartbeats.contains_key(&pid) {
                    if let Some(t) = Instant::now().checked_sub(Duration::from_secs(1000)) { nodes[s].m.node_heartbeats.insert(pid, t); aged.push(peers.rk(&peers.refs[j])); }
                }
            } }
            let ch = nodes[s].m.check_heartbeat_timeouts();
            // un-age survivors (the local peer never times out)
            let now = Instant::now();
            for v in nodes[s].m.node_heartbeats.values_mut() { *v = now; }
            ctx.stat(if ch { "ev_timeouts_changed" } else { "ev_timeouts_none" });
            let l = if aged.is_empty() { "-".to_string() } else { aged.iter().map(|x| x.to_string()).collect::<Vec<_>>().join(",") };
            (format!("c14 {s} timeouts {l}"), format!("{ch} {}", digest(&nodes[s].m, &peers)))
        } else {
            // an ownership response as another node (or a synthetic third party) would send it
            let (reps, act): (HashMap<u16, arrayvec::ArrayVec<ActorId, 12>>, HashMap<PeerId, (u64, usize)>) = if nm > 1 && ctx.rng.chance(2, 3) {
                let o = (s + 1 + ctx.rng.below(nm as u64 - 1) as usize) % nm;
                (nodes[o].m.partition_replicas.clone(), nodes[o].m.active_nodes.clone())
            } else {
                // synthetic third-party view: a subset of peers, replicas mention a (possibly different) subset
                let mut act = HashMap::new(); let mut reps: HashMap<u16, arrayvec::ArrayVec<ActorId, 12>> = HashMap::new();
                for j in 0..=n { if ctx.rng.chance(1, 2) { act.insert(*peers.refs[j].peer_id().unwrap(), (since(j), j)); } }
                for pp in 0..p { let mut v = arrayvec::ArrayVec::new(); for j in 0..=n { if ctx.rng.chance(1, 3) { v.push(peers.refs[j]); } } if !v.is_empty() { reps.insert(pp, v); } }
                (reps, act)
            };
            // the wire format scrambles replica order; the set of mentioned peers is what matters
            let mut mentioned: Vec<usize> = reps.values().flat_map(|v| v.iter().map(|x| peers.rk(x))).collect(); mentioned.sort(); mentioned.dedup();
            let mut al: Vec<(usize, u64, usize)> = act.iter().map(|(pp, (sn, ix))| (peers.rank[pp], *sn, *ix)).collect(); al.sort();
            nodes[s].m.handle_ownership_response(&reps, act);
            nodes[s].m.ensure_local_partitions();
            ctx.stat("ev_response");
            let ms = if mentioned.is_empty() { "-".into() } else { mentioned.iter().map(|x| x.to_string()).collect::<Vec<_>>().join(",") };
            let als = if al.is_empty() { "-".into() } else { al.iter().map(|(a, b2, c)| format!("{a}:{b2}:{c}")).collect::<Vec<_>>().join(",") };
            (format!("c14 {s} response {ms} {als}"), digest(&nodes[s].m, &peers))
        };
        let _ = local_rank;
        hist.push(op.clone());
        ctx.emit(&op, &res);
        // availability order of a random partition
        let pp = ctx.rng.below(p as u64) as u16;
        let av = nodes[s].m.get_available_replicas(pp);
        let op2 = format!("c14 {s} avail {pp}");
        hist.push(op2.clone());
        ctx.emit(&op2, &av.iter().map(|(x, sn)| format!("{}:{}", peers.rk(x), sn)).collect::<Vec<_>>().join(","));
        oracle_c14(ctx, &nodes, &peers, &hist);
    }
    ctx.nontrivial(&hist.join(";"));
}

/// full-knowledge clusters (every node connected): exactly min(rf, N) distinct replicas per partition,
/// incl. N >= 256 (u8 truncation boundary); mirrored in the model through `new` + `connect` ops.
fn c14_full(ctx: &mut Ctx, slot: usize, n: usize, b: u16, p: u16, rf: u8, me: usize) {
    let peers = Peers::new(n);
    let mut hist = vec![];
    let mut m = TopologyManager::new(peers.refs[me], me, n, p, b, rf, Duration::from_secs(500));
    m.alive_since = 100;
    m.active_nodes.insert(*peers.refs[me].peer_id().unwrap(), (100, me));
    let op = format!("c14 {slot} new {n} {p} {b} {rf} {} {me} 100", peers.rk(&peers.refs[me]));
    hist.push(op.clone());
    ctx.emit(&op, &digest(&m, &peers));
    for j in 0..n { if j != me {
        m.on_node_connected(peers.refs[j], &HashSet::new(), 100 + (j % 3) as u64, j, n);
        let op = format!("c14 {slot} connect {} {} {j}", peers.rk(&peers.refs[j]), 100 + (j % 3) as u64);
        hist.push(op.clone());
        if n <= 16 || j == n - 1 || (j == n - 2 && me == n - 1) { ctx.emit(&op, &digest(&m, &peers)); }
        else { ctx.emit(&op.replace(" connect ", " connectq "), "-"); }
    } }
    let want = (rf as usize).min(n);
    for pid in 0..p {
        let reps = m.partition_replicas.get(&pid).cloned().unwrap_or_default();
        let distinct: HashSet<_> = reps.iter().collect();
        if reps.len() != want || distinct.len() != want {
            ctx.oracle_fail(&format!("C14:count n={n},B={b},P={p},rf={rf}"), &format!("partition {pid} has {} replicas ({} distinct), want min(rf,N)={want}", reps.len(), distinct.len()), &hist);
            break;
        }
        let owns = m.has_partition(pid);
        if owns != reps.contains(&peers.refs[me]) {
            ctx.oracle_fail(&format!("C14:owner n={n},B={b},P={p},rf={rf},i={me}"), &format!("partition {pid}: owns={owns} but in own replica set={}", !owns), &hist);
            break;
        }
    }
    ctx.stat("full_knowledge_clusters");
    ctx.nontrivial(&format!("full {n} {b} {p} {rf} {me}"));
}

pub fn run_c14(ctx: &mut Ctx) {
    let mut slot = 100;
    let nmax = if ctx.thorough() { 7 } else { 5 };
    for n in 1..=nmax { for b in [1u16, 2, 3, 5] { for rf in 1..=(n.min(4) as u8) {
        let p = b.max(n as u16) + 2; let me = (n + b as usize) % n;
        c14_full(ctx, slot, n, b, p, rf, me); slot += 1;
    } } }
    for &(n, b, rf) in &[(13usize, 7u16, 12u8), (13, 7, 13), (14, 3, 13), (255, 3, 2), (256, 1, 1), (256, 7, 3), (257, 64, 3), (300, 256, 12)] {
        let me = if ctx.rng.chance(1, 2) { 0 } else { n - 1 };
        let p = (n as u16).max(b) + 5;
        // only configurations the server's validation accepts
        if !matches!(mk_cfg(me as u32, n as u32, b, p, rf).validate(), Ok(e) if e.is_empty()) { ctx.stat("full_cfg_rejected_by_validation"); continue; }
        let r = catch(std::panic::AssertUnwindSafe(|| c14_full(ctx, slot, n, b, p, rf, me)));
        if r.is_none() { ctx.oracle_fail(&format!("C14:panic n={n},B={b},P={p},rf={rf}"), "TopologyManager panicked while nodes connected (validated configuration)", &[format!("c14 {slot} new {n} {p} {b} {rf} 0 {me} 100")]); }
        slot += 1;
    }
    let cases = if ctx.thorough() { 20000 } else { 2500 };
    for _ in 0..cases { c14_history(ctx, None); }
}
