//! C21: command grammar — the REAL `X::parser().skip(eof())` of sierradb-server against the Lean
//! model `Server/Parse.lean`, plus the property oracle evaluated on the implementation alone:
//!   * doc:     a rendering of a documented command form parses into the request it denotes
//!   * reject:  a near-miss that is certainly outside the documented grammar is rejected
//!   * kw:      no stream id of an accepted request is a reserved keyword
//!   * client:  the argument vector a REAL client builder produces parses into the intended request
//! op line:  `c21 parse <CMD> <hex token>...`      result line: canonical request or `err`
use crate::util::*;
use combine::{Parser, eof};
use redis_protocol::resp3::types::{BytesFrame, VerbatimStringFormat};
use sierradb::id::NAMESPACE_PARTITION_KEY;
use sierradb_cluster::subscription::{FromSequences, FromVersions, SubscriptionMatcher};
use sierradb_protocol::ExpectedVersion;
use sierradb_server::parser::frame_stream;
use sierradb_server::request::eack::EAck;
use sierradb_server::request::eappend::EAppend;
use sierradb_server::request::eget::EGet;
use sierradb_server::request::emappend::EMAppend;
use sierradb_server::request::epscan::EPScan;
use sierradb_server::request::epseq::EPSeq;
use sierradb_server::request::epsub::EPSub;
use sierradb_server::request::escan::EScan;
use sierradb_server::request::esub::ESub;
use sierradb_server::request::esver::ESVer;
use sierradb_server::request::{PartitionSelector, RangeValue};
use uuid::Uuid;

type Toks = Vec<Vec<u8>>;

/// the clause keywords of the command grammar (what may never be taken as a stream id)
const KEYWORDS: [&str; 12] = ["PARTITION_KEY", "FROM", "WINDOW", "LATEST", "MAP", "DEFAULT", "EVENT_ID",
    "EXPECTED_VERSION", "TIMESTAMP", "PAYLOAD", "METADATA", "COUNT"];
const CMDS: [&str; 10] = ["ESUB", "EPSUB", "EAPPEND", "EMAPPEND", "ESCAN", "EPSCAN", "EGET", "ESVER", "EPSEQ", "EACK"];

fn is_keyword(s: &[u8]) -> bool {
    std::str::from_utf8(s).map(|s| KEYWORDS.contains(&s.to_uppercase().as_str())).unwrap_or(false)
}

// ---------------------------------------------------------------------------------------------
// canonical text of a request (the same format is printed by lean/Driver/Grammar.lean)
// ---------------------------------------------------------------------------------------------
fn u128hex(u: Uuid) -> String { format!("{:032x}", u.as_u128()) }
fn opt_n(o: Option<u64>) -> String { o.map(|n| n.to_string()).unwrap_or("none".into()) }
fn opt_u(o: Option<Uuid>) -> String { o.map(u128hex).unwrap_or("none".into()) }
fn v5(stream: &[u8]) -> Uuid { Uuid::new_v5(&NAMESPACE_PARTITION_KEY, stream) }
/// partition key of a stream selector: `v5` when it is the key the server derives from the stream id
fn pk_txt(stream: &[u8], pk: Uuid) -> (Option<u128>, String) {
    if pk == v5(stream) { (None, "v5".into()) } else { (Some(pk.as_u128()), u128hex(pk)) }
}
fn ev_txt(e: ExpectedVersion) -> String {
    match e { ExpectedVersion::Any => "any".into(), ExpectedVersion::Exists => "exists".into(),
              ExpectedVersion::Empty => "empty".into(), ExpectedVersion::Exact(n) => n.to_string() }
}
fn rv_txt(r: &RangeValue) -> String {
    match r { RangeValue::Start => "-".into(), RangeValue::End => "+".into(), RangeValue::Value(n) => n.to_string() }
}
fn sel_txt(p: &PartitionSelector) -> String {
    match p { PartitionSelector::ById(i) => format!("id:{i}"), PartitionSelector::ByKey(k) => format!("key:{}", u128hex(*k)) }
}
fn fs_txt(f: &FromSequences) -> String {
    match f {
        FromSequences::Latest => "latest".into(),
        FromSequences::AllPartitions(n) => format!("all:{n}"),
        FromSequences::Partitions { from_sequences, fallback } => {
            let mut v: Vec<(u16, u64)> = from_sequences.iter().map(|(k, v)| (*k, *v)).collect();
            v.sort();
            format!("map:{};default={}", v.iter().map(|(k, v)| format!("{k}={v}")).collect::<Vec<_>>().join(","), opt_n(*fallback))
        }
    }
}

/// streams of an accepted request (for the keyword oracle)
struct Parsed { canon: String, streams: Vec<Vec<u8>> }

fn canon_esub(c: ESub) -> Parsed {
    let w = opt_n(c.window_size);
    match c.matcher {
        SubscriptionMatcher::Stream { partition_key, stream_id, from_version } => {
            let s = stream_id.as_bytes().to_vec();
            Parsed { canon: format!("esub one {} pk={} from={} window={}", hex(&s), pk_txt(&s, partition_key).1, opt_n(from_version), w), streams: vec![s] }
        }
        SubscriptionMatcher::Streams { stream_ids, from_versions } => {
            let mut v: Vec<(Vec<u8>, Option<u128>, String)> = stream_ids.iter().map(|(pk, s)| {
                let s = s.as_bytes().to_vec(); let (o, t) = pk_txt(&s, *pk); (s, o, t) }).collect();
            v.sort();
            let mut streams: Vec<Vec<u8>> = v.iter().map(|x| x.0.clone()).collect();
            let f = match from_versions {
                FromVersions::Latest => "latest".to_string(),
                FromVersions::AllStreams(n) => format!("all:{n}"),
                FromVersions::Streams(m) => {
                    let mut e: Vec<(Vec<u8>, u64)> = m.iter().map(|((_, s), n)| (s.as_bytes().to_vec(), *n)).collect();
                    e.sort();
                    for x in &e { streams.push(x.0.clone()); }
                    format!("map:{}", e.iter().map(|(s, n)| format!("{}={}", hex(s), n)).collect::<Vec<_>>().join(","))
                }
            };
            Parsed { canon: format!("esub many {} from={} window={}", v.iter().map(|x| format!("{}/{}", hex(&x.0), x.2)).collect::<Vec<_>>().join(","), f, w), streams }
        }
        _ => Parsed { canon: "esub unexpected-matcher".into(), streams: vec![] },
    }
}
fn canon_epsub(c: EPSub) -> Parsed {
    let w = opt_n(c.window_size);
    let canon = match c.matcher {
        SubscriptionMatcher::AllPartitions { from_sequences } => format!("epsub all from={} window={}", fs_txt(&from_sequences), w),
        SubscriptionMatcher::Partition { partition_id, from_sequence } => format!("epsub one {} from={} window={}", partition_id, opt_n(from_sequence), w),
        SubscriptionMatcher::Partitions { partition_ids, from_sequences } => {
            let mut v: Vec<u16> = partition_ids.into_iter().collect(); v.sort();
            format!("epsub many {} from={} window={}", v.iter().map(|x| x.to_string()).collect::<Vec<_>>().join(","), fs_txt(&from_sequences), w)
        }
        _ => "epsub unexpected-matcher".into(),
    };
    Parsed { canon, streams: vec![] }
}
fn ev_fields(id: Option<Uuid>, ev: ExpectedVersion, ts: Option<u64>, payload: &[u8], meta: &[u8]) -> String {
    format!("id={} ev={} ts={} payload={} meta={}", opt_u(id), ev_txt(ev), opt_n(ts), hex(payload), hex(meta))
}

fn frames_of(toks: &Toks, kind: u8) -> Vec<BytesFrame> {
    toks.iter().map(|t| match kind {
        1 => BytesFrame::SimpleString { data: t.clone().into(), attributes: None },
        2 => BytesFrame::VerbatimString { data: t.clone().into(), format: VerbatimStringFormat::Text, attributes: None },
        _ => BytesFrame::BlobString { data: t.clone().into(), attributes: None },
    }).collect()
}

/// the observation point: `<Command>::parser().skip(eof())` on the argument frames
fn run_real(cmd: &str, toks: &Toks, kind: u8) -> Option<Result<Parsed, ()>> {
    let frames = frames_of(toks, kind);
    let cmd = cmd.to_string();
    catch(move || {
        let st = frame_stream(&frames);
        macro_rules! go { ($p:expr, $f:expr) => { match $p.skip(eof()).parse(st) { Ok((c, _)) => Ok($f(c)), Err(_) => Err(()) } } }
        match cmd.as_str() {
            "ESUB" => go!(ESub::parser(), canon_esub),
            "EPSUB" => go!(EPSub::parser(), canon_epsub),
            "EAPPEND" => go!(EAppend::parser(), |c: EAppend| Parsed {
                canon: format!("eappend {} {} pk={} {}", hex(c.stream_id.as_bytes()), hex(c.event_name.as_bytes()), opt_u(c.partition_key),
                    ev_fields(c.event_id, c.expected_version, c.timestamp, &c.payload, &c.metadata)),
                streams: vec![c.stream_id.as_bytes().to_vec()] }),
            "EMAPPEND" => go!(EMAppend::parser(), |c: EMAppend| Parsed {
                canon: format!("emappend {} {}", u128hex(c.partition_key), c.events.iter().map(|e| format!("{} {} {}", hex(e.stream_id.as_bytes()),
                    hex(e.event_name.as_bytes()), ev_fields(e.event_id, e.expected_version, e.timestamp, &e.payload, &e.metadata))).collect::<Vec<_>>().join(" ; ")),
                streams: c.events.iter().map(|e| e.stream_id.as_bytes().to_vec()).collect() }),
            "ESCAN" => go!(EScan::parser(), |c: EScan| Parsed {
                canon: format!("escan {} {} {} pk={} count={}", hex(c.stream_id.as_bytes()), rv_txt(&c.start_version), rv_txt(&c.end_version), opt_u(c.partition_key), opt_n(c.count)),
                streams: vec![c.stream_id.as_bytes().to_vec()] }),
            "EPSCAN" => go!(EPScan::parser(), |c: EPScan| Parsed {
                canon: format!("epscan {} {} {} count={}", sel_txt(&c.partition), rv_txt(&c.start_sequence), rv_txt(&c.end_sequence), opt_n(c.count)), streams: vec![] }),
            "EGET" => go!(EGet::parser(), |c: EGet| Parsed { canon: format!("eget {}", u128hex(c.event_id)), streams: vec![] }),
            "ESVER" => go!(ESVer::parser(), |c: ESVer| Parsed {
                canon: format!("esver {} pk={}", hex(c.stream_id.as_bytes()), opt_u(c.partition_key)), streams: vec![c.stream_id.as_bytes().to_vec()] }),
            "EPSEQ" => go!(EPSeq::parser(), |c: EPSeq| Parsed { canon: format!("epseq {}", sel_txt(&c.partition)), streams: vec![] }),
            "EACK" => go!(EAck::parser(), |c: EAck| Parsed { canon: format!("eack {} {}", u128hex(c.subscription_id), c.cursor), streams: vec![] }),
            _ => Err(()),
        }
    })
}

fn op_line(cmd: &str, toks: &Toks) -> String {
    let mut s = format!("c21 parse {cmd}");
    for t in toks { s.push(' '); s.push_str(&hex(t)); }
    s
}
fn show(toks: &Toks) -> String {
    toks.iter().map(|t| match std::str::from_utf8(t) { Ok(s) if s.chars().all(|c| !c.is_control() && c != ' ') && !s.is_empty() => s.to_string(), _ => format!("0x{}", hex(t)) }).collect::<Vec<_>>().join(" ")
}

thread_local! { static REPORTED: std::cell::RefCell<std::collections::HashMap<String, u32>> = Default::default(); }
/// report at most 2 failing inputs per oracle key (the framework keeps the first 200 lines overall)
fn fail(ctx: &mut Ctx, key: &str, what: &str, replay: &[String]) {
    let n = REPORTED.with(|r| { let mut r = r.borrow_mut(); let e = r.entry(key.to_string()).or_insert(0); *e += 1; *e });
    ctx.stat("oracle_failures_all");
    if n <= 2 { ctx.oracle_fail(key, what, replay); }
}

#[derive(Clone)]
enum Expect { Doc(String), Reject, Client(String), None }

/// one case through the real parser: emit for the model, evaluate the oracles.
fn case(ctx: &mut Ctx, cmd: &str, toks: &Toks, expect: Expect, key: &str) {
    let kind = if ctx.rng.chance(1, 10) { 1 + ctx.rng.below(2) as u8 } else { 0 };
    let op = op_line(cmd, toks);
    let r = run_real(cmd, toks, kind);
    let res = match &r { None => "trap".to_string(), Some(Err(())) => "err".into(), Some(Ok(p)) => p.canon.clone() };
    let replay = |e: &Expect| -> Vec<String> {
        let d = match e { Expect::Doc(s) => format!("@c21 doc {}", hex(s.as_bytes())), Expect::Client(s) => format!("@c21 client {} {}", hex(key.as_bytes()), hex(s.as_bytes())),
                          Expect::Reject => format!("@c21 reject {}", hex(key.as_bytes())), Expect::None => "@c21 none".into() };
        vec![d, op.clone()]
    };
    if r.is_none() { fail(ctx, &format!("C21:panic {cmd}"), &format!("parser panicked on: {cmd} {}", show(toks)), &replay(&expect)); }
    if let Some(Ok(p)) = &r {
        for s in &p.streams {
            if is_keyword(s) {
                fail(ctx, &format!("C21:kw-as-stream {cmd}"),
                    &format!("keyword taken as stream id: {cmd} {} => {}", show(toks), p.canon), &replay(&expect));
                break;
            }
        }
    }
    match &expect {
        Expect::Doc(want) => {
            ctx.stat(&format!("doc_{}", cmd.to_lowercase()));
            if &res != want {
                fail(ctx, &format!("C21:doc {key}"), &format!("documented form does not parse as documented: {cmd} {} => {} (intended: {})", show(toks), res, want), &replay(&expect));
            }
        }
        Expect::Client(want) => {
            ctx.stat(&format!("client_{}", cmd.to_lowercase()));
            if &res != want {
                fail(ctx, &format!("C21:client {key}"), &format!("client-emitted command does not parse as intended: {cmd} {} => {} (intended: {})", show(toks), res, want), &replay(&expect));
            }
        }
        Expect::Reject => {
            ctx.stat(&format!("reject_{}", cmd.to_lowercase()));
            if res != "err" {
                fail(ctx, &format!("C21:reject {key}"), &format!("input outside the documented grammar accepted: {cmd} {} => {}", show(toks), res), &replay(&expect));
            }
        }
        Expect::None => {}
    }
    ctx.stat(if res == "err" { "result_err" } else { "result_ok" });
    if res != "err" { ctx.stat(&format!("ok_{}", cmd.to_lowercase())); }
    ctx.nontrivial(&op);
    ctx.emit(&op, &res);
}

// ---------------------------------------------------------------------------------------------
// lexeme generators
// ---------------------------------------------------------------------------------------------
fn kw(ctx: &mut Ctx, k: &str) -> Vec<u8> {
    match ctx.rng.below(5) {
        0 => k.to_string().into_bytes(),
        1 => k.to_lowercase().into_bytes(),
        2 => { let l = k.to_lowercase(); let mut c = l.chars(); c.next().map(|f| f.to_uppercase().collect::<String>() + c.as_str()).unwrap_or_default().into_bytes() }
        _ => k.chars().map(|c| if ctx.rng.chance(1, 2) { c.to_ascii_lowercase() } else { c }).collect::<String>().into_bytes(),
    }
}
const STREAMS: [&str; 14] = ["user-123", "user-1", "user-2", "user-3", "s", "orders", "my-stream", "stream1", "a=b", "FROMX", "x-from", "latest1", "0", "ünï-cødé"];
fn stream_ok(ctx: &mut Ctx) -> Vec<u8> {
    let s = stream_ok_(ctx);
    if is_keyword(&s) { b"not-a-keyword".to_vec() } else { s }
}
fn stream_ok_(ctx: &mut Ctx) -> Vec<u8> {
    match ctx.rng.below(12) {
        0 => vec![b'a'; 64],
        1 => "é".repeat(32).into_bytes(),                 // 64 bytes, 32 chars
        2 => { let n = ctx.rng.range(1, 64) as usize; (0..n).map(|_| b"abcdefghijklmnopqrstuvwxyz0123456789-_:."[ctx.rng.below(40) as usize]).collect() }
        _ => ctx.rng.pick(&STREAMS).as_bytes().to_vec(),
    }
}
fn stream_bad(ctx: &mut Ctx) -> Vec<u8> {
    match ctx.rng.below(5) { 0 => vec![], 1 => vec![b'a'; 65], 2 => "é".repeat(33).into_bytes(), 3 => b"a\0b".to_vec(), _ => vec![0xff, 0xfe, b'a'] }
}
fn u64_val(ctx: &mut Ctx) -> u64 {
    match ctx.rng.below(8) { 0 => 0, 1 => 1, 2 => u64::MAX, 3 => u64::MAX - 1, 4 => ctx.rng.next(), _ => ctx.rng.below(2000) }
}
/// a lexeme `u64::from_str` accepts with value v
fn u64_lex(ctx: &mut Ctx, v: u64) -> Vec<u8> {
    match ctx.rng.below(8) { 0 => format!("+{v}"), 1 => format!("00{v}"), 2 => format!("+0{v}"), _ => v.to_string() }.into_bytes()
}
const BAD_NUM: [&str; 12] = ["", "+", "-", "-1", "-0", "18446744073709551616", "99999999999999999999", "abc", "1.0", " 5", "5 ", "0x10"];
const BAD_U16: [&str; 8] = ["65536", "-1", "", "70000", "1.5", "x", "+", "18446744073709551615"];
fn uuid_val(ctx: &mut Ctx) -> Uuid {
    match ctx.rng.below(6) { 0 => Uuid::nil(), 1 => Uuid::max(), _ => Uuid::from_u128(((ctx.rng.next() as u128) << 64) | ctx.rng.next() as u128) }
}
fn uuid_lex(ctx: &mut Ctx, u: Uuid) -> Vec<u8> {
    match ctx.rng.below(10) {
        0 => u.simple().to_string(), 1 => u.braced().to_string(), 2 => u.urn().to_string(),
        3 => u.hyphenated().to_string().to_uppercase(), 4 => format!(" {} ", u.hyphenated()), 5 => format!("\t{}\u{3000}", u.simple()),
        _ => u.hyphenated().to_string(),
    }.into_bytes()
}
const BAD_UUID: [&str; 8] = ["", "abc-def", "550e8400-e29b-41d4-a716-44665544000", "550e8400-e29b-41d4-a716-4466554400000", "g50e8400-e29b-41d4-a716-446655440000",
    "550e8400e29b-41d4-a716-446655440000-", "{550e8400e29b41d4a716446655440000}", "42"];
fn data_val(ctx: &mut Ctx) -> Vec<u8> {
    match ctx.rng.below(9) { 0 => br#"{"name":"john"}"#.to_vec(), 1 => vec![0xff, 0x00, 0x80], 2 => b"PAYLOAD".to_vec(), 3 => b"metadata".to_vec(), 4 => b"17".to_vec(), 5 => vec![],
        _ => { let n = ctx.rng.range(1, 12) as usize; ctx.rng.bytes(n) } }
}
fn name_val(ctx: &mut Ctx) -> Vec<u8> {
    match ctx.rng.below(8) { 0 => vec![], 1 => b"PAYLOAD".to_vec(), 2 => b"Count".to_vec(), 3 => "Ünï".as_bytes().to_vec(), _ => ctx.rng.pick(&["UserCreated", "EventA", "EventB", "OrderPlaced", "e"]).as_bytes().to_vec() }
}

/// a generated command: tokens with the spans of its optional clauses (for the near-miss mutations)
struct Gen { cmd: &'static str, toks: Toks, want: String, shape: String,
             clauses: Vec<(usize, usize)>,           // (start, len) of each keyword-introduced clause
             nums: Vec<(usize, u8)>,                 // token positions holding a number (1 = u64, 2 = u16, 3 = window, 4 = range)
             uuids: Vec<usize>, streams: Vec<usize> }
impl Gen {
    fn new(cmd: &'static str) -> Gen { Gen { cmd, toks: vec![], want: String::new(), shape: String::new(), clauses: vec![], nums: vec![], uuids: vec![], streams: vec![] } }
    fn push(&mut self, t: Vec<u8>) -> usize { self.toks.push(t); self.toks.len() - 1 }
}

fn window_clause(ctx: &mut Ctx, g: &mut Gen) -> Option<u64> {
    if ctx.rng.chance(1, 2) { return None; }
    let v = u64_val(ctx).max(1);
    let s = g.toks.len();
    let k = kw(ctx, "WINDOW"); g.push(k);
    let l = u64_lex(ctx, v); let p = g.push(l); g.nums.push((p, 3));
    g.clauses.push((s, 2));
    Some(v)
}

fn gen_esub(ctx: &mut Ctx) -> Gen {
    let mut g = Gen::new("ESUB");
    let n = [1, 1, 2, 3, 4][ctx.rng.below(5) as usize];
    let mut sels: Vec<(Vec<u8>, Option<Uuid>)> = vec![];
    while sels.len() < n {
        let s = stream_ok(ctx);
        if sels.iter().any(|x| x.0 == s) { continue; }
        let pk = if ctx.rng.chance(1, 3) { let u = uuid_val(ctx); if u == v5(&s) { None } else { Some(u) } } else { None };
        let p = g.push(s.clone()); g.streams.push(p);
        if let Some(u) = pk { let k = kw(ctx, "PARTITION_KEY"); g.push(k); let l = uuid_lex(ctx, u); let p = g.push(l); g.uuids.push(p); }
        sels.push((s, pk));
    }
    // FROM
    enum F { None, Latest, Num(u64), Map(Vec<(Vec<u8>, u64)>) }
    let f = match ctx.rng.below(4) {
        0 => F::None,
        1 => { let s = g.toks.len(); let k = kw(ctx, "FROM"); g.push(k); let k = kw(ctx, "LATEST"); g.push(k); g.clauses.push((s, 2)); F::Latest }
        2 => { let s = g.toks.len(); let v = u64_val(ctx); let k = kw(ctx, "FROM"); g.push(k); let l = u64_lex(ctx, v); let p = g.push(l); g.nums.push((p, 1)); g.clauses.push((s, 2)); F::Num(v) }
        _ => {
            let s = g.toks.len();
            let k = kw(ctx, "FROM"); g.push(k); let k = kw(ctx, "MAP"); g.push(k);
            let mut m = vec![];
            for (st, _) in &sels {
                if st.contains(&b'=') { continue; }
                if m.is_empty() || ctx.rng.chance(3, 4) { let v = u64_val(ctx); let mut e = st.clone(); e.push(b'='); e.extend(u64_lex(ctx, v)); g.push(e); m.push((st.clone(), v)); }
            }
            if m.is_empty() { let v = u64_val(ctx); g.push(format!("zz-not-selected={v}").into_bytes()); }
            g.clauses.push((s, g.toks.len() - s));
            F::Map(m)
        }
    };
    let w = window_clause(ctx, &mut g);
    let pk_t = |s: &[u8], pk: Option<Uuid>| pk.map(|u| pk_txt(s, u).1).unwrap_or("v5".into());
    if sels.len() == 1 {
        let (s, pk) = &sels[0];
        let fv = match &f { F::None | F::Latest => None, F::Num(v) => Some(*v), F::Map(m) => m.iter().find(|e| &e.0 == s).map(|e| e.1) };
        g.want = format!("esub one {} pk={} from={} window={}", hex(s), pk_t(s, *pk), opt_n(fv), opt_n(w));
    } else {
        let mut v: Vec<(Vec<u8>, Option<u128>, String)> = sels.iter().map(|(s, pk)| (s.clone(), pk.map(|u| u.as_u128()), pk_t(s, *pk))).collect();
        v.sort();
        let ft = match &f { F::None | F::Latest => "latest".to_string(), F::Num(v) => format!("all:{v}"),
            F::Map(m) => { let mut e = m.clone(); e.sort(); format!("map:{}", e.iter().map(|(s, n)| format!("{}={}", hex(s), n)).collect::<Vec<_>>().join(",")) } };
        g.want = format!("esub many {} from={} window={}", v.iter().map(|x| format!("{}/{}", hex(&x.0), x.2)).collect::<Vec<_>>().join(","), ft, opt_n(w));
    }
    g.shape = format!("ESUB n={} pk={} from={} window={}", if n == 1 { "1" } else { "many" }, sels.iter().any(|s| s.1.is_some()) as u8,
        match f { F::None => "none", F::Latest => "latest", F::Num(_) => "version", F::Map(_) => "map" }, w.is_some() as u8);
    g
}

fn gen_epsub(ctx: &mut Ctx) -> Gen {
    let mut g = Gen::new("EPSUB");
    enum S { All, One(u16), Many(Vec<u16>) }
    let pid = |ctx: &mut Ctx| -> u16 { match ctx.rng.below(5) { 0 => 0, 1 => 65535, _ => ctx.rng.below(1024) as u16 } };
    let sel = match ctx.rng.below(3) {
        0 => { g.push(b"*".to_vec()); S::All }
        1 => { let p = pid(ctx); let l = if ctx.rng.chance(1, 6) { format!("+{p}") } else if ctx.rng.chance(1, 6) { format!("00{p}") } else { p.to_string() };
               let i = g.push(l.into_bytes()); g.nums.push((i, 2)); S::One(p) }
        _ => { let n = ctx.rng.range(2, 5) as usize; let v: Vec<u16> = (0..n).map(|_| pid(ctx)).collect();
               let parts: Vec<String> = v.iter().map(|p| match ctx.rng.below(6) { 0 => format!(" {p}"), 1 => format!("{p} "), 2 => format!("+{p}"), _ => p.to_string() }).collect();
               g.push(parts.join(",").into_bytes()); S::Many(v) }
    };
    enum F { None, Latest, Num(u64), Map(Vec<(u16, u64)>, Option<u64>) }
    let single = matches!(sel, S::One(_));
    let f = match ctx.rng.below(if single { 3 } else { 4 }) {
        0 => F::None,
        1 => { let s = g.toks.len(); let v = u64_val(ctx); let k = kw(ctx, "FROM"); g.push(k); let l = u64_lex(ctx, v); let p = g.push(l); g.nums.push((p, 1)); g.clauses.push((s, 2)); F::Num(v) }
        2 => { let s = g.toks.len(); let k = kw(ctx, "FROM"); g.push(k); let k = kw(ctx, "LATEST"); g.push(k); g.clauses.push((s, 2)); F::Latest }
        _ => {
            let s = g.toks.len();
            let k = kw(ctx, "FROM"); g.push(k); let k = kw(ctx, "MAP"); g.push(k);
            let n = ctx.rng.range(1, 3) as usize; let mut m: Vec<(u16, u64)> = vec![];
            while m.len() < n { let p = pid(ctx); if m.iter().any(|e| e.0 == p) { continue; } let v = u64_val(ctx);
                let mut e = p.to_string().into_bytes(); e.push(b'='); e.extend(u64_lex(ctx, v)); g.push(e); m.push((p, v)); }
            let d = if ctx.rng.chance(1, 2) { let v = u64_val(ctx); let k = kw(ctx, "DEFAULT"); g.push(k); let l = u64_lex(ctx, v); let p = g.push(l); g.nums.push((p, 1)); Some(v) } else { None };
            g.clauses.push((s, g.toks.len() - s));
            F::Map(m, d)
        }
    };
    let w = window_clause(ctx, &mut g);
    let ft = |f: &F| match f { F::None | F::Latest => "latest".to_string(), F::Num(v) => format!("all:{v}"),
        F::Map(m, d) => { let mut e = m.clone(); e.sort(); format!("map:{};default={}", e.iter().map(|(k, v)| format!("{k}={v}")).collect::<Vec<_>>().join(","), opt_n(*d)) } };
    g.want = match &sel {
        S::All => format!("epsub all from={} window={}", ft(&f), opt_n(w)),
        S::One(p) => format!("epsub one {} from={} window={}", p, opt_n(match &f { F::Num(v) => Some(*v), _ => None }), opt_n(w)),
        S::Many(v) => { let mut v = v.clone(); v.sort(); v.dedup(); format!("epsub many {} from={} window={}", v.iter().map(|x| x.to_string()).collect::<Vec<_>>().join(","), ft(&f), opt_n(w)) }
    };
    g.shape = format!("EPSUB sel={} from={} window={}", match sel { S::All => "all", S::One(_) => "one", S::Many(_) => "list" },
        match f { F::None => "none", F::Latest => "latest", F::Num(_) => "seq", F::Map(_, None) => "map", F::Map(_, Some(_)) => "map+default" }, w.is_some() as u8);
    g
}

struct EvWant { id: Option<Uuid>, pk: Option<Uuid>, ev: ExpectedVersion, ts: Option<u64>, payload: Vec<u8>, meta: Vec<u8> }
/// optional clauses of EAPPEND / an EMAPPEND event, each at most once, in random order
fn append_clauses(ctx: &mut Ctx, g: &mut Gen, with_pk: bool) -> (EvWant, String) {
    let mut w = EvWant { id: None, pk: None, ev: ExpectedVersion::Any, ts: None, payload: vec![], meta: vec![] };
    let mut kinds: Vec<u8> = (0..6u8).filter(|k| (*k != 1 || with_pk) && ctx.rng.chance(2, 5)).collect();
    for i in (1..kinds.len()).rev() { let j = ctx.rng.below(i as u64 + 1) as usize; kinds.swap(i, j); }
    let mut shape = String::new();
    for k in kinds {
        let s = g.toks.len();
        match k {
            0 => { let u = uuid_val(ctx); let t = kw(ctx, "EVENT_ID"); g.push(t); let l = uuid_lex(ctx, u); let p = g.push(l); g.uuids.push(p); w.id = Some(u); shape.push('I'); }
            1 => { let u = uuid_val(ctx); let t = kw(ctx, "PARTITION_KEY"); g.push(t); let l = uuid_lex(ctx, u); let p = g.push(l); g.uuids.push(p); w.pk = Some(u); shape.push('K'); }
            2 => { let t = kw(ctx, "EXPECTED_VERSION"); g.push(t);
                   match ctx.rng.below(4) { 0 => { let t = kw(ctx, "ANY"); g.push(t); w.ev = ExpectedVersion::Any; } 1 => { let t = kw(ctx, "EXISTS"); g.push(t); w.ev = ExpectedVersion::Exists; }
                       2 => { let t = kw(ctx, "EMPTY"); g.push(t); w.ev = ExpectedVersion::Empty; } _ => { let v = u64_val(ctx); let l = u64_lex(ctx, v); g.push(l); w.ev = ExpectedVersion::Exact(v); } }
                   shape.push('V'); }
            3 => { let v = u64_val(ctx); let t = kw(ctx, "TIMESTAMP"); g.push(t); let l = u64_lex(ctx, v); let p = g.push(l); g.nums.push((p, 1)); w.ts = Some(v); shape.push('T'); }
            4 => { let d = data_val(ctx); let t = kw(ctx, "PAYLOAD"); g.push(t); g.push(d.clone()); w.payload = d; shape.push('P'); }
            _ => { let d = data_val(ctx); let t = kw(ctx, "METADATA"); g.push(t); g.push(d.clone()); w.meta = d; shape.push('M'); }
        }
        g.clauses.push((s, 2));
    }
    (w, shape)
}
fn gen_eappend(ctx: &mut Ctx) -> Gen {
    let mut g = Gen::new("EAPPEND");
    let s = stream_ok(ctx); let p = g.push(s.clone()); g.streams.push(p);
    let n = name_val(ctx); g.push(n.clone());
    let (w, shape) = append_clauses(ctx, &mut g, true);
    g.want = format!("eappend {} {} pk={} {}", hex(&s), hex(&n), opt_u(w.pk), ev_fields(w.id, w.ev, w.ts, &w.payload, &w.meta));
    g.shape = format!("EAPPEND clauses={}", shape.len());
    g
}
fn gen_emappend(ctx: &mut Ctx) -> Gen {
    let mut g = Gen::new("EMAPPEND");
    let pk = uuid_val(ctx); let l = uuid_lex(ctx, pk); let p = g.push(l); g.uuids.push(p);
    let n = ctx.rng.range(1, 3);
    let mut evs = vec![]; let mut shapes = vec![];
    for _ in 0..n {
        let s = stream_ok(ctx); let p = g.push(s.clone()); g.streams.push(p);
        // an event name that is itself a clause keyword would change the meaning of what follows only if it were
        // followed by a clause argument; names are free-form strings in the documented grammar
        let nm = name_val(ctx); g.push(nm.clone());
        let (w, shape) = append_clauses(ctx, &mut g, false);
        evs.push(format!("{} {} {}", hex(&s), hex(&nm), ev_fields(w.id, w.ev, w.ts, &w.payload, &w.meta))); shapes.push(shape);
    }
    g.want = format!("emappend {} {}", u128hex(pk), evs.join(" ; "));
    g.shape = format!("EMAPPEND events={} clauses={}", n, shapes.iter().map(|x| x.len().to_string()).collect::<Vec<_>>().join("/"));
    g
}
fn range_lex(ctx: &mut Ctx, g: &mut Gen) -> String {
    match ctx.rng.below(4) { 0 => { g.push(b"-".to_vec()); "-".into() } 1 => { g.push(b"+".to_vec()); "+".into() }
        _ => { let v = u64_val(ctx); let l = u64_lex(ctx, v); let p = g.push(l); g.nums.push((p, 4)); v.to_string() } }
}
fn gen_escan(ctx: &mut Ctx) -> Gen {
    let mut g = Gen::new("ESCAN");
    let s = stream_ok(ctx); let p = g.push(s.clone()); g.streams.push(p);
    let a = range_lex(ctx, &mut g); let b = range_lex(ctx, &mut g);
    let mut pk = None; let mut count = None;
    let mut kinds: Vec<u8> = (0..2u8).filter(|_| ctx.rng.chance(1, 2)).collect();
    if kinds.len() == 2 && ctx.rng.chance(1, 2) { kinds.swap(0, 1); }
    let mut shape = String::new();
    for k in kinds {
        let st = g.toks.len();
        if k == 0 { let u = uuid_val(ctx); let t = kw(ctx, "PARTITION_KEY"); g.push(t); let l = uuid_lex(ctx, u); let p = g.push(l); g.uuids.push(p); pk = Some(u); shape.push('K'); }
        else { let v = u64_val(ctx); let t = kw(ctx, "COUNT"); g.push(t); let l = u64_lex(ctx, v); let p = g.push(l); g.nums.push((p, 1)); count = Some(v); shape.push('C'); }
        g.clauses.push((st, 2));
    }
    g.want = format!("escan {} {} {} pk={} count={}", hex(&s), a, b, opt_u(pk), opt_n(count));
    g.shape = format!("ESCAN clauses={shape}");
    g
}
fn psel(ctx: &mut Ctx, g: &mut Gen) -> String {
    if ctx.rng.chance(1, 2) { let u = uuid_val(ctx); let l = uuid_lex(ctx, u); let p = g.push(l); g.uuids.push(p); format!("key:{}", u128hex(u)) }
    else { let v = match ctx.rng.below(4) { 0 => 0, 1 => 65535, _ => ctx.rng.below(5000) as u16 }; let l = if ctx.rng.chance(1, 5) { format!("+{v}") } else { v.to_string() };
           let p = g.push(l.into_bytes()); g.nums.push((p, 2)); format!("id:{v}") }
}
fn gen_epscan(ctx: &mut Ctx) -> Gen {
    let mut g = Gen::new("EPSCAN");
    let s = psel(ctx, &mut g); let a = range_lex(ctx, &mut g); let b = range_lex(ctx, &mut g);
    let mut count = None;
    if ctx.rng.chance(1, 2) { let st = g.toks.len(); let v = u64_val(ctx); let t = kw(ctx, "COUNT"); g.push(t); let l = u64_lex(ctx, v); let p = g.push(l); g.nums.push((p, 1)); count = Some(v); g.clauses.push((st, 2)); }
    g.want = format!("epscan {} {} {} count={}", s, a, b, opt_n(count));
    g.shape = format!("EPSCAN sel={} count={}", &s[..2], count.is_some() as u8);
    g
}
fn gen_small(ctx: &mut Ctx, which: u8) -> Gen {
    match which {
        0 => { let mut g = Gen::new("EGET"); let u = uuid_val(ctx); let l = uuid_lex(ctx, u); let p = g.push(l); g.uuids.push(p); g.want = format!("eget {}", u128hex(u)); g.shape = "EGET".into(); g }
        1 => { let mut g = Gen::new("ESVER"); let s = stream_ok(ctx); let p = g.push(s.clone()); g.streams.push(p); let mut pk = None;
               if ctx.rng.chance(1, 2) { let st = g.toks.len(); let u = uuid_val(ctx); let t = kw(ctx, "PARTITION_KEY"); g.push(t); let l = uuid_lex(ctx, u); let p = g.push(l); g.uuids.push(p); pk = Some(u); g.clauses.push((st, 2)); }
               g.want = format!("esver {} pk={}", hex(&s), opt_u(pk)); g.shape = format!("ESVER pk={}", pk.is_some() as u8); g }
        2 => { let mut g = Gen::new("EPSEQ"); let s = psel(ctx, &mut g); g.want = format!("epseq {s}"); g.shape = format!("EPSEQ sel={}", &s[..2]); g }
        _ => { let mut g = Gen::new("EACK"); let u = uuid_val(ctx); let l = uuid_lex(ctx, u); let p = g.push(l); g.uuids.push(p); let v = u64_val(ctx); let l = u64_lex(ctx, v); let p = g.push(l); g.nums.push((p, 1));
               g.want = format!("eack {} {}", u128hex(u), v); g.shape = "EACK".into(); g }
    }
}
fn gen_any(ctx: &mut Ctx, which: usize) -> Gen {
    match which { 0 => gen_esub(ctx), 1 => gen_epsub(ctx), 2 => gen_eappend(ctx), 3 => gen_emappend(ctx), 4 => gen_escan(ctx), 5 => gen_epscan(ctx), n => gen_small(ctx, (n - 6) as u8) }
}

/// near-miss variants of a documented rendering that are certainly outside the documented grammar
fn near_misses(ctx: &mut Ctx, g: &Gen) {
    let cmd = g.cmd;
    let mut out: Vec<(String, Toks)> = vec![];
    // a number that is not a number (negative, 2^64, text, empty, `+`)
    for &(p, k) in &g.nums {
        let bad = if k == 2 { *ctx.rng.pick(&BAD_U16) } else { *ctx.rng.pick(&BAD_NUM) };
        // a range position also takes `-` and `+`
        if k == 4 && (bad == "-" || bad == "+") { continue; }
        let mut t = g.toks.clone(); t[p] = bad.as_bytes().to_vec(); out.push(("bad-number".into(), t));
        if k == 3 { let mut t = g.toks.clone(); t[p] = b"0".to_vec(); out.push(("window-zero".into(), t)); }
    }
    for &p in &g.uuids { let mut t = g.toks.clone(); t[p] = ctx.rng.pick(&BAD_UUID).as_bytes().to_vec();
        // `42` is a partition id where a partition selector is expected
        if (cmd == "EPSCAN" || cmd == "EPSEQ") && t[p] == b"42" { continue; }
        out.push(("bad-uuid".into(), t)); }
    for &p in &g.streams { let mut t = g.toks.clone(); t[p] = stream_bad(ctx); out.push(("bad-stream-id".into(), t));
        // a clause keyword of ANOTHER command family in a stream-id position (one of this command's own keywords
        // followed by the next token could happen to form a documented clause)
        let foreign: &[&str] = match cmd { "ESUB" => &["PAYLOAD", "METADATA", "COUNT", "TIMESTAMP", "EVENT_ID", "EXPECTED_VERSION", "DEFAULT"],
            "EAPPEND" | "EMAPPEND" => &["FROM", "WINDOW", "LATEST", "MAP", "DEFAULT", "COUNT"], _ => &["FROM", "WINDOW", "LATEST", "MAP", "DEFAULT", "PAYLOAD", "METADATA", "TIMESTAMP"] };
        let k = *ctx.rng.pick(foreign);
        let mut t = g.toks.clone(); t[p] = kw(ctx, k); out.push(("keyword-as-stream-id".into(), t)); }
    for &(s, l) in &g.clauses {
        // the same clause twice
        let mut t = g.toks[..s + l].to_vec(); t.extend_from_slice(&g.toks[s..s + l]); t.extend_from_slice(&g.toks[s + l..]); out.push(("duplicate-clause".into(), t));
        // a clause keyword without its argument (2-token clauses)
        if l == 2 { let mut t = g.toks.clone(); t.remove(s + 1); out.push(("missing-argument".into(), t)); }
    }
    // clauses in an order the documentation does not allow (subscription commands: FROM before WINDOW)
    if (cmd == "ESUB" || cmd == "EPSUB") && g.clauses.len() == 2 {
        let (s1, l1) = g.clauses[0]; let (s2, l2) = g.clauses[1];
        let mut t = g.toks[..s1].to_vec(); t.extend_from_slice(&g.toks[s2..s2 + l2]); t.extend_from_slice(&g.toks[s1..s1 + l1]); out.push(("window-before-from".into(), t));
    }
    // a trailing clause keyword / trailing garbage
    { let k = *ctx.rng.pick(&KEYWORDS); let mut t = g.toks.clone(); t.push(kw(ctx, k)); out.push(("trailing-keyword".into(), t)); }
    if cmd != "ESUB" && cmd != "EMAPPEND" { let mut t = g.toks.clone(); t.push(b"extra".to_vec()); out.push(("trailing-token".into(), t)); }
    // no arguments at all / first positional missing
    out.push(("no-arguments".into(), vec![]));
    if matches!(cmd, "ESUB" | "ESCAN" | "ESVER" | "EPSUB" | "EPSCAN" | "EACK") && g.toks.len() > 1 {
        // (for ESUB with several selectors the remainder is still a documented form)
        if !(cmd == "ESUB" && g.streams.len() > 1 && g.toks.get(1).map(|t| !is_keyword(t)).unwrap_or(false)) { out.push(("missing-first-positional".into(), g.toks[1..].to_vec())); }
    }
    for (m, t) in out { case(ctx, cmd, &t, Expect::Reject, &format!("{cmd} {m}")); ctx.stat(&format!("nearmiss_{m}")); }
}

// ---------------------------------------------------------------------------------------------
// literal forms of the server's command documentation (request/*.rs doc comments, README.md)
// ---------------------------------------------------------------------------------------------
fn documented_examples(ctx: &mut Ctx) {
    let u = "550e8400-e29b-41d4-a716-446655440000"; let uh = "550e8400e29b41d4a716446655440000";
    let (ka, kb, kc) = ("00000000-0000-0000-0000-00000000000a", "00000000-0000-0000-0000-00000000000b", "00000000-0000-0000-0000-00000000000c");
    let h = |s: &str| hex(s.as_bytes());
    let many = |v: &[(&str, &str)]| { let mut v: Vec<(Vec<u8>, String)> = v.iter().map(|(s, p)| (s.as_bytes().to_vec(), p.to_string())).collect(); v.sort();
        v.iter().map(|(s, p)| format!("{}/{}", hex(s), p)).collect::<Vec<_>>().join(",") };
    let k = |n: u8| format!("{:032x}", n);
    let ex: Vec<(&str, String, String)> = vec![
        ("ESUB", "user-123".into(), format!("esub one {} pk=v5 from=none window=none", h("user-123"))),
        ("ESUB", "user-123 WINDOW 100".into(), format!("esub one {} pk=v5 from=none window=100", h("user-123"))),
        ("ESUB", "user-123 FROM 50 WINDOW 100".into(), format!("esub one {} pk=v5 from=50 window=100", h("user-123"))),
        ("ESUB", "user-123 FROM LATEST".into(), format!("esub one {} pk=v5 from=none window=none", h("user-123"))),
        ("ESUB", format!("user-123 PARTITION_KEY {u} FROM 50"), format!("esub one {} pk={uh} from=50 window=none", h("user-123"))),
        ("ESUB", format!("user-123 PARTITION_KEY {u} FROM 50 WINDOW 100"), format!("esub one {} pk={uh} from=50 window=100", h("user-123"))),
        ("ESUB", "user-1 user-2 user-3".into(), format!("esub many {} from=latest window=none", many(&[("user-1", "v5"), ("user-2", "v5"), ("user-3", "v5")]))),
        ("ESUB", "user-1 user-2 user-3 WINDOW 500".into(), format!("esub many {} from=latest window=500", many(&[("user-1", "v5"), ("user-2", "v5"), ("user-3", "v5")]))),
        ("ESUB", "user-1 user-2 user-3 FROM LATEST WINDOW 500".into(), format!("esub many {} from=latest window=500", many(&[("user-1", "v5"), ("user-2", "v5"), ("user-3", "v5")]))),
        ("ESUB", "user-1 user-2 user-3 FROM 100 WINDOW 500".into(), format!("esub many {} from=all:100 window=500", many(&[("user-1", "v5"), ("user-2", "v5"), ("user-3", "v5")]))),
        ("ESUB", format!("user-1 PARTITION_KEY {ka} user-2 PARTITION_KEY {kb} user-3 PARTITION_KEY {kc} FROM LATEST WINDOW 100"),
            format!("esub many {} from=latest window=100", many(&[("user-1", &k(10)), ("user-2", &k(11)), ("user-3", &k(12))]))),
        ("ESUB", format!("user-1 PARTITION_KEY {ka} user-2 user-3 PARTITION_KEY {kc} FROM LATEST WINDOW 100"),
            format!("esub many {} from=latest window=100", many(&[("user-1", &k(10)), ("user-2", "v5"), ("user-3", &k(12))]))),
        ("ESUB", "user-1 user-2 user-3 FROM MAP user-1=10 user-2=20 user-3=30 WINDOW 50".into(),
            format!("esub many {} from=map:{}=10,{}=20,{}=30 window=50", many(&[("user-1", "v5"), ("user-2", "v5"), ("user-3", "v5")]), h("user-1"), h("user-2"), h("user-3"))),
        ("ESUB", format!("stream1 PARTITION_KEY {ka} stream2 stream3 PARTITION_KEY {kc} FROM MAP stream1=10 stream2=20 stream3=30 WINDOW 50"),
            format!("esub many {} from=map:{}=10,{}=20,{}=30 window=50", many(&[("stream1", &k(10)), ("stream2", "v5"), ("stream3", &k(12))]), h("stream1"), h("stream2"), h("stream3"))),
        ("EPSUB", "*".into(), "epsub all from=latest window=none".into()),
        ("EPSUB", "* WINDOW 100".into(), "epsub all from=latest window=100".into()),
        ("EPSUB", "* FROM 1000 WINDOW 100".into(), "epsub all from=all:1000 window=100".into()),
        ("EPSUB", "5 FROM 100 WINDOW 50".into(), "epsub one 5 from=100 window=50".into()),
        ("EPSUB", "1,2,3 FROM MAP 1=100 2=200 DEFAULT 0 WINDOW 500".into(), "epsub many 1,2,3 from=map:1=100,2=200;default=0 window=500".into()),
        ("EAPPEND", r#"my-stream UserCreated EXPECTED_VERSION empty PAYLOAD {"name":"john"} METADATA {"source":"api"}"#.into(),
            format!("eappend {} {} pk=none id=none ev=empty ts=none payload={} meta={}", h("my-stream"), h("UserCreated"), h(r#"{"name":"john"}"#), h(r#"{"source":"api"}"#))),
        ("EAPPEND", r#"orders OrderPlaced EXPECTED_VERSION 5 PAYLOAD {"order_id":"12345"}"#.into(),
            format!("eappend {} {} pk=none id=none ev=5 ts=none payload={} meta=-", h("orders"), h("OrderPlaced"), h(r#"{"order_id":"12345"}"#))),
        ("EMAPPEND", format!(r#"{u} stream1 EventA EXPECTED_VERSION empty PAYLOAD {{"data":"value1"}} stream2 EventB EXPECTED_VERSION 0 PAYLOAD {{"data":"value2"}}"#),
            format!("emappend {uh} {} {} id=none ev=empty ts=none payload={} meta=- ; {} {} id=none ev=0 ts=none payload={} meta=-", h("stream1"), h("EventA"), h(r#"{"data":"value1"}"#), h("stream2"), h("EventB"), h(r#"{"data":"value2"}"#))),
        ("EGET", u.into(), format!("eget {uh}")),
        ("ESCAN", "my-stream 0 100 COUNT 50".into(), format!("escan {} 0 100 pk=none count=50", h("my-stream"))),
        ("ESCAN", format!("my-stream - + PARTITION_KEY {u}"), format!("escan {} - + pk={uh} count=none", h("my-stream"))),
        ("ESCAN", "user-123 - +".into(), format!("escan {} - + pk=none count=none", h("user-123"))),
        ("EPSCAN", "42 100 200 COUNT 50".into(), "epscan id:42 100 200 count=50".into()),
        ("EPSCAN", format!("{u} - + COUNT 100"), format!("epscan key:{uh} - + count=100")),
        ("ESVER", "my-stream".into(), format!("esver {} pk=none", h("my-stream"))),
        ("ESVER", format!("my-stream PARTITION_KEY {u}"), format!("esver {} pk={uh}", h("my-stream"))),
        ("EPSEQ", "42".into(), "epseq id:42".into()),
        ("EPSEQ", u.into(), format!("epseq key:{uh}")),
        ("EACK", format!("{u} 1000"), format!("eack {uh} 1000")),
    ];
    for (cmd, line, want) in ex {
        let toks: Toks = line.split(' ').map(|s| s.as_bytes().to_vec()).collect();
        case(ctx, cmd, &toks, Expect::Doc(want.clone()), &format!("{cmd} {line}"));
        // the same form with lower-case keywords
        let lower: Toks = toks.iter().map(|t| if is_keyword(t) { t.to_ascii_lowercase() } else { t.clone() }).collect();
        case(ctx, cmd, &lower, Expect::Doc(want), &format!("{cmd} {}", line.to_lowercase()));
        ctx.stat("documented_examples");
    }
}

// ---------------------------------------------------------------------------------------------
// the REAL client builders
// ---------------------------------------------------------------------------------------------
fn cmd_args(c: &redis::Cmd) -> (String, Toks) {
    let mut v: Toks = c.args_iter().map(|a| match a { redis::Arg::Simple(b) => b.to_vec(), redis::Arg::Cursor => b"0".to_vec(), _ => b"?".to_vec() }).collect();
    let name = String::from_utf8_lossy(&v.remove(0)).to_uppercase();
    (name, v)
}

fn on(o: Option<u64>) -> String { o.map(|x| x.to_string()).unwrap_or("none".into()) }
fn ou(o: Option<Uuid>) -> String { o.map(u128hex).unwrap_or("none".into()) }
fn opts_txt(w: &EvWant) -> String { format!("{} {} {} {} {} {}", ou(w.id), ou(w.pk), ev_txt(w.ev), on(w.ts), hex(&w.payload), hex(&w.meta)) }
/// `c21 emit …`: the model's `ClientCmd.emit` must produce the same argument vector as the real builder
fn emit_case(ctx: &mut Ctx, em: &str, toks: &Toks) {
    if em.is_empty() { return; }
    ctx.stat("client_emit_compared");
    ctx.emit(&format!("c21 emit {em}"), &toks.iter().map(|t| hex(t)).collect::<Vec<_>>().join(" "));
}

fn client_commands(ctx: &mut Ctx) {
    use sierradb_client::{CmdExt, EAppendOptions, EMAppendEvent};
    use std::time::{Duration, UNIX_EPOCH};
    let n = if ctx.thorough() { 4000 } else { 400 };
    for _ in 0..n {
        // client streams are what an application passes; it knows not to use clause keywords (documented after the fix)
        let s = String::from_utf8(loop { let s = stream_ok(ctx); if std::str::from_utf8(&s).is_ok() { break s; } }).unwrap();
        let u = uuid_val(ctx); let uh = u128hex(u);
        let pid = match ctx.rng.below(4) { 0 => 0u16, 1 => 65535, _ => ctx.rng.below(2048) as u16 };
        let v = u64_val(ctx); let v2 = u64_val(ctx);
        let cnt = if ctx.rng.chance(1, 2) { Some(u64_val(ctx)) } else { None };
        let end = if ctx.rng.chance(1, 2) { Some(v2) } else { None };
        let end_t = end.map(|x| x.to_string()).unwrap_or("+".into());
        let sh = hex(s.as_bytes());
        let which = ctx.rng.below(20);
        let (c, want, key, em): (redis::Cmd, String, &str, String) = match which {
            0 => {
                let mut o = EAppendOptions::new(); let mut w = EvWant { id: None, pk: None, ev: ExpectedVersion::Any, ts: None, payload: vec![], meta: vec![] };
                if ctx.rng.chance(1, 2) { o = o.event_id(u); w.id = Some(u); }
                if ctx.rng.chance(1, 2) { let k = uuid_val(ctx); o = o.partition_key(k); w.pk = Some(k); }
                match ctx.rng.below(4) { 0 => {} 1 => { o = o.expected_version(ExpectedVersion::Exists); w.ev = ExpectedVersion::Exists; } 2 => { o = o.expected_version(ExpectedVersion::Empty); w.ev = ExpectedVersion::Empty; }
                    _ => { o = o.expected_version(ExpectedVersion::Exact(v)); w.ev = ExpectedVersion::Exact(v); } }
                if ctx.rng.chance(1, 2) { let ms = ctx.rng.below(1 << 45); o = o.timestamp(UNIX_EPOCH + Duration::from_millis(ms)); w.ts = Some(ms); }
                if ctx.rng.chance(1, 2) { let d = data_val(ctx); o = o.payload(d.clone()); w.payload = d; }
                if ctx.rng.chance(1, 2) { let d = data_val(ctx); o = o.metadata(d.clone()); w.meta = d; }
                let name = "UserCreated";
                (redis::Cmd::eappend(s.as_str(), name, o), format!("eappend {sh} {} pk={} {}", hex(name.as_bytes()), opt_u(w.pk), ev_fields(w.id, w.ev, w.ts, &w.payload, &w.meta)), "eappend",
                 format!("eappend {sh} {} {}", hex(name.as_bytes()), opts_txt(&w)))
            }
            1 => {
                let ne = ctx.rng.range(1, 3); let mut evs = vec![]; let mut wants = vec![]; let mut ems = vec![];
                for i in 0..ne {
                    let st = format!("{s}{i}"); let st = if st.len() > 64 { format!("s{i}") } else { st };
                    let mut e = EMAppendEvent::new(st.clone(), "EventA"); let mut w = EvWant { id: None, pk: None, ev: ExpectedVersion::Any, ts: None, payload: vec![], meta: vec![] };
                    if ctx.rng.chance(1, 2) { let k = uuid_val(ctx); e = e.event_id(k); w.id = Some(k); }
                    match ctx.rng.below(3) { 0 => {} 1 => { e = e.expected_version(ExpectedVersion::Empty); w.ev = ExpectedVersion::Empty; } _ => { e = e.expected_version(ExpectedVersion::Exact(v)); w.ev = ExpectedVersion::Exact(v); } }
                    if ctx.rng.chance(1, 2) { let ms = ctx.rng.below(1 << 45); e = e.timestamp(UNIX_EPOCH + Duration::from_millis(ms)); w.ts = Some(ms); }
                    if ctx.rng.chance(1, 2) { let d = data_val(ctx); e = e.payload(d.clone()); w.payload = d; }
                    if ctx.rng.chance(1, 2) { let d = data_val(ctx); e = e.metadata(d.clone()); w.meta = d; }
                    wants.push(format!("{} {} {}", hex(st.as_bytes()), hex(b"EventA"), ev_fields(w.id, w.ev, w.ts, &w.payload, &w.meta))); evs.push(e);
                    ems.push(format!("{} {} {}", hex(st.as_bytes()), hex(b"EventA"), opts_txt(&w)));
                }
                (redis::Cmd::emappend(u, &evs), format!("emappend {uh} {}", wants.join(" ; ")), "emappend", format!("emappend {uh} {}", ems.join(" ")))
            }
            2 => (redis::Cmd::eget(u), format!("eget {uh}"), "eget", format!("eget {uh}")),
            3 => (redis::Cmd::epscan_by_key(u, v, end, cnt), format!("epscan key:{uh} {v} {end_t} count={}", cnt.unwrap_or(100)), "epscan_by_key", format!("epscan_key {uh} {v} {} {}", on(end), on(cnt))),
            4 => (redis::Cmd::epscan_by_id(pid, v, end, cnt), format!("epscan id:{pid} {v} {end_t} count={}", cnt.unwrap_or(100)), "epscan_by_id", format!("epscan_id {pid} {v} {} {}", on(end), on(cnt))),
            5 => (redis::Cmd::escan(s.as_str(), v, end, cnt), format!("escan {sh} {v} {end_t} pk=none count={}", cnt.unwrap_or(100)), "escan", format!("escan {sh} none {v} {} {}", on(end), on(cnt))),
            6 => (redis::Cmd::escan_with_partition_key(s.as_str(), u, v, end, cnt), format!("escan {sh} {v} {end_t} pk={uh} count={}", cnt.unwrap_or(100)), "escan_with_partition_key", format!("escan {sh} {uh} {v} {} {}", on(end), on(cnt))),
            7 => (redis::Cmd::epseq_by_key(u), format!("epseq key:{uh}"), "epseq_by_key", format!("epseq_key {uh}")),
            8 => (redis::Cmd::epseq_by_id(pid), format!("epseq id:{pid}"), "epseq_by_id", format!("epseq_id {pid}")),
            9 => (redis::Cmd::esver(s.as_str()), format!("esver {sh} pk=none"), "esver", format!("esver {sh} none")),
            10 => (redis::Cmd::esver_with_partition_key(s.as_str(), u), format!("esver {sh} pk={uh}"), "esver_with_partition_key", format!("esver {sh} {uh}")),
            11 => (redis::Cmd::esub(s.as_str()), format!("esub one {sh} pk=v5 from=none window=none"), "esub", format!("esub_opts {sh} none none none")),
            12 => (redis::Cmd::esub_with_partition_key(s.as_str(), u), format!("esub one {sh} pk={} from=none window=none", pk_txt(s.as_bytes(), u).1), "esub_with_partition_key", format!("esub_opts {sh} {uh} none none")),
            13 => (redis::Cmd::esub_from_version(s.as_str(), v), format!("esub one {sh} pk=v5 from={v} window=none"), "esub_from_version", format!("esub_opts {sh} none {v} none")),
            14 => (redis::Cmd::esub_with_partition_and_version(s.as_str(), u, v), format!("esub one {sh} pk={} from={v} window=none", pk_txt(s.as_bytes(), u).1), "esub_with_partition_and_version", format!("esub_opts {sh} {uh} {v} none")),
            // EPSUB by partition key: the client relies on the server mapping the key to its partition
            15 => (redis::Cmd::epsub_by_key(u), "epsub key".to_string(), "EPSUB <partition_key>", format!("epsub_key {uh} none none")),
            16 => (redis::Cmd::epsub_by_id(pid), format!("epsub one {pid} from=none window=none"), "epsub_by_id", format!("epsub_id {pid} none none")),
            17 => (redis::Cmd::epsub_by_key_from_sequence(u, v), "epsub key".to_string(), "EPSUB <partition_key>", format!("epsub_key {uh} {v} none")),
            18 => (redis::Cmd::epsub_by_id_from_sequence(pid, v), format!("epsub one {pid} from={v} window=none"), "epsub_by_id_from_sequence", format!("epsub_id {pid} {v} none")),
            _ => (redis::Cmd::eack(u, v), format!("eack {uh} {v}"), "eack", format!("eack {uh} {v}")),
        };
        let (name, toks) = cmd_args(&c);
        // "epsub key": any accepted request that subscribes to the key's partition would do; there is none to compare with
        let want = if want == "epsub key" { "epsub <subscription to the partition of the key>".to_string() } else { want };
        ctx.stat(&format!("client_builder_{key}"));
        case(ctx, &name, &toks, Expect::Client(want), key);
        emit_case(ctx, &em, &toks);
    }
}

// ----- SubscriptionManager: its builders only exist inside async methods that send the command; they are
// ----- driven against an in-process loopback socket that records the argument vectors and answers with an id.
mod loopback {
    use std::io::{Read, Write};
    use std::net::TcpListener;
    use std::sync::mpsc::Sender;

    fn parse_cmd(buf: &[u8]) -> Option<(Vec<Vec<u8>>, usize)> {
        let line = |p: usize| -> Option<(usize, usize)> { let e = buf[p..].windows(2).position(|w| w == b"\r\n")?; Some((p + e, p + e + 2)) };
        if buf.first()? != &b'*' { return None; }
        let (e, mut p) = line(1)?; let n: usize = std::str::from_utf8(&buf[1..e]).ok()?.parse().ok()?;
        let mut out = vec![];
        for _ in 0..n {
            if buf.get(p)? != &b'$' { return None; }
            let (e, q) = line(p + 1)?; let l: usize = std::str::from_utf8(&buf[p + 1..e]).ok()?.parse().ok()?;
            if buf.len() < q + l + 2 { return None; }
            out.push(buf[q..q + l].to_vec()); p = q + l + 2;
        }
        Some((out, p))
    }

    /// accept one connection; record every non-handshake command
    pub fn serve(listener: TcpListener, tx: Sender<Vec<Vec<u8>>>) {
        std::thread::spawn(move || {
            let Ok((mut s, _)) = listener.accept() else { return };
            let mut buf: Vec<u8> = vec![]; let mut tmp = [0u8; 4096];
            loop {
                while let Some((cmd, used)) = parse_cmd(&buf) {
                    buf.drain(..used);
                    let name = String::from_utf8_lossy(&cmd[0]).to_uppercase();
                    let reply: Vec<u8> = match name.as_str() {
                        "HELLO" => b"%2\r\n+server\r\n+sierradb\r\n+proto\r\n:3\r\n".to_vec(),
                        "CLIENT" | "SELECT" | "AUTH" | "EACK" => b"+OK\r\n".to_vec(),
                        "PING" => b"+PONG\r\n".to_vec(),
                        _ => b"+550e8400-e29b-41d4-a716-446655440000\r\n".to_vec(),
                    };
                    if !matches!(name.as_str(), "HELLO" | "CLIENT" | "SELECT" | "AUTH" | "PING") { let _ = tx.send(cmd); }
                    if s.write_all(&reply).is_err() { return; }
                }
                match s.read(&mut tmp) { Ok(0) | Err(_) => return, Ok(n) => buf.extend_from_slice(&tmp[..n]) }
            }
        });
    }
}

fn subscription_manager_commands(ctx: &mut Ctx) {
    use std::collections::HashMap;
    let Ok(listener) = std::net::TcpListener::bind("127.0.0.1:0") else { ctx.stat("submgr_no_loopback"); return };
    let port = listener.local_addr().unwrap().port();
    let (tx, rx) = std::sync::mpsc::channel();
    loopback::serve(listener, tx);
    let rt = tokio::runtime::Builder::new_multi_thread().worker_threads(1).enable_all().build().unwrap();
    let n = if ctx.thorough() { 2000 } else { 300 };
    let client = redis::Client::open(format!("redis://127.0.0.1:{port}/?protocol=resp3")).unwrap();
    let mgr = rt.block_on(async { tokio::time::timeout(std::time::Duration::from_secs(10), sierradb_client::SubscriptionManager::new(&client)).await });
    let Ok(Ok(mut mgr)) = mgr else { ctx.stat("submgr_connect_failed"); ctx.oracle_fail("C21:harness submgr", "could not drive the client's SubscriptionManager over loopback", &[]); return };
    for _ in 0..n {
        let s = String::from_utf8(loop { let s = stream_ok(ctx); if std::str::from_utf8(&s).is_ok() { break s; } }).unwrap();
        let sh = hex(s.as_bytes());
        let u = uuid_val(ctx); let pkt = pk_txt(s.as_bytes(), u).1;
        let pid = match ctx.rng.below(4) { 0 => 0u16, 1 => 65535, _ => ctx.rng.below(2048) as u16 };
        let v = u64_val(ctx);
        let w = match ctx.rng.below(4) { 0 => 1u32, 1 => u32::MAX, _ => 1 + ctx.rng.below(5000) as u32 };
        let wo = if ctx.rng.chance(1, 2) { Some(w) } else { None };
        let wot = wo.map(|x| x.to_string()).unwrap_or("none".into());
        let which = ctx.rng.below(24);
        let mut m: HashMap<u16, u64> = HashMap::new();
        for _ in 0..ctx.rng.range(1, 3) { m.insert(ctx.rng.below(64) as u16, u64_val(ctx)); }
        let mut ms: Vec<(u16, u64)> = m.iter().map(|(k, v)| (*k, *v)).collect(); ms.sort();
        let mt = ms.iter().map(|(k, v)| format!("{k}={v}")).collect::<Vec<_>>().join(",");
        let keys = ms.iter().map(|(k, _)| k.to_string()).collect::<Vec<_>>().join(",");
        let (a, b) = { let a = ctx.rng.below(200) as u16; (a, a + ctx.rng.below(100) as u16) };
        let kq = "epsub <subscription to the partition of the key>".to_string();
        let fb = v.rotate_left(7) ^ 0x55;
        let (want, key): (String, &str) = rt.block_on(async {
            let r: (redis::RedisResult<sierradb_client::EventSubscription>, String, &str) = match which {
                0 => (mgr.subscribe_to_stream(s.as_str()).await, format!("esub one {sh} pk=v5 from=none window=none"), "subscribe_to_stream"),
                1 => (mgr.subscribe_to_stream_with_window(s.as_str(), w).await, format!("esub one {sh} pk=v5 from=none window={w}"), "subscribe_to_stream_with_window"),
                2 => (mgr.subscribe_to_stream_from_version(s.as_str(), v).await, format!("esub one {sh} pk=v5 from={v} window=none"), "subscribe_to_stream_from_version"),
                3 => (mgr.subscribe_to_stream_from_version_with_window(s.as_str(), v, w).await, format!("esub one {sh} pk=v5 from={v} window={w}"), "subscribe_to_stream_from_version_with_window"),
                4 => (mgr.subscribe_to_stream_with_partition_key(s.as_str(), u).await, format!("esub one {sh} pk={pkt} from=none window=none"), "subscribe_to_stream_with_partition_key"),
                5 => (mgr.subscribe_to_stream_with_partition_key_and_window(s.as_str(), u, w).await, format!("esub one {sh} pk={pkt} from=none window={w}"), "subscribe_to_stream_with_partition_key_and_window"),
                6 => (mgr.subscribe_to_stream_with_partition_and_version(s.as_str(), u, v).await, format!("esub one {sh} pk={pkt} from={v} window=none"), "subscribe_to_stream_with_partition_and_version"),
                7 => (mgr.subscribe_to_stream_with_partition_and_version_and_window(s.as_str(), u, v, w).await, format!("esub one {sh} pk={pkt} from={v} window={w}"), "subscribe_to_stream_with_partition_and_version_and_window"),
                8 => (mgr.subscribe_to_stream_from_latest(s.as_str()).await, format!("esub one {sh} pk=v5 from=none window=none"), "subscribe_to_stream_from_latest"),
                9 => (mgr.subscribe_to_partition(pid).await, format!("epsub one {pid} from=none window=none"), "subscribe_to_partition"),
                10 => (mgr.subscribe_to_partition_with_window(pid, w).await, format!("epsub one {pid} from=none window={w}"), "subscribe_to_partition_with_window"),
                11 => (mgr.subscribe_to_partition_from_sequence(pid, v).await, format!("epsub one {pid} from={v} window=none"), "subscribe_to_partition_from_sequence"),
                12 => (mgr.subscribe_to_partition_from_sequence_with_window(pid, v, w).await, format!("epsub one {pid} from={v} window={w}"), "subscribe_to_partition_from_sequence_with_window"),
                13 => (mgr.subscribe_to_partition_key(u).await, kq.clone(), "EPSUB <partition_key>"),
                14 => (mgr.subscribe_to_partition_key_with_window(u, w).await, kq.clone(), "EPSUB <partition_key>"),
                15 => (mgr.subscribe_to_partition_key_from_sequence(u, v).await, kq.clone(), "EPSUB <partition_key>"),
                16 => (mgr.subscribe_to_partition_key_from_sequence_with_window(u, v, w).await, kq.clone(), "EPSUB <partition_key>"),
                17 => (mgr.subscribe_to_partitions(&keys, v, wo).await, if ms.len() == 1 { format!("epsub one {keys} from={v} window={wot}") } else { format!("epsub many {keys} from=all:{v} window={wot}") }, "subscribe_to_partitions(list)"),
                18 => (mgr.subscribe_to_all_partitions(v, wo).await, format!("epsub all from=all:{v} window={wot}"), "subscribe_to_all_partitions"),
                19 => (mgr.subscribe_to_partition_range(a, b, v, wo).await, format!("epsub many {} from=all:{v} window={wot}", (a..=b).map(|x| x.to_string()).collect::<Vec<_>>().join(",")), "EPSUB <start>-<end>"),
                20 => (mgr.subscribe_to_partitions_with_sequences(m.clone(), wo).await,
                       if ms.len() == 1 { format!("epsub one {keys} from={} window={wot}", ms[0].1) } else { format!("epsub many {keys} from=map:{mt};default=none window={wot}") }, "subscribe_to_partitions_with_sequences"),
                21 => (mgr.subscribe_to_all_partitions_from_latest().await, "epsub all from=latest window=none".to_string(), "subscribe_to_all_partitions_from_latest"),
                22 => { (mgr.subscribe_to_all_partitions_with_fallback(m.clone(), fb, wo).await, format!("epsub all from=map:{mt};default={fb} window={wot}"), "subscribe_to_all_partitions_with_fallback") }
                _ => (mgr.subscribe_to_all_partitions_flexible(if v % 2 == 0 { HashMap::new() } else { m.clone() }, if v % 3 == 0 { None } else { Some(v) }, wo).await,
                      if v % 2 == 0 { match v % 3 { 0 => format!("epsub all from=latest window={wot}"), _ => format!("epsub all from=all:{v} window={wot}") } }
                      else { format!("epsub all from=map:{mt};default={} window={wot}", if v % 3 == 0 { "none".to_string() } else { v.to_string() }) }, "subscribe_to_all_partitions_flexible"),
            };
            let _ = r.0;
            (r.1, r.2)
        });
        let Ok(cmd) = rx.recv_timeout(std::time::Duration::from_secs(5)) else { ctx.stat("submgr_no_command_seen"); continue };
        let name = String::from_utf8_lossy(&cmd[0]).to_uppercase();
        let toks: Toks = cmd[1..].to_vec();
        ctx.stat(&format!("client_builder_{key}"));
        case(ctx, &name, &toks, Expect::Client(want), key);
        let uh = u128hex(u);
        let em = match which {
            0 => format!("esub_opts {sh} none none none"), 1 => format!("esub_opts {sh} none none {w}"),
            2 => format!("esub_opts {sh} none {v} none"), 3 => format!("esub_opts {sh} none {v} {w}"),
            4 => format!("esub_opts {sh} {uh} none none"), 5 => format!("esub_opts {sh} {uh} none {w}"),
            6 => format!("esub_opts {sh} {uh} {v} none"), 7 => format!("esub_opts {sh} {uh} {v} {w}"),
            8 => format!("esub_latest {sh}"),
            9 => format!("epsub_id {pid} none none"), 10 => format!("epsub_id {pid} none {w}"),
            11 => format!("epsub_id {pid} {v} none"), 12 => format!("epsub_id {pid} {v} {w}"),
            13 => format!("epsub_key {uh} none none"), 14 => format!("epsub_key {uh} none {w}"),
            15 => format!("epsub_key {uh} {v} none"), 16 => format!("epsub_key {uh} {v} {w}"),
            18 => format!("epsub_all {v} {wot}"),
            19 => format!("epsub_range {a} {b} {v} {wot}"),
            21 => "epsub_all latest none".to_string(),
            _ => String::new(),
        };
        emit_case(ctx, &em, &toks);
    }
    drop(mgr);
    rt.shutdown_timeout(std::time::Duration::from_millis(200));
}

// ---------------------------------------------------------------------------------------------
// token soup + corners of the request construction (sets, maps, duplicates)
// ---------------------------------------------------------------------------------------------
fn soup_token(ctx: &mut Ctx) -> Vec<u8> {
    match ctx.rng.below(16) {
        0..=3 => { let k = *ctx.rng.pick(&KEYWORDS); kw(ctx, k) }
        4 => { let k = *ctx.rng.pick(&["ANY", "EXISTS", "EMPTY", "*", "-", "+"]); kw(ctx, k) }
        5 | 6 => stream_ok(ctx),
        7 => { let v = u64_val(ctx); u64_lex(ctx, v) }
        8 => ctx.rng.pick(&BAD_NUM).as_bytes().to_vec(),
        9 => { let u = uuid_val(ctx); uuid_lex(ctx, u) }
        10 => { let n = ctx.rng.range(1, 3); (0..n).map(|_| ctx.rng.below(70000).to_string()).collect::<Vec<_>>().join(if ctx.rng.chance(1, 4) { " , " } else { "," }).into_bytes() }
        11 => format!("{}={}", ctx.rng.below(70000), ctx.rng.below(100)).into_bytes(),
        12 => { let mut s = stream_ok(ctx); s.push(b'='); s.extend(ctx.rng.below(100).to_string().bytes()); s }
        13 => ctx.rng.pick(&["wındow", "paylo\u{e4}d", "lateﬆ", "ſtream", "from\u{0}", "FROM ", "coun\u{2060}t", "exiﬆs", "partıtıon_key", "ﬁ"]).as_bytes().to_vec(),
        14 => ctx.rng.pick(&BAD_UUID).as_bytes().to_vec(),
        _ => stream_bad(ctx),
    }
}
fn token_soup(ctx: &mut Ctx, n: usize) {
    for _ in 0..n {
        let cmd = *ctx.rng.pick(&CMDS);
        let toks: Toks = if ctx.rng.chance(1, 2) {
            // a documented rendering with 1-2 random token edits
            let w = ctx.rng.below(10) as usize; let mut g = gen_any(ctx, w);
            for _ in 0..ctx.rng.range(1, 2) {
                match ctx.rng.below(3) {
                    0 if !g.toks.is_empty() => { let i = ctx.rng.below(g.toks.len() as u64) as usize; g.toks[i] = soup_token(ctx); }
                    1 if !g.toks.is_empty() => { let i = ctx.rng.below(g.toks.len() as u64) as usize; g.toks.remove(i); }
                    _ => { let i = ctx.rng.below(g.toks.len() as u64 + 1) as usize; let t = soup_token(ctx); g.toks.insert(i, t); }
                }
            }
            let c = g.cmd; ctx.stat("soup_edited_rendering"); case(ctx, c, &g.toks, Expect::None, ""); continue;
        } else {
            let l = ctx.rng.below(8) as usize; (0..l).map(|_| soup_token(ctx)).collect()
        };
        ctx.stat("soup_random_tokens");
        case(ctx, cmd, &toks, Expect::None, "");
    }
}
fn build_corners(ctx: &mut Ctx, n: usize) {
    for _ in 0..n {
        // ESUB with repeated streams, the same stream under two keys, MAP entries that repeat / name unselected streams
        let pool = ["a", "b", "c", "user-1"];
        let mut toks: Toks = vec![];
        let k = ctx.rng.range(1, 4);
        let mut used = vec![];
        for _ in 0..k {
            let s = *ctx.rng.pick(&pool); used.push(s); toks.push(s.as_bytes().to_vec());
            if ctx.rng.chance(1, 3) { toks.push(kw(ctx, "PARTITION_KEY")); toks.push(Uuid::from_u128(1 + ctx.rng.below(2) as u128).to_string().into_bytes()); }
        }
        match ctx.rng.below(3) {
            0 => { toks.push(kw(ctx, "FROM")); toks.push(kw(ctx, "MAP")); for _ in 0..ctx.rng.range(1, 4) { toks.push(format!("{}={}", ctx.rng.pick(&["a", "b", "c", "user-1", "zz", "a=b", "FROM"]), ctx.rng.below(9)).into_bytes()); } }
            1 => { toks.push(kw(ctx, "FROM")); toks.push(ctx.rng.below(9).to_string().into_bytes()); }
            _ => {}
        }
        if ctx.rng.chance(1, 2) { toks.push(kw(ctx, "WINDOW")); toks.push(ctx.rng.range(1, 9).to_string().into_bytes()); }
        ctx.stat("corner_esub_sets"); case(ctx, "ESUB", &toks, Expect::None, "");
        // EPSUB lists with repeats / padding, MAP with repeated partitions, single partition with MAP + DEFAULT
        let mut toks: Toks = vec![];
        let k = ctx.rng.range(1, 4);
        toks.push((0..k).map(|_| { let p = ctx.rng.below(4); match ctx.rng.below(4) { 0 => format!(" {p}"), 1 => format!("{p}\t"), _ => p.to_string() } }).collect::<Vec<_>>().join(",").into_bytes());
        if ctx.rng.chance(2, 3) { toks.push(kw(ctx, "FROM")); toks.push(kw(ctx, "MAP"));
            for _ in 0..ctx.rng.range(1, 4) { toks.push(format!("{}={}", ctx.rng.below(4), ctx.rng.below(9)).into_bytes()); }
            if ctx.rng.chance(1, 2) { toks.push(kw(ctx, "DEFAULT")); toks.push(ctx.rng.below(9).to_string().into_bytes()); } }
        if ctx.rng.chance(1, 2) { toks.push(kw(ctx, "WINDOW")); toks.push(ctx.rng.range(1, 9).to_string().into_bytes()); }
        ctx.stat("corner_epsub_sets"); case(ctx, "EPSUB", &toks, Expect::None, "");
    }
}

pub fn run(ctx: &mut Ctx) {
    if let Some(lines) = ctx.replay.clone() {
        let mut expect = Expect::None; let mut key = String::new();
        for l in lines {
            let t: Vec<&str> = l.split_whitespace().collect();
            if t.first() == Some(&"@c21") {
                let txt = |i: usize| String::from_utf8_lossy(&unhex(t.get(i).copied().unwrap_or("-"))).to_string();
                match t.get(1).copied() {
                    Some("doc") => { expect = Expect::Doc(txt(2)); key = "replay".into(); }
                    Some("client") => { key = txt(2); expect = Expect::Client(txt(3)); }
                    Some("reject") => { key = txt(2); expect = Expect::Reject; }
                    _ => { expect = Expect::None; }
                }
            } else if t.len() >= 3 && t[0] == "c21" && t[1] == "parse" {
                let toks: Toks = t[3..].iter().map(|h| unhex(h)).collect();
                case(ctx, t[2], &toks, expect.clone(), &key);
                expect = Expect::None;
            }
        }
        return;
    }
    documented_examples(ctx);
    let n = if ctx.thorough() { 6000 } else { 700 };
    for which in 0..10 {
        let n = if which >= 6 { n / 4 } else { n };
        for _ in 0..n {
            let g = gen_any(ctx, which);
            ctx.stat(&format!("shape_{}", g.shape.replace(' ', "_")));
            case(ctx, g.cmd, &g.toks, Expect::Doc(g.want.clone()), &g.shape);
            if ctx.rng.chance(1, 3) { near_misses(ctx, &g); }
        }
    }
    client_commands(ctx);
    subscription_manager_commands(ctx);
    build_corners(ctx, if ctx.thorough() { 6000 } else { 800 });
    token_soup(ctx, if ctx.thorough() { 200_000 } else { 20_000 });
}
