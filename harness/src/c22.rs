//! C22: the RESP API of a single node behaves like the event-store model.
//! The REAL `Server` (sierradb-server) is started in-process on loopback ports in front of a REAL
//! single-node `ClusterActor` (rf = 1) on a REAL `Database` in a temp dir (wiring of
//! crates/sierradb-server/src/main.rs).  Two listeners share the cluster: a lax one
//! (`strict_versioning = false`) and a strict one.  Commands are sent as RESP3 arrays over TCP,
//! replies decoded field by field, compared with `Server/Handle.lean` line by line, and the
//! property is evaluated directly on the replies (see `oracle_*`).
//! op line:  `c22 <input>... | <CMD> <hex token>...`   (inputs: see `Inp::line`)
use crate::util::*;
use kameo::actor::{ActorRef, Spawn};
use redis_protocol::resp3::types::BytesFrame;
use sierradb::database::DatabaseBuilder;
use sierradb_cluster::{ClusterActor, ClusterArgs, ResetCluster};
use sierradb_server::server::Server;
use std::io::{Read, Write};
use std::net::{SocketAddr, TcpStream};
use std::time::Duration;
use uuid::Uuid;

pub const PARTITIONS: u16 = 8;
pub const BUCKETS: u16 = 4;

pub struct Srv {
    rt: tokio::runtime::Runtime,
    cluster: ActorRef<ClusterActor>,
    pub lax: SocketAddr,
    pub strict: SocketAddr,
    db: sierradb::database::Database,
    dirs: Vec<tempfile::TempDir>,
}

fn open_db(dir: &std::path::Path) -> sierradb::database::Database {
    // small segments: every history gets a fresh database whose files stay allocated until the
    // actors of the previous one are gone
    DatabaseBuilder::new().total_buckets(BUCKETS).bucket_ids_from_range(0..BUCKETS).segment_size_bytes(512 * 1024)
        .writer_threads(2).reader_threads(2)
        .sync_interval(Duration::from_millis(1)).sync_idle_interval(Duration::from_millis(2))
        .open(dir).expect("open database")
}

fn free_port() -> SocketAddr {
    let l = std::net::TcpListener::bind("127.0.0.1:0").expect("loopback");
    l.local_addr().unwrap()
}

impl Srv {
    pub fn start() -> Srv {
        let rt = tokio::runtime::Builder::new_multi_thread().worker_threads(2).enable_all().build().unwrap();
        let dir = tempfile::tempdir().unwrap();
        let db = open_db(dir.path());
        let caches = db.reader_pool().caches().clone();
        let (lax, strict) = (free_port(), free_port());
        let cluster = rt.block_on(async {
            let cluster = ClusterActor::spawn(ClusterArgs {
                keypair: libp2p::identity::Keypair::generate_ed25519(),
                database: db.clone(),
                listen_addrs: vec![],
                node_count: 1,
                node_index: 0,
                bucket_count: BUCKETS,
                partition_count: PARTITIONS,
                replication_factor: 1,
                assigned_partitions: (0..PARTITIONS).collect(),
                heartbeat_timeout: Duration::from_millis(6000),
                heartbeat_interval: Duration::from_millis(1000),
                replication_buffer_size: 1000,
                replication_buffer_timeout: Duration::from_millis(8000),
                replication_catchup_timeout: Duration::from_millis(2000),
                mdns: false,
            });
            cluster.wait_for_startup().await;
            for (addr, strict) in [(lax, false), (strict, true)] {
                let srv = Server::new(cluster.clone(), caches.clone(), PARTITIONS, 1 << 20, strict,
                    tokio_util::sync::CancellationToken::new());
                tokio::spawn(async move { let _ = srv.listen(addr).await; });
            }
            cluster
        });
        // wait until both listeners accept
        for addr in [lax, strict] {
            for _ in 0..500 {
                if TcpStream::connect(addr).is_ok() { break; }
                std::thread::sleep(Duration::from_millis(10));
            }
        }
        Srv { rt, cluster, lax, strict, db, dirs: vec![dir] }
    }

    /// fresh empty database behind the same cluster actor (`ResetCluster`, "for testing purposes")
    pub fn reset(&mut self) -> bool {
        let dir = tempfile::tempdir().unwrap();
        let db = open_db(dir.path());
        let old = std::mem::replace(&mut self.db, db.clone());
        let ok = self.rt.block_on(async {
            let ok = self.cluster.ask(ResetCluster { database: db }).await.is_ok();
            // stop the writer / reader / sync threads of the database that was swapped out
            let _ = tokio::time::timeout(Duration::from_secs(5), old.shutdown()).await;
            ok
        });
        self.dirs.push(dir);
        if self.dirs.len() > 2 { self.dirs.remove(0); }
        ok
    }
}

// ---------------------------------------------------------------------------------------------
// RESP3 client over a plain TCP socket
// ---------------------------------------------------------------------------------------------
pub struct Client { s: TcpStream, buf: Vec<u8>, pub dead: bool, pub pushes: u64 }

pub enum Reply { Frame(BytesFrame), Dead(&'static str) }

impl Client {
    pub fn connect(addr: SocketAddr) -> Option<Client> {
        let s = TcpStream::connect(addr).ok()?;
        s.set_nodelay(true).ok()?;
        s.set_read_timeout(Some(Duration::from_millis(200))).ok()?;
        Some(Client { s, buf: vec![], dead: false, pushes: 0 })
    }
    fn encode(toks: &[Vec<u8>]) -> Vec<u8> {
        let mut out = format!("*{}\r\n", toks.len()).into_bytes();
        for t in toks { out.extend_from_slice(format!("${}\r\n", t.len()).as_bytes()); out.extend_from_slice(t); out.extend_from_slice(b"\r\n"); }
        out
    }
    /// read one complete frame; `Dead` when the peer closed / reset the connection or stays
    /// silent for `wait` (a request without a reply)
    pub fn read_frame(&mut self, wait: Duration) -> Reply {
        let t0 = std::time::Instant::now();
        loop {
            if !self.buf.is_empty() {
                let b = bytes::Bytes::copy_from_slice(&self.buf);
                match redis_protocol::resp3::decode::complete::decode_bytes(&b) {
                    Ok(Some((f, n))) => {
                        self.buf.drain(..n);
                        // out-of-band push frames (`subscribe`, `message`) are not replies
                        if matches!(f, BytesFrame::Push { .. }) { self.pushes += 1; continue; }
                        return Reply::Frame(f);
                    }
                    Ok(None) => {}
                    Err(_) => { self.dead = true; return Reply::Dead("undecodable"); }
                }
            }
            let mut tmp = [0u8; 65536];
            match self.s.read(&mut tmp) {
                Ok(0) => { self.dead = true; return Reply::Dead("closed"); }
                Ok(n) => self.buf.extend_from_slice(&tmp[..n]),
                Err(e) if e.kind() == std::io::ErrorKind::WouldBlock || e.kind() == std::io::ErrorKind::TimedOut => {
                    if t0.elapsed() > wait { self.dead = true; return Reply::Dead("silent"); }
                }
                Err(_) => { self.dead = true; return Reply::Dead("reset"); }
            }
        }
    }
    pub fn call(&mut self, toks: &[Vec<u8>]) -> Reply {
        if self.s.write_all(&Self::encode(toks)).is_err() { self.dead = true; return Reply::Dead("write"); }
        self.read_frame(Duration::from_secs(15))
    }
}

// ---------------------------------------------------------------------------------------------
// decoded replies
// ---------------------------------------------------------------------------------------------
#[derive(Clone, Debug, PartialEq)]
pub struct Ev { pub eid: u128, pub pk: u128, pub pid: u64, pub tx: u128, pub seq: u64, pub ver: u64, pub ts: u64,
                pub stream: Vec<u8>, pub name: Vec<u8>, pub meta: Vec<u8>, pub payload: Vec<u8> }
#[derive(Clone, Debug, PartialEq)]
pub struct Info { pub eid: u128, pub stream: Vec<u8>, pub ver: u64, pub ts: u64 }
#[derive(Clone, Debug, PartialEq)]
pub enum R {
    Err(String),
    Null,
    Num(i64),
    Appended { eid: u128, pk: u128, pid: u64, seq: u64, ver: u64, ts: u64 },
    MAppended { pk: u128, pid: u64, first: u64, last: u64, events: Vec<Info> },
    Event(Ev),
    Scan { more: bool, events: Vec<Ev> },
    Sub(u128),
    Ok,
    Other(String),
    Dead(String),
}

const CODES: [&str; 36] = ["CLUSTERDOWN", "TRYAGAIN", "TIMEOUT", "SYNTAX", "INVALIDARG", "NOTFOUND", "MAXFORWARDS",
    "CIRCUITOPEN", "CONFIRMFAILED", "REPLCONFIRMFAILED", "CLOCKERR", "READERR", "WRITEERR", "REMOTEERR", "NOISEERR",
    "TRANSPORTERR", "SWARMERR", "ACTORDOWN", "ACTORSTOPPED", "MAILBOXFULL", "ALLREPLICASFAILED", "BUFFEREVICTED",
    "BUFFERFULL", "DBOPFAILED", "INSUFFICIENTREPLICAS", "INVALIDSENDER", "STALEWRITE", "MISSINGPARTSEQ", "PARTNOTOWNED",
    "QUORUMFAILED", "REMOTEOPFAILED", "SEQCONFLICT", "WRONGSEQ", "WRONGVER", "REDIRECT", "PARSE"];

fn bytes_of(f: &BytesFrame) -> Option<Vec<u8>> {
    match f { BytesFrame::BlobString { data, .. } | BytesFrame::SimpleString { data, .. } => Some(data.to_vec()), _ => None }
}
fn str_of(f: &BytesFrame) -> Option<String> { bytes_of(f).and_then(|b| String::from_utf8(b).ok()) }
fn uuid_of(f: &BytesFrame) -> Option<u128> { str_of(f).and_then(|s| Uuid::parse_str(&s).ok()).map(|u| u.as_u128()) }
fn num_of(f: &BytesFrame) -> Option<u64> { match f { BytesFrame::Number { data, .. } if *data >= 0 => Some(*data as u64), _ => None } }
/// the entries of a map reply, which must carry exactly `keys` (the decoder's map is unordered)
fn fields<'a>(f: &'a BytesFrame, keys: &[&str]) -> Option<Vec<&'a BytesFrame>> {
    let BytesFrame::Map { data, .. } = f else { return None };
    if data.len() != keys.len() { return None; }
    let mut out = vec![];
    for want in keys { out.push(data.iter().find(|(k, _)| str_of(k).as_deref() == Some(*want))?.1); }
    Some(out)
}
fn ev_of(f: &BytesFrame) -> Option<Ev> {
    let v = fields(f, &["event_id", "partition_key", "partition_id", "transaction_id", "partition_sequence",
        "stream_version", "timestamp", "stream_id", "event_name", "metadata", "payload"])?;
    Some(Ev { eid: uuid_of(v[0])?, pk: uuid_of(v[1])?, pid: num_of(v[2])?, tx: uuid_of(v[3])?, seq: num_of(v[4])?,
        ver: num_of(v[5])?, ts: num_of(v[6])?, stream: bytes_of(v[7])?, name: bytes_of(v[8])?, meta: bytes_of(v[9])?, payload: bytes_of(v[10])? })
}
fn info_of(f: &BytesFrame) -> Option<Info> {
    let v = fields(f, &["event_id", "stream_id", "stream_version", "timestamp"])?;
    Some(Info { eid: uuid_of(v[0])?, stream: bytes_of(v[1])?, ver: num_of(v[2])?, ts: num_of(v[3])? })
}
fn arr<'a>(f: &'a BytesFrame) -> Option<&'a Vec<BytesFrame>> { match f { BytesFrame::Array { data, .. } => Some(data), _ => None } }

pub fn decode_reply(f: &BytesFrame) -> R {
    match f {
        BytesFrame::SimpleError { data, .. } => {
            let s = data.to_string();
            let first = s.split_whitespace().next().unwrap_or("");
            if s.starts_with("Parse error") { R::Err("PARSE".into()) }
            else if CODES.contains(&first) { R::Err(first.into()) }
            else { R::Err(format!("UNCODED({})", s.chars().take(60).collect::<String>().replace(|c: char| c.is_whitespace(), "_"))) }
        }
        BytesFrame::Null => R::Null,
        BytesFrame::SimpleString { data, .. } if &data[..] == b"OK" => R::Ok,
        BytesFrame::SimpleString { .. } if uuid_of(f).is_some() => R::Sub(uuid_of(f).unwrap()),
        BytesFrame::Number { data, .. } => R::Num(*data),
        BytesFrame::Map { .. } => {
            if let Some(v) = fields(f, &["event_id", "partition_key", "partition_id", "partition_sequence", "stream_version", "timestamp"]) {
                if let (Some(eid), Some(pk), Some(pid), Some(seq), Some(ver), Some(ts)) = (uuid_of(v[0]), uuid_of(v[1]), num_of(v[2]), num_of(v[3]), num_of(v[4]), num_of(v[5])) {
                    return R::Appended { eid, pk, pid, seq, ver, ts };
                }
            }
            if let Some(v) = fields(f, &["partition_key", "partition_id", "first_partition_sequence", "last_partition_sequence", "events"]) {
                if let (Some(pk), Some(pid), Some(first), Some(last), Some(es)) = (uuid_of(v[0]), num_of(v[1]), num_of(v[2]), num_of(v[3]), arr(v[4])) {
                    if let Some(events) = es.iter().map(info_of).collect::<Option<Vec<_>>>() { return R::MAppended { pk, pid, first, last, events }; }
                }
            }
            if let Some(v) = fields(f, &["has_more", "events"]) {
                if let (BytesFrame::Boolean { data: more, .. }, Some(es)) = (v[0], arr(v[1])) {
                    if let Some(events) = es.iter().map(ev_of).collect::<Option<Vec<_>>>() { return R::Scan { more: *more, events }; }
                }
            }
            if let Some(e) = ev_of(f) { return R::Event(e); }
            R::Other(format!("{f:?}").chars().take(200).collect::<String>().replace(|c: char| c.is_whitespace(), "_"))
        }
        _ => R::Other(format!("{f:?}").chars().take(200).collect::<String>().replace(|c: char| c.is_whitespace(), "_")),
    }
}

fn h128(u: u128) -> String { format!("{u:032x}") }
fn ev_txt(e: &Ev) -> String {
    format!("[{} {} {} {} {} {} {} {} {} {} {}]", h128(e.eid), h128(e.pk), e.pid, h128(e.tx), e.seq, e.ver, e.ts,
        hex(&e.stream), hex(&e.name), hex(&e.meta), hex(&e.payload))
}
/// canonical result line (the same text lean/Driver/Handle.lean prints)
pub fn reply_txt(r: &R) -> String {
    match r {
        R::Err(c) => format!("err {c}"),
        R::Null => "null".into(),
        R::Num(n) => format!("num {n}"),
        R::Appended { eid, pk, pid, seq, ver, ts } => format!("appended {} {} {pid} {seq} {ver} {ts}", h128(*eid), h128(*pk)),
        R::MAppended { pk, pid, first, last, events } => format!("mappended {} {pid} {first} {last}{}", h128(*pk),
            events.iter().map(|i| format!(" [{} {} {} {}]", h128(i.eid), hex(&i.stream), i.ver, i.ts)).collect::<String>()),
        R::Event(e) => format!("event {}", ev_txt(e)),
        R::Scan { more, events } => format!("scan {more}{}", events.iter().map(|e| format!(" {}", ev_txt(e))).collect::<String>()),
        R::Sub(id) => format!("sub {}", h128(*id)),
        R::Ok => "ok".into(),
        R::Other(s) => format!("other {s}"),
        R::Dead(s) => format!("dead {s}"),
    }
}

/// `C22_PROBE=<file>`: send the commands of a text file (one per line, blank-separated tokens,
/// `!strict` / `!lax` switch the listener, `!reset` swaps in an empty database) and print the replies
fn probe(path: &str) {
    let mut srv = Srv::start();
    let mut addr = srv.lax;
    let mut c = Client::connect(addr).expect("connect");
    for line in std::fs::read_to_string(path).expect("probe file").lines() {
        let line = line.trim();
        if line.is_empty() || line.starts_with('#') { continue; }
        match line {
            "!strict" => { addr = srv.strict; c = Client::connect(addr).unwrap(); continue; }
            "!lax" => { addr = srv.lax; c = Client::connect(addr).unwrap(); continue; }
            "!reset" => { println!("reset -> {}", srv.reset()); continue; }
            "!sleep" => { std::thread::sleep(Duration::from_millis(300)); continue; }
            _ => {}
        }
        // `0x<hex>` tokens are raw bytes
        let toks: Vec<Vec<u8>> = line.split_whitespace().map(|t| match t.strip_prefix("0x") { Some(h) => unhex(h), None => t.as_bytes().to_vec() }).collect();
        if c.dead { c = Client::connect(addr).unwrap(); }
        let t0 = std::time::Instant::now();
        let r = match c.call(&toks) { Reply::Frame(f) => decode_reply(&f), Reply::Dead(w) => R::Dead(w.into()) };
        println!("{line}\n   -> {}   ({:?})", reply_txt(&r), t0.elapsed());
    }
}

// ---------------------------------------------------------------------------------------------
// what a command means (the REAL parsers decide; used for the model inputs and the oracles only)
// ---------------------------------------------------------------------------------------------
use combine::{Parser, eof};
use sierradb::id::{NAMESPACE_PARTITION_KEY, uuid_to_partition_hash, uuid_v7_with_partition_hash};
use sierradb_protocol::ExpectedVersion;
use sierradb_server::parser::frame_stream;
use sierradb_server::request::{PartitionSelector, RangeValue};
use sierradb_server::request::{eack::EAck, eappend::EAppend, eget::EGet, emappend::EMAppend, epscan::EPScan,
    epseq::EPSeq, epsub::EPSub, escan::EScan, esub::ESub, esver::ESVer};

type Toks = Vec<Vec<u8>>;
fn v5(stream: &[u8]) -> Uuid { Uuid::new_v5(&NAMESPACE_PARTITION_KEY, stream) }
fn pid_of(key: Uuid) -> u16 { uuid_to_partition_hash(key) % PARTITIONS }

#[derive(Clone, Debug)]
pub struct AEv { stream: Vec<u8>, id: Option<Uuid>, ts: Option<u64>, expected: ExpectedVersion }
#[derive(Clone, Debug)]
pub enum Req {
    Append { multi: bool, key: Uuid, events: Vec<AEv> },
    Scan { stream: Vec<u8>, key: Uuid, lo: RangeValue, hi: RangeValue, count: Option<u64> },
    PScan { pid: u16, lo: RangeValue, hi: RangeValue, count: Option<u64> },
    Get(Uuid),
    SVer { stream: Vec<u8>, key: Uuid },
    PSeq(u16),
    Sub,
    Ack(Uuid),
    Unparsed,
}

fn sel_pid(p: PartitionSelector) -> u16 { match p { PartitionSelector::ById(i) => i, PartitionSelector::ByKey(k) => pid_of(k) } }

pub fn parse_real(cmd: &str, toks: &Toks) -> Req {
    let frames: Vec<BytesFrame> = toks.iter().map(|t| BytesFrame::BlobString { data: t.clone().into(), attributes: None }).collect();
    let cmd = cmd.to_uppercase();
    catch(move || {
        let st = frame_stream(&frames);
        macro_rules! go { ($p:expr, $f:expr) => { match $p.skip(eof()).parse(st) { Ok((c, _)) => $f(c), Err(_) => Req::Unparsed } } }
        match cmd.as_str() {
            "EAPPEND" => go!(EAppend::parser(), |c: EAppend| Req::Append { multi: false,
                key: c.partition_key.unwrap_or_else(|| v5(c.stream_id.as_bytes())),
                events: vec![AEv { stream: c.stream_id.as_bytes().to_vec(), id: c.event_id, ts: c.timestamp, expected: c.expected_version }] }),
            "EMAPPEND" => go!(EMAppend::parser(), |c: EMAppend| Req::Append { multi: true, key: c.partition_key,
                events: c.events.iter().map(|e| AEv { stream: e.stream_id.as_bytes().to_vec(), id: e.event_id, ts: e.timestamp, expected: e.expected_version }).collect() }),
            "ESCAN" => go!(EScan::parser(), |c: EScan| Req::Scan { key: c.partition_key.unwrap_or_else(|| v5(c.stream_id.as_bytes())),
                stream: c.stream_id.as_bytes().to_vec(), lo: c.start_version, hi: c.end_version, count: c.count }),
            "EPSCAN" => go!(EPScan::parser(), |c: EPScan| Req::PScan { pid: sel_pid(c.partition), lo: c.start_sequence, hi: c.end_sequence, count: c.count }),
            "EGET" => go!(EGet::parser(), |c: EGet| Req::Get(c.event_id)),
            "ESVER" => go!(ESVer::parser(), |c: ESVer| Req::SVer { key: c.partition_key.unwrap_or_else(|| v5(c.stream_id.as_bytes())), stream: c.stream_id.as_bytes().to_vec() }),
            "EPSEQ" => go!(EPSeq::parser(), |c: EPSeq| Req::PSeq(sel_pid(c.partition))),
            "ESUB" => go!(ESub::parser(), |_c: ESub| Req::Sub),
            "EPSUB" => go!(EPSub::parser(), |_c: EPSub| Req::Sub),
            "EACK" => go!(EAck::parser(), |c: EAck| Req::Ack(c.subscription_id)),
            _ => Req::Unparsed,
        }
    }).unwrap_or(Req::Unparsed)
}

// ---------------------------------------------------------------------------------------------
// one run: connections, the shadow of what the replies have told so far, the oracles
// ---------------------------------------------------------------------------------------------
#[derive(Clone, Copy, PartialEq)]
pub enum Via { Lax, Strict, Sub }

pub struct Run<'a> {
    ctx: &'a mut Ctx,
    srv: Srv,
    conns: [Option<Client>; 3],
    /// commands of the current history (replay text)
    hist: Vec<String>,
    /// committed events as the replies reported them, in commit order
    shadow: Vec<Ev>,
    subs: Vec<u128>,
}

fn tok_txt(t: &[u8]) -> String {
    match std::str::from_utf8(t) { Ok(s) if !s.is_empty() && s.chars().all(|c| c.is_ascii_graphic()) => s.to_string(), _ => format!("0x{}", hex(t)) }
}
fn bucket_of(pid: u64) -> u64 { pid % BUCKETS as u64 }
fn range_lo(r: &RangeValue) -> Option<u64> { match r { RangeValue::Start => Some(0), RangeValue::Value(n) => Some(*n), RangeValue::End => None } }
fn range_hi(r: &RangeValue) -> Option<Option<u64>> { match r { RangeValue::End => Some(None), RangeValue::Value(n) => Some(Some(*n)), RangeValue::Start => None } }

impl<'a> Run<'a> {
    fn conn(&mut self, via: Via) -> &mut Client {
        let i = via as usize;
        if self.conns[i].as_ref().map(|c| c.dead).unwrap_or(true) {
            let addr = if via == Via::Strict { self.srv.strict } else { self.srv.lax };
            self.conns[i] = Some(Client::connect(addr).expect("connect to the in-process server"));
        }
        self.conns[i].as_mut().unwrap()
    }
    fn raw(&mut self, via: Via, cmd: &str, toks: &Toks) -> R {
        let mut all = vec![cmd.as_bytes().to_vec()];
        all.extend(toks.iter().cloned());
        match self.conn(via).call(&all) { Reply::Frame(f) => decode_reply(&f), Reply::Dead(w) => R::Dead(w.into()) }
    }
    fn fail(&mut self, kind: &str, cmd: &str, what: String) {
        let key = format!("C22:{kind}:{}", cmd.to_uppercase());
        let mut rp: Vec<String> = self.hist.iter().map(|l| format!("# {l}")).collect();
        if rp.len() > 60 { rp.drain(..rp.len() - 60); }
        self.ctx.oracle_fail(&key, &what, &rp);
    }
    pub fn reset(&mut self) {
        let ok = self.srv.reset();
        self.conns = [None, None, None];
        self.hist.clear(); self.shadow.clear(); self.subs.clear();
        self.ctx.emit("c22 reset", if ok { "ok" } else { "reset-failed" });
    }
}

impl<'a> Run<'a> {
    /// send one command, derive the model inputs from the reply, emit, evaluate the oracles
    pub fn exec(&mut self, via: Via, cmd: &str, toks: Toks) -> R {
        let req = parse_real(cmd, &toks);
        self.hist.push(format!("{}{cmd} {}", match via { Via::Strict => "(strict) ", Via::Sub => "(sub) ", Via::Lax => "" },
            toks.iter().map(|t| tok_txt(t)).collect::<Vec<_>>().join(" ")));
        let r = self.raw(via, cmd, &toks);
        self.ctx.stat(&format!("cmd_{}", cmd.to_uppercase()));
        self.ctx.stat(&format!("reply_{}", reply_txt(&r).split(' ').take(if matches!(r, R::Err(_)) { 2 } else { 1 }).collect::<Vec<_>>().join("_")));
        // ---- model inputs ----
        let up = if !cmd.is_empty() && cmd.chars().all(|c| c.is_ascii_alphanumeric()) { cmd.to_uppercase() } else { "?".to_string() };
        let dk = if ["EAPPEND", "ESCAN", "ESVER"].contains(&up.as_str()) && !toks.is_empty() { h128(v5(&toks[0]).as_u128()) } else { "-".into() };
        let (mut gen_ids, mut now, mut tx, mut sub) = (vec![], 0u64, 0u128, 0u128);
        let mut committed: Vec<Ev> = vec![];
        if let Req::Append { key, events, .. } = &req {
            let hash = uuid_to_partition_hash(*key);
            let (eids, tss, seqs, vers): (Vec<u128>, Vec<u64>, Vec<u64>, Vec<u64>) = match &r {
                R::Appended { eid, seq, ver, ts, .. } => (vec![*eid], vec![*ts], vec![*seq], vec![*ver]),
                R::MAppended { first, events: infos, .. } => (infos.iter().map(|i| i.eid).collect(), infos.iter().map(|i| i.ts).collect(),
                    (0..infos.len() as u64).map(|i| first + i).collect(), infos.iter().map(|i| i.ver).collect()),
                _ => (vec![], vec![], vec![], vec![]),
            };
            let ok = eids.len() == events.len();
            for (i, e) in events.iter().enumerate() {
                if e.id.is_none() { gen_ids.push(if ok { eids[i] } else { uuid_v7_with_partition_hash(hash).as_u128() }); }
                if e.ts.is_none() && ok && now == 0 { now = tss[i]; }
            }
            if ok {
                // the transaction id is not part of the append reply: read the first event back
                match self.raw(via, "EGET", &vec![Uuid::from_u128(eids[0]).to_string().into_bytes()]) {
                    R::Event(e) => { tx = e.tx; }
                    other => self.fail("append-unreadable", cmd, format!("event {} of an acknowledged append is not returned by EGET: {}", h128(eids[0]), reply_txt(&other))),
                }
                // an accepted append reports the timestamp it was given (milliseconds, unchanged)
                for (i, e) in events.iter().enumerate() {
                    if let Some(t) = e.ts { if tss[i] != t { self.fail("append-timestamp", cmd, format!("append with TIMESTAMP {t} was accepted and reports timestamp {}", tss[i])); } }
                }
                for (i, e) in events.iter().enumerate() {
                    committed.push(Ev { eid: eids[i], pk: key.as_u128(), pid: pid_of(*key) as u64, tx, seq: seqs[i], ver: vers[i], ts: tss[i],
                        stream: e.stream.clone(), name: vec![], meta: vec![], payload: vec![] });
                }
            } else if matches!(r, R::Appended { .. } | R::MAppended { .. }) {
                self.fail("append-shape", cmd, format!("reply reports {} events for {} appended", eids.len(), events.len()));
            }
        }
        if let R::Sub(id) = &r { sub = *id; self.subs.push(*id); }
        let op = format!("c22 req {} {dk} {now} {} {} {} | {up} {}", if via == Via::Strict { 1 } else { 0 }, h128(tx), h128(sub),
            if gen_ids.is_empty() { "-".into() } else { gen_ids.iter().map(|g| h128(*g)).collect::<Vec<_>>().join(",") },
            toks.iter().map(|t| hex(t)).collect::<Vec<_>>().join(" "));
        self.ctx.emit(op.trim_end(), &reply_txt(&r));
        self.ctx.nontrivial(&format!("{up} {} => {}", toks.iter().map(|t| hex(t)).collect::<Vec<_>>().join(" "), reply_txt(&r).split(' ').next().unwrap_or("")));
        self.oracles(cmd, &req, &r, &committed);
        self.shadow.extend(committed);
        r
    }
}

impl<'a> Run<'a> {
    /// the property, evaluated on the replies alone (the shadow is what earlier replies reported)
    fn oracles(&mut self, cmd: &str, req: &Req, r: &R, committed: &[Ev]) {
        match r {
            R::Dead(w) => { self.fail("dead", cmd, format!("no reply, connection {w}")); return; }
            R::Other(s) => { self.fail("reply-shape", cmd, format!("unexpected reply frame {s}")); return; }
            R::Err(c) if c.starts_with("UNCODED") => self.fail("uncoded-error", cmd, format!("error reply without an error code: {c}")),
            _ => {}
        }
        // appends: sequences continue the partition, versions continue the stream (per bucket)
        let mut seen: Vec<Ev> = self.shadow.clone();
        for e in committed {
            let next_seq = seen.iter().filter(|x| x.pid == e.pid).map(|x| x.seq + 1).max().unwrap_or(0);
            let next_ver = seen.iter().filter(|x| bucket_of(x.pid) == bucket_of(e.pid) && x.stream == e.stream).map(|x| x.ver + 1).max().unwrap_or(0);
            if e.seq != next_seq { self.fail("append-seq", cmd, format!("partition {} continues at {next_seq}, reply says {}", e.pid, e.seq)); }
            if e.ver != next_ver { self.fail("append-version", cmd, format!("stream {} continues at {next_ver}, reply says {}", tok_txt(&e.stream), e.ver)); }
            if uuid_to_partition_hash(Uuid::from_u128(e.eid)) != uuid_to_partition_hash(Uuid::from_u128(e.pk)) {
                self.fail("append-id", cmd, format!("event id {} does not embed the partition hash", h128(e.eid)));
            }
            seen.push(e.clone());
        }
        // reads against the shadow
        let same = |a: &Ev, b: &Ev| a.eid == b.eid && a.pk == b.pk && a.pid == b.pid && a.seq == b.seq && a.ver == b.ver && a.stream == b.stream && a.tx == b.tx && a.ts == b.ts;
        match (req, r) {
            (Req::PSeq(pid), R::Num(_) | R::Null) if *pid < PARTITIONS => {
                let want = self.shadow.iter().filter(|x| x.pid == *pid as u64).map(|x| x.seq as i64).max();
                let got = if let R::Num(n) = r { Some(*n) } else { None };
                if want != got { self.fail("stale", cmd, format!("latest sequence of partition {pid} is {want:?}, reply says {got:?}")); }
            }
            (Req::SVer { stream, key }, R::Num(_) | R::Null) => {
                let pid = pid_of(*key) as u64;
                let want = self.shadow.iter().filter(|x| x.pid == pid && &x.stream == stream).map(|x| x.ver as i64).max();
                let got = if let R::Num(n) = r { Some(*n) } else { None };
                if want != got { self.fail("stale", cmd, format!("latest version of {} is {want:?}, reply says {got:?}", tok_txt(stream))); }
            }
            (Req::Get(id), R::Event(_) | R::Null) => {
                let want = self.shadow.iter().find(|x| x.eid == id.as_u128());
                match (want, r) {
                    (Some(w), R::Event(e)) if same(w, e) => {}
                    (None, R::Null) => {}
                    _ => self.fail("eget", cmd, format!("event {} {}, reply {}", h128(id.as_u128()), if want.is_some() { "was appended" } else { "was never appended" }, reply_txt(r).chars().take(120).collect::<String>())),
                }
            }
            (Req::PScan { pid, lo, hi, count }, R::Scan { more, events }) => {
                if let (Some(lo), Some(hi)) = (range_lo(lo), range_hi(hi)) {
                    let all: Vec<Ev> = self.shadow.iter().filter(|x| x.pid == *pid as u64 && x.seq >= lo && hi.map(|h| x.seq <= h).unwrap_or(true)).cloned().collect();
                    self.scan_oracle(cmd, &all, events, *more, count.unwrap_or(100), &same);
                }
            }
            (Req::Scan { stream, key, lo, hi, count }, R::Scan { more, events }) => {
                if let (Some(lo), Some(hi)) = (range_lo(lo), range_hi(hi)) {
                    let pid = pid_of(*key) as u64;
                    let all: Vec<Ev> = self.shadow.iter().filter(|x| x.pid == pid && &x.stream == stream && x.ver >= lo && hi.map(|h| x.ver <= h).unwrap_or(true)).cloned().collect();
                    self.scan_oracle(cmd, &all, events, *more, count.unwrap_or(100), &same);
                }
            }
            _ => {}
        }
    }

    /// a scan returns the events of its range in order, up to `count`; `has_more = false` hides nothing
    fn scan_oracle(&mut self, cmd: &str, all: &[Ev], got: &[Ev], more: bool, count: u64, same: &dyn Fn(&Ev, &Ev) -> bool) {
        let want = &all[..all.len().min(count as usize)];
        if want.len() != got.len() || want.iter().zip(got).any(|(w, g)| !same(w, g)) {
            self.fail("scan-events", cmd, format!("range holds {} events (count {count}), reply has {}: [{}]", all.len(), got.len(),
                got.iter().map(|e| format!("{}/{}", e.seq, e.ver)).collect::<Vec<_>>().join(",")));
        }
        if !more && got.len() < all.len() { self.fail("has-more", cmd, format!("has_more=false but {} of {} events of the range were returned", got.len(), all.len())); }
        if more { self.ctx.stat("scan_has_more_true"); } else { self.ctx.stat("scan_has_more_false"); }
        if got.len() > 1 { self.ctx.stat("scan_multi_event"); }
    }
}

// ---------------------------------------------------------------------------------------------
// generator: command histories from the documented grammar, valid and invalid
// ---------------------------------------------------------------------------------------------
fn b(s: &str) -> Vec<u8> { s.as_bytes().to_vec() }
/// stream ids (one with CR LF: replies quote stream ids, a simple string / error would end there)
const STREAMS: [&str; 8] = ["a", "b", "order-1", "order-2", "cart:9", "x", "long-stream-identifier-0123456789", "cr\r\nlf"];
const TIMESTAMPS: [u64; 9] = [0, 1, 1_700_000_000_000, 9_223_372_036_854, 9_223_372_036_855, 18_446_744_073_709, 18_446_744_073_710,
    i64::MAX as u64, u64::MAX];

struct Gen { keys: Vec<Uuid>, streams: Vec<Vec<u8>> }

impl Gen {
    /// explicit partition keys: random ones plus, for every bucket, two keys of different partitions
    fn new(rng: &mut Rng) -> Gen {
        let mut keys: Vec<Uuid> = vec![];
        while keys.len() < 3 { keys.push(Uuid::from_u128(((rng.next() as u128) << 64) | rng.next() as u128)); }
        // few streams per history, so that streams grow long enough for ranges and counts to cut them
        let n = 2 + rng.below(3) as usize;
        let mut streams: Vec<Vec<u8>> = vec![];
        while streams.len() < n { let c = b(*rng.pick(&STREAMS[..])); if !streams.contains(&c) { streams.push(c); } }
        Gen { keys, streams }
    }
    fn key(&self, rng: &mut Rng) -> Uuid { *rng.pick(&self.keys) }
    fn stream(&self, rng: &mut Rng) -> Vec<u8> { if rng.chance(1, 12) { b(*rng.pick(&STREAMS[..])) } else { rng.pick(&self.streams).clone() } }
    fn num(rng: &mut Rng, around: u64) -> u64 {
        match rng.below(8) { 0 => 0, 1 => 1, 2 => around, 3 => around + 1, 4 => around.saturating_sub(1), 5 => u64::MAX, 6 => around + 1000, _ => rng.below(around + 3) }
    }
}

impl<'a> Run<'a> {
    fn latest_version(&self, key: Uuid, stream: &[u8]) -> Option<u64> {
        let bk = bucket_of(pid_of(key) as u64);
        self.shadow.iter().filter(|x| bucket_of(x.pid) == bk && x.stream == stream).map(|x| x.ver).max()
    }
    /// the clauses of one event; `vers` tracks the versions inside the transaction being built
    fn event_clauses(&mut self, _g: &Gen, key: Uuid, stream: &[u8], vers: &mut Vec<(Vec<u8>, Option<u64>)>, out: &mut Toks) {
        let cur = vers.iter().find(|x| x.0 == stream).map(|x| x.1).unwrap_or_else(|| self.latest_version(key, stream));
        let rng = &mut self.ctx.rng;
        if rng.chance(1, 4) {
            let id = if rng.chance(1, 6) { Uuid::from_u128(((rng.next() as u128) << 64) | rng.next() as u128) } else { uuid_v7_with_partition_hash(uuid_to_partition_hash(key)) };
            out.push(b("EVENT_ID")); out.push(b(&id.to_string()));
        }
        let mut will_fit = true;
        if rng.chance(3, 5) {
            out.push(b(if rng.chance(1, 5) { "expected_version" } else { "EXPECTED_VERSION" }));
            let right = match cur { Some(v) => v.to_string(), None => "empty".into() };
            let choice = match rng.below(10) {
                0..=4 => right,
                5 => "any".into(), 6 => "exists".into(), 7 => "EMPTY".into(),
                8 => cur.map(|v| v + 1).unwrap_or(0).to_string(),
                _ => cur.map(|v| v.saturating_sub(1)).unwrap_or(7).to_string(),
            };
            will_fit = match choice.to_lowercase().as_str() { "any" => true, "exists" => cur.is_some(), "empty" => cur.is_none(), n => n.parse::<u64>().ok() == cur && cur.is_some() };
            out.push(b(&choice));
        }
        if rng.chance(1, 4) { out.push(b("TIMESTAMP")); out.push(b(&rng.pick(&TIMESTAMPS[..]).to_string())); }
        if rng.chance(1, 2) { out.push(b("PAYLOAD")); let n = rng.below(12) as usize; let p = if rng.chance(1, 3) { rng.bytes(n) } else { b(&"{\"k\":1}"[..n.min(7)]) }; out.push(p); }
        if rng.chance(1, 4) { out.push(b("METADATA")); let n = rng.below(6) as usize; out.push(rng.bytes(n)); }
        if will_fit { let nv = cur.map(|v| v + 1).unwrap_or(0); vers.retain(|x| x.0 != stream); vers.push((stream.to_vec(), Some(nv))); }
    }

    fn gen_append(&mut self, g: &Gen) -> (String, Toks) {
        let stream = g.stream(&mut self.ctx.rng);
        let mut t: Toks = vec![stream.clone(), b(if self.ctx.rng.chance(1, 2) { "Created" } else { "Changed" })];
        let key = if self.ctx.rng.chance(1, 3) { let k = g.key(&mut self.ctx.rng); t.push(b("PARTITION_KEY")); t.push(b(&k.to_string())); k } else { v5(&stream) };
        let mut vers = vec![];
        self.event_clauses(g, key, &stream, &mut vers, &mut t);
        ("EAPPEND".into(), t)
    }
    fn gen_mappend(&mut self, g: &Gen) -> (String, Toks) {
        // the key of a known stream (so that existing streams continue) or an explicit one
        let first = g.stream(&mut self.ctx.rng);
        let key = if self.ctx.rng.chance(1, 2) { v5(&first) } else { g.key(&mut self.ctx.rng) };
        let mut t: Toks = vec![b(&key.to_string())];
        let n = 1 + self.ctx.rng.below(5);
        let mut vers = vec![];
        for i in 0..n {
            let stream = if i > 0 && self.ctx.rng.chance(1, 2) { first.clone() } else { g.stream(&mut self.ctx.rng) };
            t.push(stream.clone()); t.push(b("Ev"));
            self.event_clauses(g, key, &stream, &mut vers, &mut t);
        }
        ("EMAPPEND".into(), t)
    }
}

impl<'a> Run<'a> {
    fn some_key_of(&mut self, g: &Gen, stream: &[u8]) -> Option<Uuid> {
        // the key the stream lives under (a shadow event), an explicit pool key, or none (derived)
        let known: Vec<u128> = self.shadow.iter().filter(|x| x.stream == stream).map(|x| x.pk).collect();
        match self.ctx.rng.below(4) {
            0 if !known.is_empty() => Some(Uuid::from_u128(*self.ctx.rng.pick(&known))),
            1 => Some(g.key(&mut self.ctx.rng)),
            _ => None,
        }
    }
    fn range(&mut self, len: u64) -> (Vec<u8>, Vec<u8>) {
        let rng = &mut self.ctx.rng;
        let lo = match rng.below(6) { 0 | 1 => "-".to_string(), 2 => "+".into(), _ => Gen::num(rng, len).to_string() };
        let hi = match rng.below(6) { 0 | 1 => "+".to_string(), 2 => "-".into(), _ => Gen::num(rng, len).to_string() };
        (b(&lo), b(&hi))
    }
    fn count_clause(&mut self, t: &mut Toks) {
        let rng = &mut self.ctx.rng;
        if rng.chance(1, 2) { t.push(b(if rng.chance(1, 4) { "count" } else { "COUNT" })); t.push(b(&rng.pick(&[0u64, 1, 2, 3, 100, u64::MAX]).to_string())); }
    }
    fn gen_read(&mut self, g: &Gen) -> (String, Toks) {
        let which = self.ctx.rng.below(9);
        match which {
            0 => { // ESVER
                let s = g.stream(&mut self.ctx.rng);
                let mut t = vec![s.clone()];
                if let Some(k) = self.some_key_of(g, &s) { t.push(b("PARTITION_KEY")); t.push(b(&k.to_string())); }
                ("ESVER".into(), t)
            }
            1 => { // EPSEQ
                let rng = &mut self.ctx.rng;
                let t = match rng.below(4) {
                    0 => b(&g.key(rng).to_string()),
                    1 => b(&rng.pick(&[PARTITIONS as u64, 65535, 65536, 9]).to_string()),
                    _ => match self.shadow.last() { Some(e) if rng.chance(2, 3) => b(&e.pid.to_string()), _ => b(&rng.below(PARTITIONS as u64).to_string()) },
                };
                ("EPSEQ".into(), vec![t])
            }
            2 | 3 => { // EGET
                let rng = &mut self.ctx.rng;
                let id = if !self.shadow.is_empty() && rng.chance(2, 3) { Uuid::from_u128(rng.pick(&self.shadow).eid) }
                    else if rng.chance(1, 2) { uuid_v7_with_partition_hash(rng.below(65536) as u16) }
                    else { Uuid::from_u128(((rng.next() as u128) << 64) | rng.next() as u128) };
                ("EGET".into(), vec![b(&id.to_string())])
            }
            4 | 5 | 6 => { // ESCAN
                let s = if !self.shadow.is_empty() && self.ctx.rng.chance(3, 4) { self.ctx.rng.pick(&self.shadow).stream.clone() } else { g.stream(&mut self.ctx.rng) };
                let len = self.shadow.iter().filter(|x| x.stream == s).count() as u64;
                let (lo, hi) = self.range(len);
                let mut t = vec![s.clone(), lo, hi];
                let k = self.some_key_of(g, &s);
                let pk_first = self.ctx.rng.chance(1, 2);
                if pk_first { if let Some(k) = k { t.push(b("PARTITION_KEY")); t.push(b(&k.to_string())); } }
                self.count_clause(&mut t);
                if !pk_first { if let Some(k) = k { t.push(b("PARTITION_KEY")); t.push(b(&k.to_string())); } }
                ("ESCAN".into(), t)
            }
            _ => { // EPSCAN
                let (sel, pid) = match self.shadow.last().cloned() {
                    Some(_) if self.ctx.rng.chance(3, 4) => { let e = self.ctx.rng.pick(&self.shadow).clone();
                        if self.ctx.rng.chance(1, 2) { (b(&Uuid::from_u128(e.pk).to_string()), e.pid) } else { (b(&e.pid.to_string()), e.pid) } }
                    _ => { let p = self.ctx.rng.below(PARTITIONS as u64 + 1); (b(&p.to_string()), p) }
                };
                let len = self.shadow.iter().filter(|x| x.pid == pid).count() as u64;
                let (lo, hi) = self.range(len);
                let mut t = vec![sel, lo, hi];
                self.count_clause(&mut t);
                ("EPSCAN".into(), t)
            }
        }
    }
    fn gen_sub(&mut self, g: &Gen) -> (String, Toks) {
        let rng = &mut self.ctx.rng;
        match rng.below(5) {
            0 => ("ESUB".into(), vec![g.stream(rng)]),
            1 => ("ESUB".into(), vec![g.stream(rng), b("FROM"), b(&rng.below(3).to_string()), b("WINDOW"), b(&rng.below(3).to_string())]),
            2 => ("EPSUB".into(), vec![b(*rng.pick(&["*", "0", "3", "0,1,2", "7"][..])), b("FROM"), b(*rng.pick(&["LATEST", "0", "5"][..]))]),
            3 => ("EPSUB".into(), vec![b("*")]),
            _ => { let id = if !self.subs.is_empty() && rng.chance(2, 3) { Uuid::from_u128(*rng.pick(&self.subs)) } else { Uuid::from_u128(rng.next() as u128) };
                   ("EACK".into(), vec![b(&id.to_string()), b(&rng.below(5).to_string())]) }
        }
    }
    /// a valid command damaged on the token level (still sent: it must be answered, not kill the connection)
    fn damage(&mut self, cmd: String, mut t: Toks) -> (String, Toks) {
        let rng = &mut self.ctx.rng;
        match rng.below(8) {
            0 if !t.is_empty() => { t.pop(); }
            1 if !t.is_empty() => { let i = rng.below(t.len() as u64) as usize; t.remove(i); }
            2 => { let i = rng.below(t.len() as u64 + 1) as usize; t.insert(i, b(*rng.pick(&["COUNT", "PARTITION_KEY", "EXPECTED_VERSION", "TIMESTAMP", "-1", "18446744073709551616", "", "+"][..]))); }
            3 if !t.is_empty() => { let i = rng.below(t.len() as u64) as usize; t[i] = rng.bytes(5); }
            4 if t.len() >= 2 => { let i = rng.below(t.len() as u64 - 1) as usize; let d: Toks = t[i..i + 2].to_vec(); t.extend(d); }
            5 => { return (rng.pick(&["FOO", "EAPPENDX", "eget", "Escan", ""][..]).to_string(), t); }
            6 => { t.clear(); }
            _ => { let i = rng.below(t.len() as u64 + 1) as usize; t.insert(i, vec![0xff, 0xfe]); }
        }
        (cmd, t)
    }
}

impl<'a> Run<'a> {
    fn history(&mut self, g: &Gen, steps: u64) {
        for _ in 0..steps {
            let kind = self.ctx.rng.below(100);
            let (via, (cmd, toks)) = match kind {
                0..=24 => (Via::Lax, self.gen_append(g)),
                25..=44 => (Via::Lax, self.gen_mappend(g)),
                45..=49 => (Via::Strict, if self.ctx.rng.chance(1, 2) { self.gen_append(g) } else { self.gen_mappend(g) }),
                50..=86 => (if self.ctx.rng.chance(1, 8) { Via::Strict } else { Via::Lax }, self.gen_read(g)),
                87..=91 => (Via::Sub, self.gen_sub(g)),
                _ => { let c = match self.ctx.rng.below(3) { 0 => self.gen_append(g), 1 => self.gen_mappend(g), _ => self.gen_read(g) };
                       self.ctx.stat("damaged"); (Via::Lax, self.damage(c.0, c.1)) }
            };
            self.exec(via, &cmd, toks);
        }
    }

    /// read-your-writes with the confirmation actor held back (verif hook): the reply of an
    /// append must not precede the watermark covering it
    fn delayed_confirmation(&mut self) {
        use sierradb_cluster::confirmation::actor::verif::UPDATE_DELAY_MS;
        use std::sync::atomic::Ordering;
        UPDATE_DELAY_MS.store(120, Ordering::SeqCst);
        for i in 0..3 {
            let key = v5(b"ryw");
            let r = self.exec(Via::Lax, "EAPPEND", vec![b("ryw"), b("E"), b("PAYLOAD"), b(&i.to_string())]);
            if matches!(r, R::Appended { .. }) {
                self.exec(Via::Lax, "EPSEQ", vec![b(&pid_of(key).to_string())]);
                self.exec(Via::Lax, "ESVER", vec![b("ryw")]);
                self.exec(Via::Lax, "ESCAN", vec![b("ryw"), b("-"), b("+")]);
            }
            if i == 1 {
                let k = Uuid::from_u128(0x550e8400e29b41d4a716446655440000);
                self.exec(Via::Lax, "EMAPPEND", vec![b(&k.to_string()), b("ryw-a"), b("E"), b("ryw-b"), b("E"), b("ryw-a"), b("E")]);
                self.exec(Via::Lax, "EPSCAN", vec![b(&k.to_string()), b("-"), b("+")]);
            }
        }
        UPDATE_DELAY_MS.store(0, Ordering::SeqCst);
        self.ctx.stat("delayed_confirmation_rounds");
    }
}

pub fn run(ctx: &mut Ctx) {
    if let Ok(p) = std::env::var("C22_PROBE") { probe(&p); return; }
    let srv = Srv::start();
    ctx.emit(&format!("c22 cfg {PARTITIONS} {BUCKETS}"), "ok");
    let (histories, max_steps) = if ctx.thorough() { (6000, 45) } else { (700, 40) };
    let t0 = std::time::Instant::now();
    // the thorough budget is split over several harness processes (VH_CHUNKS): every reset opens a fresh
    // database and sierradb never stops the reader threads of a closed one (DESIGN 10.2e)
    let budget = Duration::from_secs(if ctx.thorough() { 400 / crate::store_run::chunks() as u64 } else { 30 });
    let mut run = Run { ctx, srv, conns: [None, None, None], hist: vec![], shadow: vec![], subs: vec![] };
    run.delayed_confirmation();
    for h in 0..histories {
        if t0.elapsed() > budget { run.ctx.stat("budget_cut"); break; }
        if h % 16 == 0 && std::fs::read_dir("/proc/self/fd").map(|d| d.count()).unwrap_or(0) > 12_000 { run.ctx.stat("descriptor_cap_cut"); break; }
        run.reset();
        let g = Gen::new(&mut run.ctx.rng);
        let steps = if h % 7 == 0 { 4 + run.ctx.rng.below(6) } else { 10 + run.ctx.rng.below(max_steps - 10) };
        run.history(&g, steps);
        run.ctx.stat("histories");
        let n = run.shadow.len() as u64;
        run.ctx.stat_add("committed_events", n);
    }
}
