//! C23: identifiers embed their routing — correspondence with Id/Uuid.lean + property oracle.
use crate::util::*;
use sierradb::database::{NewEvent, Transaction};
use sierradb::id::*;
use sierradb::StreamId;
use sierradb_protocol::ExpectedVersion;
use uuid::Uuid;

fn hx(u: Uuid) -> String { format!("{:032x}", u.as_u128()) }

fn ev(id: Uuid) -> NewEvent {
    NewEvent { event_id: id, stream_id: StreamId::new("s").unwrap(), stream_version: ExpectedVersion::Any,
               event_name: "e".into(), timestamp: 1, metadata: vec![], payload: vec![] }
}

pub fn run(ctx: &mut Ctx) {
    let hashes: Vec<u16> = if ctx.thorough() { (0..=65535u16).collect() } else {
        let mut v: Vec<u16> = vec![0, 1, 2, 3, 255, 256, 257, 0x7fff, 0x8000, 0x8001, 0xfffe, 0xffff, 0xaaaa, 0x5555];
        for _ in 0..3000 { v.push(ctx.rng.next() as u16); }
        v
    };
    let reps = if ctx.thorough() { 4 } else { 3 };
    for &h in &hashes {
        for _ in 0..reps {
            // generated id: read the clock/random fields back and feed them to the model
            let id = uuid_v7_with_partition_hash(h);
            let u = id.as_u128();
            let ts = (u >> 80) as u64; let r12 = ((u >> 68) & 0xfff) as u16; let r46 = (u & ((1u128 << 46) - 1)) as u64;
            let op = format!("c23 mk {:x} {:x} {:x} {:x}", ts, r12, h, r46);
            if uuid_to_partition_hash(id) != h { ctx.oracle_fail(&format!("mk h={h}"), "generated id does not yield back its hash", &[op.clone()]); }
            if !validate_event_id(id, h) { ctx.oracle_fail(&format!("mk h={h}"), "generated id does not validate", &[op.clone()]); }
            ctx.nontrivial(&op);
            ctx.stat("mk");
            ctx.emit(&op, &hx(id));
        }
    }
    // arbitrary bit patterns: hash extraction, flag functions, routing
    let n = if ctx.thorough() { 300_000 } else { 30_000 };
    let special: Vec<u128> = vec![0, u128::MAX, 1 << 63, !(1u128 << 63), 1 << 62, 1 << 64, 0xffffu128 << 46, !(0xffffu128 << 46), 1 << 45, 1 << 46, 1 << 61, 1 << 127];
    let counts: Vec<u16> = vec![1, 2, 3, 4, 5, 7, 8, 16, 31, 32, 33, 64, 100, 255, 256, 257, 1000, 1024, 32768, 65535];
    for i in 0..n {
        let u: u128 = if i < special.len() { special[i] } else {
            let a = (ctx.rng.next() as u128) << 64 | ctx.rng.next() as u128;
            match ctx.rng.below(4) { 0 => a, 1 => a & ((ctx.rng.next() as u128) << 64 | ctx.rng.next() as u128), 2 => a | ((ctx.rng.next() as u128) << 64 | ctx.rng.next() as u128), _ => 1u128 << ctx.rng.below(128) }
        };
        let id = Uuid::from_u128(u);
        let op = format!("c23 hash {}", hx(id));
        let h = uuid_to_partition_hash(id);
        ctx.emit(&op, &h.to_string());
        for flag in [false, true] {
            let s = set_uuid_flag(id, flag);
            let op = format!("c23 flag {} {}", hx(id), flag as u8);
            let key = format!("flag {} {}", hx(id), flag as u8);
            if uuid_to_partition_hash(s) != h { ctx.oracle_fail(&key, "flag changed the embedded hash", &[op.clone()]); }
            if (s.as_u128() ^ u) & !(1u128 << 63) != 0 { ctx.oracle_fail(&key, "flag changed another bit", &[op.clone()]); }
            if get_uuid_flag(&s) != flag { ctx.oracle_fail(&key, "get_flag(set_flag(b)) != b", &[op.clone()]); }
            ctx.nontrivial(&op);
            ctx.stat("flag");
            ctx.emit(&op, &format!("{} {} {}", hx(s), get_uuid_flag(&s), get_uuid_flag(&id)));
        }
        let p = *ctx.rng.pick(&counts); let b = *ctx.rng.pick(&counts);
        let op = format!("c23 route {} {} {}", hx(id), p, b);
        let pid = h % p;
        // routing as the database/server compute it
        let bucket = pid % b;
        // an event id generated for this key routes identically
        let eid = uuid_v7_with_partition_hash(h);
        let pid_e = uuid_to_partition_hash(eid) % p;
        if pid_e != pid || pid_e % b != bucket { ctx.oracle_fail(&format!("route {} {} {}", hx(id), p, b), "event id routes differently from its key", &[op.clone()]); }
        ctx.stat("route");
        ctx.emit(&op, &format!("{} {} {} {}", pid, bucket, extract_event_id_bucket(id, b), partition_id_to_bucket(pid, b)));
        // Transaction::new accept/reject
        if i % 4 == 0 {
            let k = ctx.rng.range(0, 3) as usize;
            let mut ids = vec![];
            for _ in 0..k {
                let good = ctx.rng.chance(3, 4);
                let hh = if good { h } else { h ^ (1 << ctx.rng.below(16)) as u16 };
                ids.push(uuid_v7_with_partition_hash(hh));
            }
            let evs: smallvec::SmallVec<[NewEvent; 4]> = ids.iter().map(|i| ev(*i)).collect();
            let r = Transaction::new(id, pid, evs);
            let op = format!("c23 tx {} {}", hx(id), ids.iter().map(|i| hx(*i)).collect::<Vec<_>>().join(" "));
            let want = k > 0 && ids.iter().all(|i| uuid_to_partition_hash(*i) == h);
            if r.is_ok() != want { ctx.oracle_fail(&format!("tx {}", hx(id)), "Transaction::new accept/reject differs from hash rule", &[op.clone()]); }
            if let Ok(t) = &r { if get_uuid_flag(&t.transaction_id()) != (k == 1) { ctx.oracle_fail(&format!("tx {}", hx(id)), "transaction id flag != (single event)", &[op.clone()]); } }
            ctx.stat(if r.is_ok() { "tx_ok" } else { "tx_rejected" });
            ctx.emit(op.trim_end(), &r.is_ok().to_string());
        }
    }
}
