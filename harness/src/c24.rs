//! C24: distribute_partition — correspondence with Topology/Distribute.lean + property oracle.
use crate::util::*;
use sierradb_topology::distribute_partition;

fn fmt(r: &Option<Vec<u16>>) -> String {
    match r {
        None => "trap".into(),
        Some(v) => format!("ok {}", v.iter().map(|x| x.to_string()).collect::<Vec<_>>().join(",")),
    }
}

fn real(h: u16, n: u16, rf: u8) -> Option<Vec<u16>> {
    catch(move || distribute_partition(h, n, rf).to_vec())
}

/// the property, evaluated directly on the implementation's output
fn oracle(h: u16, n: u16, rf: u8, r: &Option<Vec<u16>>, full: &Option<Vec<u16>>) -> Option<String> {
    let v = match r { None => return Some("panicked".into()), Some(v) => v };
    let want = (rf as usize).min(n as usize).min(12);
    if v.len() != want { return Some(format!("len {} != min(rf,n,12)={}", v.len(), want)); }
    if want == 0 { return None; }
    if v[0] != h % n { return Some("first != hash mod n".into()); }
    for (i, x) in v.iter().enumerate() {
        if *x >= n { return Some(format!("id {} >= n", x)); }
        if v[..i].contains(x) { return Some(format!("duplicate id {}", x)); }
    }
    if let Some(f) = full { if !f.starts_with(v) { return Some("not a prefix of the rf=12 result".into()); } }
    None
}

fn case(ctx: &mut Ctx, h: u16, n: u16, rf: u8) {
    let r = real(h, n, rf);
    let full = real(h, n, 12);
    let op = format!("c24 {h} {n} {rf}");
    if let Some(why) = oracle(h, n, rf, &r, &full) {
        ctx.oracle_fail(&format!("h={h},n={n},rf={rf}"), &why, &[op.clone()]);
    }
    if n > 2 && rf > 1 { ctx.nontrivial(&op); }
    ctx.stat(if n == 0 || rf == 0 { "empty" } else if n as usize <= rf as usize { "n<=rf" } else if n > 43690 { "n>43690" } else { "general" });
    ctx.emit(&op, &fmt(&r));
}

pub fn run(ctx: &mut Ctx) {
    if let Some(lines) = ctx.replay.clone() {
        for l in lines {
            let t: Vec<&str> = l.split_whitespace().collect();
            if t.len() == 4 && t[0] == "c24" { case(ctx, t[1].parse().unwrap(), t[2].parse().unwrap(), t[3].parse().unwrap()); }
        }
        return;
    }
    let b16: Vec<u16> = vec![0, 1, 2, 3, 4, 5, 6, 7, 8, 11, 12, 13, 14, 16, 17, 255, 256, 257, 1023, 1024, 1025, 32766, 32767,
        32768, 32769, 43689, 43690, 43691, 43692, 49151, 49152, 65533, 65534, 65535];
    let rfs: Vec<u8> = vec![0, 1, 2, 3, 5, 11, 12, 13, 255];
    for &h in &b16 { for &n in &b16 { for &rf in &rfs { case(ctx, h, n, rf); } } }
    let samples = if ctx.thorough() { 2_000_000 } else { 200_000 };
    for _ in 0..samples {
        let h = ctx.rng.next() as u16;
        let n = if ctx.rng.chance(1, 3) { ctx.rng.range(1, 40) as u16 } else { ctx.rng.next() as u16 };
        let rf = if ctx.rng.chance(3, 4) { ctx.rng.range(0, 13) as u8 } else { ctx.rng.next() as u8 };
        case(ctx, h, n, rf);
    }
    if ctx.thorough() {
        // exhaustive implementation-side oracle over all (h, n) at rf = 12 plus prefix check by rf
        let threads = 16u32;
        let fails = std::sync::Mutex::new(Vec::<(u16, u16, u8, String)>::new());
        let count = std::sync::atomic::AtomicU64::new(0);
        std::thread::scope(|s| {
            for t in 0..threads {
                let fails = &fails; let count = &count;
                s.spawn(move || {
                    let mut n = t;
                    while n <= 65535 {
                        for h in 0..=65535u16 {
                            let full = real(h, n as u16, 12);
                            if let Some(w) = oracle(h, n as u16, 12, &full, &None) {
                                let mut f = fails.lock().unwrap(); if f.len() < 50 { f.push((h, n as u16, 12, w)); }
                            }
                            count.fetch_add(1, std::sync::atomic::Ordering::Relaxed);
                        }
                        n += threads;
                    }
                });
            }
        });
        ctx.stat_add("exhaustive_rf12_pairs", count.load(std::sync::atomic::Ordering::Relaxed));
        for (h, n, rf, w) in fails.into_inner().unwrap() {
            ctx.oracle_fail(&format!("h={h},n={n},rf={rf}"), &w, &[format!("c24 {h} {n} {rf}")]);
        }
    }
}
