//! C25: ExpectedVersion algebra — correspondence with Store/Version.lean + property oracle.
use crate::util::*;
use sierradb_protocol::{CurrentVersion, ExpectedVersion, VersionGap};
use std::str::FromStr;

fn show_e(e: ExpectedVersion) -> String {
    match e { ExpectedVersion::Any => "any".into(), ExpectedVersion::Exists => "exists".into(),
              ExpectedVersion::Empty => "empty".into(), ExpectedVersion::Exact(v) => v.to_string() }
}
fn show_c(c: CurrentVersion) -> String {
    match c { CurrentVersion::Empty => "empty".into(), CurrentVersion::Current(v) => v.to_string() }
}
fn show_gap(g: VersionGap) -> String {
    match g { VersionGap::None => "none".into(), VersionGap::Ahead(n) => format!("ahead:{n}"),
              VersionGap::Behind(n) => format!("behind:{n}"), VersionGap::Incompatible => "incompatible".into() }
}

/// what the *store* decides (the private validate_partition_sequence, exposed by the verif hook);
/// None when the current version has no successor representable as the "next" counter.
fn store_accepts(e: ExpectedVersion, c: CurrentVersion) -> Option<bool> {
    let next = match c { CurrentVersion::Empty => 0, CurrentVersion::Current(v) => v.checked_add(1)? };
    Some(sierradb::writer_thread_pool::verif::validate_partition_sequence(e, next))
}

/// signed distance expected - current in "next version" coordinates, as i128 (oracle for gap_from)
fn dist(e: ExpectedVersion, c: CurrentVersion) -> Option<i128> {
    let cn: i128 = match c { CurrentVersion::Empty => 0, CurrentVersion::Current(v) => v as i128 + 1 };
    match e { ExpectedVersion::Empty => Some(0 - cn), ExpectedVersion::Exact(v) => Some(v as i128 + 1 - cn), _ => None }
}

fn gap_case(ctx: &mut Ctx, e: ExpectedVersion, c: CurrentVersion) {
    let op = format!("c25 gap {} {}", show_e(e), show_c(c));
    let g = catch(move || e.gap_from(c));
    let s = catch(move || e.is_satisfied_by(c));
    let st = store_accepts(e, c);
    let key = format!("gap {} {}", show_e(e), show_c(c));
    // oracle
    match (&g, &s) {
        (Some(g), Some(s)) => {
            if let Some(st) = st { if *s != st { ctx.oracle_fail(&key, "is_satisfied_by differs from the store's acceptance", &[op.clone()]); } }
            if let Some(d) = dist(e, c) {
                let sat = |x: i128| -> u64 { if x > u64::MAX as i128 { u64::MAX } else { x as u64 } };
                let want = if d == 0 { VersionGap::None } else if d > 0 { VersionGap::Behind(sat(d)) } else { VersionGap::Ahead(sat(-d)) };
                if *g != want { ctx.oracle_fail(&key, &format!("gap_from {} != signed distance {}", show_gap(*g), d), &[op.clone()]); }
            }
        }
        _ => ctx.oracle_fail(&key, "panicked", &[op.clone()]),
    }
    let r = format!("{} {}", g.map(show_gap).unwrap_or("trap".into()), s.map(|b| b.to_string()).unwrap_or("trap".into()));
    if let Some(st) = st { ctx.emit(&format!("c25 store {} {}", show_e(e), show_c(c)), &st.to_string()); }
    ctx.nontrivial(&op);
    ctx.stat(match e { ExpectedVersion::Any => "gap_any", ExpectedVersion::Exists => "gap_exists", ExpectedVersion::Empty => "gap_empty", ExpectedVersion::Exact(_) => "gap_exact" });
    ctx.emit(&op, &r);
}

fn parse_case(ctx: &mut Ctx, s: &[u8]) {
    let Ok(st) = std::str::from_utf8(s) else { return };
    let op = format!("c25 parse {}", hex(s));
    let r = ExpectedVersion::from_str(st);
    // oracle: display(parse s) re-parses to the same value; canonical strings round-trip exactly
    if let Ok(e) = r {
        let d = e.to_string();
        if ExpectedVersion::from_str(&d) != Ok(e) { ctx.oracle_fail(&format!("parse {}", hex(s)), "parse(display(e)) != e", &[op.clone()]); }
    }
    ctx.stat(if r.is_ok() { "parse_ok" } else { "parse_err" });
    ctx.nontrivial(&op);
    ctx.emit(&op, &match r { Ok(e) => format!("ok {}", show_e(e)), Err(_) => "err".into() });
}

fn e_of(ctx: &mut Ctx, vals: &[u64]) -> ExpectedVersion {
    match ctx.rng.below(6) { 0 => ExpectedVersion::Any, 1 => ExpectedVersion::Exists, 2 => ExpectedVersion::Empty,
        _ => ExpectedVersion::Exact(if ctx.rng.chance(1, 2) { *ctx.rng.pick(vals) } else { ctx.rng.next() }) }
}

pub fn run(ctx: &mut Ctx) {
    let m = u64::MAX;
    let vals: Vec<u64> = vec![0, 1, 2, 3, 9, 10, 11, 99, 100, 255, 256, 65535, 65536, (1 << 31) - 1, 1 << 31, (1 << 32) - 1, 1 << 32,
        (1 << 63) - 1, 1 << 63, (1 << 63) + 1, m / 10, m / 10 + 1, m - 2, m - 1, m];
    if let Some(lines) = ctx.replay.clone() {
        for l in lines {
            let t: Vec<&str> = l.split_whitespace().collect();
            if t.len() >= 3 && t[0] == "c25" {
                match t[1] {
                    "gap" => { let e = ExpectedVersion::from_str(t[2]).unwrap(); let c = CurrentVersion::from_str(t[3]).unwrap(); gap_case(ctx, e, c); }
                    "parse" => parse_case(ctx, &unhex(t[2])),
                    _ => {}
                }
            }
        }
        return;
    }
    let mut es = vec![ExpectedVersion::Any, ExpectedVersion::Exists, ExpectedVersion::Empty];
    es.extend(vals.iter().map(|v| ExpectedVersion::Exact(*v)));
    let mut cs = vec![CurrentVersion::Empty];
    cs.extend(vals.iter().map(|v| CurrentVersion::Current(*v)));
    for e in &es { for c in &cs { gap_case(ctx, *e, *c); } }
    let n = if ctx.thorough() { 400_000 } else { 40_000 };
    for _ in 0..n {
        let e = e_of(ctx, &vals);
        let c = if ctx.rng.chance(1, 6) { CurrentVersion::Empty } else {
            let base = match e { ExpectedVersion::Exact(v) if ctx.rng.chance(1, 2) => v, _ => if ctx.rng.chance(1, 2) { *ctx.rng.pick(&vals) } else { ctx.rng.next() } };
            let d = ctx.rng.below(3);
            CurrentVersion::Current(if ctx.rng.chance(1, 2) { base.saturating_add(d) } else { base.saturating_sub(d) })
        };
        gap_case(ctx, e, c);
    }
    // from_next / into_next / next / display
    let mut vs = vals.clone();
    for _ in 0..(n / 20) { vs.push(ctx.rng.next()); }
    for &v in &vs {
        let r = catch(move || ExpectedVersion::from_next_version(v));
        let op = format!("c25 fromnext {v}");
        match r {
            Some(e) => {
                let back = catch(move || e.into_next_version());
                if back != Some(Some(v)) { ctx.oracle_fail(&format!("fromnext {v}"), "into_next(from_next v) != Some(v)", &[op.clone()]); }
            }
            None => ctx.oracle_fail(&format!("fromnext {v}"), "panicked", &[op.clone()]),
        }
        ctx.emit(&op, &r.map(show_e).unwrap_or("trap".into()));
        for e in [ExpectedVersion::Exact(v), ExpectedVersion::Empty, ExpectedVersion::Any, ExpectedVersion::Exists] {
            let r = catch(move || e.into_next_version());
            let op = format!("c25 intonext {}", show_e(e));
            let txt = match r { None => "panic".to_string(), Some(None) => "none".into(), Some(Some(x)) => format!("some:{x}") };
            match (e, &r) {
                (ExpectedVersion::Any | ExpectedVersion::Exists, None) => {}
                (ExpectedVersion::Any | ExpectedVersion::Exists, _) => {}
                (_, None) => ctx.oracle_fail(&format!("intonext {}", show_e(e)), "panicked on its domain", &[op.clone()]),
                (_, Some(Some(x))) => { let x = *x; if catch(move || ExpectedVersion::from_next_version(x)) != Some(e) {
                    ctx.oracle_fail(&format!("intonext {}", show_e(e)), "from_next(into_next e) != e", &[op.clone()]); } }
                (ExpectedVersion::Exact(v), Some(None)) => if v != m { ctx.oracle_fail(&format!("intonext {}", show_e(e)), "None below u64::MAX", &[op.clone()]); },
                _ => {}
            }
            ctx.emit(&op, &txt);
            let op = format!("c25 display {}", show_e(e));
            let d = e.to_string();
            if ExpectedVersion::from_str(&d) != Ok(e) { ctx.oracle_fail(&format!("display {}", show_e(e)), "parse(display e) != e", &[op.clone()]); }
            ctx.emit(&op, &d);
        }
        // CurrentVersion::next traps at u64::MAX (a version that cannot exist: it would need 2^64 events);
        // reported in the stream only below the boundary.
        if v < m { let op = format!("c25 next {v}"); let r = catch(move || CurrentVersion::Current(v).next()); ctx.emit(&op, &r.map(|x| x.to_string()).unwrap_or("trap".into())); }
    }
    // parse: canonical, near-canonical and malformed strings
    let mut strs: Vec<Vec<u8>> = ["", "any", "exists", "empty", "Any", "ANY", "exist", " empty", "empty ", "+", "-", "-0", "-1", "+0", "+5", "00", "007", "0x10", "1e3", "1_000", "１２",
        "18446744073709551615", "18446744073709551616", "18446744073709551614", "+18446744073709551615", "184467440737095516150", "99999999999999999999", "1 ", " 1", "1.0", "٣"]
        .iter().map(|s| s.as_bytes().to_vec()).collect();
    for &v in &vs { strs.push(v.to_string().into_bytes()); }
    for _ in 0..(n / 10) {
        let len = ctx.rng.range(1, 22) as usize;
        let alphabet: &[u8] = b"0123456789+- aenyxist";
        let s: Vec<u8> = (0..len).map(|_| if ctx.rng.chance(9, 10) { b'0' + ctx.rng.below(10) as u8 } else { *ctx.rng.pick(alphabet) }).collect();
        strs.push(s);
    }
    for s in strs { parse_case(ctx, &s); }
}
