//! C26: write circuit breaker — model schedules replayed on REAL threads parked at the
//! `verif::pause` points of circuit_breaker.rs, with the mock clock.  One `c26 step t` line per
//! atomic operation; the implementation's result line carries the point executed, the return
//! value (if the method returned), where the thread parks next, and the six raw cell values.
use crate::util::*;
use sierradb_cluster::circuit_breaker::{verif, WriteCircuitBreaker};
use std::cell::Cell;
use std::sync::{Arc, Condvar, Mutex};
use std::time::Duration;

thread_local! { static TID: Cell<Option<usize>> = const { Cell::new(None) }; }

#[derive(Default)]
struct Inner {
    go: Vec<bool>,
    parked: Vec<Option<&'static str>>,
    finished: Vec<bool>,
    trapped: Vec<bool>,
    last_ret: Vec<Option<String>>,
}
struct Shared { m: Mutex<Inner>, cv: Condvar }

impl Shared {
    fn park(&self, t: usize, point: &'static str) {
        let mut g = self.m.lock().unwrap();
        g.parked[t] = Some(point);
        self.cv.notify_all();
        while !g.go[t] { g = self.cv.wait(g).unwrap(); }
        g.go[t] = false;
        g.parked[t] = None;
    }
}

fn call(cb: &WriteCircuitBreaker, m: char) -> String {
    match m {
        'a' => cb.should_allow_request().to_string(),
        's' => { cb.record_success(); "unit".into() }
        'f' => { cb.record_failure(); "unit".into() }
        _ => match cb.estimated_recovery_time() { None => "none".into(), Some(d) => d.as_millis().to_string() },
    }
}

#[derive(Clone, Debug)]
pub struct Cfg { pub th: u32, pub to: u64, pub mx: u32, pub sth: u32 }

/// one real breaker + its worker threads, stepped by the controller
pub struct Live {
    sh: Arc<Shared>,
    pub cb: Arc<WriteCircuitBreaker>,
    handles: Vec<std::thread::JoinHandle<()>>,
    pub progs: Vec<Vec<char>>,
}

/// what one atomic step did on the real code
#[derive(Clone, Debug)]
pub struct StepObs {
    pub t: usize, pub point: &'static str, pub ret: Option<String>, pub trap: bool,
    pub next: Option<&'static str>, pub before: [u64; 6], pub after: [u64; 6],
}

impl Live {
    pub fn new(cfg: &Cfg, clock0: u64, progs: &[Vec<char>]) -> Live {
        verif::set_mock_clock(Some(clock0));
        let cb = Arc::new(WriteCircuitBreaker::new(cfg.th, Duration::from_millis(cfg.to), cfg.mx, cfg.sth));
        let n = progs.len();
        let sh = Arc::new(Shared { m: Mutex::new(Inner { go: vec![false; n], parked: vec![None; n],
            finished: vec![false; n], trapped: vec![false; n], last_ret: vec![None; n] }), cv: Condvar::new() });
        let sh2 = sh.clone();
        verif::set_scheduler(Some(Arc::new(move |p: &'static str| { if let Some(t) = TID.with(|c| c.get()) { sh2.park(t, p); } })));
        let mut handles = vec![];
        for (t, prog) in progs.iter().enumerate() {
            let (sh, cb, prog) = (sh.clone(), cb.clone(), prog.clone());
            handles.push(std::thread::spawn(move || {
                TID.with(|c| c.set(Some(t)));
                for m in prog {
                    let r = catch(std::panic::AssertUnwindSafe(|| call(&cb, m)));
                    let mut g = sh.m.lock().unwrap();
                    match r {
                        Some(v) => g.last_ret[t] = Some(v),
                        None => { g.trapped[t] = true; g.finished[t] = true; sh.cv.notify_all(); return; }
                    }
                }
                let mut g = sh.m.lock().unwrap();
                g.finished[t] = true;
                sh.cv.notify_all();
            }));
        }
        { // wait until every worker is parked at its first point (or has nothing to do)
            let mut g = sh.m.lock().unwrap();
            while !(0..n).all(|t| g.parked[t].is_some() || g.finished[t]) { g = sh.cv.wait(g).unwrap(); }
        }
        Live { sh, cb, handles, progs: progs.to_vec() }
    }
    pub fn enabled(&self, t: usize) -> bool { let g = self.sh.m.lock().unwrap(); g.parked[t].is_some() && !g.finished[t] }
    /// release thread `t` for exactly one atomic operation
    pub fn step(&self, t: usize) -> StepObs {
        let before = self.cb.verif_cells();
        let mut g = self.sh.m.lock().unwrap();
        let point = g.parked[t].expect("thread not parked");
        g.last_ret[t] = None;
        g.go[t] = true;
        self.sh.cv.notify_all();
        while !(!g.go[t] && (g.parked[t].is_some() || g.finished[t])) { g = self.sh.cv.wait(g).unwrap(); }
        let obs = StepObs { t, point, ret: g.last_ret[t].clone(), trap: g.trapped[t], next: g.parked[t],
            before, after: [0; 6] };
        drop(g);
        StepObs { after: self.cb.verif_cells(), ..obs }
    }
    pub fn set_clock(&self, v: u64) { verif::set_mock_clock(Some(v)); }
    /// let every remaining thread run to completion and join
    pub fn shutdown(self) {
        verif::set_scheduler(None);
        {
            let mut g = self.sh.m.lock().unwrap();
            for t in 0..g.go.len() { g.go[t] = true; }
            self.sh.cv.notify_all();
        }
        // a released thread may park again only if a pause is in flight; keep releasing
        loop {
            let mut g = self.sh.m.lock().unwrap();
            if g.finished.iter().all(|f| *f) { break; }
            for t in 0..g.go.len() { g.go[t] = true; }
            self.sh.cv.notify_all();
            let (g2, _) = self.sh.cv.wait_timeout(g, Duration::from_millis(1)).unwrap();
            g = g2; drop(g);
        }
        for h in self.handles { let _ = h.join(); }
        verif::set_mock_clock(None);
    }
}

pub fn cells_str(c: &[u64; 6]) -> String { format!("cells={},{},{},{},{},{}", c[0], c[1], c[2], c[3], c[4], c[5]) }

pub fn obs_line(o: &StepObs) -> String {
    let next = o.next.unwrap_or("end");
    let out = if o.trap { "trap".to_string() }
        else if let Some(r) = &o.ret { format!("ret:{r} -> {next}") }
        else { format!("-> {next}") };
    format!("t{} {} {} {}", o.t, o.point, out, cells_str(&o.after))
}

// ---------------------------------------------------------------------------------------------
// property oracle, evaluated on the real trace only (points executed, raw cells, return values)

/// one method call reconstructed from the trace
#[derive(Clone, Debug)]
struct CallRec { meth: char, first: usize, last: usize, done: bool, ret: Option<String>, points: Vec<(&'static str, usize)> }

fn calls_of(progs: &[Vec<char>], trace: &[StepObs]) -> Vec<CallRec> {
    let mut out: Vec<CallRec> = vec![];
    let mut cur: Vec<Option<usize>> = vec![None; progs.len()];
    let mut idx = vec![0usize; progs.len()];
    for (k, o) in trace.iter().enumerate() {
        let c = match cur[o.t] {
            Some(c) => c,
            None => { out.push(CallRec { meth: progs[o.t][idx[o.t]], first: k, last: k, done: false, ret: None, points: vec![] });
                      idx[o.t] += 1; cur[o.t] = Some(out.len() - 1); out.len() - 1 }
        };
        out[c].last = k; out[c].points.push((o.point, k));
        if o.ret.is_some() || o.trap { out[c].done = true; out[c].ret = o.ret.clone(); cur[o.t] = None; }
    }
    out
}

/// returns (key suffix, description) of every violated clause
fn oracle(cfg: &Cfg, progs: &[Vec<char>], trace: &[StepObs]) -> Vec<(String, String)> {
    let mut bad = vec![];
    let calls = calls_of(progs, trace);
    let call_at = |k: usize| calls.iter().position(|c| c.first <= k && k <= c.last && c.points.iter().any(|p| p.1 == k)).unwrap();
    // (a) never panics
    for o in trace { if o.trap { bad.push((format!("panic {}", o.point), format!("thread {} panicked in the operation after pause point {}", o.t, o.point))); } }
    // (b) Closed -> Open by the closed branch of record_failure only after `threshold` failures
    for (k, o) in trace.iter().enumerate() {
        if !(o.before[0] == 0 && o.after[0] == 1) { continue; }
        let c = &calls[call_at(k)];
        let Some(&(_, p)) = c.points.iter().find(|x| x.0 == "fail.fc") else { continue };  // half-open branch: opens by design
        let need = cfg.th as usize;
        // failure calls overlapping [from, k]
        let overlapping = |from: usize| calls.iter().filter(|f| f.meth == 'f' && f.first <= k && f.last >= from).count();
        // the call that closed the breaker most recently
        if let Some(j) = (0..k).rev().find(|&j| trace[j].before[0] != 0 && trace[j].after[0] == 0) {
            let r = &calls[call_at(j)];
            let n = overlapping(r.first);
            if n < need { bad.push(("open-rule".into(), format!("step {k}: Closed->Open after only {n} failure report(s) since the breaker closed (threshold {need})"))); }
        } else if overlapping(0) < need {
            bad.push(("open-rule".into(), format!("step {k}: Closed->Open after only {} failure report(s) (threshold {need})", overlapping(0))));
        }
        // a success that reset the count in Closed before the deciding fetch_add
        for s in calls.iter().filter(|s| s.meth == 's') {
            if let Some(&(_, q)) = s.points.iter().find(|x| x.0 == "succ.fc") { if q < p {
                let n = calls.iter().filter(|f| f.meth == 'f' && f.points.iter().any(|x| x.0 == "fail.fc" && x.1 > q && x.1 <= p)).count();
                if n < need { bad.push(("open-rule".into(), format!("step {k}: Closed->Open with only {n} failure(s) after the success recorded at step {q} (threshold {need})"))); }
            } }
        }
    }
    // (c) probes admitted per half-open episode
    let mut k = 0;
    while k < trace.len() {
        if trace[k].before[0] == 1 && trace[k].after[0] == 2 {
            let end = (k + 1..trace.len()).find(|&j| trace[j].after[0] != 2).unwrap_or(trace.len());
            let admitted = calls.iter().filter(|c| c.meth == 'a' && c.done && c.ret.as_deref() == Some("true")
                && c.last >= k && c.last < end && c.points.iter().all(|p| p.0 != "allow.state" || trace[p.1].before[0] != 0)).count();
            if admitted > cfg.mx as usize {
                let resets: Vec<&str> = (k + 1..end).filter(|&j| trace[j].point.ends_with(".hocc") && trace[j].point != "allow.hocc").map(|j| trace[j].point).collect();
                let stale_only = !resets.is_empty() && resets.iter().all(|p| *p == "top.hocc" || *p == "tcl.hocc")
                    && admitted <= cfg.mx as usize * (1 + resets.len());
                let what = format!("half-open episode starting at step {k}: {admitted} probes admitted, half_open_max_calls={} (counter resets inside the episode: {:?})", cfg.mx, resets);
                bad.push((if stale_only { "probes stale-reset".into() } else { "probes".into() }, what));
            }
            k = end.max(k + 1);
        } else { k += 1; }
    }
    bad
}

// ---------------------------------------------------------------------------------------------
// scenarios and schedules

#[derive(Clone, Debug)]
enum Item { Op(char), Clock(u64) }

#[derive(Clone, Debug)]
struct Scenario { cfg: Cfg, clock0: u64, setup: Vec<Item>, progs: Vec<String>, ticks: Vec<u64> }

fn prog_tok(p: &[char]) -> String { if p.is_empty() { "-".into() } else { p.iter().collect() } }

struct Run<'a> { live: Live, lines: Vec<String>, trace: Vec<StepObs>, ctx: &'a mut Ctx }
impl<'a> Run<'a> {
    fn start(ctx: &'a mut Ctx, cfg: &Cfg, clock0: u64, progs: &[Vec<char>]) -> Run<'a> {
        let live = Live::new(cfg, clock0, progs);
        let line = format!("c26 new {} {} {} {} {} {}", cfg.th, cfg.to, cfg.mx, cfg.sth, clock0,
            progs.iter().map(|p| prog_tok(p)).collect::<Vec<_>>().join(" "));
        ctx.emit(&line, &cells_str(&live.cb.verif_cells()));
        Run { live, lines: vec![line], trace: vec![], ctx }
    }
    fn step(&mut self, t: usize) -> StepObs {
        let o = self.live.step(t);
        let line = format!("c26 step {t}");
        self.ctx.emit(&line, &obs_line(&o));
        self.ctx.stat(&format!("point:{}", o.point));
        self.lines.push(line); self.trace.push(o.clone());
        o
    }
    fn clock(&mut self, v: u64) {
        self.live.set_clock(v);
        let line = format!("c26 clock {v}");
        self.ctx.emit(&line, "ok");
        self.lines.push(line);
    }
    /// evaluate the property on the real trace, report, tear down
    fn finish(self, cfg: &Cfg) -> usize {
        let bad = oracle(cfg, &self.live.progs, &self.trace);
        for (k, what) in &bad {
            let key = if k == "probes stale-reset" { "C26:probes stale-reset".to_string() } else { format!("C26:{k} | {}", self.lines[0]) };
            self.ctx.stat(&format!("oracle:{}", k.split(' ').next().unwrap()));
            self.ctx.oracle_fail(&key, what, &self.lines);
        }
        for o in &self.trace {
            if o.before[0] != o.after[0] { self.ctx.stat(&format!("state:{}->{}", o.before[0], o.after[0])); }
        }
        self.live.shutdown();
        bad.len()
    }
}

/// run one schedule of `sc`; `choose(n)` picks among the `n` currently enabled entities
/// (worker threads in index order, then the clock if it has ticks left)
fn run_schedule(ctx: &mut Ctx, sc: &Scenario, choose: &mut dyn FnMut(&[usize]) -> usize) -> usize {
    let mut progs: Vec<Vec<char>> = sc.progs.iter().map(|p| p.chars().collect()).collect();
    let n = progs.len();
    progs.push(sc.setup.iter().filter_map(|i| if let Item::Op(c) = i { Some(*c) } else { None }).collect());
    let mut run = Run::start(ctx, &sc.cfg, sc.clock0, &progs);
    for it in &sc.setup {
        match it {
            Item::Clock(v) => run.clock(*v),
            Item::Op(_) => loop { let o = run.step(n); if o.ret.is_some() || o.trap { break; } },
        }
    }
    let mut tick = 0;
    loop {
        let mut en: Vec<usize> = (0..n).filter(|&t| run.live.enabled(t)).collect();
        if en.is_empty() { break; }
        if tick < sc.ticks.len() { en.push(usize::MAX); }
        let c = en[choose(&en).min(en.len() - 1)];
        if c == usize::MAX { run.clock(sc.ticks[tick]); tick += 1; } else { run.step(c); }
    }
    run.ctx.stat("schedules");
    run.finish(&sc.cfg)
}

/// all interleavings (stateless DFS by re-execution), at most `cap`; beyond the cap: PRNG schedules
fn explore(ctx: &mut Ctx, sc: &Scenario, cap: usize) {
    let mut stack: Vec<(usize, usize)> = vec![];   // (choice, number enabled) per depth
    let mut count = 0;
    loop {
        let mut depth = 0;
        let mut st = std::mem::take(&mut stack);
        run_schedule(ctx, sc, &mut |en| {
            let k = en.len();
            if depth == st.len() { st.push((0, k)); }
            let c = st[depth].0.min(k - 1); depth += 1; c
        });
        count += 1;
        st.truncate(depth);
        while let Some(&(c, k)) = st.last() { if c + 1 >= k { st.pop(); } else { break; } }
        if st.is_empty() { ctx.stat("scenarios_exhaustive"); return; }
        let l = st.len() - 1; st[l].0 += 1;
        stack = st;
        if count >= cap { break; }
    }
    ctx.stat("scenarios_sampled");
    for _ in 0..cap / 2 {
        let mut r = Rng(ctx.rng.next());
        run_schedule(ctx, sc, &mut |en| r.below(en.len() as u64) as usize);
    }
}

/// a directed schedule: entity ids (thread index, or CLOCK) in order; afterwards lowest enabled first
const CLOCK: usize = usize::MAX;
fn run_script(ctx: &mut Ctx, sc: &Scenario, script: &[usize]) -> usize {
    let mut i = 0;
    run_schedule(ctx, sc, &mut |en| {
        let want = script.get(i).copied(); i += 1;
        want.and_then(|w| en.iter().position(|e| *e == w)).unwrap_or(0)
    })
}

fn sc(th: u32, to: u64, mx: u32, sth: u32, setup: &[Item], progs: &[&str], ticks: &[u64]) -> Scenario {
    Scenario { cfg: Cfg { th, to, mx, sth }, clock0: 100, setup: setup.to_vec(),
        progs: progs.iter().map(|p| p.to_string()).collect(), ticks: ticks.to_vec() }
}

/// breaker states reached sequentially before the threads start (threshold 2, timeout 10, clock 100)
fn setups() -> Vec<(&'static str, Vec<Item>)> {
    use Item::*;
    vec![
        ("closed", vec![]),
        ("closed-1", vec![Op('f')]),
        ("open", vec![Op('f'), Op('f')]),
        ("open-due", vec![Op('f'), Op('f'), Clock(120)]),
        ("half", vec![Op('f'), Op('f'), Clock(120), Op('a')]),
        ("reclosed", vec![Op('f'), Op('f'), Clock(120), Op('a'), Op('s'), Op('s'), Op('f')]),
    ]
}

/// replay of recorded op lines (`c26 new …` starts a breaker, then `c26 step t` / `c26 clock v`)
fn replay_one(ctx: &mut Ctx, group: &[String]) {
    let t: Vec<&str> = group[0].split_whitespace().collect();
    if t.len() < 8 { return; }
    let cfg = Cfg { th: t[2].parse().unwrap(), to: t[3].parse().unwrap(), mx: t[4].parse().unwrap(), sth: t[5].parse().unwrap() };
    let progs: Vec<Vec<char>> = t[7..].iter().map(|p| if *p == "-" { vec![] } else { p.chars().collect() }).collect();
    let mut run = Run::start(ctx, &cfg, t[6].parse().unwrap(), &progs);
    for l in &group[1..] {
        let t: Vec<&str> = l.split_whitespace().collect();
        match t[1] {
            "step" => { let k: usize = t[2].parse().unwrap(); if k < progs.len() && run.live.enabled(k) { run.step(k); } }
            "clock" => run.clock(t[2].parse().unwrap()),
            _ => {}
        }
    }
    run.finish(&cfg);
}

fn replay(ctx: &mut Ctx, lines: Vec<String>) {
    let mut group: Vec<String> = vec![];
    for l in lines {
        let t: Vec<&str> = l.split_whitespace().collect();
        if t.len() < 3 || t[0] != "c26" { continue; }
        if t[1] == "new" { if !group.is_empty() { replay_one(ctx, &group); } group = vec![l.clone()]; }
        else if !group.is_empty() { group.push(l.clone()); }
    }
    if !group.is_empty() { replay_one(ctx, &group); }
}

pub fn run(ctx: &mut Ctx) {
    if let Some(lines) = ctx.replay.clone() { replay(ctx, lines); return; }
    use Item::*;
    let half = [Op('f'), Op('f'), Clock(120), Op('a')];
    // ---- directed schedules (the histories of DESIGN §6 F26/F27/F28 and the residual stale reset)
    // F27: one thread, max 1: the transitioning caller + one counted probe
    run_script(ctx, &sc(2, 10, 1, 1, &[Op('f'), Op('f'), Clock(120)], &["aaa"], &[]), &[]);
    run_script(ctx, &sc(2, 10, 2, 1, &[Op('f'), Op('f'), Clock(120)], &["aa", "aa"], &[]), &[0, 0, 0, 1, 1, 1, 1, 0, 0, 0]);
    // F26: `now` read, clock advances, concurrent record_failure stores a later timestamp
    run_script(ctx, &sc(2, 10, 1, 1, &[Op('f'), Op('f')], &["a", "f"], &[150]), &[0, 0, CLOCK, 1, 1, 0]);
    run_script(ctx, &sc(2, 10, 1, 1, &[Op('f'), Op('f')], &["e", "f"], &[150]), &[0, 0, CLOCK, 1, 1, 0]);
    // F28: closing thread parked between `state.store(Closed)` and the failure_count reset
    run_script(ctx, &sc(2, 10, 1, 1, &half, &["s", "f"], &[]), &[0, 0, 0, 0, 0, 1, 1, 1, 1, 1]);
    run_script(ctx, &sc(3, 10, 1, 1, &[Op('f'), Op('f'), Op('f'), Clock(120), Op('a')], &["s", "f"], &[]), &[0, 0, 0, 0, 0, 1, 1, 1, 1, 1]);
    // residual: a counter reset of a stalled transition_to_closed lands in a later episode
    run_script(ctx, &sc(2, 10, 1, 1, &half, &["s", "ffaa"], &[300]),
        &[0, 0, 0, 0, 0, 0, 1, 1, 1, 1, 1, 1, 1, 1, 1, 1, 1, CLOCK, 1, 1, 1, 1, 1, 0, 1, 1]);
    ctx.stat("directed");
    // ---- exhaustive / sampled interleavings of two threads, one method each
    let cap = if ctx.thorough() { 4000 } else { 120 };
    let meths = ['a', 's', 'f', 'e'];
    for (name, setup) in setups() {
        for (i, a) in meths.iter().enumerate() { for b in &meths[i..] {
            for (mx, sth) in [(1u32, 1u32), (2, 2)] {
                if !ctx.thorough() && (mx, sth) == (2, 2) && name != "half" { continue; }
                for ticks in [vec![], vec![200u64]] {
                    let s = sc(2, 10, mx, sth, &setup, &[&a.to_string(), &b.to_string()], &ticks);
                    ctx.nontrivial(&format!("{name} {a}{b} {mx} {sth} {ticks:?}"));
                    explore(ctx, &s, cap);
                }
            }
        } }
    }
    // ---- longer programs, 2-3 threads, PRNG schedules with several clock advances
    let n_long = if ctx.thorough() { 6000 } else { 500 };
    for _ in 0..n_long {
        let nt = ctx.rng.range(2, 3) as usize;
        let progs: Vec<String> = (0..nt).map(|_| { let l = ctx.rng.range(1, 4); (0..l).map(|_| *ctx.rng.pick(&['a', 'a', 's', 'f', 'f', 'e'])).collect() }).collect();
        let th = ctx.rng.range(1, 3) as u32; let to = *ctx.rng.pick(&[0u64, 10, 10, 40]);
        let mx = ctx.rng.range(1, 3) as u32; let sth = ctx.rng.range(1, 2) as u32;
        let (_, setup) = ctx.rng.pick(&setups()).clone();
        let mut ticks = vec![]; let mut c = 120u64;
        for _ in 0..ctx.rng.range(0, 4) { c += *ctx.rng.pick(&[1u64, 9, 10, 11, 50]); ticks.push(c); }
        let refs: Vec<&str> = progs.iter().map(|s| s.as_str()).collect();
        let s = sc(th, to, mx, sth, &setup, &refs, &ticks);
        ctx.nontrivial(&format!("long {progs:?} {th} {to} {mx} {sth} {ticks:?}"));
        let mut r = Rng(ctx.rng.next());
        run_schedule(ctx, &s, &mut |en| r.below(en.len() as u64) as usize);
        ctx.stat("long_random");
    }
}
