//! Concurrency family (C15 C16 C20): real concurrent clients on the real Database.
//! * appends race (conflicting Exact/Empty expectations on hot streams, independent Any appends) while
//!   reader tasks look up acknowledged events, poll stream versions and scan; small segments force
//!   rollovers during the reads; pause hooks widen the interesting windows;
//! * afterwards the actual serialization order is read back from the segment files and the whole
//!   history is replayed through the Lean store model in that order (linearizability against the
//!   model that is proved serial), rejected appends last.
use crate::store::*;
use crate::store_ops::*;
use crate::util::*;
use sierradb::bucket::segment::{BucketSegmentReader, Record};
use sierradb::database::{Database, NewEvent, Transaction};
use sierradb::IterDirection;
use sierradb::StreamId;
use sierradb_protocol::ExpectedVersion;
use std::collections::{BTreeMap, HashMap};
use std::sync::atomic::{AtomicBool, AtomicU64, Ordering};
use std::sync::{Arc, Mutex};
use std::time::{Duration, Instant};
use uuid::Uuid;

struct Attempt { tx: GenTx, txid: Uuid, res: Result<(u64, u64, Vec<u64>, BTreeMap<String, u64>), String>, dt: Duration }

fn file_order(dir: &std::path::Path, bucket: u16) -> Vec<Uuid> {
    // event ids in the order the writer thread serialized them (segments oldest first)
    let segs = dir.join("buckets").join(format!("{bucket:05}")).join("segments");
    let mut ids: Vec<(u32, std::path::PathBuf)> = std::fs::read_dir(segs).map(|rd| rd.filter_map(|e| { let e = e.ok()?; Some((e.file_name().to_string_lossy().parse::<u32>().ok()?, e.path().join("data.evts"))) }).collect()).unwrap_or_default();
    ids.sort();
    let mut out = vec![];
    for (_, f) in ids {
        if let Ok(mut rd) = BucketSegmentReader::open(&f, None) {
            let mut it = rd.iter();
            while let Ok(Some(r)) = it.next_record() { if let Record::Event(e) = r { out.push(e.event_id); } }
        }
    }
    out
}

pub async fn conc_history(ctx: &mut Ctx, root: &std::path::Path, tag: &str) {
    let cfg = Cfg { nb: *ctx.rng.pick(&[1u16, 2, 2, 4, 6]), segsize: 128 * 1024, compression: ctx.rng.chance(1, 2), sync_ms: 4 };
    let mut w = World::new(ctx, root, cfg, tag);
    let op = format!("st open nb={} seg={} c={}", w.cfg.nb, w.cfg.segsize, w.cfg.compression as u8);
    w.hist.push(op.clone());
    let db: Database = match open_db(&w.dir, &w.cfg) { Ok(db) => db, Err(e) => { ctx.oracle_fail(&format!("C15:{}", w.key), &format!("open failed: {e}"), &w.hist); return; } };
    ctx.emit(&op, "ok");
    let nclients = ctx.rng.range(3, 8) as usize;
    // long histories: many rollovers, the hot streams used rarely, so that at validation time a hot
    // stream lives in several sealed segments and not in the live one
    let long = ctx.rng.chance(1, 4);
    let rounds = if long { ctx.rng.range(30, 45) as usize } else { ctx.rng.range(4, 12) as usize };
    if long { ctx.stat("conc_long_histories"); }
    let key15 = format!("C15:{}", w.key); let key16 = format!("C16:{}", w.key); let key20 = format!("C20:{}", w.key);
    // shared: acknowledged events (id, pid, stream, version) — what a reader may demand to see
    let acked: Arc<Mutex<Vec<(Uuid, u16, String, u64)>>> = Arc::new(Mutex::new(vec![]));
    let stop = Arc::new(AtomicBool::new(false));
    let violations: Arc<Mutex<Vec<(String, String)>>> = Arc::new(Mutex::new(vec![]));
    let reads_done = Arc::new(AtomicU64::new(0));
    // ---- reader tasks (C15)
    let mut readers = vec![];
    for _r in 0..3 {
        let db = db.clone(); let acked = acked.clone(); let stop = stop.clone(); let violations = violations.clone(); let reads_done = reads_done.clone();
        let (k15, nb) = (key15.clone(), w.cfg.nb);
        let mut lrng = Rng(ctx.rng.next());
        readers.push(tokio::spawn(async move {
            let mut last_version: HashMap<(u16, String), u64> = HashMap::new();
            let mut last_scan_len: HashMap<(u16, String), usize> = HashMap::new();
            while !stop.load(Ordering::Relaxed) {
                let snapshot: Vec<(Uuid, u16, String, u64)> = acked.lock().unwrap().clone();   // acknowledged BEFORE this read starts
                if snapshot.is_empty() { tokio::time::sleep(Duration::from_micros(200)).await; continue; }
                let (id, pid, stream, version) = snapshot[lrng.below(snapshot.len() as u64) as usize].clone();
                let b = pid % nb;
                match lrng.below(5) {
                    0 => {
                        match db.read_event(pid, id).await {
                            Ok(Some(e)) if e.event_id == id => {}
                            other => violations.lock().unwrap().push((k15.clone(), format!("read_event of an acknowledged event (stream {stream} version {version}) started after the acknowledgement returned {}", match other { Ok(None) => "None".to_string(), Ok(Some(_)) => "another event".into(), Err(e) => format!("error {e}") }))),
                        }
                    }
                    1 => {
                        let newest = snapshot.iter().filter(|x| x.1 % nb == b && x.2 == stream).map(|x| x.3).max().unwrap_or(version);
                        match db.get_stream_version(pid, &StreamId::new(stream.clone()).unwrap()).await {
                            Ok(Some(v)) => {
                                if v.version < newest { violations.lock().unwrap().push((k15.clone(), format!("get_stream_version({stream}) = {} although version {newest} was acknowledged before the call", v.version))); }
                                let prev = last_version.insert((b, stream.clone()), v.version).unwrap_or(0);
                                if v.version < prev { violations.lock().unwrap().push((k15.clone(), format!("get_stream_version({stream}) went backwards for one reader: {prev} then {}", v.version))); }
                            }
                            other => violations.lock().unwrap().push((k15.clone(), format!("get_stream_version({stream}) of a stream with acknowledged events returned {:?}", other.map(|x| x.map(|v| v.version)).map_err(|e| e.to_string())))),
                        }
                    }
                    3 | 4 => {
                        // tail scans: forward from the newest acknowledged version, reverse from the end
                        let newest = snapshot.iter().filter(|x| x.1 % nb == b && x.2 == stream).map(|x| x.3).max().unwrap_or(version);
                        let fwd = lrng.below(2) == 0;
                        let (from, dir) = if fwd { (newest, IterDirection::Forward) } else { (u64::MAX, IterDirection::Reverse) };
                        match db.read_stream(pid, StreamId::new(stream.clone()).unwrap(), from, dir).await {
                            Ok(mut it) => {
                                let mut evs: Vec<(String, u64)> = vec![]; let mut err = None; let mut groups = 0;
                                loop { match it.next_batch(16).await { Ok(Some(cs)) => for c in cs { groups += 1; for e in c { evs.push((e.stream_id.to_string(), e.stream_version)); } }, Ok(None) => break, Err(e) => { err = Some(e.to_string()); break; } }
                                    if !fwd && groups >= 3 { break; } }
                                let what = if fwd { format!("forward scan of {stream} from {newest}") } else { format!("reverse scan of {stream} from the end") };
                                if let Some(e) = err { violations.lock().unwrap().push((k15.clone(), format!("{what} failed during concurrent appends: {e}"))); }
                                else {
                                    if let Some(x) = evs.iter().find(|x| x.0 != stream) { violations.lock().unwrap().push((k15.clone(), format!("{what} returned an event of stream {} (version {})", x.0, x.1))); }
                                    else if fwd {
                                        if evs.iter().enumerate().any(|(i, x)| x.1 != newest + i as u64) { violations.lock().unwrap().push((k15.clone(), format!("{what}: versions {:?} are not {newest}, {}, ...", evs.iter().map(|x| x.1).take(12).collect::<Vec<_>>(), newest + 1))); }
                                        if evs.is_empty() { violations.lock().unwrap().push((k15.clone(), format!("{what} returned nothing although version {newest} was acknowledged before it started"))); }
                                    } else {
                                        let maxv = evs.iter().map(|x| x.1).max();
                                        if maxv.map(|m| m < newest).unwrap_or(true) { violations.lock().unwrap().push((k15.clone(), format!("{what} returned newest version {maxv:?} although version {newest} was acknowledged before it started"))); }
                                    }
                                }
                            }
                            Err(e) => violations.lock().unwrap().push((k15.clone(), format!("read_stream({stream}) failed: {e}"))),
                        }
                    }
                    _ => {
                        let newest = snapshot.iter().filter(|x| x.1 % nb == b && x.2 == stream).map(|x| x.3).max().unwrap_or(version);
                        match db.read_stream(pid, StreamId::new(stream.clone()).unwrap(), 0, IterDirection::Forward).await {
                            Ok(mut it) => {
                                let mut versions = vec![]; let mut err = None;
                                loop { match it.next_batch(16).await { Ok(Some(cs)) => for c in cs { for e in c { versions.push(e.stream_version); } }, Ok(None) => break, Err(e) => { err = Some(e.to_string()); break; } } }
                                if let Some(e) = err { violations.lock().unwrap().push((k15.clone(), format!("stream scan of {stream} failed during concurrent appends: {e}"))); }
                                else {
                                    if versions.iter().enumerate().any(|(i, v)| *v != i as u64) { violations.lock().unwrap().push((k15.clone(), format!("stream scan of {stream} not gapless from 0: {:?}", versions.iter().take(20).collect::<Vec<_>>()))); }
                                    if (versions.len() as u64) < newest + 1 { violations.lock().unwrap().push((k15.clone(), format!("stream scan of {stream} returned {} events although version {newest} was acknowledged before it started", versions.len()))); }
                                    let prev = last_scan_len.insert((b, stream.clone()), versions.len()).unwrap_or(0);
                                    if versions.len() < prev { violations.lock().unwrap().push((k15.clone(), format!("stream scan of {stream} lost events for one reader: {prev} then {}", versions.len()))); }
                                }
                            }
                            Err(e) => violations.lock().unwrap().push((k15.clone(), format!("read_stream({stream}) failed: {e}"))),
                        }
                    }
                }
                reads_done.fetch_add(1, Ordering::Relaxed);
            }
        }));
    }
    // ---- writer clients, round by round (C16 / C20)
    let mut attempts: Vec<Attempt> = vec![];
    let mut hot_version: HashMap<u16, Option<u64>> = HashMap::new();   // per bucket: version of the hot stream
    for round in 0..rounds {
        let mut txs: Vec<GenTx> = vec![];
        for c in 0..nclients {
            let pk_idx = ctx.rng.below(w.pkeys.len() as u64) as usize;
            let pkey = w.pkeys[pk_idx]; let pid = w.pid_of(&pkey); let b = pid % w.cfg.nb;
            let mut events = vec![];
            let conflicting = if long { ctx.rng.chance(1, 4) } else { ctx.rng.chance(2, 3) };
            let mk = |w: &mut World, ctx: &mut Ctx, stream: String, exp: ExpectedVersion, plen: usize| { let idx = w.next_event_idx; w.next_event_idx += 1;
                GenEvent { id: sierradb::id::uuid_v7_with_partition_hash(sierradb::id::uuid_to_partition_hash(pkey)), idx, stream, exp, ts: 11, name: "c".into(), meta: vec![], payload: payload(ctx, plen) } };
            if conflicting {
                // the hot stream of this bucket belongs to partition key 0's owner: use a per-(bucket,pk) hot stream so keys match
                let hot = format!("hot-{b}-{pk_idx}");
                let cur = w.spec.streams.get(&(b, hot.clone())).and_then(|x| x.1.last().map(|e| e.version));
                let exp = match cur { None => ExpectedVersion::Empty, Some(v) => ExpectedVersion::Exact(v) };
                let pl = *ctx.rng.pick(&[10usize, 200, 3000]); events.push(mk(&mut w, ctx, hot, exp, pl));
            }
            if !conflicting || ctx.rng.chance(1, 2) {
                let plen = if long { *ctx.rng.pick(&[5000usize, 20000, 20000]) } else { *ctx.rng.pick(&[0usize, 50, 500, 5000, 20000]) };
                events.push(mk(&mut w, ctx, format!("own-{c}-{pk_idx}"), ExpectedVersion::Any, plen));
            }
            // expected partition sequences (only on transactions without a hot stream, so the
            // per-round winner rule of the hot streams is unaffected): racing Exact(head) — one
            // winner per partition and round — and a hopeless Exact far ahead (always rejected)
            let exp_seq = if conflicting { ExpectedVersion::Any } else {
                let head = w.spec.parts.get(&pid).and_then(|v| v.last().map(|e| e.seq));
                match ctx.rng.below(8) {
                    0 | 1 => { ctx.stat("conc_exp_seq_exact_head"); match head { Some(h) => ExpectedVersion::Exact(h), None => ExpectedVersion::Empty } }
                    2 => { ctx.stat("conc_exp_seq_hopeless"); ExpectedVersion::Exact(head.unwrap_or(0) + 1_000_000) }
                    _ => ExpectedVersion::Any,
                }
            };
            txs.push(GenTx { pkey, pk_idx, pid, exp_seq, events });
        }
        // all clients of the round race
        let mut handles = vec![];
        for tx in txs {
            let db = db.clone(); let t = w.to_transaction(&tx); let txid = t.transaction_id(); let acked = acked.clone();
            handles.push(tokio::spawn(async move {
                let t0 = Instant::now();
                let r = tokio::time::timeout(APPEND_TIMEOUT, db.append_events(t)).await;
                let dt = t0.elapsed();
                let res = match r {
                    Err(_) => Err("timeout".to_string()),
                    Ok(Err(e)) => Err(err_class(&e)),
                    Ok(Ok(a)) => {
                        let vs: BTreeMap<String, u64> = a.stream_versions.iter().map(|(k, v)| (k.to_string(), *v)).collect();
                        { let mut g = acked.lock().unwrap(); for e in &tx.events { if let Some(v) = vs.get(&e.stream) { g.push((e.id, tx.pid, e.stream.clone(), *v)); } } }
                        Ok((a.first_partition_sequence, a.last_partition_sequence, a.offsets.to_vec(), vs))
                    }
                };
                Attempt { tx, txid, res, dt }
            }));
        }
        let mut round_attempts = vec![];
        for h in handles { match h.await { Ok(a) => round_attempts.push(a), Err(_) => { ctx.oracle_fail(&key16, "a client task panicked", &w.hist); } } }
        // C16: per hot stream of this round exactly the first in serial order wins; C20: everything returned in time
        let mut winners: HashMap<(u16, String), usize> = HashMap::new();
        for a in &round_attempts {
            if a.res == Err("timeout".to_string()) { ctx.oracle_fail(&key20, &format!("an append did not return within {APPEND_TIMEOUT:?} (round {round}, {nclients} concurrent clients)"), &w.hist); }
            if a.dt > Duration::from_secs(2) { ctx.stat("append_slower_than_2s"); }
            if let (Some(e), Ok(_)) = (a.tx.events.first().filter(|e| e.stream.starts_with("hot-")), &a.res) { *winners.entry((a.tx.pid % w.cfg.nb, e.stream.clone())).or_insert(0) += 1; }
        }
        for ((b, s), n) in &winners { if *n > 1 { ctx.oracle_fail(&key16, &format!("{n} racing appends with the same exact/empty expectation on stream {s} (bucket {b}) all succeeded in round {round}"), &w.hist); } }
        let contended: std::collections::BTreeSet<(u16, String)> = round_attempts.iter().filter_map(|a| a.tx.events.first().filter(|e| e.stream.starts_with("hot-")).map(|e| (a.tx.pid % w.cfg.nb, e.stream.clone()))).collect();
        for k in contended { if !winners.contains_key(&k) { ctx.oracle_fail(&key16, &format!("no racing append on stream {} won round {round} although the expectation matched the state", k.1), &w.hist); } }
        // advance the reference state with the successes in SERIAL order = file order (determined after the run);
        // for generating the next round only the hot versions matter: apply successes now in sequence order
        let mut succ: Vec<&Attempt> = round_attempts.iter().filter(|a| a.res.is_ok()).collect();
        succ.sort_by_key(|a| (a.tx.pid, a.res.as_ref().unwrap().0));
        let _ = &mut hot_version;
        for a in succ { let _ = w.spec.append(&a.tx, w.cfg.nb, usize::MAX / 4); }
        ctx.stat_add("concurrent_appends", round_attempts.len() as u64);
        attempts.extend(round_attempts);
    }
    stop.store(true, Ordering::Relaxed);
    for r in readers { let _ = r.await; }
    for (k, v) in violations.lock().unwrap().drain(..) { ctx.oracle_fail(&k, &v, &w.hist); }
    ctx.stat_add("concurrent_reads", reads_done.load(Ordering::Relaxed));
    db.shutdown().await; drop(db);
    // ---- replay through the model in the order the writer threads serialized the successes
    let mut order: HashMap<Uuid, usize> = HashMap::new();
    for b in 0..w.cfg.nb { for (i, id) in file_order(&w.dir, b).into_iter().enumerate() { order.insert(id, i + (b as usize) * 10_000_000); } }
    let mut succ: Vec<&Attempt> = attempts.iter().filter(|a| a.res.is_ok()).collect();
    succ.sort_by_key(|a| order.get(&a.tx.events[0].id).copied().unwrap_or(usize::MAX));
    let mut replay_spec = Spec::default();
    let mut w2hist = w.hist.clone();
    for a in succ.iter() {
        let stored = stored_sizes(&a.tx, a.txid, &replay_spec, w.cfg.nb, w.cfg.compression);
        let (first, last, offs, vs) = a.res.as_ref().unwrap();
        // `nooffs`: a rejected expected-sequence append may have rolled the segment over at an unknown
        // point of the serial order (the rollover decision precedes that validation), so file
        // offsets are not compared in this family (layout independence of every read is C03)
        let mut s = format!("st append b={} pk={} pid={} exp={} n={} nooffs", a.tx.pid % w.cfg.nb, a.tx.pk_idx, a.tx.pid, show_exp(a.tx.exp_seq), a.tx.events.len());
        for (i, e) in a.tx.events.iter().enumerate() { s.push_str(&format!(" | e{} {} {} 1 {} {} {} {} {}", e.idx, e.stream, show_exp(e.exp), e.stream.len(), e.name.len(), e.meta.len(), e.payload.len(), stored[i])); }
        // C16: the serial execution in this order must accept it with exactly these results
        match replay_spec.append(&a.tx, w.cfg.nb, usize::MAX / 4) {
            Ok((f, l, v)) if f == *first && l == *last && v == *vs => {}
            other => { w2hist.push(s.clone()); ctx.oracle_fail(&key16, &format!("successful concurrent append (seq {first}..{last}) is not what the serial execution in serialization order gives: {:?}", other.map(|x| (x.0, x.1))), &w2hist); }
        }
        w2hist.push(s.clone());
        let _ = offs;
        ctx.emit(&s, &format!("ok {first} {last} [{}] offs=*", vs.iter().map(|(k, v)| format!("{k}:{v}")).collect::<Vec<_>>().join(",")));
    }
    for a in attempts.iter().filter(|a| a.res.is_err() && a.res != Err("timeout".to_string())) {
        let stored = stored_sizes(&a.tx, a.txid, &replay_spec, w.cfg.nb, w.cfg.compression);
        // `nooffs`: a rejected expected-sequence append may have rolled the segment over at an unknown
        // point of the serial order (the rollover decision precedes that validation), so file
        // offsets are not compared in this family (layout independence of every read is C03)
        let mut s = format!("st append b={} pk={} pid={} exp={} n={} nooffs", a.tx.pid % w.cfg.nb, a.tx.pk_idx, a.tx.pid, show_exp(a.tx.exp_seq), a.tx.events.len());
        for (i, e) in a.tx.events.iter().enumerate() { s.push_str(&format!(" | e{} {} {} 1 {} {} {} {} {}", e.idx, e.stream, show_exp(e.exp), e.stream.len(), e.name.len(), e.meta.len(), e.payload.len(), stored[i])); }
        // a loser must also lose at the end of the serial order (versions only grow)
        let mut s2 = replay_spec.clone();
        if s2.append(&a.tx, w.cfg.nb, usize::MAX / 4).is_ok() { w2hist.push(s.clone()); ctx.oracle_fail(&key16, "a rejected concurrent append would be accepted by the serial execution", &w2hist); }
        ctx.emit(&s, &format!("err {}", a.res.as_ref().unwrap_err()));
    }
    // final state after reopen equals the serial execution
    w.spec = replay_spec;
    w.hist = w2hist;
    match open_db(&w.dir, &w.cfg) {
        Ok(db2) => { w.db = Some(db2); w.hist.push("st reopen".into()); ctx.emit("st reopen", "ok"); ctx.id_override = Some("C16".into()); do_reads(ctx, &mut w, 10).await; ctx.id_override = None; if let Some(d) = w.db.take() { d.shutdown().await; } }
        Err(e) => ctx.oracle_fail(&key16, &format!("reopen after the concurrent run failed: {e}"), &w.hist),
    }
    ctx.nontrivial(&w.hist.join(";"));
    let _ = std::fs::remove_dir_all(&w.dir);
}

/// C20 under back-pressure: many writer threads (so each request queue has the minimum capacity of
/// 16) and more concurrent clients on ONE writer than its queue holds, so that the queue is full at
/// some of the syncer's poll instants; afterwards lone appends that only the syncer can
/// acknowledge.  Oracle only (every append returns within the timeout and is then readable).
pub async fn burst_history(ctx: &mut Ctx, root: &std::path::Path, tag: &str) {
    let cfg = Cfg { nb: 64, segsize: 128 * 1024, compression: false, sync_ms: 4 };
    let mut w = World::new(ctx, root, cfg, tag);
    w.hist.push(format!("st open nb={} seg={} c=0  # burst scenario: 64 writer threads, 40 clients on one partition", w.cfg.nb, w.cfg.segsize));
    let db: Database = match open_db(&w.dir, &w.cfg) { Ok(db) => db, Err(e) => { ctx.oracle_fail(&format!("C20:{}", w.key), &format!("open failed: {e}"), &w.hist); return; } };
    let key20 = format!("C20:{} burst", w.key);
    let pkey = w.pkeys[0]; let pid = w.pid_of(&pkey);
    let one = |stream: String, plen: usize| -> Transaction {
        let ev = NewEvent { event_id: sierradb::id::uuid_v7_with_partition_hash(sierradb::id::uuid_to_partition_hash(pkey)), stream_id: StreamId::new(stream).unwrap(),
            stream_version: ExpectedVersion::Any, event_name: "b".into(), timestamp: 7, metadata: vec![], payload: vec![0x5A; plen] };
        Transaction::new(pkey, pid, smallvec::smallvec![ev]).unwrap()
    };
    let timeouts = Arc::new(AtomicU64::new(0)); let done = Arc::new(AtomicU64::new(0));
    for burst in 0..3 {
        let mut tasks = vec![];
        for c in 0..40 {
            let db = db.clone(); let timeouts = timeouts.clone(); let done = done.clone();
            let txs: Vec<Transaction> = (0..8).map(|_| one(format!("burst-{c}"), 64)).collect();
            tasks.push(tokio::spawn(async move {
                for t in txs {
                    match tokio::time::timeout(APPEND_TIMEOUT, db.append_events(t)).await { Err(_) => { timeouts.fetch_add(1, Ordering::Relaxed); break; } Ok(_) => { done.fetch_add(1, Ordering::Relaxed); } }
                }
            }));
        }
        for t in tasks { let _ = t.await; }
        w.hist.push(format!("# burst {burst}: 40 clients x 8 single-event appends on partition {pid}"));
        // lone appends: nothing follows them, only the syncer's FlushPoll can acknowledge them
        for k in 0..2 {
            tokio::time::sleep(Duration::from_millis(1)).await;
            let t = one(format!("lone-{burst}-{k}"), 32); let id = t.events()[0].event_id;
            match tokio::time::timeout(APPEND_TIMEOUT, db.append_events(t)).await {
                Err(_) => { timeouts.fetch_add(1, Ordering::Relaxed); }
                Ok(Ok(_)) => { done.fetch_add(1, Ordering::Relaxed);
                    if !matches!(db.read_event(pid, id).await, Ok(Some(_))) { ctx.oracle_fail(&format!("C01:{} burst", w.key), "lone append after a burst acknowledged but not readable", &w.hist); } }
                Ok(Err(e)) => ctx.oracle_fail(&key20, &format!("lone append after a burst failed: {e}"), &w.hist),
            }
        }
    }
    let (to, dn) = (timeouts.load(Ordering::Relaxed), done.load(Ordering::Relaxed));
    ctx.stat_add("burst_appends_done", dn); ctx.stat("burst_scenarios");
    if to > 0 { ctx.oracle_fail(&key20, &format!("{to} append(s) did not return within {APPEND_TIMEOUT:?} under back-pressure (40 concurrent clients on one writer thread whose queue holds 16 requests; {dn} returned)"), &w.hist); }
    db.shutdown().await;
    let _ = std::fs::remove_dir_all(&w.dir);
}

/// when set, every scan sleeps between loading the live segment id and reading the live index
static TAIL_RACE: AtomicBool = AtomicBool::new(false);

/// C15 / C03 under a rollover racing the START of a scan: one writer appends 16 KiB events to one
/// stream (a rollover every ~7 appends), readers keep scanning the tail of that stream (reverse from
/// the end, forward from the newest acknowledged version) while the pause hook holds every scan
/// between its segment-id load and its live-index read.  Oracle only.
pub async fn tail_race_history(ctx: &mut Ctx, root: &std::path::Path, tag: &str) {
    let cfg = Cfg { nb: 1, segsize: 128 * 1024, compression: false, sync_ms: 2 };
    let mut w = World::new(ctx, root, cfg, tag);
    w.hist.push(format!("st open nb=1 seg={} c=0  # tail-race scenario: 1 writer (16 KiB events on one stream), 3 tail scanners, scans held at iter.segment_id_loaded", w.cfg.segsize));
    let db: Database = match open_db(&w.dir, &w.cfg) { Ok(db) => db, Err(e) => { ctx.oracle_fail(&format!("C15:{}", w.key), &format!("open failed: {e}"), &w.hist); return; } };
    let key15 = format!("C15:{} tail-race", w.key);
    let pkey = w.pkeys[0]; let pid = w.pid_of(&pkey);
    let newest = Arc::new(AtomicU64::new(u64::MAX)); // newest acknowledged version (MAX = none yet)
    let stop = Arc::new(AtomicBool::new(false));
    let violations: Arc<Mutex<Vec<String>>> = Arc::new(Mutex::new(vec![]));
    let scans = Arc::new(AtomicU64::new(0));
    TAIL_RACE.store(true, Ordering::SeqCst);
    let mut readers = vec![];
    for r in 0..5u64 {
        let (db, newest, stop, violations, scans) = (db.clone(), newest.clone(), stop.clone(), violations.clone(), scans.clone());
        readers.push(tokio::spawn(async move {
            let mut i = r;
            while !stop.load(Ordering::Relaxed) {
                let n = newest.load(Ordering::SeqCst);
                if n == u64::MAX { tokio::time::sleep(Duration::from_millis(1)).await; continue; }
                i += 1; let fwd = i % 2 == 0;
                let (from, dir) = if fwd { (n, IterDirection::Forward) } else { (u64::MAX, IterDirection::Reverse) };
                let what = if fwd { format!("forward scan from {n}") } else { "reverse scan from the end".to_string() };
                match db.read_stream(pid, StreamId::new("tail").unwrap(), from, dir).await {
                    Ok(mut it) => {
                        let mut evs: Vec<(String, u64)> = vec![]; let mut err = None; let mut groups = 0;
                        loop { match it.next_batch(8).await { Ok(Some(cs)) => for c in cs { groups += 1; for e in c { evs.push((e.stream_id.to_string(), e.stream_version)); } }, Ok(None) => break, Err(e) => { err = Some(e.to_string()); break; } }
                            if !fwd && groups >= 2 { break; } }
                        if let Some(e) = err { violations.lock().unwrap().push(format!("{what} failed while the segment rolled over: {e}")); }
                        else if let Some(x) = evs.iter().find(|x| x.0 != "tail") { violations.lock().unwrap().push(format!("{what} returned an event of stream {}", x.0)); }
                        else if fwd && (evs.is_empty() || evs.iter().enumerate().any(|(k, x)| x.1 != n + k as u64)) { violations.lock().unwrap().push(format!("{what}: versions {:?} are not {n}, {}, ... (version {n} was acknowledged before the scan started)", evs.iter().map(|x| x.1).take(8).collect::<Vec<_>>(), n + 1)); }
                        else if !fwd && evs.iter().map(|x| x.1).max().map(|m| m < n).unwrap_or(true) { violations.lock().unwrap().push(format!("{what} returned newest version {:?} (versions {:?}) although version {n} was acknowledged before it started", evs.iter().map(|x| x.1).max(), evs.iter().map(|x| x.1).take(8).collect::<Vec<_>>())); }
                    }
                    Err(e) => violations.lock().unwrap().push(format!("read_stream failed: {e}")),
                }
                scans.fetch_add(1, Ordering::Relaxed);
            }
        }));
    }
    let n_appends = 160u64;
    for v in 0..n_appends {
        let ev = NewEvent { event_id: sierradb::id::uuid_v7_with_partition_hash(sierradb::id::uuid_to_partition_hash(pkey)), stream_id: StreamId::new("tail").unwrap(),
            stream_version: if v == 0 { ExpectedVersion::Empty } else { ExpectedVersion::Exact(v - 1) }, event_name: "t".into(), timestamp: 7, metadata: vec![], payload: vec![(v % 251) as u8; 16 * 1024] };
        match tokio::time::timeout(APPEND_TIMEOUT, db.append_events(Transaction::new(pkey, pid, smallvec::smallvec![ev]).unwrap())).await {
            Ok(Ok(_)) => newest.store(v, Ordering::SeqCst),
            other => { ctx.oracle_fail(&format!("C20:{} tail-race", w.key), &format!("append {v} of the tail-race writer did not succeed: {:?}", other.map(|r| r.map(|_| ()).map_err(|e| e.to_string()))), &w.hist); break; }
        }
    }
    stop.store(true, Ordering::Relaxed);
    for r in readers { let _ = r.await; }
    TAIL_RACE.store(false, Ordering::SeqCst);
    ctx.stat("tail_race_scenarios"); ctx.stat_add("tail_race_scans", scans.load(Ordering::Relaxed));
    let v = violations.lock().unwrap().clone();
    if let Some(first) = v.first() { ctx.oracle_fail(&key15, &format!("{first} ({} such scans of {})", v.len(), scans.load(Ordering::Relaxed)), &w.hist); }
    db.shutdown().await;
    let _ = std::fs::remove_dir_all(&w.dir);
}

pub fn run(ctx: &mut Ctx) {
    // widen the windows: sleep at the pause points of the writer
    let sleeper_seed = AtomicU64::new(ctx.rng.next());
    *sierradb::writer_thread_pool::verif::PAUSE_HOOK.write().unwrap() = Some(Box::new(move |point| {
        let x = sleeper_seed.fetch_add(0x9E3779B97F4A7C15, Ordering::Relaxed);
        match point {
            "rollover.indexes_swapped" => std::thread::sleep(Duration::from_millis(3 + (x >> 60))),
            "append.before_wait" => if (x >> 61) == 0 { std::thread::sleep(Duration::from_millis(12)) },
            // a scan that has loaded the live segment id but not yet read the live index
            "iter.segment_id_loaded" => if TAIL_RACE.load(Ordering::Relaxed) { std::thread::sleep(Duration::from_millis(12)) } else if (x >> 61) == 0 { std::thread::sleep(Duration::from_millis(9)) },
            _ => {}
        }
    }));
    let rt = tokio::runtime::Builder::new_multi_thread().worker_threads(8).enable_all().build().unwrap();
    let root = if std::path::Path::new("/dev/shm").is_dir() { tempfile::tempdir_in("/dev/shm").unwrap() } else { tempfile::tempdir().unwrap() };
    let n = if ctx.thorough() { 250 / crate::store_run::chunks() } else { 25 };
    for i in 0..n { rt.block_on(conc_history(ctx, root.path(), &format!("{i}"))); }
    for i in 0..(if ctx.thorough() { (12 / crate::store_run::chunks()).max(2) } else { 2 }) { rt.block_on(burst_history(ctx, root.path(), &format!("b{i}"))); }
    for i in 0..(if ctx.thorough() { (10 / crate::store_run::chunks()).max(2) } else { 2 }) { rt.block_on(tail_race_history(ctx, root.path(), &format!("t{i}"))); }
    *sierradb::writer_thread_pool::verif::PAUSE_HOOK.write().unwrap() = None;
}
