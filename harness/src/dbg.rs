use crate::store::*;
use crate::util::*;
use sierradb::IterDirection;
use sierradb::StreamId;
use sierradb_protocol::ExpectedVersion;

fn fd_count() -> usize { std::fs::read_dir("/proc/self/fd").map(|d| d.count()).unwrap_or(0) }

/// VH_DBG=fdleak: open / append / shutdown a database repeatedly and print the number of open descriptors
fn fdleak(ctx: &mut Ctx) {
    let rt = tokio::runtime::Builder::new_multi_thread().worker_threads(2).enable_all().build().unwrap();
    let root = tempfile::tempdir_in("/dev/shm").unwrap();
    rt.block_on(async {
        let cfg = Cfg { nb: 1, segsize: 128 * 1024, compression: false, sync_ms: 5 };
        let mut w = World::new(ctx, root.path(), cfg, "fd");
        for i in 0..300 {
            let db = open_db(&w.dir, &w.cfg).unwrap();
            if i % 3 == 0 { let tx = w.gen_tx(ctx); let _ = db.append_events(w.to_transaction(&tx)).await; }
            db.shutdown().await; drop(db);
            if i % 50 == 0 { tokio::time::sleep(std::time::Duration::from_millis(200)).await; println!("after {i} open/shutdown cycles: {} fds, {} threads", fd_count(), std::fs::read_dir("/proc/self/task").map(|d| d.count()).unwrap_or(0)); }
        }
    });
}

pub fn run(ctx: &mut Ctx) {
    if std::env::var("VH_DBG").as_deref() == Ok("fdleak") { fdleak(ctx); return; }
    let rt = tokio::runtime::Builder::new_multi_thread().worker_threads(2).enable_all().build().unwrap();
    let root = tempfile::tempdir().unwrap();
    rt.block_on(async {
        let cfg = Cfg { nb: 1, segsize: 128 * 1024, compression: false, sync_ms: 8 };
        let mut w = World::new(ctx, root.path(), cfg, "dbg");
        w.db = Some(open_db(&w.dir, &w.cfg).unwrap());
        let pk = w.pkeys[0]; let pid = w.pid_of(&pk);
        let mk = |idx: usize, stream: &str, plen: usize| GenEvent { id: sierradb::id::uuid_v7_with_partition_hash(sierradb::id::uuid_to_partition_hash(pk)), idx, stream: stream.into(), exp: ExpectedVersion::Any, ts: 5, name: "n".into(), meta: vec![], payload: vec![7; plen] };
        let tx1 = GenTx { pkey: pk, pk_idx: 0, pid, exp_seq: ExpectedVersion::Any, events: vec![mk(16, "s0-0", 20000), mk(17, "s0-0", 10)] };
        let tx2 = GenTx { pkey: pk, pk_idx: 0, pid, exp_seq: ExpectedVersion::Any, events: vec![mk(18, "s0-0", 60), mk(19, "s0-0", 2047), mk(20, "s0-2", 40000), mk(21, "s0-2", 127), mk(22, "s5-2", 40000)] };
        let tx0 = GenTx { pkey: pk, pk_idx: 0, pid, exp_seq: ExpectedVersion::Any, events: vec![mk(14, "s2-2", 2047), mk(15, "s2-2", 40000)] };
        let tx3 = GenTx { pkey: pk, pk_idx: 0, pid, exp_seq: ExpectedVersion::Any, events: vec![mk(34, "s3-2", 44), mk(35, "s3-0", 40000), mk(36, "s3-2", 2048), mk(37, "s3-2", 12)] };
        for tx in [&tx0, &tx1, &tx2, &tx3] { let r = w.db.as_ref().unwrap().append_events(w.to_transaction(tx)).await; println!("{:?}", r.map(|x| x.offsets)); w.spec.append(tx, 1, 131072).unwrap(); }
        { let db = w.db.take().unwrap(); db.shutdown().await; drop(db); w.db = Some(open_db(&w.dir, &w.cfg).unwrap()); }
        for batches in [vec![1usize, 50, 2], vec![50], vec![1]] {
            let mut it = w.db.as_ref().unwrap().read_stream(pid, StreamId::new("s0-0").unwrap(), 4, IterDirection::Reverse).await.unwrap();
            let mut i = 0; let mut out = vec![];
            loop { let lim = batches[i % batches.len()]; i += 1;
                match it.next_batch(lim).await.unwrap() { Some(cs) => { out.push(format!("batch(lim {lim}): {:?}", cs.iter().map(|c| groups_of(c).iter().map(|e| e.stream_version).collect::<Vec<_>>()).collect::<Vec<_>>())); } None => break } }
            println!("{batches:?} -> {out:?}");
        }
    });
}
