//! vharness — correspondence harness: runs the REAL sierradb code (path deps on /repo's working
//! tree) on generated cases, writes (a) the operation lines for the Lean model driver,
//! (b) the implementation's canonical result per line, (c) property-oracle failures evaluated
//! directly on the implementation's outputs, (d) generator statistics.
//!
//! usage: vharness <family> --out <dir> [--tier quick|thorough] [--seed N] [--replay file]
mod util;
mod c24;
mod c25;
mod c23;
mod c13;
mod seg;
mod c08;
mod c26;
mod c22;
mod rdr;
mod c07;
mod c09;
mod c10;
mod c12;
mod c21;
mod store;
mod store_ops;
mod store_run;
mod dbg;
mod conc;

use util::Ctx;

fn main() {
    let args: Vec<String> = std::env::args().collect();
    if args.len() < 2 {
        eprintln!("usage: vharness <family> --out <dir> [--tier quick|thorough] [--seed N] [--replay f]");
        std::process::exit(2);
    }
    let family = args[1].clone();
    let mut out = String::from("/verif/work/tmp");
    let mut tier = String::from("quick");
    let mut seed: u64 = 1;
    let mut replay: Option<String> = None;
    let mut i = 2;
    while i < args.len() {
        match args[i].as_str() {
            "--out" => { out = args[i + 1].clone(); i += 2; }
            "--tier" => { tier = args[i + 1].clone(); i += 2; }
            "--seed" => { seed = args[i + 1].parse().unwrap_or(1); i += 2; }
            "--replay" => { replay = Some(args[i + 1].clone()); i += 2; }
            _ => { i += 1; }
        }
    }
    // silence panic messages of caught panics (they are reported as `trap` results)
    if std::env::var("VH_PANIC").is_err() { std::panic::set_hook(Box::new(|_| {})); }
    let mut ctx = Ctx::new(&out, &tier, seed, replay);
    match family.as_str() {
        "c24" => c24::run(&mut ctx),
        "c25" => c25::run(&mut ctx),
        "c23" => c23::run(&mut ctx),
        "c13" => c13::run_c13(&mut ctx),
        "c14" => c13::run_c14(&mut ctx),
        "c08" => c08::run(&mut ctx),
        "c26" => c26::run(&mut ctx),
        "c22" => c22::run(&mut ctx),
        "rdr" => rdr::run(&mut ctx),
        "c07" => c07::run(&mut ctx),
        "c09" => c09::run(&mut ctx),
        "c10" => c10::run(&mut ctx),
        "c12" => c12::run(&mut ctx),
        "c21" => c21::run(&mut ctx),
        "store" => store_run::run_store(&mut ctx),
        "dbg" => dbg::run(&mut ctx),
        "crash" => store_run::run_crash(&mut ctx),
        "space" => store_run::run_space(&mut ctx),
        "conc" => conc::run(&mut ctx),
        "c17" => seg::run_c17(&mut ctx),
        "c18" => seg::run_c18(&mut ctx),
        other => { eprintln!("unknown family {other}"); std::process::exit(2); }
    }
    ctx.finish();
}
