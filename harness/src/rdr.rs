//! rdr: crafted segments — ARBITRARY record sequences (orphaned events, commits that match nothing,
//! interleaved transactions, nil / flagged transaction ids, records crossing 64 KiB cache-block
//! boundaries), written through the real `BucketSegmentWriter` and read back through
//!   * `BucketSegmentReader::read_committed_events` (reader-pool path) at every record offset,
//!   * `SegmentBlock::read_committed_events` (block-cache path) for blocks starting at that record
//!     and at an earlier record,
//!   * `BucketSegmentIter::next_committed_events` (recovery / hydration scan).
//! Compared with the Lean model's `readCommitted`, `committedOf`, `committedEnd` on the same records.
//! Oracles on the real outputs (C04): a returned group is a single flagged event, or consecutive
//! events of ONE transaction directly followed by its commit record; the block path, when it answers,
//! answers what the pool path answers.
use crate::util::*;
use seglog::read::ReadHint;
use sierradb::bucket::segment::{
    BucketSegmentReader, BucketSegmentWriter, CommittedEvents, LongBytes, RawCommit, RawEvent, RecordHeader, ShortString,
    COMMIT_SIZE, SEGMENT_HEADER_SIZE,
};
use sierradb::id::set_uuid_flag;
use sierradb::StreamId;
use uuid::Uuid;

#[derive(Clone, Debug)]
enum R { Ev { tx: u64, single: bool, eid: u64, pay: usize }, Commit { tx: u64, flag: bool, count: u32 } }

fn txid(k: u64, flag: bool) -> Uuid { set_uuid_flag(Uuid::from_u128(k as u128), flag) }
fn model_tx(k: u64, flag: bool) -> u64 { 2 * k + flag as u64 }

fn gen_recs(rng: &mut Rng, n: usize, big: bool) -> Vec<R> {
    let mut v = vec![];
    let mut eid = 1;
    let keys = rng.range(1, 3);
    while v.len() < n {
        match rng.below(10) {
            // a well-formed multi-event transaction
            0..=2 => {
                let k = rng.below(keys + 1); let m = rng.range(2, 4);
                for _ in 0..m { v.push(R::Ev { tx: k, single: false, eid, pay: pay(rng, big) }); eid += 1; }
                v.push(R::Commit { tx: k, flag: false, count: m as u32 });
            }
            // single-event transaction
            3..=4 => { v.push(R::Ev { tx: rng.below(keys + 1), single: true, eid, pay: pay(rng, big) }); eid += 1; }
            // orphaned events (no commit)
            5..=6 => { let k = rng.below(keys + 1); for _ in 0..rng.range(1, 3) { v.push(R::Ev { tx: k, single: false, eid, pay: pay(rng, big) }); eid += 1; } }
            // a commit that may or may not match what precedes it
            7..=8 => v.push(R::Commit { tx: rng.below(keys + 1), flag: rng.chance(1, 6), count: rng.below(4) as u32 }),
            // interleaving: events of two transactions alternating, then one commit
            _ => {
                let (a, b) = (rng.below(keys + 1), rng.below(keys + 1));
                for i in 0..rng.range(2, 4) { v.push(R::Ev { tx: if i % 2 == 0 { a } else { b }, single: false, eid, pay: pay(rng, big) }); eid += 1; }
                v.push(R::Commit { tx: if rng.chance(1, 2) { a } else { b }, flag: false, count: 2 });
            }
        }
    }
    v
}
fn pay(rng: &mut Rng, big: bool) -> usize {
    if big && rng.chance(1, 4) { rng.range(9_000, 30_000) as usize } else { rng.below(200) as usize }
}

fn show_group(g: &CommittedEvents) -> String {
    let evs: Vec<String> = match g {
        CommittedEvents::Single(e) => vec![format!("e{}@{}", e.event_id.as_u128(), e.offset)],
        CommittedEvents::Transaction { events, .. } => events.iter().map(|e| format!("e{}@{}", e.event_id.as_u128(), e.offset)).collect(),
    };
    evs.join("+")
}
fn group_ids(g: &CommittedEvents) -> String {
    let evs: Vec<String> = match g {
        CommittedEvents::Single(e) => vec![format!("e{}", e.event_id.as_u128())],
        CommittedEvents::Transaction { events, .. } => events.iter().map(|e| format!("e{}", e.event_id.as_u128())).collect(),
    };
    evs.join("+")
}

/// the property itself on one returned group, against the records as written
fn check_group(ctx: &mut Ctx, placed: &[(u64, u64, R)], g: &CommittedEvents, at: u64, replay: &[String], case: &str) {
    let idx_of = |off: u64| placed.iter().position(|p| p.0 == off);
    match g {
        CommittedEvents::Single(e) => {
            let ok = matches!(idx_of(e.offset).map(|i| &placed[i].2), Some(R::Ev { single: true, .. }));
            if !ok { ctx.oracle_fail(&format!("C04:rdr single-not-flagged {case}"), &format!("read at {at}: a non-flagged event was returned as a single-event transaction ({})", show_group(g)), replay); }
        }
        CommittedEvents::Transaction { events, commit } => {
            // consecutive records, all events of the commit's transaction, commit directly after
            let first = events.first().and_then(|e| idx_of(e.offset));
            let mut ok = first.is_some() && !events.is_empty();
            if let Some(i0) = first {
                for (j, e) in events.iter().enumerate() {
                    match placed.get(i0 + j) {
                        Some((off, _, R::Ev { tx, single: false, .. })) if *off == e.offset && txid(*tx, false) == commit.transaction_id => {}
                        _ => ok = false,
                    }
                }
                match placed.get(i0 + events.len()) {
                    Some((off, _, R::Commit { tx, flag, .. })) if *off == commit.offset && txid(*tx, *flag) == commit.transaction_id => {}
                    _ => ok = false,
                }
            }
            if !ok { ctx.oracle_fail(&format!("C04:rdr torn-group {case}"), &format!("read at {at}: returned group is not a run of one transaction's events directly followed by its commit ({})", show_group(g)), replay); }
        }
    }
}

fn one_case(ctx: &mut Ctx, recs: &[R], case: &str) {
    let dir = if std::path::Path::new("/dev/shm").is_dir() { tempfile::tempdir_in("/dev/shm").unwrap() } else { tempfile::tempdir().unwrap() };
    let path = dir.path().join("data.evts");
    let mut w = BucketSegmentWriter::create(&path, 0, 4 << 20, false).unwrap();
    let mut placed: Vec<(u64, u64, R)> = vec![];
    let mut lines: Vec<String> = vec!["rd new".to_string()];
    ctx.emit("rd new", "ok");
    for r in recs {
        match r {
            R::Ev { tx, single, eid, pay } => {
                let ev = RawEvent {
                    header: RecordHeader::new_event(1_000, txid(*tx, *single)).unwrap(),
                    event_id: Uuid::from_u128(*eid as u128).into_bytes(), partition_key: [7; 16], partition_id: 3,
                    partition_sequence: *eid, stream_version: *eid, stream_id: StreamId::new("s").unwrap(),
                    event_name: ShortString("n".into()), metadata: LongBytes(vec![]), payload: LongBytes(vec![0xAB; *pay]),
                };
                let (off, len) = w.append_event(0, &ev).unwrap();
                let l = format!("rd e {off} {len} {} {} {eid}", model_tx(*tx, *single), *single as u8);
                ctx.emit(&l, "ok"); lines.push(l);
                placed.push((off, len as u64, r.clone()));
            }
            R::Commit { tx, flag, count } => {
                let c = RawCommit { header: RecordHeader::new_commit(1_000, txid(*tx, *flag)).unwrap(), event_count: *count };
                let (off, len) = w.append_commit(0, &c).unwrap();
                debug_assert_eq!(len, COMMIT_SIZE);
                let l = format!("rd c {off} {len} {} {count}", model_tx(*tx, *flag));
                ctx.emit(&l, "ok"); lines.push(l);
                placed.push((off, len as u64, r.clone()));
            }
        }
    }
    w.sync().unwrap();
    let mut rd = BucketSegmentReader::open(&path, Some(w.flushed_offset())).unwrap();
    // ---- point reads at every record offset: pool path, block path
    for i in 0..placed.len() {
        let off = placed[i].0;
        let pool = rd.read_committed_events(off, ReadHint::Random);
        let l = format!("rd rc {off}");
        let mut rp = lines.clone(); rp.push(l.clone());
        let shown = match &pool {
            Ok((Some(g), _)) => { ctx.stat(if matches!(g, CommittedEvents::Single(_)) { "rdr.read.single" } else { "rdr.read.tx" }); check_group(ctx, &placed, g, off, &rp, case); show_group(g) }
            Ok((None, _)) => { ctx.stat("rdr.read.none"); "none".to_string() }
            Err(e) => { ctx.stat("rdr.read.err"); format!("err {e}") }
        };
        ctx.emit(&l, &shown);
        // block path: a block starting at this record, and one starting at an earlier record
        let mut starts = vec![off];
        if i > 0 { let j = ctx.rng.below(i as u64) as usize; if off - placed[j].0 < 65_536 { starts.push(placed[j].0); } }
        for s in starts {
            if let Ok(Some(block)) = rd.read_block(s) {
                match block.read_committed_events(off) {
                    Ok((Some(g), _)) => {
                        ctx.stat("rdr.block.some");
                        let b = show_group(&g);
                        if b != shown { ctx.oracle_fail(&format!("C04:rdr block-vs-pool {case}"), &format!("read at {off} through a cache block starting at {s} returned {b}, the reader-pool path {shown}"), &rp); }
                    }
                    Ok((None, Some(_))) => { ctx.stat("rdr.block.none"); if shown != "none" { ctx.oracle_fail(&format!("C04:rdr block-vs-pool {case}"), &format!("read at {off} through a cache block starting at {s} found no committed event, the reader-pool path {shown}"), &rp); } }
                    Ok((None, None)) => ctx.stat("rdr.block.end"),
                    Err(_) => ctx.stat("rdr.block.fallback"),
                }
            } else { ctx.stat("rdr.block.unavailable"); }
        }
    }
    // ---- sequential scan (recovery / hydration)
    let mut groups = vec![]; let mut end = SEGMENT_HEADER_SIZE as u64;
    {
        let mut it = rd.iter();
        loop {
            match it.next_committed_events() {
                Ok(Some(g)) => {
                    end = match &g { CommittedEvents::Single(e) => e.offset + e.size, CommittedEvents::Transaction { commit, .. } => commit.offset + COMMIT_SIZE as u64 };
                    let mut rp = lines.clone(); rp.push("rd all".into());
                    check_group(ctx, &placed, &g, 0, &rp, case);
                    groups.push(group_ids(&g));
                }
                Ok(None) => break,
                Err(e) => { groups.push(format!("err {e}")); break; }
            }
        }
    }
    ctx.stat_add("rdr.scan.groups", groups.len() as u64);
    ctx.emit("rd all", &format!("[{}]", groups.join(",")));
    ctx.emit("rd end", &end.to_string());
    ctx.nontrivial(&format!("{recs:?}"));
    ctx.stat("rdr.cases");
}

pub fn run(ctx: &mut Ctx) {
    // hand-written shapes first (the corpus of rules that were wrong once)
    let e = |tx, single, eid| R::Ev { tx, single, eid, pay: 10 };
    let c = |tx| R::Commit { tx, flag: false, count: 2 };
    let fixed: Vec<Vec<R>> = vec![
        vec![e(1, false, 1), e(1, false, 2), c(1)],
        vec![e(1, false, 1), e(1, false, 2)],                                  // orphan tail
        vec![e(1, false, 1), e(1, false, 2), e(2, true, 3)],                    // orphan tail then a single (95c7bc0)
        vec![e(1, false, 1), e(1, false, 2), e(2, true, 3), c(1)],              // ... then the stale commit
        vec![e(1, false, 1), e(2, false, 2), c(1)],                             // commit of the outer tx
        vec![e(1, false, 1), e(2, false, 2), c(2)],
        vec![c(1), e(1, false, 1), c(1)],
        vec![e(0, false, 1), c(0)],                                             // nil transaction id
        vec![c(0)],
        vec![e(1, false, 1), R::Commit { tx: 1, flag: true, count: 1 }],        // flagged commit id
        vec![e(1, true, 1), c(1)],
        vec![e(1, false, 1), c(1), c(1)],
        vec![e(1, false, 1), e(1, false, 2), c(1), e(1, false, 3), c(1)],       // id reuse
    ];
    for (i, r) in fixed.iter().enumerate() { one_case(ctx, r, &format!("fixed#{i}")); }
    let cases = if ctx.thorough() { 3000 } else { 300 };
    for i in 0..cases {
        let big = i % 5 == 0;
        let n = if big { ctx.rng.range(8, 30) } else { ctx.rng.range(1, 40) } as usize;
        let mut recs = gen_recs(&mut ctx.rng, n, big);
        if i % 2 == 1 {
            // a tail of > 64 KiB so that whole cache blocks exist for the records before it
            for k in 0..3u64 { recs.push(R::Ev { tx: 9, single: k != 1, eid: 10_000 + k, pay: 25_000 }); }
        }
        one_case(ctx, &recs, &format!("gen#{i}"));
    }
}
