//! C17 (round-trip + corruption detection) and C18 (no stale/unflushed reads): the real
//! seglog Writer/Reader/parse_record against Seglog/{Record,Log}.lean.
use crate::util::*;
use seglog::parse::parse_record;
use seglog::read::{ReadError, ReadHint, Reader};
use seglog::write::{WriteError, Writer};
use std::os::unix::fs::FileExt;
use std::path::Path;

pub fn fnv(b: &[u8]) -> u64 {
    let mut h: u64 = 14695981039346656037;
    for x in b { h = (h ^ *x as u64).wrapping_mul(1099511628211); }
    h
}

fn err_class(e: &ReadError) -> &'static str {
    match e {
        ReadError::Crc32cMismatch { .. } => "crc",
        ReadError::OutOfBounds { .. } => "oob",
        ReadError::TruncationMarker { .. } => "trunc",
        ReadError::ReplaceLengthMismatch { .. } => "replace-len",
        ReadError::Io(_) => "io",
    }
}

/// stored bytes of a record as the writer would produce them when compressing
pub fn zbytes(data: &[u8]) -> Vec<u8> {
    let mut v = (data.len() as u32).to_le_bytes().to_vec();
    v.extend_from_slice(&zstd::bulk::compress(data, 3).unwrap());
    v
}

fn show_rec<const H: usize>(r: &seglog::read::Record<'_, H>) -> String {
    let stored: &[u8] = r.compressed_data.as_deref().unwrap_or(&r.data);
    format!("ok len={} c={} hdr={} stored={}:{}", r.len, r.compressed_data.is_some() as u8, hex(&r.header), fnv(stored), stored.len())
}

fn payload(ctx: &mut Ctx, len: usize) -> Vec<u8> {
    match ctx.rng.below(4) {
        0 => ctx.rng.bytes(len),                                   // incompressible
        1 => vec![ctx.rng.next() as u8; len],                      // constant
        2 => (0..len).map(|i| (i % 7) as u8).collect(),            // periodic
        _ => { let w = ctx.rng.bytes(16); (0..len).map(|i| w[i % 16] ^ ((i / 64) as u8)).collect() }
    }
}

// ------------------------------------------------------------------------------------ C17
/// all read paths of the real code on a file image; returns the canonical outcome line and
/// whether any path returned Ok with (hdr, stored) different from `orig` (if given)
thread_local! {
    /// segment size DECLARED to `Writer::open` by the next `outcomes` call (0 = the image length).
    /// Real callers pass the configured segment size, which exceeds the length of a file cut short.
    static DECLARED_SIZE: std::cell::Cell<usize> = const { std::cell::Cell::new(0) };
}

fn outcomes<const H: usize>(dir: &Path, bytes: &[u8], start: usize, orig: Option<(&[u8], &[u8], bool)>) -> (String, Option<String>) {
    let path = dir.join("img.seg");
    std::fs::write(&path, bytes).unwrap();
    let mut bad: Option<String> = None;
    let mut check = |what: &str, hdr: &[u8], stored: &[u8], comp: bool| {
        if let Some((oh, os, oc)) = orig { if hdr != oh || stored != os || comp != oc { bad = Some(format!("{what} returned Ok with altered content")); } }
    };
    // random
    let mut rd = Reader::<H>::open(&path, None).unwrap();
    let r = match catch(std::panic::AssertUnwindSafe(|| rd.read_record(start as u64, ReadHint::Random).map(|r| (show_rec(&r), r.header.to_vec(), r.compressed_data.as_deref().unwrap_or(&r.data).to_vec(), r.compressed_data.is_some())))) {
        None => "panic".to_string(),
        Some(Ok((s, h, d, c))) => { check("random read", &h, &d, c); s }
        Some(Err(e)) => format!("err {}", err_class(&e)),
    };
    // sequential (fresh reader) must agree with random
    let mut rd2 = Reader::<H>::open(&path, None).unwrap();
    let s = match catch(std::panic::AssertUnwindSafe(|| rd2.read_record(start as u64, ReadHint::Sequential).map(|r| show_rec(&r)))) {
        None => "panic".to_string(), Some(Ok(s)) => s, Some(Err(e)) => format!("err {}", err_class(&e)) };
    // parse_record on the raw bytes
    let p = match catch(|| parse_record::<H>(bytes, start)) {
        None => "panic".to_string(),
        Some(Ok((h, d, n))) => { let _ = (h, d); format!("ok len={n}") }
        Some(Err(e)) => format!("err {}", err_class(&e)),
    };
    // iteration
    let mut rd3 = Reader::<H>::open(&path, None).unwrap();
    let mut items = vec![]; let mut fin = String::new();
    let it = catch(std::panic::AssertUnwindSafe(|| {
        let mut it = rd3.iter(start as u64);
        let mut off = start;
        loop {
            match it.next_record() {
                Ok(Some(r)) => { items.push(format!("{}:{}", off, r.len)); off += r.len; }
                Ok(None) => break,
                Err(e) => { fin = format!("!{}", err_class(&e)); break; }
            }
        }
    }));
    if it.is_none() { fin = "!panic".into(); }
    // recovery scan
    let declared = DECLARED_SIZE.with(|d| d.replace(0)).max(bytes.len()).max(start + 1);
    let o = match catch(|| Writer::<H>::open(&path, declared, start as u64).map(|w| w.write_offset())) {
        None => "panic".to_string(), Some(Ok(o)) => o.to_string(), Some(Err(_)) => "err".into() };
    let mut line = format!("R={r} I=[{}]{} O={o}", items.join(","), fin);
    // the sequential and parse_record paths are reported only when they deviate from the random path
    let r_class = if r.starts_with("ok") { format!("ok len={}", r.split(' ').nth(1).unwrap_or("").trim_start_matches("len=")) } else { r.clone() };
    if s != r { line.push_str(&format!(" S-DIFFERS={s}")); }
    if p != r_class { line.push_str(&format!(" P-DIFFERS={p}")); }
    (line, bad)
}

fn build_image<const H: usize>(dir: &Path, ctx: &mut Ctx, start: usize, dlen: usize, compress: bool) -> (Vec<u8>, Vec<u8>, Vec<u8>, bool, usize) {
    // the REAL writer produces the record; a second record follows so iteration can continue
    let path = dir.join("w.seg");
    let _ = std::fs::remove_file(&path);
    let size = start + 2 * (8 + H + dlen + 64) + 64;
    let mut w = Writer::<H>::create(&path, size, start as u64).unwrap();
    if compress { w.enable_compression(); }
    let hdr: [u8; H] = { let mut h = [0u8; H]; for x in h.iter_mut() { *x = ctx.rng.next() as u8; } h };
    let data = payload(ctx, dlen);
    let (off, len) = w.append(&hdr, &data).unwrap();
    assert_eq!(off as usize, start);
    let hdr2 = [7u8; H];
    w.append(&hdr2, b"tail-record").unwrap();
    w.sync().unwrap();
    let end = w.write_offset() as usize;
    drop(w);
    let mut bytes = std::fs::read(&path).unwrap();
    bytes.truncate(end + 16); // keep a few preallocated zeros (truncation marker) after the tail record
    let compressed = compress && dlen >= 128;
    let stored = if compressed { zbytes(&data) } else { data.clone() };
    (bytes, hdr.to_vec(), stored, compressed, len)
}

fn c17_record<const H: usize>(ctx: &mut Ctx, dir: &Path, dlen: usize, compress: bool, exhaustive_bits: bool) {
    let start = *ctx.rng.pick(&[0usize, 0, 64]);
    let (bytes, hdr, stored, comp, rlen) = build_image::<H>(dir, ctx, start, dlen, compress);
    let op = format!("sl rec {H} {start} {}", hex(&bytes));
    let (line, bad) = outcomes::<H>(dir, &bytes, start, Some((&hdr, &stored, comp)));
    let key0 = format!("C17:rec H={H} dlen={dlen} c={}", comp as u8);
    if bad.is_some() || !line.starts_with("R=ok") || line.contains("DIFFERS") { ctx.oracle_fail(&key0, &format!("intact record not returned identically: {line}"), &[op.clone()]); }
    ctx.emit(&op, &line);
    ctx.stat(if comp { "records_compressed" } else { "records_plain" });
    ctx.stat(match 8 + H + stored.len() { 0..=2056 => "path_optimistic", 2057..=4104 => "path_fallback", _ => "path_large" });
    ctx.nontrivial(&op);
    // --- single-bit flips
    let nbits = rlen * 8;
    let bits: Vec<usize> = if exhaustive_bits { (0..nbits).collect() } else {
        let mut v: Vec<usize> = (0..64.min(nbits)).collect(); // all of len + crc
        for _ in 0..40 { v.push(64 + ctx.rng.below((nbits - 64).max(1) as u64) as usize); }
        v.retain(|b| *b < nbits); v
    };
    for b in bits {
        let mut img = bytes.clone(); img[start + b / 8] ^= 1 << (b % 8);
        let (line, bad) = outcomes::<H>(dir, &img, start, Some((&hdr, &stored, comp)));
        let fop = format!("sl flip {}", start * 8 + b);
        if let Some(w) = bad { ctx.oracle_fail(&format!("C17:flip H={H} bit={b} rlen={rlen}"), &w, &[op.clone(), fop.clone()]); }
        if line.contains("panic") { ctx.oracle_fail(&format!("C17:flip-panic H={H} bit={b} rlen={rlen}"), &format!("a read path panicked: {line}"), &[op.clone(), fop.clone()]); }
        if line.contains("DIFFERS") { ctx.oracle_fail(&format!("C17:paths H={H} bit={b} rlen={rlen}"), &format!("read paths disagree: {line}"), &[op.clone(), fop.clone()]); }
        ctx.stat(if b < 31 { "flip_len_bits" } else if b == 31 { "flip_flag_bit" } else if b < 64 { "flip_crc_bits" } else { "flip_payload_bits" });
        ctx.emit(&fop, &line);
    }
    // --- bursts up to 32 bits (xor patterns of 1..5 bytes, first and last bit set within 32 bits)
    for _ in 0..12 {
        let nb = ctx.rng.range(1, 4) as usize;
        let mut pat = ctx.rng.bytes(nb); if pat.iter().all(|x| *x == 0) { pat[0] = 1; }
        let off = ctx.rng.below((rlen - nb + 1) as u64) as usize;
        let mut img = bytes.clone(); for (i, p) in pat.iter().enumerate() { img[start + off + i] ^= p; }
        let (line, bad) = outcomes::<H>(dir, &img, start, Some((&hdr, &stored, comp)));
        let bop = format!("sl burst {} {}", start + off, hex(&pat));
        if let Some(w) = bad { ctx.oracle_fail(&format!("C17:burst H={H} off={off} pat={} rlen={rlen}", hex(&pat)), &w, &[op.clone(), bop.clone()]); }
        if line.contains("panic") { ctx.oracle_fail(&format!("C17:burst-panic H={H} off={off} rlen={rlen}"), &format!("a read path panicked: {line}"), &[op.clone(), bop.clone()]); }
        ctx.stat("bursts");
        ctx.emit(&bop, &line);
    }
    // --- truncations of the file (every length class around the record)
    let mut ks: Vec<usize> = vec![start, start + 1, start + 4, start + 7, start + 8, start + 8 + H.min(rlen - 8), start + rlen - 1, start + rlen, start + rlen + 1];
    for _ in 0..6 { ks.push(start + ctx.rng.below(rlen as u64 + 1) as usize); }
    for k in ks {
        if k > bytes.len() { continue; }
        let img = &bytes[..k];
        // the file is physically cut short; the writer is reopened with the configured size
        DECLARED_SIZE.with(|d| d.set(bytes.len() + 64));
        let (line, bad) = outcomes::<H>(dir, img, start, Some((&hdr, &stored, comp)));
        let top = format!("sl trunc {k}");
        if line.contains("O=err") || line.contains("O=panic") { ctx.oracle_fail(&format!("C17:trunc-reopen H={H} k={} rlen={rlen}", k - start), &format!("a writer reopened on the segment cut to {k} bytes (configured size {}) does not resume after the last intact record: {line}", bytes.len() + 64), &[op.clone(), top.clone()]); }
        if let Some(w) = bad { ctx.oracle_fail(&format!("C17:trunc H={H} k={} rlen={rlen}", k - start), &w, &[op.clone(), top.clone()]); }
        if k < start + rlen && line.starts_with("R=ok") { ctx.oracle_fail(&format!("C17:trunc H={H} k={} rlen={rlen}", k - start), "truncated record returned as valid", &[op.clone(), top.clone()]); }
        if line.contains("panic") { ctx.oracle_fail(&format!("C17:trunc-panic H={H} k={}", k - start), &format!("a read path panicked: {line}"), &[op.clone(), top.clone()]); }
        ctx.stat("truncations");
        ctx.emit(&top, &line);
    }
}

fn crc_table() -> [u32; 256] {
    let mut t = [0u32; 256];
    for i in 0..256u32 { let mut c = i; for _ in 0..8 { c = if c & 1 != 0 { (c >> 1) ^ 0xEDB88320 } else { c >> 1 }; } t[i as usize] = c; }
    t
}

/// F10 witness: a record (H = 0, 12 data bytes) whose last 4 bytes are chosen so that the CRC of
/// `len=12 ‖ data[0..12]` equals the CRC of `len=8 ‖ data[0..8]`: flipping bit 2 of the length
/// field (12 -> 8) yields a record that validates with altered (shorter) content. The checksum is
/// stored between the length and the payload and covers the length, so a length change moves the
/// message boundary; no repair without a format change => open known finding.
fn crafted_length_flip(ctx: &mut Ctx, dir: &Path) {
    let t = crc_table();
    let mut rev = [0usize; 256];
    for (j, v) in t.iter().enumerate() { rev[(v >> 24) as usize] = j; }
    let d8: [u8; 8] = *b"sierradb";
    let crc_of = |bytes: &[u8]| { let mut h = crc32fast::Hasher::new(); h.update(bytes); h.finalize() };
    let mut short = 8u32.to_le_bytes().to_vec(); short.extend_from_slice(&d8);
    let target = crc_of(&short) ^ 0xFFFF_FFFF;                 // register value to reach
    let mut pre = 12u32.to_le_bytes().to_vec(); pre.extend_from_slice(&d8);
    let state = crc_of(&pre) ^ 0xFFFF_FFFF;                    // register after len=12 ‖ d8
    let mut v = target;
    for _ in 0..4 { let idx = rev[(v >> 24) as usize]; v = ((v ^ t[idx]) << 8) | idx as u32; }
    let x = (v ^ state).to_le_bytes();
    let mut data = d8.to_vec(); data.extend_from_slice(&x);
    let mut full = pre.clone(); full.extend_from_slice(&x);
    if crc_of(&full) != crc_of(&short) { ctx.stat("crafted_witness_construction_failed"); return; }
    // write it with the REAL writer, flip bit 2 of the length field, read with the real readers
    let path = dir.join("craft.seg"); let _ = std::fs::remove_file(&path);
    let mut w = Writer::<0>::create(&path, 64, 0).unwrap();
    w.append(&[], &data).unwrap(); w.sync().unwrap(); drop(w);
    let bytes = std::fs::read(&path).unwrap()[..40].to_vec();
    let op = format!("sl rec 0 0 {}", hex(&bytes));
    let (line, _) = outcomes::<0>(dir, &bytes, 0, None);
    ctx.emit(&op, &line);
    let mut img = bytes.clone(); img[0] ^= 1 << 2;
    let (line, bad) = outcomes::<0>(dir, &img, 0, Some((&[], &data, false)));
    if let Some(wh) = bad { ctx.oracle_fail("C17:crafted-length-flip H=0 len=12 bit=2", &format!("{wh}: a single bit flip in the length field of a crafted record validates ({line})"), &[op.clone(), "sl flip 2".into()]); }
    ctx.stat("crafted_length_flip_witness");
    ctx.emit("sl flip 2", &line);
}

pub fn run_c17(ctx: &mut Ctx) {
    let dir = tempfile::tempdir().unwrap();
    crafted_length_flip(ctx, dir.path());
    // CRC function itself
    for n in [0usize, 1, 2, 3, 4, 7, 8, 9, 63, 64, 65, 255, 1000] {
        let b = ctx.rng.bytes(n);
        let mut h = crc32fast::Hasher::new(); h.update(&b);
        ctx.emit(&format!("sl crc {}", hex(&b)), &h.finalize().to_string());
    }
    let sizes_quick = [0usize, 1, 5, 43, 127, 128, 129, 300, 2040, 2048, 2049, 4088, 4096, 4097, 9000];
    let sizes_thorough = [0usize, 1, 2, 3, 5, 8, 43, 44, 100, 127, 128, 129, 130, 300, 1000, 2039, 2040, 2041, 2047, 2048, 2049, 4087, 4088, 4089, 4095, 4096, 4097, 9000, 20000, 70000];
    let sizes: &[usize] = if ctx.thorough() { &sizes_thorough } else { &sizes_quick };
    let reps = if ctx.thorough() { 3 } else { 1 };
    for _ in 0..reps { for &dlen in sizes { for compress in [false, true] {
        let ex = dlen <= (if ctx.thorough() { 300 } else { 44 });
        match ctx.rng.below(4) {
            0 => c17_record::<0>(ctx, dir.path(), dlen, compress, ex),
            1 => c17_record::<1>(ctx, dir.path(), dlen, compress, ex),
            2 => c17_record::<8>(ctx, dir.path(), dlen, compress, ex),
            _ => c17_record::<16>(ctx, dir.path(), dlen, compress, ex),
        }
    } } }
    // every header size on the small exhaustive ones
    for dlen in [0usize, 3, 20] { c17_record::<0>(ctx, dir.path(), dlen, false, true); c17_record::<1>(ctx, dir.path(), dlen, false, true);
        c17_record::<8>(ctx, dir.path(), dlen, false, true); c17_record::<16>(ctx, dir.path(), dlen, false, true); }
}

// ------------------------------------------------------------------------------------ C18
struct Shadow { off: u64, len: usize, hdr: Vec<u8>, stored: Vec<u8>, comp: bool }

fn c18_history<const H: usize>(ctx: &mut Ctx, dir: &Path, nops: usize) {
    let path = dir.join("h.seg");
    let _ = std::fs::remove_file(&path);
    let size = *ctx.rng.pick(&[4096usize, 20_000, 70_000, 140_000, 300_000]);
    let start = *ctx.rng.pick(&[0u64, 0, 16, 64]);
    let mut hist: Vec<String> = vec![];
    let mut w = Writer::<H>::create(&path, size, start).unwrap();
    let mut readers: Vec<Reader<H>> = (0..3).map(|_| Reader::<H>::open(&path, Some(w.flushed_offset())).unwrap()).collect();
    let op = format!("sl create {H} {size} {start}"); hist.push(op.clone()); ctx.emit(&op, "ok");
    // shadow of what a correct segment must contain (the property oracle): records in append order
    let mut recs: Vec<Shadow> = vec![];
    let mut compress = false;
    let key = format!("C18:hist H={H} size={size} seed-op#{}", ctx.n_ops);
    for _ in 0..nops {
        let k = ctx.rng.below(100);
        if k < 34 {
            let dlen = *ctx.rng.pick(&[0usize, 1, 10, 44, 127, 128, 200, 1000, 2048, 3000, 5000, 16_000, 17_000, 40_000]);
            let dlen = if size < 10_000 { dlen % 700 } else { dlen };
            let data = payload(ctx, dlen);
            let hdr: [u8; H] = { let mut h = [0u8; H]; for x in h.iter_mut() { *x = ctx.rng.next() as u8; } h };
            let z = if dlen >= 100 { zbytes(&data) } else { vec![] };
            let op = format!("sl append {} {} {}", hex(&hdr), hex(&data), hex(&z));
            hist.push(op.clone());
            match w.append(&hdr, &data) {
                Ok((off, len)) => {
                    let comp = compress && dlen >= 128;
                    recs.retain(|r| r.off < off);
                    recs.push(Shadow { off, len, hdr: hdr.to_vec(), stored: if comp { z.clone() } else { data.clone() }, comp });
                    ctx.stat("append_ok"); ctx.emit(&op, &format!("ok {off} {len}"));
                }
                Err(WriteError::SegmentFull { .. }) => { ctx.stat("append_full"); ctx.emit(&op, "full"); }
                Err(e) => { ctx.emit(&op, &format!("err {e}")); }
            }
        } else if k < 40 { w.flush_writer().unwrap(); hist.push("sl flush".into()); ctx.stat("flush"); ctx.emit("sl flush", "ok"); }
        else if k < 55 {
            let wo = w.sync().unwrap(); hist.push("sl sync".into()); ctx.stat("sync");
            ctx.emit("sl sync", &format!("wo={wo} flushed={}", w.flushed_offset().load()));
        } else if k < 62 {
            // truncate at a record boundary (usually), sometimes mid-record / beyond
            // (truncating inside a record is API misuse: only boundaries, or no-op offsets beyond the end)
            let off = if !recs.is_empty() && ctx.rng.chance(4, 5) { recs[ctx.rng.below(recs.len() as u64) as usize].off } else { w.write_offset() + ctx.rng.below(10) };
            if off < start { continue; }
            w.set_len(off).unwrap();
            recs.retain(|r| r.off + r.len as u64 <= off);
            let op = format!("sl setlen {off}"); hist.push(op.clone()); ctx.stat("set_len");
            ctx.emit(&op, &format!("wo={} flushed={}", w.write_offset(), w.flushed_offset().load()));
        } else if k < 66 {
            compress = !compress; if compress { w.enable_compression() } else { w.disable_compression() }
            let op = format!("sl compress {}", compress as u8); hist.push(op.clone()); ctx.emit(&op, "ok");
        } else if k < 90 {
            // read through a long-lived reader, at a record boundary (usually) or anywhere
            let ri = ctx.rng.below(3) as usize;
            let off = if !recs.is_empty() && ctx.rng.chance(5, 6) { recs[ctx.rng.below(recs.len() as u64) as usize].off } else { ctx.rng.below(w.write_offset() + 20) };
            let seq = ctx.rng.chance(2, 3);
            let op = format!("sl read {ri} {off} {}", if seq { "S" } else { "R" }); hist.push(op.clone());
            let flushed = w.flushed_offset().load();
            let res = catch(std::panic::AssertUnwindSafe(|| readers[ri].read_record(off, if seq { ReadHint::Sequential } else { ReadHint::Random }).map(|r| (show_rec(&r), r.header.to_vec(), r.compressed_data.as_deref().unwrap_or(&r.data).to_vec(), r.compressed_data.is_some(), r.len))));
            let line = match &res { None => "panic".to_string(), Some(Ok(x)) => x.0.clone(), Some(Err(e)) => format!("err {}", err_class(e)) };
            // ORACLE: below the flushed offset a read returns exactly the record written there
            if let Some(sh) = recs.iter().find(|r| r.off == off) {
                if sh.off + sh.len as u64 <= flushed {
                    match &res { Some(Ok((_, h, d, c, l))) if *h == sh.hdr && *d == sh.stored && *c == sh.comp && *l == sh.len => {}
                        _ => ctx.oracle_fail(&key, &format!("read at {off} ({}) below flushed {flushed} did not return the record written there: {line}", if seq { "sequential" } else { "random" }), &hist) }
                    ctx.stat("reads_of_flushed_records");
                } else if let Some(Ok(_)) = &res { ctx.oracle_fail(&key, &format!("read at {off} returned a record that ends beyond the flushed offset {flushed}"), &hist); }
            }
            if let Some(Ok((_, _, _, _, l))) = &res { if off + *l as u64 > flushed { ctx.oracle_fail(&key, "read returned bytes beyond the flushed offset", &hist); } }
            if res.is_none() { ctx.oracle_fail(&key, "read panicked", &hist); }
            ctx.stat(if seq { "read_seq" } else { "read_random" });
            ctx.emit(&op, &line);
        } else if k < 95 {
            // iteration through a long-lived reader from a record boundary
            let ri = ctx.rng.below(3) as usize;
            let off = if !recs.is_empty() { recs[ctx.rng.below(recs.len() as u64) as usize].off } else { start };
            let op = format!("sl iter {ri} {off}"); hist.push(op.clone());
            let flushed = w.flushed_offset().load();
            let mut items = vec![]; let mut fin = "end".to_string(); let mut got: Vec<(u64, usize)> = vec![];
            {
                let mut it = readers[ri].iter(off); let mut o = off;
                loop { match it.next_record() {
                    Ok(Some(r)) => { let st: &[u8] = r.compressed_data.as_deref().unwrap_or(&r.data); items.push(format!("{}:{}:{}", o, r.len, fnv(st))); got.push((o, r.len)); o += r.len as u64; }
                    Ok(None) => break, Err(e) => { fin = format!("!{}", err_class(&e)); break; } } }
            }
            // ORACLE: exactly the flushed records from that boundary
            let want: Vec<(u64, usize)> = recs.iter().filter(|r| r.off >= off && r.off + r.len as u64 <= flushed).map(|r| (r.off, r.len)).collect();
            if got != want { ctx.oracle_fail(&key, &format!("iteration from {off} yielded {got:?}, flushed records are {want:?}"), &hist); }
            ctx.stat("iterations");
            ctx.emit(&op, &format!("[{}] {fin}", items.join(",")));
        } else if k < 98 && H > 0 {
            // header replacement through one reader; the others must see it
            if recs.is_empty() { continue; }
            let i = ctx.rng.below(recs.len() as u64) as usize;
            let ri = ctx.rng.below(3) as usize;
            let nh: [u8; H] = { let mut h = [0u8; H]; for x in h.iter_mut() { *x = ctx.rng.next() as u8; } h };
            let op = format!("sl replace {ri} {} {}", recs[i].off, hex(&nh)); hist.push(op.clone());
            match readers[ri].replace_header(recs[i].off, nh) {
                Ok(()) => { recs[i].hdr = nh.to_vec(); ctx.stat("replace_ok"); ctx.emit(&op, "ok"); }
                Err(e) => { ctx.stat("replace_err"); ctx.emit(&op, &format!("err {}", err_class(&e))); }
            }
        } else {
            // fingerprint of the published bytes
            let flushed = w.flushed_offset().load() as usize;
            let mut buf = vec![0u8; flushed];
            w.file().read_exact_at(&mut buf, 0).unwrap();
            hist.push("sl fp".into());
            ctx.emit("sl fp", &format!("wo={} flushed={} fp={}", w.write_offset(), flushed, fnv(&buf)));
        }
    }
    // reopen: a dropped writer (BufWriter flushes) or a crashed process (buffer lost)
    let crash = ctx.rng.chance(1, 2);
    let synced_end: u64 = w.flushed_offset().load();
    if crash { std::mem::forget(w); } else { drop(w); }
    let op = format!("sl reopen {}", if crash { "crash" } else { "drop" }); hist.push(op.clone());
    match catch(|| Writer::<H>::open(&path, size, start)) {
        Some(Ok(w2)) => {
            // ORACLE (C17): resumes right after the last intact record; never before the synced end
            if w2.write_offset() < synced_end { ctx.oracle_fail(&key, &format!("reopened writer resumes at {} before the synced offset {synced_end}", w2.write_offset()), &hist); }
            ctx.stat(if crash { "reopen_crash" } else { "reopen_drop" });
            ctx.emit(&op, &w2.write_offset().to_string());
        }
        _ => { ctx.oracle_fail(&key, "Writer::open failed or panicked", &hist); ctx.emit(&op, "err"); }
    }
    ctx.nontrivial(&hist.join(";"));
}

pub fn run_c18(ctx: &mut Ctx) {
    let dir = tempfile::tempdir().unwrap();
    let n = if ctx.thorough() { 1500 } else { 150 };
    for i in 0..n {
        let nops = ctx.rng.range(20, if ctx.thorough() { 120 } else { 60 }) as usize;
        match i % 3 { 0 => c18_history::<0>(ctx, dir.path(), nops), 1 => c18_history::<8>(ctx, dir.path(), nops), _ => c18_history::<16>(ctx, dir.path(), nops) }
    }
}
