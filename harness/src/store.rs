//! Store family (C01 C02 C03 C04 C05 C06 C19): the real `sierradb::Database` driven with
//! operation histories; a reference event-log spec (written here, independent of the Lean
//! model) is the property oracle; every operation is also emitted for the Lean store model.
use crate::util::*;
use sierradb::bucket::segment::{CommittedEvents, EventRecord};
use sierradb::database::{Database, DatabaseBuilder, NewEvent, Transaction};
use sierradb::error::{EventValidationError, WriteError};
use sierradb::id::{uuid_to_partition_hash, uuid_v7_with_partition_hash};
use sierradb::StreamId;
use sierradb_protocol::ExpectedVersion;
use smallvec::SmallVec;
use std::collections::{BTreeMap, HashMap};
use std::path::{Path, PathBuf};
use std::time::Duration;
use uuid::Uuid;

pub const SEGMENT_HEADER_SIZE: usize = 48;
pub const EVENT_HEADER_SIZE: usize = 8 + 1 + 8 + 16 + 16 + 16 + 2 + 8 + 8 + 1 + 1 + 4 + 4;
pub const COMMIT_SIZE: usize = 8 + 1 + 8 + 16 + 4;
pub const NPART: u16 = 8;

#[derive(Clone, Debug)]
pub struct SpecEvent {
    pub id: Uuid, pub idx: usize, pub pkey: Uuid, pub pid: u16, pub seq: u64, pub stream: String,
    pub version: u64, pub tx: usize, pub name: String, pub meta: Vec<u8>, pub payload: Vec<u8>, pub ts: u64,
}

#[derive(Clone, Default)]
pub struct Spec {
    pub parts: BTreeMap<u16, Vec<SpecEvent>>,
    /// streams are namespaced per bucket (the store checks the partition key per bucket)
    pub streams: BTreeMap<(u16, String), (Uuid, Vec<SpecEvent>)>,
    pub by_id: HashMap<Uuid, SpecEvent>,
    pub txs: Vec<Vec<Uuid>>,
}

#[derive(Clone, Debug)]
pub struct GenEvent { pub id: Uuid, pub idx: usize, pub stream: String, pub exp: ExpectedVersion, pub ts: u64, pub name: String, pub meta: Vec<u8>, pub payload: Vec<u8> }
#[derive(Clone, Debug)]
pub struct GenTx { pub pkey: Uuid, pub pk_idx: usize, pub pid: u16, pub exp_seq: ExpectedVersion, pub events: Vec<GenEvent> }

fn accepts(e: ExpectedVersion, cur: Option<u64>) -> bool {
    match (e, cur) { (ExpectedVersion::Any, _) => true, (ExpectedVersion::Exists, c) => c.is_some(), (ExpectedVersion::Empty, c) => c.is_none(),
        (ExpectedVersion::Exact(v), Some(c)) => v == c, (ExpectedVersion::Exact(_), None) => false }
}

pub fn estimate(tx: &GenTx) -> usize {
    tx.events.iter().map(|e| EVENT_HEADER_SIZE + e.stream.len() + e.name.len() + e.meta.len() + e.payload.len()).sum::<usize>()
        + if tx.events.len() == 1 { 0 } else { COMMIT_SIZE }
}

impl Spec {
    /// reference semantics of an append: Ok((first, last, versions)) or the rejection class
    pub fn append(&mut self, tx: &GenTx, nb: u16, segsize: usize) -> Result<(u64, u64, BTreeMap<String, u64>), &'static str> {
        let bucket = tx.pid % nb;
        // 1. stream versions, in order, earlier events of the transaction included
        let mut cur: HashMap<String, Option<u64>> = HashMap::new();
        for e in &tx.events {
            let c = match cur.get(&e.stream) {
                Some(c) => *c,
                None => match self.streams.get(&(bucket, e.stream.clone())) {
                    Some((pk, evs)) => { if *pk != tx.pkey { return Err("KeyMismatch"); } evs.last().map(|x| x.version) }
                    None => None,
                },
            };
            if !accepts(e.exp, c) { return Err("WrongVersion"); }
            cur.insert(e.stream.clone(), Some(c.map(|v| v + 1).unwrap_or(0)));
        }
        // 2. must fit an empty segment (by the uncompressed estimate)
        if estimate(tx) + SEGMENT_HEADER_SIZE > segsize { return Err("TooLarge"); }
        // 3. expected partition sequence
        let next = self.parts.get(&tx.pid).map(|v| v.len() as u64).unwrap_or(0);
        if !accepts(tx.exp_seq, if next == 0 { None } else { Some(next - 1) }) { return Err("WrongSeq"); }
        // 4. timestamps must be < 2^63
        if tx.events.iter().any(|e| e.ts >> 63 == 1) { return Err("BadTimestamp"); }
        // accepted
        let txi = self.txs.len();
        let mut versions = BTreeMap::new();
        let mut ids = vec![];
        let mut seq = next;
        for e in &tx.events {
            let entry = self.streams.entry((bucket, e.stream.clone())).or_insert((tx.pkey, vec![]));
            let version = entry.1.last().map(|x| x.version + 1).unwrap_or(0);
            let se = SpecEvent { id: e.id, idx: e.idx, pkey: tx.pkey, pid: tx.pid, seq, stream: e.stream.clone(), version, tx: txi,
                name: e.name.clone(), meta: e.meta.clone(), payload: e.payload.clone(), ts: e.ts };
            entry.1.push(se.clone());
            self.parts.entry(tx.pid).or_default().push(se.clone());
            self.by_id.insert(e.id, se);
            versions.insert(e.stream.clone(), version);
            ids.push(e.id);
            seq += 1;
        }
        self.txs.push(ids);
        Ok((next, seq - 1, versions))
    }
}

/// stored record size of each event as the writer will produce it (bincode body, zstd when enabled and
/// the body is at least 128 bytes), given the sequences / versions the reference model assigns
pub fn stored_sizes(tx: &GenTx, txid: Uuid, spec: &Spec, nb: u16, compression: bool) -> Vec<usize> {
    use sierradb::bucket::segment::{LongBytes, RawEvent, RecordHeader, ShortString};
    let mut s2 = spec.clone();
    let assigned: Option<Vec<(u64, u64)>> = match s2.append(tx, nb, usize::MAX / 4) {
        Ok(_) => Some(s2.txs.last().unwrap().iter().map(|id| { let e = &s2.by_id[id]; (e.seq, e.version) }).collect()),
        Err(_) => None,
    };
    tx.events.iter().enumerate().map(|(i, e)| {
        let est = EVENT_HEADER_SIZE + e.stream.len() + e.name.len() + e.meta.len() + e.payload.len();
        let (Some(a), Ok(header)) = (&assigned, RecordHeader::new_event(e.ts, txid)) else { return est };
        let raw = RawEvent { header, event_id: e.id.into_bytes(), partition_key: tx.pkey.into_bytes(), partition_id: tx.pid,
            partition_sequence: a[i].0, stream_version: a[i].1, stream_id: StreamId::new(e.stream.clone()).unwrap(),
            event_name: ShortString(e.name.clone()), metadata: LongBytes(e.meta.clone()), payload: LongBytes(e.payload.clone()) };
        let body = bincode::encode_to_vec(&raw, bincode::config::legacy()).unwrap();
        if compression && body.len() >= 128 { 8 + 1 + 4 + zstd::bulk::compress(&body, 3).unwrap().len() } else { 8 + 1 + body.len() }
    }).collect()
}

pub fn err_class(e: &WriteError) -> String {
    match e {
        WriteError::WrongExpectedVersion { .. } => "WrongVersion".into(),
        WriteError::Validation(EventValidationError::PartitionKeyMismatch { .. }) => "KeyMismatch".into(),
        WriteError::WrongExpectedSequence { .. } => "WrongSeq".into(),
        WriteError::EventsExceedSegmentSize => "TooLarge".into(),
        WriteError::BadSystemTime => "BadTimestamp".into(),
        WriteError::Writer(seglog::write::WriteError::SegmentFull { .. }) => "Full".into(),
        other => format!("Other({other})").replace(' ', "_"),
    }
}

/// `max_batch_size` of the next database opened by `open_db`
pub static MAX_BATCH: std::sync::atomic::AtomicUsize = std::sync::atomic::AtomicUsize::new(1_000_000);

pub struct Cfg { pub nb: u16, pub segsize: usize, pub compression: bool, pub sync_ms: u64 }

pub fn open_db(dir: &Path, cfg: &Cfg) -> Result<Database, String> {
    let r = std::panic::catch_unwind(std::panic::AssertUnwindSafe(|| {
        DatabaseBuilder::new()
            .segment_size_bytes(cfg.segsize)
            .total_buckets(cfg.nb)
            .bucket_ids_from_range(0..cfg.nb)
            .reader_threads(2)
            // 4 or 6 buckets share 2 writer threads (the builder requires threads to divide buckets): several buckets per writer thread
            .writer_threads(if cfg.nb >= 4 { 2 } else { cfg.nb })
            .sync_interval(Duration::from_millis(cfg.sync_ms))
            .sync_idle_interval(Duration::from_millis(cfg.sync_ms))
            // usually no inline sync (timer-driven acknowledgement); a third of the store histories use a
            // batch size SMALLER than their transactions (see MAX_BATCH)
            .max_batch_size(MAX_BATCH.load(std::sync::atomic::Ordering::Relaxed))
            .min_sync_bytes(usize::MAX / 2)
            .cache_capacity_bytes(4 * 1024 * 1024)
            .compression(cfg.compression)
            .open(dir)
    }));
    match r { Ok(Ok(db)) => Ok(db), Ok(Err(e)) => Err(format!("{e}")), Err(_) => Err("panic".into()) }
}

pub fn payload(ctx: &mut Ctx, len: usize) -> Vec<u8> {
    match ctx.rng.below(3) {
        0 => ctx.rng.bytes(len),
        1 => vec![b'a' + (ctx.rng.below(26) as u8); len],
        _ => { let w = ctx.rng.bytes(24); (0..len).map(|i| w[i % 24]).collect() }
    }
}

pub struct World {
    pub cfg: Cfg,
    pub dir: PathBuf,
    pub db: Option<Database>,
    pub spec: Spec,
    pub pkeys: Vec<Uuid>,
    pub next_event_idx: usize,
    pub hist: Vec<String>,
    pub key: String,
    /// (pid, first_seq) of transactions acknowledged in this life of the database, with the data file end offset unknown
    pub acked: Vec<usize>,
    /// transaction id to use for the NEXT append (so its stored size can be computed beforehand)
    pub force_txid: std::cell::Cell<Option<Uuid>>,
    /// events of rejected / failed transactions (id, label index, partition): never to be returned
    pub failed: Vec<(Uuid, usize, u16)>,
}

fn ev_label(idx: usize) -> String { format!("e{idx}") }

pub fn show_exp(e: ExpectedVersion) -> String { match e { ExpectedVersion::Any => "any".into(), ExpectedVersion::Exists => "exists".into(), ExpectedVersion::Empty => "empty".into(), ExpectedVersion::Exact(v) => v.to_string() } }

impl World {
    pub fn new(ctx: &mut Ctx, root: &Path, cfg: Cfg, tag: &str) -> World {
        let dir = root.join(format!("db-{tag}"));
        let _ = std::fs::remove_dir_all(&dir);
        std::fs::create_dir_all(&dir).unwrap();
        // partition keys: chosen so that several partitions and both buckets are hit
        let mut pkeys = vec![];
        for h in [0u16, 1, 2, 9, 10, 3] { pkeys.push(uuid_v7_with_partition_hash(h)); }
        let _ = ctx;
        let key = format!("store nb={} seg={} c={} seed-tag={tag}", cfg.nb, cfg.segsize, cfg.compression as u8);
        World { cfg, dir, db: None, spec: Spec::default(), pkeys, next_event_idx: 0, hist: vec![], key, acked: vec![], force_txid: Default::default(), failed: vec![] }
    }
    pub fn pid_of(&self, pk: &Uuid) -> u16 { uuid_to_partition_hash(*pk) % NPART }

    pub fn gen_tx(&mut self, ctx: &mut Ctx) -> GenTx {
        let pk_idx = ctx.rng.below(self.pkeys.len() as u64) as usize;
        let pkey = self.pkeys[pk_idx];
        let pid = self.pid_of(&pkey);
        let bucket = pid % self.cfg.nb;
        let n = *ctx.rng.pick(&[1usize, 1, 1, 2, 2, 3, 5]);
        let mut events = vec![];
        let mut local: HashMap<String, Option<u64>> = HashMap::new();
        for _ in 0..n {
            // streams "s<pk>-<j>" belong to pkey pk by construction; occasionally borrow another key's stream
            let owner = if ctx.rng.chance(1, 12) { ctx.rng.below(self.pkeys.len() as u64) as usize } else { pk_idx };
            let stream = format!("s{}-{}", owner, ctx.rng.below(3));
            let cur = match local.get(&stream) { Some(c) => *c, None => self.spec.streams.get(&(bucket, stream.clone())).and_then(|(_, v)| v.last().map(|x| x.version)) };
            let right = ctx.rng.chance(3, 4);
            let exp = match ctx.rng.below(4) {
                0 => ExpectedVersion::Any,
                1 => if right == cur.is_some() { ExpectedVersion::Exists } else { ExpectedVersion::Empty },
                2 => if right == cur.is_none() { ExpectedVersion::Empty } else { ExpectedVersion::Exists },
                _ => match (cur, right) { (Some(c), true) => ExpectedVersion::Exact(c), (Some(c), false) => ExpectedVersion::Exact(if ctx.rng.chance(1, 2) { c + 1 } else { c.saturating_sub(1) + 2 * (c == 0) as u64 }),
                                           (None, true) => ExpectedVersion::Empty, (None, false) => ExpectedVersion::Exact(ctx.rng.below(2)) },
            };
            if accepts(exp, cur) { local.insert(stream.clone(), Some(cur.map(|v| v + 1).unwrap_or(0))); }
            let plen = *ctx.rng.pick(&[0usize, 1, 10, 43, 44, 60, 127, 128, 300, 2047, 2048, 4095, 4096, 9000, 20000, 40000]);
            let ts = if ctx.rng.chance(1, 25) { *ctx.rng.pick(&[1u64 << 63, u64::MAX, (1u64 << 63) + 5]) } else if ctx.rng.chance(1, 10) { (1u64 << 63) - 1 } else { 1_700_000_000_000 + ctx.rng.below(1000) };
            let idx = self.next_event_idx; self.next_event_idx += 1;
            events.push(GenEvent { id: uuid_v7_with_partition_hash(uuid_to_partition_hash(pkey)), idx, stream, exp, ts,
                name: format!("ev{}", ctx.rng.below(4)), meta: { let ml = ctx.rng.below(5) as usize; ctx.rng.bytes(ml) }, payload: payload(ctx, plen) });
        }
        let next = self.spec.parts.get(&pid).map(|v| v.len() as u64).unwrap_or(0);
        let exp_seq = match ctx.rng.below(10) {
            0..=5 => ExpectedVersion::Any,
            6 | 7 => if next == 0 { ExpectedVersion::Empty } else { ExpectedVersion::Exact(next - 1) },
            8 => ExpectedVersion::Exact(next + ctx.rng.below(2)),
            _ => if next == 0 { ExpectedVersion::Exists } else { ExpectedVersion::Empty },
        };
        GenTx { pkey, pk_idx, pid, exp_seq, events }
    }

    pub fn to_transaction(&self, tx: &GenTx) -> Transaction {
        let evs: SmallVec<[NewEvent; 4]> = tx.events.iter().map(|e| NewEvent { event_id: e.id, stream_id: StreamId::new(e.stream.clone()).unwrap(),
            stream_version: e.exp, event_name: e.name.clone(), timestamp: e.ts, metadata: e.meta.clone(), payload: e.payload.clone() }).collect();
        let t = Transaction::new(tx.pkey, tx.pid, evs).unwrap().expected_partition_sequence(tx.exp_seq);
        // keep the single-event flag Transaction::new chose; only the id bits change
        match self.force_txid.take() { Some(id) => { let flag = sierradb::id::get_uuid_flag(&t.transaction_id()); t.with_transaction_id(sierradb::id::set_uuid_flag(id, flag)) } None => t }
    }

    pub fn op_of_tx(&self, tx: &GenTx, txid: Uuid) -> String {
        let stored = stored_sizes(tx, txid, &self.spec, self.cfg.nb, self.cfg.compression);
        let mut s = format!("st append b={} pk={} pid={} exp={} n={}", tx.pid % self.cfg.nb, tx.pk_idx, tx.pid, show_exp(tx.exp_seq), tx.events.len());
        for (i, e) in tx.events.iter().enumerate() {
            s.push_str(&format!(" | {} {} {} {} {} {} {} {} {}", ev_label(e.idx), e.stream, show_exp(e.exp), (e.ts >> 63 == 0) as u8, e.stream.len(), e.name.len(), e.meta.len(), e.payload.len(), stored[i]));
        }
        s
    }
}

pub fn same_content(r: &EventRecord, s: &SpecEvent) -> bool {
    r.event_id == s.id && r.partition_key == s.pkey && r.partition_id == s.pid && r.partition_sequence == s.seq && r.stream_version == s.version
        && &*r.stream_id == s.stream.as_str() && r.event_name == s.name && r.metadata == s.meta && r.payload == s.payload && r.timestamp == s.ts
}

pub fn groups_of(c: &CommittedEvents) -> Vec<EventRecord> { c.clone().into_iter().collect() }
