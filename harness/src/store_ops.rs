//! Operations + property oracles of the store family (see store.rs).
use crate::store::*;
use crate::util::*;
use sierradb::bucket::segment::EventRecord;
use sierradb::IterDirection;
use sierradb::StreamId;
use std::collections::{BTreeMap, BTreeSet};
use std::time::{Duration, Instant};

pub const APPEND_TIMEOUT: Duration = Duration::from_secs(5);

fn live_segment_file(w: &World, bucket: u16) -> Option<(u32, std::path::PathBuf)> {
    let segs = w.dir.join("buckets").join(format!("{bucket:05}")).join("segments");
    let mut best: Option<(u32, std::path::PathBuf)> = None;
    for e in std::fs::read_dir(segs).ok()? {
        let e = e.ok()?;
        if let Ok(id) = e.file_name().to_string_lossy().parse::<u32>() {
            let f = e.path().join("data.evts");
            if f.exists() && best.as_ref().map(|b| id > b.0).unwrap_or(true) { best = Some((id, f)); }
        }
    }
    best
}

/// one append through the real Database: result line + all C01/C02 oracles
pub async fn do_append(ctx: &mut Ctx, w: &mut World, tx: &GenTx) -> String {
    let transaction = w.to_transaction(tx);
    let op = w.op_of_tx(tx, transaction.transaction_id());
    w.hist.push(op.clone());
    let db = w.db.as_ref().unwrap();
    let t0 = Instant::now();
    let res = tokio::time::timeout(APPEND_TIMEOUT, db.append_events(transaction)).await;
    let dt = t0.elapsed();
    let mut spec2 = w.spec.clone();
    // with compression the stored size decides (never too large for the generated payloads)
    let want = spec2.append(tx, w.cfg.nb, if w.cfg.compression { usize::MAX / 4 } else { w.cfg.segsize });
    let line = match &res {
        Err(_) => {
            ctx.oracle_fail(&format!("C20:{}", w.key), &format!("append did not return within {APPEND_TIMEOUT:?}"), &w.hist);
            "timeout".to_string()
        }
        Ok(Ok(r)) => {
            let vs: BTreeMap<String, u64> = r.stream_versions.iter().map(|(k, v)| (k.to_string(), *v)).collect();
            format!("ok {} {} [{}] offs={}", r.first_partition_sequence, r.last_partition_sequence, vs.iter().map(|(k, v)| format!("{k}:{v}")).collect::<Vec<_>>().join(","),
                r.offsets.iter().map(|o| o.to_string()).collect::<Vec<_>>().join(","))
        }
        Ok(Err(e)) => format!("err {}", err_class(e)),
    };
    ctx.stat(&format!("append_{}", line.split(' ').take(2).collect::<Vec<_>>().join("_").replace(|c: char| !c.is_alphanumeric() && c != '_', "")).chars().take(40).collect::<String>());
    // ---- C02: acceptance <=> version conditions, results = next sequences / versions
    match (&res, &want) {
        (Ok(Ok(r)), Ok((first, last, versions))) => {
            let vs: BTreeMap<String, u64> = r.stream_versions.iter().map(|(k, v)| (k.to_string(), *v)).collect();
            if r.first_partition_sequence != *first || r.last_partition_sequence != *last || vs != *versions {
                ctx.oracle_fail(&format!("C02:{}", w.key), &format!("accepted append returned {line}, reference model gives {first} {last} {versions:?}"), &w.hist);
            }
            w.spec = spec2;
            w.acked.push(w.spec.txs.len() - 1);
            // ---- C01: fsynced at acknowledgement
            let b = tx.pid % w.cfg.nb;
            if let Some((_, f)) = live_segment_file(w, b) {
                let durable = seglog::verif::durable_len(&f).unwrap_or(0);
                let end = r.offsets.last().copied().unwrap_or(0);
                if durable <= end { ctx.oracle_fail(&format!("C01:{}", w.key), &format!("append acknowledged but its bytes are not fsynced: durable length of the live segment {durable} <= last event offset {end}"), &w.hist); }
                ctx.stat("ack_fsync_checked");
            }
            if dt < Duration::from_micros(200) { ctx.stat("ack_faster_than_200us"); }
        }
        (Ok(Err(_)), Err(class)) => {
            for e in &tx.events { if w.failed.len() < 400 { w.failed.push((e.id, e.idx, tx.pid)); } }
            let got = line.trim_start_matches("err ");
            if got != *class { ctx.stat(&format!("reject_class_differs_{got}_vs_{class}")); }
            // C19: never rejected for space when it fits an empty segment — TooLarge is by the estimate
        }
        (Ok(Ok(_)), Err(class)) => { ctx.oracle_fail(&format!("C02:{}", w.key), &format!("append accepted ({line}) although the reference model rejects it ({class})"), &w.hist); }
        (Ok(Err(_)), Ok(_)) => {
            let cls = line.trim_start_matches("err ").to_string();
            let id = if cls == "Full" || cls == "TooLarge" { "C19" } else { "C02" };
            ctx.oracle_fail(&format!("{id}:{}", w.key), &format!("append rejected ({line}) although every version condition holds and it fits an empty segment"), &w.hist);
        }
        (Err(_), _) => {}
    }
    ctx.emit(&op, &line);
    line
}

async fn scan_stream(w: &World, pid: u16, stream: &str, from: u64, dir: IterDirection, batches: &[usize]) -> Result<Vec<Vec<EventRecord>>, String> {
    let db = w.db.as_ref().unwrap();
    let mut it = db.read_stream(pid, StreamId::new(stream.to_string()).unwrap(), from, dir).await.map_err(|e| format!("{e}"))?;
    let mut out = vec![]; let mut i = 0;
    loop {
        let lim = batches[i % batches.len()]; i += 1;
        match it.next_batch(lim).await { Ok(Some(cs)) => { for c in cs { out.push(groups_of(&c)); } } Ok(None) => break, Err(e) => return Err(format!("{e}")) }
        if out.len() > 100_000 { return Err("runaway".into()); }
    }
    Ok(out)
}

async fn scan_partition(w: &World, pid: u16, from: u64, dir: IterDirection, batches: &[usize]) -> Result<Vec<Vec<EventRecord>>, String> {
    let db = w.db.as_ref().unwrap();
    let mut it = db.read_partition(pid, from, dir).await.map_err(|e| format!("{e}"))?;
    let mut out = vec![]; let mut i = 0;
    loop {
        let lim = batches[i % batches.len()]; i += 1;
        match it.next_batch(lim).await { Ok(Some(cs)) => { for c in cs { out.push(groups_of(&c)); } } Ok(None) => break, Err(e) => return Err(format!("{e}")) }
        if out.len() > 100_000 { return Err("runaway".into()); }
    }
    Ok(out)
}

fn show_groups(gs: &[Vec<EventRecord>], w: &World) -> String {
    gs.iter().map(|g| g.iter().map(|e| w.spec.by_id.get(&e.event_id).map(|s| format!("e{}", s.idx)).unwrap_or("e?".into())).collect::<Vec<_>>().join("+")).collect::<Vec<_>>().join(",")
}

/// C03/C04 oracle for one scan result. `want` = spec events of the key in order; pos = version/sequence
fn check_scan(ctx: &mut Ctx, w: &World, what: &str, res: &Result<Vec<Vec<EventRecord>>, String>, want: &[SpecEvent], from: u64, fwd: bool, pos: fn(&SpecEvent) -> u64, rpos: fn(&EventRecord) -> u64) {
    let key3 = format!("C03:{}", w.key);
    let gs = match res { Ok(g) => g, Err(e) => { ctx.oracle_fail(&key3, &format!("{what} failed: {e}"), &w.hist); return; } };
    for g in gs { for e in g {
        match w.spec.by_id.get(&e.event_id) { Some(s) if same_content(e, s) => {}, _ => { ctx.oracle_fail(&key3, &format!("{what} returned an event that was never stored / with altered content (seq {} version {})", e.partition_sequence, e.stream_version), &w.hist); return; } }
    } }
    // C04: a group is a subset of one transaction, contiguous, and complete towards the end of it (after the filter)
    for g in gs {
        let txs: BTreeSet<usize> = g.iter().filter_map(|e| w.spec.by_id.get(&e.event_id).map(|s| s.tx)).collect();
        if txs.len() > 1 { ctx.oracle_fail(&format!("C04:{}", w.key), &format!("{what} returned one group spanning several transactions"), &w.hist); return; }
    }
    if fwd {
        // C04: an event is returned together with ALL of its siblings (of the scanned key, at/after the start)
        for g in gs {
            let Some(tx) = g.first().and_then(|e| w.spec.by_id.get(&e.event_id)).map(|s| s.tx) else { continue };
            let siblings: Vec<u64> = want.iter().filter(|s| s.tx == tx && pos(s) >= from).map(pos).collect();
            let got: Vec<u64> = g.iter().map(rpos).collect();
            if got != siblings { ctx.oracle_fail(&format!("C04:{}", w.key), &format!("{what} forward from {from} returned the group {:?} of a transaction whose events there are {:?}: a transaction was returned partially", trunc(&got), trunc(&siblings)), &w.hist); return; }
        }
        let flat: Vec<u64> = gs.iter().flatten().map(rpos).collect();
        let exp: Vec<u64> = want.iter().filter(|s| pos(s) >= from).map(pos).collect();
        if flat != exp { ctx.oracle_fail(&key3, &format!("{what} forward from {from}: returned positions {:?}, stored positions at/after it are {:?}", trunc(&flat), trunc(&exp)), &w.hist); }
    } else {
        let got: BTreeSet<u64> = gs.iter().flatten().map(rpos).collect();
        let exp: BTreeSet<u64> = want.iter().filter(|s| pos(s) <= from).map(pos).collect();
        if got != exp { ctx.oracle_fail(&key3, &format!("{what} reverse from {from}: returned position set {:?}, stored positions at/before it are {:?}", trunc(&got.iter().copied().collect::<Vec<_>>()), trunc(&exp.iter().copied().collect::<Vec<_>>())), &w.hist); return; }
        let maxes: Vec<u64> = gs.iter().filter(|g| !g.is_empty()).map(|g| g.iter().map(rpos).max().unwrap()).collect();
        if maxes.windows(2).any(|x| x[0] < x[1]) { ctx.oracle_fail(&key3, &format!("{what} reverse: groups not in decreasing order {:?}", trunc(&maxes)), &w.hist); }
    }
}
fn trunc(v: &[u64]) -> Vec<u64> { v.iter().take(24).copied().collect() }

/// one stream scan on the real database, checked against the reference log (C03 / C04) and emitted for the model
pub async fn scan_and_check_stream(ctx: &mut Ctx, w: &mut World, b: u16, stream: &str, from: u64, fwd: bool, batches: &[usize]) {
    let bs = batches.iter().map(|x| x.to_string()).collect::<Vec<_>>().join("/");
    let evs: Vec<SpecEvent> = w.spec.streams.get(&(b, stream.to_string())).map(|x| x.1.clone()).unwrap_or_default();
    let pid = evs.first().map(|e| e.pid).unwrap_or(b);
    let res = scan_stream(w, pid, stream, from, if fwd { IterDirection::Forward } else { IterDirection::Reverse }, batches).await;
    let op = format!("st scan s b={b} {stream} {from} {} {bs}", if fwd { "f" } else { "r" });
    w.hist.push(op.clone());
    check_scan(ctx, w, &format!("stream scan of {stream}"), &res, &evs, from, fwd, |s| s.version, |e| e.stream_version);
    if let Ok(gs) = &res { for g in gs { for e in g { if &*e.stream_id != stream { ctx.oracle_fail(&format!("C03:{}", w.key), "stream scan returned an event of another stream", &w.hist); } } } }
    ctx.stat(if fwd { "scan_stream_fwd" } else { "scan_stream_rev" });
    ctx.emit(&op, &match &res { Ok(gs) => format!("[{}]", show_groups(gs, w)), Err(_) => "err".into() });
}

pub async fn do_reads(ctx: &mut Ctx, w: &mut World, n: usize) {
    for _ in 0..n {
        let k = ctx.rng.below(100);
        let batches: Vec<usize> = match ctx.rng.below(4) { 0 => vec![1], 1 => vec![2, 3], 2 => vec![50], _ => vec![1, 50, 2] };
        let bs = batches.iter().map(|x| x.to_string()).collect::<Vec<_>>().join("/");
        if k < 30 {
            // stream scan
            let keys: Vec<(u16, String)> = w.spec.streams.keys().cloned().collect();
            let (b, stream) = if !keys.is_empty() && ctx.rng.chance(9, 10) { keys[ctx.rng.below(keys.len() as u64) as usize].clone() } else { (0, "nope".to_string()) };
            let evs: Vec<SpecEvent> = w.spec.streams.get(&(b, stream.clone())).map(|x| x.1.clone()).unwrap_or_default();
            let pid = evs.first().map(|e| e.pid).unwrap_or(b);
            let maxv = evs.last().map(|e| e.version).unwrap_or(0);
            let from = *ctx.rng.pick(&[0, 0, 1, maxv / 2, maxv.saturating_sub(1), maxv, maxv + 1, maxv + 7, u64::MAX]);
            let fwd = ctx.rng.chance(1, 2);
            let _ = (pid, &evs);
            scan_and_check_stream(ctx, w, b, &stream, from, fwd, &batches).await;
        } else if k < 55 {
            let pids: Vec<u16> = w.spec.parts.keys().copied().collect();
            let pid = if !pids.is_empty() && ctx.rng.chance(9, 10) { pids[ctx.rng.below(pids.len() as u64) as usize] } else { 7 };
            let evs: Vec<SpecEvent> = w.spec.parts.get(&pid).cloned().unwrap_or_default();
            let maxs = evs.last().map(|e| e.seq).unwrap_or(0);
            let from = *ctx.rng.pick(&[0, 0, 1, maxs / 2, maxs / 3, maxs.saturating_sub(1), maxs, maxs + 1, maxs + 7, u64::MAX]);
            let fwd = ctx.rng.chance(1, 2);
            let res = scan_partition(w, pid, from, if fwd { IterDirection::Forward } else { IterDirection::Reverse }, &batches).await;
            let op = format!("st scan p pid={pid} {from} {} {bs}", if fwd { "f" } else { "r" });
            w.hist.push(op.clone());
            check_scan(ctx, w, &format!("partition scan of {pid}"), &res, &evs, from, fwd, |s| s.seq, |e| e.partition_sequence);
            ctx.stat(if fwd { "scan_part_fwd" } else { "scan_part_rev" });
            ctx.emit(&op, &match &res { Ok(gs) => format!("[{}]", show_groups(gs, w)), Err(_) => "err".into() });
        } else if k < 80 {
            // event lookup / transaction read
            let ids: Vec<uuid::Uuid> = w.spec.by_id.keys().copied().collect();
            let from_failed = !w.failed.is_empty() && ctx.rng.chance(1, 4);
            let (id, label, pid) = if from_failed { let f = w.failed[ctx.rng.below(w.failed.len() as u64) as usize]; ctx.stat("read_failed_tx_event"); (f.0, format!("e{}", f.1), f.2) }
                else if !ids.is_empty() && ctx.rng.chance(9, 10) { let mut v = ids; v.sort(); let id = v[ctx.rng.below(v.len() as u64) as usize]; let s = &w.spec.by_id[&id]; (id, format!("e{}", s.idx), s.pid) }
                else { (sierradb::id::uuid_v7_with_partition_hash(3), "e-unknown".to_string(), 3) };
            let op = format!("st read pid={pid} {label}"); w.hist.push(op.clone());
            let res = w.db.as_ref().unwrap().read_transaction(pid, id).await;
            let line = match &res {
                Ok(None) => "none".to_string(),
                Ok(Some(c)) => format!("[{}]", show_groups(&[groups_of(c)], w)),
                Err(e) => format!("err {}", format!("{e}").chars().take(60).collect::<String>().replace(' ', "_")),
            };
            match (w.spec.by_id.get(&id), &res) {
                (Some(s), Ok(Some(c))) => {
                    let g = groups_of(c);
                    // C04: from the looked-up event to the end of its transaction, complete
                    let want: Vec<uuid::Uuid> = w.spec.txs[s.tx].iter().skip_while(|x| **x != id).copied().collect();
                    let got: Vec<uuid::Uuid> = g.iter().map(|e| e.event_id).collect();
                    if got != want { ctx.oracle_fail(&format!("C04:{}", w.key), &format!("read_transaction of {label} returned {} events, its transaction has {} from that event on", got.len(), want.len()), &w.hist); }
                    if !g.iter().all(|e| w.spec.by_id.get(&e.event_id).map(|s| same_content(e, s)).unwrap_or(false)) { ctx.oracle_fail(&format!("C01:{}", w.key), &format!("event lookup of {label} returned altered content"), &w.hist); }
                }
                (Some(_), _) => { ctx.oracle_fail(&format!("C01:{}", w.key), &format!("acknowledged event {label} not returned by event lookup: {line}"), &w.hist); }
                (None, Ok(None)) => {}
                (None, _) if from_failed => { ctx.oracle_fail(&format!("C04:{}", w.key), &format!("lookup of {label}, an event of a transaction that failed (no commit record was ever written), returned {line}"), &w.hist); }
                (None, _) => { ctx.oracle_fail(&format!("C02:{}", w.key), &format!("lookup of an id that was never stored returned {line}"), &w.hist); }
            }
            ctx.stat("read_event");
            ctx.emit(&op, &line);
        } else if k < 90 {
            let keys: Vec<(u16, String)> = w.spec.streams.keys().cloned().collect();
            let (b, stream) = if !keys.is_empty() && ctx.rng.chance(4, 5) { keys[ctx.rng.below(keys.len() as u64) as usize].clone() } else { (0, "nope".to_string()) };
            let want = w.spec.streams.get(&(b, stream.clone())).and_then(|(pk, v)| v.last().map(|e| (*pk, e.version)));
            let pid = w.spec.streams.get(&(b, stream.clone())).and_then(|x| x.1.first().map(|e| e.pid)).unwrap_or(b);
            let op = format!("st sv b={b} {stream}"); w.hist.push(op.clone());
            let res = w.db.as_ref().unwrap().get_stream_version(pid, &StreamId::new(stream.clone()).unwrap()).await;
            let got = res.as_ref().ok().and_then(|x| x.as_ref().map(|v| (v.partition_key, v.version)));
            if res.is_err() || got != want { ctx.oracle_fail(&format!("C02:{}", w.key), &format!("get_stream_version({stream}) = {:?}, reference model {:?}", got.map(|x| x.1), want.map(|x| x.1)), &w.hist); }
            ctx.stat("get_stream_version");
            ctx.emit(&op, &got.map(|(pk, v)| format!("{}:{v}", w.pkeys.iter().position(|p| *p == pk).map(|i| i.to_string()).unwrap_or("?".into()))).unwrap_or("none".into()));
        } else {
            let pid = ctx.rng.below(NPART as u64) as u16;
            let want = w.spec.parts.get(&pid).and_then(|v| v.last().map(|e| e.seq));
            let op = format!("st ps pid={pid}"); w.hist.push(op.clone());
            let res = w.db.as_ref().unwrap().get_partition_sequence(pid).await;
            let got = res.as_ref().ok().and_then(|x| x.as_ref().map(|v| v.sequence));
            if res.is_err() || got != want { ctx.oracle_fail(&format!("C02:{}", w.key), &format!("get_partition_sequence({pid}) = {got:?}, reference model {want:?}"), &w.hist); }
            ctx.stat("get_partition_sequence");
            ctx.emit(&op, &got.map(|v| v.to_string()).unwrap_or("none".into()));
        }
    }
}

/// immediately after an acknowledgement: every event of the transaction by all three read APIs (C01)
pub async fn check_acked_visible(ctx: &mut Ctx, w: &mut World, txi: usize, when: &str) {
    let ids = w.spec.txs[txi].clone();
    let key = format!("C01:{}", w.key);
    for id in &ids {
        let s = w.spec.by_id[id].clone();
        match w.db.as_ref().unwrap().read_event(s.pid, *id).await {
            Ok(Some(e)) if same_content(&e, &s) => {}
            other => { ctx.oracle_fail(&key, &format!("{when}: acknowledged event e{} (partition {} seq {}) not returned by event lookup: {}", s.idx, s.pid, s.seq, match other { Ok(None) => "None".to_string(), Ok(Some(_)) => "altered content".into(), Err(e) => format!("error {e}") }), &w.hist); return; }
        }
    }
    let s0 = w.spec.by_id[&ids[0]].clone();
    let r = scan_partition(w, s0.pid, s0.seq, IterDirection::Forward, &[50]).await;
    let found: BTreeSet<uuid::Uuid> = r.as_ref().map(|gs| gs.iter().flatten().map(|e| e.event_id).collect()).unwrap_or_default();
    if !ids.iter().all(|i| found.contains(i)) { ctx.oracle_fail(&key, &format!("{when}: acknowledged transaction (partition {} seq {}) missing from the partition scan: {}", s0.pid, s0.seq, r.err().unwrap_or_default()), &w.hist); return; }
    for id in &ids {
        let s = w.spec.by_id[id].clone();
        let r = scan_stream(w, s.pid, &s.stream, s.version, IterDirection::Forward, &[50]).await;
        let ok = r.as_ref().map(|gs| gs.iter().flatten().any(|e| e.event_id == *id && same_content(e, &s))).unwrap_or(false);
        if !ok { ctx.oracle_fail(&key, &format!("{when}: acknowledged event e{} (stream {} version {}) missing from the stream scan: {}", s.idx, s.stream, s.version, r.err().unwrap_or_default()), &w.hist); return; }
    }
    ctx.stat("acked_tx_checked_by_3_read_apis");
}
