//! History runners of the store family.
use crate::store::*;
use crate::store_ops::*;
use crate::util::*;

async fn reopen(ctx: &mut Ctx, w: &mut World) -> bool {
    if let Some(db) = w.db.take() { db.shutdown().await; drop(db); }
    w.hist.push("st reopen".into());
    match open_db(&w.dir, &w.cfg) {
        Ok(db) => { w.db = Some(db); ctx.stat("reopen"); ctx.emit("st reopen", "ok"); true }
        Err(e) => { ctx.oracle_fail(&format!("C05:{}", w.key), &format!("reopen after a clean shutdown failed: {e}"), &w.hist); ctx.emit("st reopen", "err"); false }
    }
}

pub async fn history(ctx: &mut Ctx, root: &std::path::Path, tag: &str, nops: usize) {
    let cfg = Cfg { nb: *ctx.rng.pick(&[1u16, 2, 2, 4, 6]), segsize: 128 * 1024, compression: ctx.rng.chance(1, 2), sync_ms: 8 };
    // a third of the histories: max_batch_size 2, smaller than many transactions (a sync must publish
    // ALL pending index entries of the transactions it acknowledges, however many)
    let small_batch = ctx.rng.chance(1, 3);
    MAX_BATCH.store(if small_batch { ctx.stat("store_small_max_batch_histories"); 2 } else { 1_000_000 }, std::sync::atomic::Ordering::Relaxed);
    let mut w = World::new(ctx, root, cfg, tag);
    let op = format!("st open nb={} seg={} c={}", w.cfg.nb, w.cfg.segsize, w.cfg.compression as u8);
    w.hist.push(op.clone());
    match open_db(&w.dir, &w.cfg) { Ok(db) => w.db = Some(db), Err(e) => { ctx.oracle_fail(&format!("C05:{}", w.key), &format!("open failed: {e}"), &w.hist); return; } }
    ctx.emit(&op, "ok");
    for _ in 0..nops {
        let k = ctx.rng.below(100);
        if k < 55 {
            let tx = w.gen_tx(ctx);
            let before = w.spec.txs.len();
            let line = do_append(ctx, &mut w, &tx).await;
            if line.starts_with("ok") && w.spec.txs.len() > before {
                // reads started right after the acknowledgement
                check_acked_visible(ctx, &mut w, before, "right after the acknowledgement").await;
            }
            if line == "timeout" { break; }
        } else if k < 97 {
            do_reads(ctx, &mut w, 2).await;
        } else {
            if !reopen(ctx, &mut w).await { return; }
            // every acknowledged transaction is still there
            let n = w.spec.txs.len();
            for txi in (0..n).rev().take(6) { check_acked_visible(ctx, &mut w, txi, "after close and reopen").await; }
            do_reads(ctx, &mut w, 3).await;
        }
    }
    // final: full verification of every stream and partition, both directions
    do_reads(ctx, &mut w, 6).await;
    let n = w.spec.txs.len();
    for txi in 0..n { if txi % 3 == 0 || txi + 4 > n { check_acked_visible(ctx, &mut w, txi, "at the end of the history").await; } }
    MAX_BATCH.store(1_000_000, std::sync::atomic::Ordering::Relaxed);
    ctx.stat_add("accepted_transactions", n as u64);
    ctx.nontrivial(&w.hist.join(";"));
    if let Some(db) = w.db.take() { db.shutdown().await; }
    let _ = std::fs::remove_dir_all(&w.dir);
}

/// Directed layout for the scan hand-over between segments: a MIXED transaction [a, b] (stream b is
/// ahead of stream a by a few versions) is the last thing stream a has in a segment, and stream a
/// continues in the next segment with a multi-event transaction [a, a, a].  Scans of a and b from
/// every start position, both directions, several batch patterns, before and after reopen.
pub async fn mixed_boundary_history(ctx: &mut Ctx, root: &std::path::Path, tag: &str) {
    let cfg = Cfg { nb: 1, segsize: 128 * 1024, compression: false, sync_ms: 5 };
    let mut w = World::new(ctx, root, cfg, tag);
    let op = format!("st open nb=1 seg={} c=0", w.cfg.segsize);
    w.hist.push(op.clone());
    match open_db(&w.dir, &w.cfg) { Ok(db) => w.db = Some(db), Err(_) => return };
    ctx.emit(&op, "ok");
    let pk_idx = 0usize; let pkey = w.pkeys[pk_idx]; let pid = w.pid_of(&pkey);
    let mk = |w: &mut World, evs: &[(&str, usize)]| -> GenTx {
        let events = evs.iter().map(|(stream, plen)| { let idx = w.next_event_idx; w.next_event_idx += 1;
            GenEvent { id: sierradb::id::uuid_v7_with_partition_hash(sierradb::id::uuid_to_partition_hash(pkey)), idx, stream: stream.to_string(),
                exp: sierradb_protocol::ExpectedVersion::Any, ts: 7, name: "m".into(), meta: vec![], payload: vec![0x33; *plen] } }).collect();
        GenTx { pkey, pk_idx, pid, exp_seq: sierradb_protocol::ExpectedVersion::Any, events }
    };
    let ahead = ctx.rng.range(1, 3);
    for _ in 0..ahead { let tx = mk(&mut w, &[("mb-b", 40)]); do_append(ctx, &mut w, &tx).await; }
    for round in 0..ctx.rng.range(1, 2) {
        // the mixed transaction: a's last events of this segment, ending with b's event
        let tx = if round == 0 { mk(&mut w, &[("mb-a", 60), ("mb-b", 60)]) } else { mk(&mut w, &[("mb-a", 60), ("mb-a", 30), ("mb-b", 60)]) };
        do_append(ctx, &mut w, &tx).await;
        // fill with another stream until the segment rolls over
        for _ in 0..16 {
            let tx = mk(&mut w, &[("mb-c", 14_000)]);
            let line = do_append(ctx, &mut w, &tx).await;
            if line.contains("offs=48") { break; }
        }
        // a continues in the new segment with a multi-event transaction
        let tx = mk(&mut w, &[("mb-a", 50), ("mb-a", 50), ("mb-a", 50)]);
        do_append(ctx, &mut w, &tx).await;
    }
    for pass in 0..2 {
        for stream in ["mb-a", "mb-b", "mb-c"] {
            let maxv = w.spec.streams.get(&(0, stream.to_string())).and_then(|x| x.1.last().map(|e| e.version)).unwrap_or(0);
            for from in [0, 1, 2, maxv, maxv + 1] {
                for batches in [vec![1usize], vec![2, 3], vec![50]] { scan_and_check_stream(ctx, &mut w, 0, stream, from, true, &batches).await; }
            }
            for from in [u64::MAX, maxv, 1] { scan_and_check_stream(ctx, &mut w, 0, stream, from, false, &[2, 3]).await; }
        }
        if pass == 0 && !reopen(ctx, &mut w).await { return; }
    }
    ctx.stat("mixed_boundary_histories");
    ctx.nontrivial(&w.hist.join(";"));
    if let Some(db) = w.db.take() { db.shutdown().await; }
    let _ = std::fs::remove_dir_all(&w.dir);
}

/// number of harness processes the thorough budget is split over (set by `check`)
pub fn chunks() -> usize { std::env::var("VH_CHUNKS").ok().and_then(|x| x.parse().ok()).filter(|x| *x > 0).unwrap_or(1) }

/// Directed layout for the sealed-segment key lookup (bloom filter + MPHF): one short stream id that
/// is a proper PREFIX of thousands of other stream ids; the later sealed segments hold only the long
/// ids (their bloom filters are saturated, so the lookup of the absent short id reaches the MPHF).
pub async fn prefix_streams_history(ctx: &mut Ctx, root: &std::path::Path, tag: &str) {
    let cfg = Cfg { nb: 1, segsize: 128 * 1024, compression: false, sync_ms: 1 };
    let mut w = World::new(ctx, root, cfg, tag);
    let op = format!("st open nb=1 seg={} c=0", w.cfg.segsize);
    w.hist.push(op.clone());
    match open_db(&w.dir, &w.cfg) { Ok(db) => w.db = Some(db), Err(_) => return };
    ctx.emit(&op, "ok");
    let pk_idx = 0usize; let pkey = w.pkeys[pk_idx]; let pid = w.pid_of(&pkey);
    let one = |w: &mut World, stream: String| -> GenTx {
        let idx = w.next_event_idx; w.next_event_idx += 1;
        GenTx { pkey, pk_idx, pid, exp_seq: sierradb_protocol::ExpectedVersion::Any, events: vec![GenEvent { id: sierradb::id::uuid_v7_with_partition_hash(sierradb::id::uuid_to_partition_hash(pkey)), idx,
            stream, exp: sierradb_protocol::ExpectedVersion::Any, ts: 7, name: "p".into(), meta: vec![], payload: vec![] }] }
    };
    for _ in 0..3 { let tx = one(&mut w, "px".into()); do_append(ctx, &mut w, &tx).await; }
    let n = if ctx.thorough() { 4200 } else { 2700 };
    for i in 0..n { let tx = one(&mut w, format!("px{i:04}")); if !do_append(ctx, &mut w, &tx).await.starts_with("ok") { break; } }
    for pass in 0..2 {
        for stream in ["px", "px0000", "px0007", "px2000"] {
            for from in [0u64, 1, 3] { scan_and_check_stream(ctx, &mut w, 0, stream, from, true, &[50]).await; }
            scan_and_check_stream(ctx, &mut w, 0, stream, u64::MAX, false, &[2, 3]).await;
        }
        if pass == 0 && !reopen(ctx, &mut w).await { return; }
    }
    ctx.stat("prefix_streams_histories");
    ctx.nontrivial(&format!("prefix-streams {n}"));
    if let Some(db) = w.db.take() { db.shutdown().await; }
    let _ = std::fs::remove_dir_all(&w.dir);
}

pub fn run_store(ctx: &mut Ctx) {
    let rt = tokio::runtime::Builder::new_multi_thread().worker_threads(4).enable_all().build().unwrap();
    let root = if std::path::Path::new("/dev/shm").is_dir() { tempfile::tempdir_in("/dev/shm").unwrap() } else { tempfile::tempdir().unwrap() };
    let n = if ctx.thorough() { 300 / chunks() } else { 30 };
    for i in 0..n {
        let nops = ctx.rng.range(30, 110) as usize;
        rt.block_on(history(ctx, root.path(), &format!("{i}"), nops));
    }
    rt.block_on(prefix_streams_history(ctx, root.path(), "px"));
    for i in 0..(if ctx.thorough() { (20 / chunks()).max(3) } else { 3 }) { rt.block_on(mixed_boundary_history(ctx, root.path(), &format!("mb{i}"))); }
}

// ------------------------------------------------------------------ crash recovery (C05, C06)
fn copy_dir(src: &std::path::Path, dst: &std::path::Path) {
    std::fs::create_dir_all(dst).unwrap();
    for e in std::fs::read_dir(src).unwrap() {
        let e = e.unwrap();
        let to = dst.join(e.file_name());
        if e.file_type().unwrap().is_dir() { copy_dir(&e.path(), &to); } else { std::fs::copy(e.path(), &to).unwrap(); }
    }
}

fn segment_dirs(dir: &std::path::Path, bucket: u16) -> Vec<(u32, std::path::PathBuf)> {
    let segs = dir.join("buckets").join(format!("{bucket:05}")).join("segments");
    let mut v: Vec<(u32, std::path::PathBuf)> = std::fs::read_dir(segs).map(|rd| rd.filter_map(|e| { let e = e.ok()?; let id = e.file_name().to_string_lossy().parse::<u32>().ok()?; Some((id, e.path())) }).collect()).unwrap_or_default();
    v.sort();
    v
}

/// verify a recovered database against a reference state: every read API works, every event of
/// `spec` is found three ways, latest sequences/versions match, and an append continues gaplessly
async fn verify_recovered(ctx: &mut Ctx, w: &mut World, id: &str, what: &str) -> bool {
    let key = format!("{id}:{}", w.key);
    let mut hist = w.hist.clone(); hist.push(format!("# {what}"));
    // latest sequences and versions
    for (pid, evs) in w.spec.parts.clone() {
        let got = w.db.as_ref().unwrap().get_partition_sequence(pid).await.ok().and_then(|x| x.map(|v| v.sequence));
        if got != evs.last().map(|e| e.seq) { ctx.oracle_fail(&key, &format!("{what}: partition {pid} latest sequence {got:?}, expected {:?}", evs.last().map(|e| e.seq)), &hist); return false; }
    }
    // every transaction of the expected state by all three read APIs
    let before = ctx.n_oracle_fail;
    let n = w.spec.txs.len();
    let saved = std::mem::replace(&mut w.hist, hist.clone());
    for txi in 0..n { check_acked_visible(ctx, w, txi, what).await; if ctx.n_oracle_fail > before { break; } }
    // nothing beyond the expected state is visible: full scans equal the reference model
    if ctx.n_oracle_fail == before { do_reads(ctx, w, 8).await; }
    // appends continue with no gap and no reuse
    if ctx.n_oracle_fail == before {
        for _ in 0..3 { let mut tx = w.gen_tx(ctx); tx.exp_seq = sierradb_protocol::ExpectedVersion::Any; for e in tx.events.iter_mut() { e.exp = sierradb_protocol::ExpectedVersion::Any; e.ts = 7; }
            let b = w.spec.txs.len(); let line = do_append(ctx, w, &tx).await; if line.starts_with("ok") && w.spec.txs.len() > b { check_acked_visible(ctx, w, b, what).await; } }
        do_reads(ctx, w, 4).await;
    }
    w.hist = saved;
    // re-key failures recorded under other ids by the shared helpers: they are all consequences of this recovery
    ctx.n_oracle_fail == before
}

/// end of the written records of bucket 0's live segment (real seglog reader)
fn live_end_of(w: &World) -> u64 {
    let segs = segment_dirs(&w.dir, 0); let f = segs.last().unwrap().1.join("data.evts");
    let mut rd = seglog::read::Reader::<1>::open(&f, None).unwrap(); let mut it = rd.iter(48); let mut off = 48u64; while let Ok(Some(r)) = it.next_record() { off += r.len as u64; } off
}

/// next single-event filler on the way to exactly `target_left` free bytes in the live segment
/// (None: landed, or cannot get closer)
fn next_filler(ctx: &mut Ctx, w: &mut World, target_left: u64) -> Option<GenTx> {
    let left = w.cfg.segsize as u64 - live_end_of(w);
    if left <= target_left + 150 { ctx.stat(if left == target_left { "pack_landed" } else { "pack_missed" }); return None; }
    let need = ((left - target_left) as usize).min(20_000);
    let pk_idx = 0usize; let pkey = w.pkeys[pk_idx]; let pid = w.pid_of(&pkey);
    let idx = w.next_event_idx; w.next_event_idx += 1;
    let mut p = need.saturating_sub(140).max(1);
    let mut tx = GenTx { pkey, pk_idx, pid, exp_seq: sierradb_protocol::ExpectedVersion::Any, events: vec![GenEvent { id: sierradb::id::uuid_v7_with_partition_hash(sierradb::id::uuid_to_partition_hash(pkey)), idx,
        stream: "s0-fill".into(), exp: sierradb_protocol::ExpectedVersion::Any, ts: 7, name: "f".into(), meta: vec![], payload: ctx.rng.bytes(p) }] };
    if need < 20_000 {
        for _ in 0..4 {
            let sz = stored_sizes(&tx, uuid::Uuid::from_u128(1), &w.spec, w.cfg.nb, w.cfg.compression)[0];
            if sz == need { break; }
            p = (p as i64 + need as i64 - sz as i64).max(1) as usize;
            tx.events[0].payload = ctx.rng.bytes(p);
        }
    }
    Some(tx)
}

pub async fn crash_history(ctx: &mut Ctx, root: &std::path::Path, tag: &str, shape: u64) {
    let cfg = Cfg { nb: 1, segsize: 128 * 1024, compression: shape != 3 && ctx.rng.chance(1, 2), sync_ms: 5 };
    let mut w = World::new(ctx, root, cfg, tag);
    let op = format!("st open nb=1 seg={} c={}", w.cfg.segsize, w.cfg.compression as u8);
    w.hist.push(op.clone());
    match open_db(&w.dir, &w.cfg) { Ok(db) => w.db = Some(db), Err(e) => { ctx.oracle_fail(&format!("C05:{}", w.key), &format!("open failed: {e}"), &w.hist); return; } }
    ctx.emit(&op, "ok");
    // shapes: short / long histories; a torn transaction that is the FIRST one of its live segment
    // (fresh database, or the transaction that caused a rollover) has no committed transaction before it
    let ntx = match shape { 0 => 0, 1 | 2 => ctx.rng.range(8, 30), _ => if ctx.rng.chance(1, 2) { ctx.rng.range(4, 14) } else { ctx.rng.range(20, 45) } };
    if shape <= 2 { ctx.stat(if shape == 0 { "crash_first_tx_of_fresh_database" } else { "crash_first_tx_after_rollover" }); }
    // per accepted tx: (spec before it, start offset, segment id)
    let mut marks: Vec<(Spec, u64, u32, Spec, u16)> = vec![];
    let mut rollovers: Vec<u32> = vec![];
    // shape 3: a sealed segment PACKED to 1..7 free bytes (uncompressed records may fill a segment up
    // to its last byte): half way through, single-event fillers bring the live segment there
    let pack_target = if shape == 3 { ctx.stat("crash_packed_segment_histories"); Some(ctx.rng.range(1, 7)) } else { None };
    let (mut i, mut packing) = (0u64, false);
    while i < ntx || packing {
        let mut tx = if packing {
            match next_filler(ctx, &mut w, pack_target.unwrap()) { Some(tx) => tx, None => { packing = false; continue; } }
        } else {
            i += 1;
            if pack_target.is_some() && i == ntx / 2 { packing = true; }
            w.gen_tx(ctx)
        };
        if !packing && ctx.rng.chance(2, 3) { tx.exp_seq = sierradb_protocol::ExpectedVersion::Any; for e in tx.events.iter_mut() { e.exp = sierradb_protocol::ExpectedVersion::Any; e.ts = 7; } }
        let before = w.spec.clone();
        let nb = w.spec.txs.len();
        let seg_before = segment_dirs(&w.dir, 0).last().map(|x| x.0).unwrap_or(0);
        let line = do_append(ctx, &mut w, &tx).await;
        if line.starts_with("ok") && w.spec.txs.len() == nb + 1 {
            let first_off: u64 = line.split("offs=").nth(1).and_then(|x| x.split(',').next()).and_then(|x| x.parse().ok()).unwrap_or(0);
            let seg_after = segment_dirs(&w.dir, 0).last().map(|x| x.0).unwrap_or(0);
            if seg_after != seg_before { rollovers.push(seg_before); }
            marks.push((before, first_off, seg_after, w.spec.clone(), tx.pid));
        }
    }
    if shape <= 2 {
        // a multi-event transaction as the last one: 3 x 40 KB incompressible events force a rollover
        // whenever the live segment is not (nearly) empty, and it is the first one of a fresh database
        let pk_idx = 0usize; let pkey = w.pkeys[pk_idx]; let pid = w.pid_of(&pkey);
        let nev = ctx.rng.range(2, 3) as usize;
        let events = (0..nev).map(|i| { let idx = w.next_event_idx; w.next_event_idx += 1;
            GenEvent { id: sierradb::id::uuid_v7_with_partition_hash(sierradb::id::uuid_to_partition_hash(pkey)), idx, stream: format!("s0-big{}", i % 2),
                exp: sierradb_protocol::ExpectedVersion::Any, ts: 7, name: "big".into(), meta: vec![], payload: ctx.rng.bytes(if shape == 0 { 300 } else { 40_000 }) } }).collect();
        let tx = GenTx { pkey, pk_idx, pid, exp_seq: sierradb_protocol::ExpectedVersion::Any, events };
        let before = w.spec.clone(); let nb = w.spec.txs.len();
        let seg_before = segment_dirs(&w.dir, 0).last().map(|x| x.0).unwrap_or(0);
        let line = do_append(ctx, &mut w, &tx).await;
        if line.starts_with("ok") && w.spec.txs.len() == nb + 1 {
            let first_off: u64 = line.split("offs=").nth(1).and_then(|x| x.split(',').next()).and_then(|x| x.parse().ok()).unwrap_or(0);
            let seg_after = segment_dirs(&w.dir, 0).last().map(|x| x.0).unwrap_or(0);
            if seg_after != seg_before { rollovers.push(seg_before); }
            if first_off == 48 { ctx.stat("crash_torn_tx_is_first_of_its_segment"); }
            marks.push((before, first_off, seg_after, w.spec.clone(), tx.pid));
        }
    }
    if let Some(db) = w.db.take() { db.shutdown().await; drop(db); }
    tokio::time::sleep(std::time::Duration::from_millis(30)).await;
    let segs = segment_dirs(&w.dir, 0);
    let Some((live_id, live_dir)) = segs.last().cloned() else { return };
    let live_file = live_dir.join("data.evts");
    let bytes = std::fs::read(&live_file).unwrap();
    // record boundaries of the live segment (real seglog reader)
    let mut bounds: Vec<(u64, usize)> = vec![];
    { let mut rd = seglog::read::Reader::<1>::open(&live_file, None).unwrap(); let mut it = rd.iter(48); let mut off = 48u64; while let Ok(Some(r)) = it.next_record() { bounds.push((off, r.len)); off += r.len as u64; } }
    let end = bounds.last().map(|(o, l)| o + *l as u64).unwrap_or(48);
    // ---------------- C05: cuts inside the last transactions of the live segment
    // (spec before T, start of T, end of T = start of the next transaction)
    let mut tail: Vec<(Spec, u64, u64, Spec, u16)> = vec![];
    { let mut next_start = end; for m in marks.iter().rev().take(3) { if m.2 != live_id { break; } tail.push((m.0.clone(), m.1, next_start, m.3.clone(), m.4)); next_start = m.1; } }
    let thorough = ctx.thorough();
    for (spec_before, start, tx_end, spec_after, tx_pid) in tail.iter() {
        let end = *tx_end;
        let mut cuts: Vec<u64> = vec![*start, *start + 1];
        for (o, l) in bounds.iter().filter(|(o, _)| *o >= *start && *o < end) {
            cuts.push(*o); cuts.push(o + 4); cuts.push(o + 8); cuts.push(o + 9 + ctx.rng.below((*l as u64).saturating_sub(9).max(1))); cuts.push(o + *l as u64 - 1);
            if thorough && *l < 400 { for b in 0..*l as u64 { cuts.push(o + b); } }
        }
        cuts.retain(|c| *c >= *start && *c < end); cuts.sort(); cuts.dedup();
        if thorough && cuts.len() > 90 {
            // every byte of the small records was listed; keep an even sample (each reopen leaks threads
            // and descriptors inside this process, see DESIGN 10.2e) — the boundaries stay below
            let mut keep: Vec<u64> = (0..90).map(|i| cuts[i * cuts.len() / 90]).collect();
            for (o, l) in bounds.iter().filter(|(o, _)| *o >= *start && *o < end) { keep.extend([*o, o + 4, o + 8, o + *l as u64 - 1]); }
            keep.retain(|c| *c >= *start && *c < end); keep.sort(); keep.dedup(); cuts = keep;
        }
        if !thorough && cuts.len() > 14 {
            let mut keep: Vec<u64> = (0..14).map(|i| cuts[i * cuts.len() / 14]).collect();
            // always: right after the last event (= start of the commit record), inside it, its last byte
            if let Some((o, l)) = bounds.iter().filter(|(o, _)| *o >= *start && *o < end).last() { keep.extend([*o, o + 4, o + *l as u64 - 1]); }
            keep.retain(|c| *c >= *start && *c < end); keep.sort(); keep.dedup(); cuts = keep;
        }
        for cut in cuts {
            let cdir = root.join(format!("crash-{tag}-{cut}"));
            let _ = std::fs::remove_dir_all(&cdir);
            copy_dir(&w.dir, &cdir);
            let f = cdir.join("buckets/00000/segments").join(format!("{live_id:010}")).join("data.evts");
            let mut b2 = bytes.clone(); for x in b2[cut as usize..].iter_mut() { *x = 0; }
            std::fs::write(&f, &b2).unwrap();
            let mut w2 = World { cfg: Cfg { nb: 1, segsize: w.cfg.segsize, compression: w.cfg.compression, sync_ms: 5 }, dir: cdir.clone(), db: None, spec: spec_before.clone(),
                pkeys: w.pkeys.clone(), next_event_idx: w.next_event_idx + 1000, hist: w.hist.clone(), key: w.key.clone(), acked: vec![], force_txid: Default::default(), failed: w.failed.clone() };
            let what = format!("crash with the live segment cut at byte {cut} (transaction starts at {start}, written end {end})");
            w2.hist.push(format!("st crash seg={live_id} cut={cut}"));
            // zeroing a tail that already is zero changes nothing: for the model the cut is then at the record's end
            let eff = bounds.iter().find(|(o, l)| *o < cut && cut < o + *l as u64 && bytes[cut as usize..(o + *l as u64) as usize].iter().all(|x| *x == 0)).map(|(o, l)| o + *l as u64).unwrap_or(cut);
            ctx.emit(&format!("st crash seg={live_id} cut={eff}"), "ok");
            ctx.stat("crash_cuts");
            ctx.stat(if bounds.iter().any(|(o, _)| *o == cut) { "cut_at_record_boundary" } else { "cut_inside_record" });
            match open_db(&cdir, &w2.cfg) {
                Ok(db) => {
                    // the torn transaction was not acknowledged: it may be absent, or — when the cut left all of its
                    // bytes intact (the zeroed tail equals what was written) — present in full
                    let got = db.get_partition_sequence(*tx_pid).await.ok().and_then(|x| x.map(|v| v.sequence));
                    if got.is_some() && got == spec_after.parts.get(tx_pid).and_then(|v| v.last().map(|e| e.seq)) && got != spec_before.parts.get(tx_pid).and_then(|v| v.last().map(|e| e.seq)) { w2.spec = spec_after.clone(); ctx.stat("torn_tx_recovered_in_full"); }
                    w2.db = Some(db); ctx.id_override = Some("C05".into()); if verify_recovered(ctx, &mut w2, "C05", &what).await { ctx.stat("crash_recovered_ok"); } ctx.id_override = None;
                }
                Err(e) => { let mut h = w2.hist.clone(); h.push(format!("# {what}")); ctx.oracle_fail(&format!("C05:{}", w.key), &format!("{what}: reopening failed: {e}"), &h); }
            }
            if let Some(db) = w2.db.take() { db.shutdown().await; }
            ctx.emit("st restore", "ok");
            let _ = std::fs::remove_dir_all(&cdir);
        }
    }
    // ---------------- C06: sealed segment's index files empty / prefix / absent
    for seg in rollovers.iter().rev().take(2) {
        let sdir = w.dir.join("buckets/00000/segments").join(format!("{seg:010}"));
        for file in ["index.eidx", "partition.pidx", "stream.sidx", "all"] {
            let len = if file == "all" { 1 } else { std::fs::metadata(sdir.join(file)).map(|m| m.len()).unwrap_or(0) };
            let mut variants: Vec<Option<u64>> = vec![None, Some(0), Some(1), Some(8), Some(len / 2), Some(len.saturating_sub(1))];
            if file == "all" { variants = vec![None, Some(0)]; }
            if !thorough { let i = ctx.rng.below(variants.len() as u64) as usize; let j = ctx.rng.below(variants.len() as u64) as usize; variants = vec![variants[i], variants[j]]; }
            for v in variants {
                let cdir = root.join(format!("idx-{tag}-{seg}-{file}-{v:?}"));
                let _ = std::fs::remove_dir_all(&cdir);
                copy_dir(&w.dir, &cdir);
                let csd = cdir.join("buckets/00000/segments").join(format!("{seg:010}"));
                let files: Vec<&str> = if file == "all" { vec!["index.eidx", "partition.pidx", "stream.sidx"] } else { vec![file] };
                for f in &files { let p = csd.join(f); match v { None => { let _ = std::fs::remove_file(&p); } Some(n) => { if let Ok(b) = std::fs::read(&p) { std::fs::write(&p, &b[..(n as usize).min(b.len())]).unwrap(); } } } }
                let mut w2 = World { cfg: Cfg { nb: 1, segsize: w.cfg.segsize, compression: w.cfg.compression, sync_ms: 5 }, dir: cdir.clone(), db: None, spec: w.spec.clone(),
                    pkeys: w.pkeys.clone(), next_event_idx: w.next_event_idx + 1000, hist: w.hist.clone(), key: w.key.clone(), acked: vec![], force_txid: Default::default(), failed: w.failed.clone() };
                let what = format!("crash during rollover: sealed segment {seg} with {file} {}", match v { None => "absent".to_string(), Some(n) => format!("cut to {n} of {len} bytes") });
                w2.hist.push(format!("st idxcut seg={seg} file={file} len={v:?}"));
                ctx.emit(&format!("st idxcut seg={seg} file={file} len={}", v.map(|x| x.to_string()).unwrap_or("absent".into())), "ok");
                ctx.stat("index_file_variants");
                match open_db(&cdir, &w2.cfg) {
                    Ok(db) => { w2.db = Some(db); ctx.id_override = Some("C06".into()); if verify_recovered(ctx, &mut w2, "C06", &what).await { ctx.stat("index_variant_recovered_ok"); } ctx.id_override = None; }
                    Err(e) => { let mut h = w2.hist.clone(); h.push(format!("# {what}")); ctx.oracle_fail(&format!("C06:{}", w.key), &format!("{what}: reopening failed: {e}"), &h); }
                }
                if let Some(db) = w2.db.take() { db.shutdown().await; }
                ctx.emit("st restore", "ok");
                let _ = std::fs::remove_dir_all(&cdir);
            }
        }
    }
    // ---------------- C05/C06: crash inside the creation of the next segment (rollover / first start)
    for variant in ["empty-dir", "zero-file", "zero-file+empty-indexes"] {
        if !thorough && ctx.rng.chance(1, 2) { continue; }
        let cdir = root.join(format!("newseg-{tag}-{variant}"));
        let _ = std::fs::remove_dir_all(&cdir);
        copy_dir(&w.dir, &cdir);
        let nd = cdir.join("buckets/00000/segments").join(format!("{:010}", live_id + 1));
        std::fs::create_dir_all(&nd).unwrap();
        if variant != "empty-dir" { std::fs::write(nd.join("data.evts"), vec![0u8; w.cfg.segsize]).unwrap(); }
        if variant == "zero-file+empty-indexes" { for f in ["index.eidx", "partition.pidx", "stream.sidx"] { std::fs::write(nd.join(f), b"").unwrap(); } }
        let mut w2 = World { cfg: Cfg { nb: 1, segsize: w.cfg.segsize, compression: w.cfg.compression, sync_ms: 5 }, dir: cdir.clone(), db: None, spec: w.spec.clone(),
            pkeys: w.pkeys.clone(), next_event_idx: w.next_event_idx + 2000, hist: w.hist.clone(), key: w.key.clone(), acked: vec![], force_txid: Default::default(), failed: w.failed.clone() };
        let what = format!("crash while creating segment {} ({variant})", live_id + 1);
        w2.hist.push(format!("st newseg {variant}"));
        ctx.emit(&format!("st idxcut newseg {variant}"), "ok");
        ctx.stat("new_segment_crash_variants");
        match open_db(&cdir, &w2.cfg) {
            Ok(db) => { w2.db = Some(db); ctx.id_override = Some("C06".into()); if verify_recovered(ctx, &mut w2, "C06", &what).await { ctx.stat("new_segment_variant_recovered_ok"); } ctx.id_override = None; }
            Err(e) => { let mut h = w2.hist.clone(); h.push(format!("# {what}")); ctx.oracle_fail(&format!("C06:{}", w.key), &format!("{what}: reopening failed: {e}"), &h); }
        }
        if let Some(db) = w2.db.take() { db.shutdown().await; }
        ctx.emit("st restore", "ok");
        let _ = std::fs::remove_dir_all(&cdir);
    }
    ctx.stat_add("rollovers_in_crash_histories", rollovers.len() as u64);
    ctx.nontrivial(&w.hist.join(";"));
    let _ = std::fs::remove_dir_all(&w.dir);
}

pub fn run_crash(ctx: &mut Ctx) {
    let rt = tokio::runtime::Builder::new_multi_thread().worker_threads(4).enable_all().build().unwrap();
    let root = if std::path::Path::new("/dev/shm").is_dir() { tempfile::tempdir_in("/dev/shm").unwrap() } else { tempfile::tempdir().unwrap() };
    // shapes 0..3 are the directed ones (fresh database, after a rollover x2, packed segment): every run has them
    let n = if ctx.thorough() { (60 / chunks()).max(4) } else { 10 };
    for i in 0..n as u64 { let shape = if i < 4 { i } else { 4 + ctx.rng.below(6) }; rt.block_on(crash_history(ctx, root.path(), &format!("{i}"), shape)); }
}

// ------------------------------------------------------------------ C19: space accounting at the segment end
pub async fn space_history(ctx: &mut Ctx, root: &std::path::Path, tag: &str) {
    let cfg = Cfg { nb: 1, segsize: 128 * 1024, compression: ctx.rng.chance(1, 2), sync_ms: 5 };
    let mut w = World::new(ctx, root, cfg, tag);
    let op = format!("st open nb=1 seg={} c={}", w.cfg.segsize, w.cfg.compression as u8);
    w.hist.push(op.clone());
    match open_db(&w.dir, &w.cfg) { Ok(db) => w.db = Some(db), Err(_) => return };
    ctx.emit(&op, "ok");
    let pk_idx = 0usize; let pkey = w.pkeys[pk_idx]; let pid = w.pid_of(&pkey);
    let mk = |w: &mut World, ctx: &mut Ctx, plen: usize, compressible: bool| -> GenTx {
        let idx = w.next_event_idx; w.next_event_idx += 1;
        let payload = if compressible { vec![b'z'; plen] } else { ctx.rng.bytes(plen) };
        GenTx { pkey, pk_idx, pid, exp_seq: sierradb_protocol::ExpectedVersion::Any, events: vec![GenEvent { id: sierradb::id::uuid_v7_with_partition_hash(sierradb::id::uuid_to_partition_hash(pkey)), idx,
            stream: "s0-0".into(), exp: sierradb_protocol::ExpectedVersion::Any, ts: 9, name: "n".into(), meta: vec![], payload }] }
    };
    let rounds = ctx.rng.range(2, 4);
    for _ in 0..rounds {
        // fill the live segment up to a random level with incompressible events
        let live_end = |w: &World| -> u64 {
            let segs = segment_dirs(&w.dir, 0); let f = segs.last().unwrap().1.join("data.evts");
            let mut rd = seglog::read::Reader::<1>::open(&f, None).unwrap(); let mut it = rd.iter(48); let mut off = 48u64; while let Ok(Some(r)) = it.next_record() { off += r.len as u64; } off
        };
        let target_left = ctx.rng.range(3_000, 30_000);
        loop {
            let end = live_end(&w);
            let left = w.cfg.segsize as u64 - end;
            if left <= target_left + 2_000 { break; }
            let chunk = ((left - target_left) as usize).min(20_000).max(600) - 300;
            let tx = mk(&mut w, ctx, chunk, false);
            if !do_append(ctx, &mut w, &tx).await.starts_with("ok") { break; }
        }
        // now an event whose uncompressed estimate leaves exactly delta bytes free
        let end = live_end(&w);
        let left = (w.cfg.segsize as u64 - end) as usize;
        let fixed = EVENT_HEADER_SIZE + 4 + 1; // stream "s0-0", name "n", no metadata
        // delta = 0: the record ends exactly at the segment's last byte
        let delta = if ctx.rng.chance(1, 3) { ctx.stat("space_exact_fit_single"); 0 } else { ctx.rng.below(40) as usize };
        if left > fixed + delta + 10 {
            let tx = mk(&mut w, ctx, left - fixed - delta, false);
            ctx.stat("space_boundary_appends");
            let b = w.spec.txs.len();
            let line = do_append(ctx, &mut w, &tx).await;
            if line.starts_with("ok") && w.spec.txs.len() > b { check_acked_visible(ctx, &mut w, b, "right after the acknowledgement").await; }
            // retry must not fail forever either
            if !line.starts_with("ok") { let tx2 = mk(&mut w, ctx, left - fixed - delta, false); let _ = do_append(ctx, &mut w, &tx2).await; }
        }
        // a MULTI-EVENT transaction of incompressible events whose STORED size misses the free space
        // of the live segment by a few bytes: it must roll over (any rollover bound below the real
        // stored size leaves it failing with SegmentFull forever)
        {
            let m = *ctx.rng.pick(&[2usize, 3, 6, 12, 24, 48]);
            let plen = ctx.rng.range(20, 200) as usize;
            let hard = ctx.rng.chance(2, 3);
            let mk_multi = |w: &mut World, ctx: &mut Ctx| -> GenTx {
                let events = (0..m).map(|_| { let idx = w.next_event_idx; w.next_event_idx += 1;
                    // every field as incompressible as the format allows (random names, metadata and a
                    // full-width timestamp): the stored record then exceeds the uncompressed estimate
                    let rnd_name = |ctx: &mut Ctx, n: usize| -> String { (0..n).map(|_| (b'a' + ctx.rng.below(26) as u8) as char).collect() };
                    let (stream, name, meta, ts) = if hard {
                        (format!("s0-{}", rnd_name(ctx, 24)), rnd_name(ctx, 12), ctx.rng.bytes(24), (1u64 << 62) | (ctx.rng.next() >> 2))
                    } else { ("s0-0".to_string(), "n".to_string(), vec![], 9) };
                    GenEvent { id: sierradb::id::uuid_v7_with_partition_hash(sierradb::id::uuid_to_partition_hash(pkey)), idx, stream,
                        exp: sierradb_protocol::ExpectedVersion::Any, ts, name, meta, payload: ctx.rng.bytes(plen) } }).collect();
                GenTx { pkey, pk_idx, pid, exp_seq: sierradb_protocol::ExpectedVersion::Any, events }
            };
            let tx = mk_multi(&mut w, ctx);
            // the transaction id is fixed beforehand: it is part of every stored (compressed) record
            let txid = uuid::Uuid::from_bytes(ctx.rng.bytes(16).try_into().unwrap());
            let txid = sierradb::id::set_uuid_flag(txid, false);
            let stored: usize = stored_sizes(&tx, txid, &w.spec, w.cfg.nb, w.cfg.compression).iter().sum::<usize>() + COMMIT_SIZE;
            // misses the free space by 1..16 bytes, or (a third of the time) fits it EXACTLY
            let target_left = if ctx.rng.chance(1, 3) { ctx.stat("space_exact_fit_multi"); stored as u64 } else { (stored as u64).saturating_sub(1 + ctx.rng.below(16)) };
            // fill to exactly target_left bytes free with single incompressible events
            let mut landed = false;
            for _ in 0..40 {
                let left = w.cfg.segsize as u64 - live_end(&w);
                if left == target_left { landed = true; break; }
                if left < target_left + 140 { break; }
                let need = ((left - target_left) as usize).min(20_000);
                // payload length so that the stored record is exactly `need` bytes (or a chunk when far away)
                let mut p = need.saturating_sub(140).max(1);
                let mut f = mk(&mut w, ctx, p, false);
                if need < 20_000 {
                    for _ in 0..4 {
                        let sz = stored_sizes(&f, uuid::Uuid::from_u128(1), &w.spec, w.cfg.nb, w.cfg.compression)[0];
                        if sz == need { break; }
                        p = (p as i64 + need as i64 - sz as i64).max(1) as usize;
                        f.events[0].payload = ctx.rng.bytes(p);
                    }
                }
                if !do_append(ctx, &mut w, &f).await.starts_with("ok") { break; }
            }
            if landed {
                ctx.stat("space_multi_boundary_appends");
                let b = w.spec.txs.len();
                w.force_txid.set(Some(txid));
                let line = do_append(ctx, &mut w, &tx).await;
                if line.starts_with("ok") && w.spec.txs.len() > b { check_acked_visible(ctx, &mut w, b, "right after the acknowledgement").await; }
                if !line.starts_with("ok") { let tx2 = mk_multi(&mut w, ctx); let _ = do_append(ctx, &mut w, &tx2).await; }
            } else { ctx.stat("space_multi_boundary_missed"); }
        }
        // a highly compressible event larger than a segment by its uncompressed size, but tiny once stored
        if w.cfg.compression && ctx.rng.chance(1, 2) {
            let big = w.cfg.segsize + 1000; let tx = mk(&mut w, ctx, big, true);
            ctx.stat("oversize_compressible_appends");
            // reference model: accepted, because it fits an empty segment by its STORED size (C19)
            let bb = w.spec.txs.len();
            let line = do_append(ctx, &mut w, &tx).await;
            if line.starts_with("ok") && w.spec.txs.len() > bb { check_acked_visible(ctx, &mut w, bb, "right after the acknowledgement").await; }
        }
    }
    do_reads(ctx, &mut w, 6).await;
    ctx.nontrivial(&w.hist.join(";"));
    if let Some(db) = w.db.take() { db.shutdown().await; }
    let _ = std::fs::remove_dir_all(&w.dir);
}

pub fn run_space(ctx: &mut Ctx) {
    let rt = tokio::runtime::Builder::new_multi_thread().worker_threads(4).enable_all().build().unwrap();
    let root = if std::path::Path::new("/dev/shm").is_dir() { tempfile::tempdir_in("/dev/shm").unwrap() } else { tempfile::tempdir().unwrap() };
    let n = if ctx.thorough() { 150 / chunks() } else { 15 };
    for i in 0..n { rt.block_on(space_history(ctx, root.path(), &format!("{i}"))); }
}
