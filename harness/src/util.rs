use std::collections::BTreeMap;
use std::fs::File;
use std::io::{BufRead, BufReader, BufWriter, Write};

/// SplitMix64: every random choice of a run derives from one state (replayable from the seed).
pub struct Rng(pub u64);
impl Rng {
    pub fn next(&mut self) -> u64 {
        self.0 = self.0.wrapping_add(0x9E3779B97F4A7C15);
        let mut z = self.0;
        z = (z ^ (z >> 30)).wrapping_mul(0xBF58476D1CE4E5B9);
        z = (z ^ (z >> 27)).wrapping_mul(0x94D049BB133111EB);
        z ^ (z >> 31)
    }
    pub fn below(&mut self, n: u64) -> u64 { if n == 0 { 0 } else { self.next() % n } }
    pub fn range(&mut self, lo: u64, hi: u64) -> u64 { lo + self.below(hi - lo + 1) }
    pub fn chance(&mut self, num: u64, den: u64) -> bool { self.below(den) < num }
    pub fn pick<'a, T>(&mut self, xs: &'a [T]) -> &'a T { &xs[self.below(xs.len() as u64) as usize] }
    pub fn bytes(&mut self, n: usize) -> Vec<u8> { (0..n).map(|_| self.next() as u8).collect() }
}

pub fn hex(b: &[u8]) -> String {
    if b.is_empty() { return "-".into(); }
    let mut s = String::with_capacity(b.len() * 2);
    for x in b { s.push_str(&format!("{:02x}", x)); }
    s
}
pub fn unhex(s: &str) -> Vec<u8> {
    if s == "-" { return vec![]; }
    (0..s.len() / 2).map(|i| u8::from_str_radix(&s[2 * i..2 * i + 2], 16).unwrap()).collect()
}

/// Output context of one harness run.
pub struct Ctx {
    pub tier: String,
    pub seed: u64,
    pub rng: Rng,
    pub replay: Option<Vec<String>>,
    ops: BufWriter<File>,
    imp: BufWriter<File>,
    oracle: BufWriter<File>,
    pub stats: BTreeMap<String, u64>,
    pub samples: Vec<String>,
    pub n_ops: u64,
    pub n_oracle_fail: u64,
    /// rows written per oracle key (a flood of one known finding must not hide other violations)
    per_key: std::collections::HashMap<String, u32>,
    out: String,
    distinct: std::collections::HashSet<u64>,
    /// when set, the property prefix ("Cxx:") of oracle keys is replaced by this id
    pub id_override: Option<String>,
}

impl Ctx {
    pub fn new(out: &str, tier: &str, seed: u64, replay: Option<String>) -> Ctx {
        std::fs::create_dir_all(out).unwrap();
        let f = |n: &str| BufWriter::new(File::create(format!("{out}/{n}")).unwrap());
        let mut tier = tier.to_string();
        let mut seed = seed;
        let replay: Option<Vec<String>> = replay.map(|p| {
            BufReader::new(File::open(&p).expect("replay file")).lines().map(|l| l.unwrap())
                .filter(|l| !l.starts_with('#') && !l.trim().is_empty()).collect()
        });
        // "@seed <seed> <tier>": a stateful family replays by regenerating the run from its seed
        let replay = replay.map(|ls: Vec<String>| {
            let mut rest = vec![];
            for l in ls {
                if let Some(r) = l.strip_prefix("@seed ") {
                    let t: Vec<&str> = r.split_whitespace().collect();
                    if t.len() == 2 { seed = t[0].parse().unwrap_or(seed); tier = t[1].to_string(); }
                } else { rest.push(l); }
            }
            rest
        });
        Ctx { tier: tier.clone(), seed, rng: Rng(seed ^ 0x5EED_0000_0000_0000), replay,
              ops: f("ops.txt"), imp: f("impl.txt"), oracle: f("oracle.txt"),
              stats: BTreeMap::new(), samples: vec![], n_ops: 0, n_oracle_fail: 0, out: out.into(),
              distinct: Default::default(), id_override: None, per_key: Default::default() }
    }
    pub fn thorough(&self) -> bool { self.tier == "thorough" }
    /// record one operation for the model driver and the implementation's canonical result
    pub fn emit(&mut self, op: &str, impl_result: &str) {
        debug_assert!(!op.contains('\n') && !impl_result.contains('\n'));
        writeln!(self.ops, "{op}").unwrap();
        writeln!(self.imp, "{impl_result}").unwrap();
        self.n_ops += 1;
        if self.samples.len() < 6 && (self.n_ops % 997 == 1) {
            self.samples.push(format!("{op} => {impl_result}"));
        }
    }
    /// a case counted as distinct & non-trivial (hash of its canonical text)
    pub fn nontrivial(&mut self, key: &str) {
        use std::hash::{Hash, Hasher};
        let mut h = std::collections::hash_map::DefaultHasher::new();
        key.hash(&mut h);
        self.distinct.insert(h.finish());
    }
    pub fn stat(&mut self, k: &str) { *self.stats.entry(k.into()).or_insert(0) += 1; }
    pub fn stat_add(&mut self, k: &str, n: u64) { *self.stats.entry(k.into()).or_insert(0) += n; }
    /// property oracle failure on the implementation's own output (independent of the model).
    /// `key` is the canonical identity of the failing input (matched against known findings),
    /// `replay` the lines that reproduce it.
    pub fn oracle_fail(&mut self, key: &str, what: &str, replay: &[String]) {
        let key = match (&self.id_override, key.split_once(':')) {
            (Some(id), Some((_, rest))) => format!("{id}:{rest}"),
            _ => key.to_string(),
        };
        let key = key.as_str();
        self.n_oracle_fail += 1;
        let seen = { let c = self.per_key.entry(key.to_string()).or_insert(0); *c += 1; *c };
        if seen <= 3 && self.per_key.len() <= 400 {
            let mut rp = format!("@seed {} {}", self.seed, self.tier);
            for l in replay { rp.push_str("\\n"); rp.push_str(l); }
            writeln!(self.oracle, "{key}\t{what}\t{rp}").unwrap();
        }
    }
    pub fn finish(mut self) {
        self.ops.flush().unwrap(); self.imp.flush().unwrap(); self.oracle.flush().unwrap();
        let mut s = File::create(format!("{}/stats.json", self.out)).unwrap();
        let stats: Vec<String> = self.stats.iter().map(|(k, v)| format!("\"{}\": {}", k, v)).collect();
        let samples: Vec<String> = self.samples.iter().map(|x| format!("{:?}", x)).collect();
        writeln!(s, "{{\"ops\": {}, \"oracle_failures\": {}, \"distinct_nontrivial\": {}, \"seed\": {}, \"stats\": {{{}}}, \"samples\": [{}]}}",
            self.n_ops, self.n_oracle_fail, self.distinct.len(), self.seed, stats.join(", "), samples.join(", ")).unwrap();
    }
}

/// run `f`, mapping a panic to None (= `trap`)
pub fn catch<T>(f: impl FnOnce() -> T + std::panic::UnwindSafe) -> Option<T> {
    std::panic::catch_unwind(f).ok()
}
