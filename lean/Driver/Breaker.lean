import Driver.Pure
import SierraModel.Cluster.Breaker

namespace Driver.Breaker
open SierraModel.Breaker

/-- pause-point names used in circuit_breaker.rs -/
def pcName : Pc → String
  | .idle => "idle" | .dead => "dead"
  | .allowState => "allow.state" | .allowClock => "allow.clock" | .allowLf _ => "allow.lf"
  | .allowCas => "tho.cas" | .allowHocc => "allow.hocc"
  | .succClock => "succ.clock" | .succLs _ => "succ.ls" | .succState => "succ.state"
  | .succFc => "succ.fc" | .succHosc => "succ.hosc" | .succCas => "tho.cas"
  | .tclFc => "tcl.fc" | .tclState => "tcl.state" | .tclHocc => "tcl.hocc" | .tclHosc => "tcl.hosc"
  | .failClock => "fail.clock" | .failLf _ => "fail.lf" | .failState => "fail.state"
  | .failFc => "fail.fc"
  | .topState _ => "top.state" | .topHocc => "top.hocc" | .topHosc => "top.hosc"
  | .ertState => "ert.state" | .ertClock => "ert.clock" | .ertLf _ => "ert.lf"

def stNum : CState → Nat | .closed => 0 | .opn => 1 | .half => 2

def cells (s : Sys) : String :=
  s!"cells={stNum s.state},{s.fc},{s.lf},{s.ls},{s.hocc},{s.hosc}"

def retStr : Ret → String
  | .bool b => if b then "true" else "false"
  | .unit => "unit"
  | .dur none => "none"
  | .dur (some d) => toString d

def parseProg (p : String) : Option (List Meth) :=
  if p = "-" then some [] else
  p.toList.mapM (fun c => match c with
    | 'a' => some Meth.allow | 's' => some Meth.succ | 'f' => some Meth.fail | 'e' => some Meth.ert
    | _ => none)

/-- where thread `t` is parked: the point of its next atomic step -/
def parkedAt (s : Sys) (t : Nat) : String :=
  let th := s.threads t
  match th.pc with
  | .idle => match th.prog with | [] => "end" | m :: _ => pcName (entry m)
  | pc => pcName pc

def c26 (st : Option Sys) : List String → Option Sys × String
  | "new" :: th :: to :: mx :: sth :: ck :: progs =>
    match th.toNat?, to.toNat?, mx.toNat?, sth.toNat?, ck.toNat?, progs.mapM parseProg with
    | some th, some to, some mx, some sth, some ck, some ps =>
      if th ≥ U32 ∨ mx ≥ U32 ∨ sth ≥ U32 then (st, "bad-op") else
      let s := init ⟨th, to, mx, sth⟩ ck ps
      (some s, cells s)
    | _, _, _, _, _, _ => (st, "bad-op")
  | ["step", t] =>
    match st, t.toNat? with
    | some s, some t =>
      let at0 := parkedAt s t
      let n0 := (s.threads t).rets.length
      match stepT s t with
      | none => (st, "bad-op")
      | some s' =>
        let th' := s'.threads t
        let out :=
          if th'.pc = .dead then "trap"
          else if th'.rets.length > n0 then
            s!"ret:{retStr (th'.rets.headD .unit)} -> {parkedAt s' t}"
          else s!"-> {parkedAt s' t}"
        (some s', s!"t{t} {at0} {out} {cells s'}")
    | _, _ => (st, "bad-op")
  | ["clock", v] =>
    match st, v.toNat? with
    | some s, some v => (some (act s (.clock v)), "ok")
    | _, _ => (st, "bad-op")
  | _ => (st, "bad-op")

end Driver.Breaker
