/-
Crafted segments: ARBITRARY record sequences (orphaned events, commits that match nothing, events
of several transactions interleaved), not only those a writer produces.  Ties the reader-side rules
of the store model (`readCommitted`, `committedOf`, `committedEnd`, `hydrate`) to the real
`BucketSegmentReader` / `SegmentBlock` / `BucketSegmentIter` on the same records.
ops:  rd new | rd e <off> <size> <tx> <single> <eid> | rd c <off> <size> <tx> <count>
      rd rc <off> | rd all | rd end | rd hyd
-/
import Driver.Store

namespace Driver.Craft
open SierraModel.Store

structure St where
  recs : List Placed := []

def limitOf (recs : List Placed) : Nat := recs.foldl (fun a p => max a (p.off + p.size)) 0

def showGroup (g : List (Ev × Nat)) : String :=
  joinWith "+" (g.map (fun x => s!"e{x.1.eid}@{x.2}"))

def step (st : St) : List String → St × String
  | ["new"] => ({ recs := [] }, "ok")
  | ["e", off, size, tx, single, eid] =>
    match off.toNat?, size.toNat?, tx.toNat?, eid.toNat? with
    | some off, some size, some tx, some eid =>
      let ev : Ev := { eid := eid, pkey := 0, pid := 0, seq := 0, stream := 0, version := 0, tx := tx, single := single == "1" }
      ({ recs := st.recs ++ [{ off := off, size := size, r := .ev ev }] }, "ok")
    | _, _, _, _ => (st, "bad-op")
  | ["c", off, size, tx, count] =>
    match off.toNat?, size.toNat?, tx.toNat?, count.toNat? with
    | some off, some size, some tx, some count =>
      ({ recs := st.recs ++ [{ off := off, size := size, r := .commit tx count }] }, "ok")
    | _, _, _, _ => (st, "bad-op")
  | ["rc", off] =>
    match off.toNat? with
    | some off => (st, match readCommitted st.recs (limitOf st.recs) off with | some g => showGroup g | none => "none")
    | none => (st, "bad-op")
  | ["all"] => (st, "[" ++ joinWith "," ((committedOf st.recs).map (fun g => joinWith "+" (g.map (fun e => s!"e{e.eid}")))) ++ "]")
  | ["end"] => (st, toString (committedEnd st.recs))
  | ["hyd"] => (st, joinWith "," ((hydrate st.recs).map (fun e => s!"e{e.eid}@{e.off}")))
  | _ => (st, "bad-op")

end Driver.Craft
