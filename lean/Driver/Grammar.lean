import Driver.Pure
import SierraModel.Server.Parse
import SierraModel.Server.Client

/-! driver for C21: `c21 parse <CMD> <hex token>...` → canonical text of the parsed request or `err`
(the same text harness/src/c21.rs prints for the real parser's result). -/
namespace Driver.Grammar
open SierraModel.Server
open SierraModel.Version (Expected)

def unhex (s : String) : Option ByteArray :=
  if s = "-" then some ByteArray.empty else
  let rec go : List Char → ByteArray → Option ByteArray
    | a :: b :: rest, acc => match hexVal a, hexVal b with
      | some x, some y => go rest (acc.push (UInt8.ofNat (x * 16 + y)))
      | _, _ => none
    | [], acc => some acc
    | _, _ => none
  go s.toList ByteArray.empty

/-- classify the bytes of a frame: valid UTF-8 (decoded) or not -/
def tokOf (b : ByteArray) : Tok :=
  match String.fromUTF8? b with
  | some s => .text s.toList
  | none => .blob (b.toList.map (·.toNat))

def hexBytes (b : List UInt8) : String :=
  if b.isEmpty then "-" else String.ofList (b.flatMap (fun x => [hexDigit (x.toNat / 16), hexDigit (x.toNat % 16)]))

def hexChars (cs : List Char) : String := hexBytes (String.ofList cs).toUTF8.toList
def hexTok : Tok → String
  | .text cs => hexChars cs
  | .blob bs => hexBytes (bs.map UInt8.ofNat)

def optN : Option Nat → String
  | none => "none" | some n => toString n
def uuidHex (u : Nat) : String := toHexFixed 32 u
def optU : Option Nat → String
  | none => "none" | some u => uuidHex u
def showExpected : Expected → String
  | .any => "any" | .exists_ => "exists" | .empty => "empty" | .exact v => toString v
def showRange : RangeV → String
  | .start => "-" | .stop => "+" | .value n => toString n
def showSel : PSel → String
  | .byId n => s!"id:{n}" | .byKey u => s!"key:{uuidHex u}"
def showFromSeqs : FromSeqs → String
  | .latest => "latest"
  | .all n => s!"all:{n}"
  | .partitions m fb => "map:" ++ joinWith "," (m.map (fun (kv : Nat × Nat) => s!"{kv.1}={kv.2}")) ++ ";default=" ++ optN fb
def evFields (e : AppendEv) : String :=
  s!"id={optU e.eventId} ev={showExpected e.expected} ts={optN e.timestamp} payload={hexTok e.payload} meta={hexTok e.metadata}"

def showRequest : Request → String
  | .esubStream s pk fv w =>
    s!"esub one {hexChars s} pk={match pk with | none => "v5" | some u => uuidHex u} from={optN fv} window={optN w}"
  | .esubStreams ss fv w =>
    let sel := joinWith "," (ss.map (fun (x : List Char × Option Nat) => hexChars x.1 ++ "/" ++ (match x.2 with | none => "v5" | some u => uuidHex u)))
    let f := match fv with
      | .latest => "latest"
      | .all n => s!"all:{n}"
      | .streams m => "map:" ++ joinWith "," (m.map (fun (kv : List Char × Nat) => s!"{hexChars kv.1}={kv.2}"))
    s!"esub many {sel} from={f} window={optN w}"
  | .epsubAll fs w => s!"epsub all from={showFromSeqs fs} window={optN w}"
  | .epsubOne p f w => s!"epsub one {p} from={optN f} window={optN w}"
  | .epsubMany ps fs w => s!"epsub many {joinWith "," (ps.map toString)} from={showFromSeqs fs} window={optN w}"
  | .eappend e => s!"eappend {hexChars e.stream} {hexChars e.name} pk={optU e.partitionKey} {evFields e}"
  | .emappend pk evs =>
    s!"emappend {uuidHex pk} " ++ joinWith " ; " (evs.map (fun e => s!"{hexChars e.stream} {hexChars e.name} {evFields e}"))
  | .escan s a b pk c => s!"escan {hexChars s} {showRange a} {showRange b} pk={optU pk} count={optN c}"
  | .epscan p a b c => s!"epscan {showSel p} {showRange a} {showRange b} count={optN c}"
  | .eget id => s!"eget {uuidHex id}"
  | .esver s pk => s!"esver {hexChars s} pk={optU pk}"
  | .epseq p => s!"epseq {showSel p}"
  | .eack id n => s!"eack {uuidHex id} {n}"

def cmdOf : String → Option Cmd
  | "ESUB" => some .esub | "EPSUB" => some .epsub | "EAPPEND" => some .eappend | "EMAPPEND" => some .emappend
  | "ESCAN" => some .escan | "EPSCAN" => some .epscan | "EGET" => some .eget | "ESVER" => some .esver
  | "EPSEQ" => some .epseq | "EACK" => some .eack | _ => none

/-! `c21 emit <builder shape> <args>`: the argument vector `ClientCmd.emit` produces, as hex tokens -/

def optNat? (s : String) : Option (Option Nat) := if s = "none" then some none else s.toNat?.map some
def optHex? (s : String) : Option (Option Nat) := if s = "none" then some none else (parseHexNat s).map some
def expected? (s : String) : Option Expected :=
  match s with
  | "any" => some .any | "exists" => some .exists_ | "empty" => some .empty
  | _ => s.toNat?.map .exact
def tok? (s : String) : Option Tok := (unhex s).map tokOf
def text? (s : String) : Option (List Char) :=
  match tok? s with | some (.text cs) => some cs | _ => none

def opts? : List String → Option AppendOpts
  | [id, pk, ev, ts, pl, md] =>
    match optHex? id, optHex? pk, expected? ev, optNat? ts, tok? pl, tok? md with
    | some id, some pk, some ev, some ts, some pl, some md =>
      some { eventId := id, partitionKey := pk, expected := ev, timestamp := ts, payload := pl, metadata := md }
    | _, _, _, _, _, _ => none
  | _ => none

/-- events of `emappend`: groups of 8 tokens (stream name + 6 option fields) -/
def events? : List String → Option (List (List Char × List Char × AppendOpts))
  | [] => some []
  | s :: n :: a :: b :: c :: d :: e :: f :: rest =>
    match text? s, text? n, opts? [a, b, c, d, e, f], events? rest with
    | some s, some n, some o, some r => some ((s, n, o) :: r)
    | _, _, _, _ => none
  | _ => none

def clientCmd? : List String → Option ClientCmd
  | "eappend" :: s :: n :: o =>
    match text? s, text? n, opts? o with | some s, some n, some o => some (.eappend s n o) | _, _, _ => none
  | "emappend" :: pk :: evs =>
    match parseHexNat pk, events? evs with | some pk, some e => some (.emappend pk e) | _, _ => none
  | ["eget", id] => (parseHexNat id).map .eget
  | ["epscan_key", k, a, b, c] =>
    match parseHexNat k, a.toNat?, optNat? b, optNat? c with | some k, some a, some b, some c => some (.epscanByKey k a b c) | _, _, _, _ => none
  | ["epscan_id", p, a, b, c] =>
    match p.toNat?, a.toNat?, optNat? b, optNat? c with | some p, some a, some b, some c => some (.epscanById p a b c) | _, _, _, _ => none
  | ["escan", s, pk, a, b, c] =>
    match text? s, optHex? pk, a.toNat?, optNat? b, optNat? c with
    | some s, some pk, some a, some b, some c => some (.escan s pk a b c) | _, _, _, _, _ => none
  | ["epseq_key", k] => (parseHexNat k).map .epseqByKey
  | ["epseq_id", p] => p.toNat?.map .epseqById
  | ["esver", s, pk] => match text? s, optHex? pk with | some s, some pk => some (.esver s pk) | _, _ => none
  | ["esub_opts", s, pk, f, w] =>
    match text? s, optHex? pk, optNat? f, optNat? w with | some s, some pk, some f, some w => some (.esubOpts s pk f w) | _, _, _, _ => none
  | ["esub_latest", s] => (text? s).map .esubFromLatest
  | ["epsub_id", p, f, w] =>
    match p.toNat?, optNat? f, optNat? w with | some p, some f, some w => some (.epsubById p f w) | _, _, _ => none
  | ["epsub_key", k, f, w] =>
    match parseHexNat k, optNat? f, optNat? w with | some k, some f, some w => some (.epsubByKey k f w) | _, _, _ => none
  | ["epsub_range", a, b, f, w] =>
    match a.toNat?, b.toNat?, optNat? f, optNat? w with | some a, some b, some f, some w => some (.epsubRange a b f w) | _, _, _, _ => none
  | ["epsub_all", f, w] =>
    match (if f = "latest" then some ClientFrom.latest else f.toNat?.map .seq), optNat? w with
    | some f, some w => some (.epsubAll f w) | _, _ => none
  | ["eack", id, n] => match parseHexNat id, n.toNat? with | some id, some n => some (.eack id n) | _, _ => none
  | _ => none

def c21 : List String → String
  | "emit" :: rest =>
    match clientCmd? rest with
    | some k => joinWith " " (k.emit.map hexTok)
    | none => "bad-op"
  | "parse" :: cmd :: toks =>
    match cmdOf cmd, toks.mapM unhex with
    | some c, some bs =>
      match parse c (bs.map tokOf) with
      | .ok r => showRequest r
      | .error _ => "err"
    | _, _ => "bad-op"
  | _ => "bad-op"

end Driver.Grammar
