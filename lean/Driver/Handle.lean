import Driver.Grammar
import SierraModel.Server.Handle

/-! driver for C22:
`c22 cfg <numPartitions> <numBuckets>`                      → `ok` (fresh state)
`c22 reset`                                                 → `ok` (empty state, same cfg)
`c22 req <strict 0|1> <derivedKey hex|-> <nowMs> <txId hex> <subId hex> <genId hex>,… | <CMD> <hex token>…`
   → the canonical reply text (the same text harness/src/c22.rs prints for the real server's reply);
   an unknown command (`?` or any other name) and an argument vector the C21 parser model rejects are
   `err INVALIDARG` (`Command::try_from`, `handle_commands!`). -/
namespace Driver.Handle
open SierraModel.Server
open Driver.Grammar

structure St where
  cfg : Cfg := { numPartitions := 0, numBuckets := 1 }
  st : ServerState := {}

def errTxt : ErrCode → String
  | .invalidArg => "INVALIDARG" | .wrongVer => "WRONGVER" | .dbOpFailed => "DBOPFAILED"
  | .clusterDown => "CLUSTERDOWN" | .notFound => "NOTFOUND"

def evTxt (e : SEv) : String :=
  s!"[{uuidHex e.ev.eid} {uuidHex e.ev.pkey} {e.ev.pid} {uuidHex e.ev.tx} {e.ev.seq} {e.ev.version} {e.x.tsMs} " ++
  s!"{hexChars e.x.stream} {hexChars e.x.name} {hexTok e.x.metadata} {hexTok e.x.payload}]"

def respTxt : Response → String
  | .trap => "dead"
  | .err c => s!"err {errTxt c}"
  | .null => "null"
  | .num n => s!"num {n}"
  | .appended eid pk pid seq v ts => s!"appended {uuidHex eid} {uuidHex pk} {pid} {seq} {v} {ts}"
  | .mappended pk pid f l evs =>
    s!"mappended {uuidHex pk} {pid} {f} {l}" ++
      String.join (evs.map (fun (x : Nat × List Char × Nat × Nat) => s!" [{uuidHex x.1} {hexChars x.2.1} {x.2.2.1} {x.2.2.2}]"))
  | .event e => s!"event {evTxt e}"
  | .events hm es => s!"scan {hm}" ++ String.join (es.map (fun e => " " ++ evTxt e))
  | .subscribed id => s!"sub {uuidHex id}"
  | .ok => "ok"

def hexList? (s : String) : Option (List Nat) :=
  if s = "-" then some [] else (s.splitOn ",").mapM parseHexNat

def inputs? : List String → Option Inputs
  | [strict, dk, now, tx, sub, gen] =>
    match (if strict = "0" then some false else if strict = "1" then some true else none),
          (if dk = "-" then some 0 else parseHexNat dk), now.toNat?, parseHexNat tx, parseHexNat sub, hexList? gen with
    | some s, some dk, some now, some tx, some sub, some gen =>
      some { strict := s, derivedKey := dk, nowMs := now, txId := tx, subId := sub, genIds := gen }
    | _, _, _, _, _, _ => none
  | _ => none

/-- number of events of a request that carry no EVENT_ID (the generated ids must match) -/
def needGen : Request → Nat
  | .eappend e => if e.eventId.isNone then 1 else 0
  | .emappend _ es => (es.filter (·.eventId.isNone)).length
  | _ => 0

def splitBar : List String → List String → Option (List String × List String)
  | [], _ => none
  | "|" :: rest, acc => some (acc.reverse, rest)
  | t :: rest, acc => splitBar rest (t :: acc)

def c22 (s : St) : List String → St × String
  | ["cfg", n, b] =>
    match n.toNat?, b.toNat? with
    | some n, some b => ({ cfg := { numPartitions := n, numBuckets := b }, st := {} }, "ok")
    | _, _ => (s, "bad-op")
  | ["reset"] => ({ s with st := {} }, "ok")
  | "req" :: rest =>
    match splitBar rest [] with
    | some (ins, cmd :: toks) =>
      match inputs? ins, cmdOf cmd, toks.mapM unhex with
      | some _, none, some _ => (s, "err INVALIDARG")
      | some inp, some c, some bs =>
        match parse c (bs.map tokOf) with
        | .error _ => (s, "err INVALIDARG")
        | .ok r =>
          if needGen r != inp.genIds.length then (s, "bad-op")
          else
            let (st', resp) := handle s.cfg s.st inp r
            ({ s with st := st' }, respTxt resp)
      | _, _, _ => (s, "bad-op")
    | _ => (s, "bad-op")
  | _ => (s, "bad-op")

end Driver.Handle
