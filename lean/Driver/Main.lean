/-
modeldrv — executable driver of the Lean models.  One operation per input line, one canonical
result per output line.  Imports model files only (no Mathlib), so it links as a native exe.
-/
import Driver.Pure

open Driver

partial def loop (h : IO.FS.Stream) (out : IO.FS.Stream) : IO Unit := do
  let line ← h.getLine
  if line.isEmpty then return ()
  let toks := (line.trimAscii.toString.splitOn " ").filter (· ≠ "")
  let r := match toks with
    | "c24" :: rest => Pure.c24 rest
    | "c25" :: rest => Pure.c25 rest
    | "c23" :: rest => Pure.c23 rest
    | _ => "bad-op"
  out.putStrLn r
  loop h out

def main : IO Unit := do
  let stdin ← IO.getStdin
  let stdout ← IO.getStdout
  loop stdin stdout
