/-
modeldrv — executable driver of the Lean models.  One operation per input line, one canonical
result per output line.  Imports model files only (no Mathlib), so it links as a native exe.
-/
import Driver.Pure
import Driver.Topo

open Driver

structure DState where
  mgrs : List (Nat × SierraModel.Topology.Mgr) := []

def step (st : DState) (toks : List String) : DState × String :=
  match toks with
  | "c24" :: rest => (st, Pure.c24 rest)
  | "c25" :: rest => (st, Pure.c25 rest)
  | "c23" :: rest => (st, Pure.c23 rest)
  | "c13" :: rest => (st, Topo.c13 rest)
  | "c14" :: rest => let (m, r) := Topo.c14 st.mgrs rest; ({ st with mgrs := m }, r)
  | _ => (st, "bad-op")

partial def loop (h : IO.FS.Stream) (out : IO.FS.Stream) (st : DState) : IO Unit := do
  let line ← h.getLine
  if line.isEmpty then return ()
  let toks := (line.trimAscii.toString.splitOn " ").filter (· ≠ "")
  let (st', r) := step st toks
  out.putStrLn r
  loop h out st'

def main : IO Unit := do
  let stdin ← IO.getStdin
  let stdout ← IO.getStdout
  loop stdin stdout {}
