/-
modeldrv — executable driver of the Lean models.  One operation per input line, one canonical
result per output line.  Imports model files only (no Mathlib), so it links as a native exe.
-/
import Driver.Pure
import Driver.Topo
import Driver.Seglog
import Driver.Watermark
import Driver.Breaker
import Driver.Queue
import Driver.Grammar
import Driver.Store
import Driver.Handle
import Driver.Craft
import Driver.ReadGate
import Driver.Subscription
import Driver.Protocol

open Driver

structure DState where
  mgrs : List (Nat × SierraModel.Topology.Mgr) := []
  sl : Driver.Seglog.St := {}
  wm : Driver.Watermark.St := {}
  breaker : Option SierraModel.Breaker.Sys := none
  c12 : Driver.Queue.St := {}
  store : Driver.Store.St := {}
  c22 : Driver.Handle.St := {}
  craft : Driver.Craft.St := {}
  c07 : Driver.ReadGate.St := {}
  c09 : Option SierraModel.Subscription.Sys := none
  c10 : Driver.Protocol.St := {}

def step (st : DState) (toks : List String) : DState × String :=
  match toks with
  | "c24" :: rest => (st, Pure.c24 rest)
  | "c25" :: rest => (st, Pure.c25 rest)
  | "c23" :: rest => (st, Pure.c23 rest)
  | "c13" :: rest => (st, Topo.c13 rest)
  | "c14" :: rest => let (m, r) := Topo.c14 st.mgrs rest; ({ st with mgrs := m }, r)
  | "c10" :: rest => let (p, r) := Protocol.c10 st.c10 rest; ({ st with c10 := p }, r)
  | "c09" :: rest => let (c, r) := Subscription.c09 st.c09 rest; ({ st with c09 := c }, r)
  | "c07" :: rest => let (g, r) := ReadGate.c07 st.c07 rest; ({ st with c07 := g }, r)
  | "rd" :: rest => let (c, r) := Craft.step st.craft rest; ({ st with craft := c }, r)
  | "c22" :: rest => let (h, r) := Handle.c22 st.c22 rest; ({ st with c22 := h }, r)
  | "c26" :: rest => let (b, r) := Breaker.c26 st.breaker rest; ({ st with breaker := b }, r)
  | "c12" :: rest => let (q, r) := Queue.c12 st.c12 rest; ({ st with c12 := q }, r)
  | "c21" :: rest => (st, Grammar.c21 rest)
  | "st" :: rest => let (s, r) := Store.step st.store rest; ({ st with store := s }, r)
  | "wm" :: rest => let (w, r) := Watermark.wm st.wm rest; ({ st with wm := w }, r)
  | "sl" :: rest => let (s, r) := Seglog.step st.sl rest; ({ st with sl := s }, r)
  | _ => (st, "bad-op")

partial def loop (h : IO.FS.Stream) (out : IO.FS.Stream) (st : DState) : IO Unit := do
  let line ← h.getLine
  if line.isEmpty then return ()
  let toks := (line.trimAscii.toString.splitOn " ").filter (· ≠ "")
  let (st', r) := step st toks
  out.putStrLn r
  loop h out st'

def main : IO Unit := do
  let stdin ← IO.getStdin
  let stdout ← IO.getStdout
  loop stdin stdout {}
