import Driver.Pure
import SierraModel.Cluster.Protocol

/-! Driver of C10 / C11 (`c10 …`): ONE node of the protocol model — the replica under test (and, for
`exec`, a single-node coordinator) — driven by the messages the harness delivers to the real
`PartitionReplicatorActor` / `ClusterActor`.  Lines `c10 co …` are actions of the harness's scripted
coordinators on their own databases: no effect on this node, answered `-`. -/
namespace Driver.Protocol
open SierraModel.Protocol

structure St where
  rf : Nat := 3
  me : Nat := 2
  node : Option Node := none

def insertBuf (e : BufE) : List BufE → List BufE
  | [] => [e]
  | x :: xs => if e.key ≤ x.key then e :: x :: xs else x :: insertBuf e xs

def showLog (l : List Entry) : String := joinWith "," (l.map (fun e => s!"{e.tx}:{e.cnt}"))

def digest (n : Node) : String :=
  let buf := (n.buf.foldl (fun acc e => insertBuf e acc) []).map (fun e => s!"{e.key}:{e.tx}:{e.senders.length}")
  s!"log=[{showLog n.log}] next={n.next} buf=[{joinWith "," buf}] catching={n.catching}"

/-- (asker, tx, seq, ok) ordered lexicographically, `false < true` -/
def leAns (a b : Nat × Nat × Nat × Bool) : Bool :=
  if a.1 != b.1 then a.1 < b.1
  else if a.2.1 != b.2.1 then a.2.1 < b.2.1
  else if a.2.2.1 != b.2.2.1 then a.2.2.1 < b.2.2.1
  else (!a.2.2.2) || b.2.2.2

def insertAns (a : Nat × Nat × Nat × Bool) : List (Nat × Nat × Nat × Bool) → List (Nat × Nat × Nat × Bool)
  | [] => [a]
  | x :: xs => if leAns a x then a :: x :: xs else x :: insertAns a xs

def showOut (out : List Msg) : String :=
  let rs := out.filterMap (fun m => match m with
    | .reply _ dst t s ok => some (dst, t, s, ok)
    | _ => none)
  let rs := rs.foldl (fun acc a => insertAns a acc) []
  "out=[" ++ joinWith "," (rs.map (fun a => s!"{a.1}:{a.2.1}:{a.2.2.1}:{a.2.2.2}")) ++ "]"

def parseCommits : List String → Option (List Commit)
  | [] => some []
  | t :: s :: c :: rest => do
    let t ← t.toNat?; let s ← s.toNat?; let c ← c.toNat?
    let cs ← parseCommits rest
    pure (⟨t, s, c⟩ :: cs)
  | _ => none

def others (rf me : Nat) : List Nat := (List.range rf).filter (· != me)

def result (st : St) (n : Node) (pre : String) (out : List Msg) : St × String :=
  ({ st with node := some n }, s!"{pre}{showOut out} | {digest n}")

def c10 (st : St) : List String → St × String
  | ["new", rf, me] =>
    match rf.toNat?, me.toNat? with
    | some rf, some me => result { st with rf := rf, me := me } {} "" []
    | _, _ => (st, "bad-op")
  | "co" :: _ => (st, "-")
  | ["quorum", rf] =>
    -- `run` with no reachable replica: one copy; acknowledged iff the quorum is 1
    match rf.toNat? with
    | some rf => (st, if quorum rf ≤ 1 then "ack 1" else s!"noquorum {quorum rf}")
    | none => (st, "bad-op")
  | toks =>
    match st.node with
    | none => (st, "bad-op")
    | some n =>
      let q := quorum st.rf
      match toks with
      | ["rw", src, t, s] =>
        match src.toNat?, t.toNat?, s.toNat? with
        | some src, some t, some s => let r := onReplicate q st.me n src t s; result st r.1 "" r.2
        | _, _, _ => (st, "bad-op")
      | ["gaps"] =>
        let r := onGaps st.me n
        result st r.1 (if r.2.isEmpty then "none " else "req ") r.2
      | "sync" :: _ :: _ :: _ :: _ :: "|" :: cnt :: rest =>
        match cnt.toNat?, parseCommits rest with
        | some k, some cs =>
          if cs.length = k then let r := onSyncResp q false st.me n cs.length cs; result st r.1 "" r.2 else (st, "bad-op")
        | _, _ => (st, "bad-op")
      | ["syncfail"] => result st { n with catching := false } "" []
      | ["local", t] =>
        match t.toNat? with
        | some t =>
          -- the local append of `run`; without a reachable replica no task survives
          match onStart st.rf st.me n t (others st.rf st.me) with
          | some (n', _, _) => result st { n' with tasks := n.tasks } "" []
          | none => (st, "bad-op")
        | none => (st, "bad-op")
      | ["confirm", t, _, c] =>
        match t.toNat?, c.toNat? with
        | some t, some c =>
          result st (onConfirm n t c) (if (findTx n.log t).isSome then "found " else "notfound ") []
        | _, _ => (st, "bad-op")
      | ["restart"] =>
        -- the asks still buffered fail on the asker's side when the actor goes away
        let lost := n.buf.flatMap (fun e => replyAll st.me e.senders e.tx e.key false)
        result st { n with buf := [], catching := false, tasks := [], next := n.log.length } "" lost
      | ["exec", t] =>
        match t.toNat? with
        | some t =>
          match onStart st.rf st.me n t [] with
          | some (n', _, sq) =>
            match n'.tasks.findIdx? (fun tk => tk.tx == t) with
            | some k =>
              match n'.tasks[k]? with
              | some tk =>
                match onFinish st.me n' k tk with
                | some r => ({ st with node := some { r.1 with tasks := [] } }, s!"ack:{sq} | log=[{showLog r.1.log}]")
                | none => ({ st with node := some n' }, s!"err:not-counted | log=[{showLog n'.log}]")
              | none => (st, "bad-op")
            | none => ({ st with node := some n' }, s!"err:no-quorum | log=[{showLog n'.log}]")
          | none => (st, s!"err:insufficient-replicas | log=[{showLog n.log}]")
        | none => (st, "bad-op")
      | _ => (st, "bad-op")

end Driver.Protocol
