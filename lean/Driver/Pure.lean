import SierraModel.Topology.Distribute
import SierraModel.Store.Version
import SierraModel.Id.Uuid

namespace Driver

def joinWith (sep : String) (xs : List String) : String := sep.intercalate xs

def hexVal (c : Char) : Option Nat :=
  if '0' ≤ c ∧ c ≤ '9' then some (c.toNat - 48)
  else if 'a' ≤ c ∧ c ≤ 'f' then some (c.toNat - 87)
  else none

def parseHexNat (s : String) : Option Nat :=
  s.toList.foldl (fun acc c => match acc, hexVal c with
    | some a, some v => some (a * 16 + v)
    | _, _ => none) (some 0)

def hexDigit (n : Nat) : Char := if n < 10 then Char.ofNat (48 + n) else Char.ofNat (87 + n)

def toHexFixed (width : Nat) (n : Nat) : String :=
  String.ofList ((List.range width).reverse.map (fun i => hexDigit ((n >>> (4 * i)) % 16)))

namespace Pure
open SierraModel

def c24 : List String → String
  | [h, n, rf] =>
    match h.toNat?, n.toNat?, rf.toNat? with
    | some h, some n, some rf =>
      if h < 65536 ∧ n < 65536 ∧ rf < 256 then
        match Topology.distribute h n rf with
        | some l => "ok " ++ joinWith "," (l.map toString)
        | none => "trap"
      else "bad-op"
    | _, _, _ => "bad-op"
  | _ => "bad-op"

open Version in
def parseExpected (s : String) : Option Expected :=
  match s with
  | "any" => some .any
  | "exists" => some .exists_
  | "empty" => some .empty
  | _ => (s.toNat?).bind (fun v => if v ≤ U64_MAX then some (.exact v) else none)

open Version in
def parseCurrent (s : String) : Option Current :=
  match s with
  | "empty" => some .empty
  | _ => (s.toNat?).bind (fun v => if v ≤ U64_MAX then some (.current v) else none)

open Version in
def showExpected : Expected → String
  | .any => "any" | .exists_ => "exists" | .empty => "empty" | .exact v => toString v

open Version in
def showGap : Gap → String
  | .none => "none" | .ahead n => s!"ahead:{n}" | .behind n => s!"behind:{n}" | .incompatible => "incompatible"

open Version in
def c25 : List String → String
  | ["gap", e, c] =>
    match parseExpected e, parseCurrent c with
    | some e, some c =>
      (match gapFrom e c with | some g => showGap g | none => "trap") ++ " " ++
      (match isSatisfiedBy e c with | some b => toString b | none => "trap")
    | _, _ => "bad-op"
  | ["store", e, c] =>
    match parseExpected e, parseCurrent c with
    | some e, some c => toString (storeAccepts e c)
    | _, _ => "bad-op"
  | ["fromnext", v] =>
    match v.toNat? with
    | some v => if v ≤ U64_MAX then (match fromNext v with | some e => showExpected e | none => "trap") else "bad-op"
    | none => "bad-op"
  | ["intonext", e] =>
    match parseExpected e with
    | some e => (match intoNext e with | .some v => s!"some:{v}" | .none => "none" | .panic => "panic")
    | none => "bad-op"
  | ["next", c] =>
    match parseCurrent c with
    | some c => (match c.next with | some v => toString v | none => "trap")
    | none => "bad-op"
  | ["display", e] =>
    match parseExpected e with
    | some e => String.ofList (display e)
    | none => "bad-op"
  | ["parse", hx] =>   -- argument: hex of the UTF-8 bytes ("-" = empty)
    match (if hx = "-" then some [] else
        let cs := hx.toList
        let rec go : List Char → Option (List Char)
          | a :: b :: rest => match hexVal a, hexVal b, go rest with
            | some x, some y, some r => some (Char.ofNat (x * 16 + y) :: r)
            | _, _, _ => none
          | [] => some []
          | _ => none
        go cs) with
    | some s => (match parse s with | some e => "ok " ++ showExpected e | none => "err")
    | none => "bad-op"
  | _ => "bad-op"

open Id in
def c23 : List String → String
  | ["mk", ts, r12, h, r46] =>
    match parseHexNat ts, parseHexNat r12, parseHexNat h, parseHexNat r46 with
    | some ts, some r12, some h, some r46 =>
      let u := mkId (BitVec.ofNat 64 ts) (BitVec.ofNat 16 r12) (BitVec.ofNat 16 h) (BitVec.ofNat 64 r46)
      toHexFixed 32 u.toNat
    | _, _, _, _ => "bad-op"
  | ["hash", u] =>
    match parseHexNat u with
    | some u => toString (hashOf (BitVec.ofNat 128 u)).toNat
    | none => "bad-op"
  | ["flag", u, b] =>
    match parseHexNat u with
    | some u =>
      let u := BitVec.ofNat 128 u
      let s := setFlag u (b == "1")
      s!"{toHexFixed 32 s.toNat} {getFlag s} {getFlag u}"
    | none => "bad-op"
  | ["route", u, p, b] =>
    match parseHexNat u, p.toNat?, b.toNat? with
    | some u, some p, some b =>
      if p = 0 ∨ b = 0 then "bad-op" else
      let u := BitVec.ofNat 128 u
      let pid := partitionOf u p
      s!"{pid} {bucketOf pid b} {extractEventIdBucket u b} {partitionIdToBucket pid b}"
    | _, _, _ => "bad-op"
  | "tx" :: key :: ids =>
    match parseHexNat key, ids.mapM parseHexNat with
    | some k, some ids => toString (txValid (BitVec.ofNat 128 k) (ids.map (BitVec.ofNat 128)))
    | _, _ => "bad-op"
  | _ => "bad-op"

end Pure
end Driver
