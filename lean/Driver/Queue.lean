import Driver.Pure
import SierraModel.Cluster.Replicator

/-! Driver of C12: `c12 q …` = the bare `OrderedQueue`, `c12 r …` = the replicator state machine. -/
namespace Driver.Queue
open SierraModel.Cluster

structure St where
  q : Option (OQueue BW) := none
  r : Option Rep := none

def showRids (ss : List Sender) : String := joinWith "." (ss.map (fun s => toString s.rid))

/-- `tx:n:rid.rid…` -/
def showBW (w : BW) : String := s!"{w.tx}:{w.n}:{showRids w.senders}"

def showEntry (e : Nat × BW) : String := s!"{e.1}:{showBW e.2}"

def showMap (m : AMap BW) : String := "[" ++ joinWith "," (m.map showEntry) ++ "]"

def qDigest (q : OQueue BW) : String := s!"next={q.next} map={showMap q.map}"

def showInsert : InsertOut BW → String
  | .ready v m => s!"ready merged={m} v={showBW v}"
  | .buffered m none => s!"buffered merged={m} ev=-"
  | .buffered m (some e) => s!"buffered merged={m} ev={showEntry e}"
  | .conflict v => s!"conflict v={showBW v}"
  | .full k v => s!"full k={k} v={showBW v}"
  | .stale k v => s!"stale k={k} v={showBW v}"
  | .trap => "trap"

def showAns : Ans → String
  | .applied f l => s!"applied@{f}-{l}"
  | .dbFailed => "dbfailed"
  | .stale => "stale"
  | .conflict => "conflict"
  | .full => "full"
  | .evicted => "evicted"
  | .dropped => "dropped"

def insertByRid (x : Nat × Ans) : List (Nat × Ans) → List (Nat × Ans)
  | [] => [x]
  | y :: ys => if x.1 ≤ y.1 then x :: y :: ys else y :: insertByRid x ys

def rDigest (st : Rep) : String :=
  let log := joinWith "," (st.log.map (fun e => s!"{e.first}:{e.tx}:{e.n}"))
  let ans := (st.answers.foldl (fun acc x => insertByRid x acc) []).map (fun a => s!"{a.1}:{showAns a.2}")
  s!"next={st.q.next} dbnext={st.dbNext} log=[{log}] buf={showMap st.q.map} ans=[{joinWith "," ans}] catching={st.catchingUp} trapped={st.trapped}"

def showGap : Rep.GapOut → String
  | .notPermitted => "not-permitted"
  | .empty => "empty"
  -- the gap size / requested range are not observable on the real actor (they leave it in a remote
  -- ask): only the decision is compared
  | .noAction _ => "no-action"
  | .catchUp _ _ => "catch-up"
  | .trap => "trap"

def U64 : Nat := 18446744073709551616

def c12 (st : St) : List String → St × String
  | ["q", "new", next, limit] =>
    match next.toNat?, limit.toNat? with
    | some next, some limit =>
      if limit = 0 ∨ next ≥ U64 then (st, "bad-op") else
      let q : OQueue BW := OQueue.new next limit
      ({ st with q := some q }, qDigest q)
    | _, _ => (st, "bad-op")
  | ["q", "ins", key, tx, n, rid] =>
    match st.q, key.toNat?, tx.toNat?, n.toNat?, rid.toNat? with
    | some q, some key, some tx, some n, some rid =>
      if key ≥ U64 then (st, "bad-op") else
      let (q', o) := q.insert key { key := key, tx := tx, n := n, senders := [⟨rid, 0⟩] }
      ({ st with q := some q' }, s!"{showInsert o} | {qDigest q'}")
    | _, _, _, _, _ => (st, "bad-op")
  | ["q", "pop"] =>
    match st.q with
    | some q =>
      let (q', o) := q.pop
      let os := match o with | none => "none" | some v => s!"some {showBW v}"
      ({ st with q := some q' }, s!"{os} | {qDigest q'}")
    | none => (st, "bad-op")
  | ["q", "prog", next] =>
    match st.q, next.toNat? with
    | some q, some next =>
      if next ≥ U64 then (st, "bad-op") else
      let (q', stale) := q.progressTo next
      ({ st with q := some q' }, s!"stale={showMap stale} | {qDigest q'}")
    | _, _ => (st, "bad-op")
  | ["r", "new", next, limit, timeout] =>
    match next.toNat?, limit.toNat?, timeout.toNat? with
    | some next, some limit, some timeout =>
      if limit = 0 ∨ next ≥ U64 then (st, "bad-op") else
      let r := Rep.new next limit timeout
      ({ st with r := some r }, rDigest r)
    | _, _, _ => (st, "bad-op")
  | ["r", "del", now, key, tx, n, rid] =>
    match st.r, now.toNat?, key.toNat?, tx.toNat?, n.toNat?, rid.toNat? with
    | some r, some now, some key, some tx, some n, some rid =>
      if n = 0 ∨ key ≥ U64 then (st, "bad-op") else
      let r' := r.deliver now key tx n rid
      ({ st with r := some r' }, rDigest r')
    | _, _, _, _, _, _ => (st, "bad-op")
  | ["r", "gaps", now, permitted] =>
    match st.r, now.toNat?, permitted with
    | some r, some now, "1" => let (r', o) := r.detectGaps now true; ({ st with r := some r' }, s!"{showGap o} | {rDigest r'}")
    | some r, some now, "0" => let (r', o) := r.detectGaps now false; ({ st with r := some r' }, s!"{showGap o} | {rDigest r'}")
    | _, _, _ => (st, "bad-op")
  | _ => (st, "bad-op")

end Driver.Queue
