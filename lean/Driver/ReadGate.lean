import Driver.Pure
import SierraModel.Cluster.ReadGate

/-! Driver of the read-gate model (C07).  Sub-ops after the `c07` token:
  `log <rf> <wm> <npre> <tx>*`  tx = `s1.s2…:c0:c1|-` — the partition log the history produces
      (sequence = position, version = number of earlier events of the stream, count = c1, else c0);
      `npre` (how many transactions were on disk before the cluster initialised) concerns only
      the harness; answers `ok n=<events> defwm=<defWm>`
  `ev <seq|x> <nf>` · `part <start> <end|-> <count>` · `stream <s> <start> <end|-> <count>` ·
  `sver <s>` · `pseq`   — the five handlers on the current (log, wm, rf);
  `scanp <start>` · `scans <s> <start>` · `scanr <s>` — the store-scan interface of the model
  (`fwdPart`, `fwdStream`, `revStream`): the groups, compared with what the real `Database` iterators yield.
Every event of the log carries partition id 0 = the requested partition (a stream number the log does
not contain stands for a stream of ANOTHER partition of the bucket: the handlers must answer empty).
The harness runs single-segment partitions: the store never cuts a batch short (`cut = u64::MAX`).
-/
namespace Driver.ReadGate
open SierraModel.Cluster SierraModel.Cluster.ReadGate

structure St where
  log : Log := []
  wm : Nat := 0
  rf : Nat := 0
  ready : Bool := false

def u64? (s : String) : Option Nat := s.toNat?.bind (fun n => if n ≤ U64_MAX then some n else none)
def u8? (s : String) : Option Nat := s.toNat?.bind (fun n => if n ≤ U8_MAX then some n else none)
def optU64? (s : String) : Option (Option Nat) := if s = "-" then some none else (u64? s).map some

/-- (streams, final count) of one transaction token -/
def parseTx (s : String) : Option (List Nat × Nat) :=
  match s.splitOn ":" with
  | [ss, c0, c1] =>
    match (ss.splitOn ".").mapM u64?, u8? c0, (if c1 = "-" then some none else (u8? c1).map some) with
    | some streams, some c0, some c1 => if streams.isEmpty then none else some (streams, c1.getD c0)
    | _, _, _ => none
  | _ => none

def buildLog (txs : List (List Nat × Nat)) : Log :=
  let step := fun (acc : Log × Nat) (t : List Nat × Nat) =>
    let log := t.1.foldl (fun (l : Log) s =>
      l ++ [{ seq := l.length, stream := s, version := (l.filter (·.stream == s)).length, tx := acc.2, count := t.2 }]) acc.1
    (log, acc.2 + 1)
  (txs.foldl step ([], 0)).1

def cutNone : Nat → Nat := fun _ => U64_MAX

def showOpt : Option Nat → String
  | some v => s!"some {v}"
  | none => "none"

def showScan (f : Ev → String) : Out Scan → String
  | .trap => "trap"
  | .ok r => s!"[{joinWith "," (r.events.map f)}] more={r.hasMore}"

/-- the groups of a store scan: `[s1,s2][s3]…` (partition sequences) -/
def showGroups (gs : List (List Ev)) : String :=
  String.join (gs.map (fun g => s!"[{joinWith "," (g.map (fun e => toString e.seq))}]"))

def c07 (st : St) : List String → St × String
  | "log" :: rf :: wm :: npre :: txs =>
    match u8? rf, u64? wm, npre.toNat?, txs.mapM parseTx with
    | some rf, some wm, some npre, some txs =>
      if npre > txs.length then (st, "bad-op") else
      let log := buildLog txs
      ({ log := log, wm := wm, rf := rf, ready := true }, s!"ok n={log.length} defwm={defWm log rf}")
    | _, _, _, _ => (st, "bad-op")
  | rest =>
    if !st.ready then (st, "bad-op") else
    match rest with
    | ["ev", id, nf] =>
      match (if id = "x" then some st.log.length else u64? id), u8? nf with
      | some id, some nf =>
        (st, match readEvent st.log st.wm st.rf id nf with
             | .trap => "trap" | .ok none => "none" | .ok (some e) => s!"some {e.seq}")
      | _, _ => (st, "bad-op")
    | ["part", a, b, c] =>
      match u64? a, optU64? b, u64? c with
      | some a, some b, some c => (st, showScan (fun e => toString e.seq) (readPartition cutNone st.log st.wm a b c))
      | _, _, _ => (st, "bad-op")
    | ["stream", s, a, b, c] =>
      match u64? s, u64? a, optU64? b, u64? c with
      | some s, some a, some b, some c =>
        (st, showScan (fun e => s!"{e.seq}:{e.version}") (readStream cutNone st.log 0 st.wm s a b c))
      | _, _, _, _ => (st, "bad-op")
    | ["sver", s] =>
      match u64? s with
      | some s => (st, match getStreamVersion cutNone st.log 0 st.wm s with | .trap => "trap" | .ok v => showOpt v)
      | none => (st, "bad-op")
    | ["scanp", a] =>
      match u64? a with
      | some a => (st, showGroups (fwdPart st.log a))
      | none => (st, "bad-op")
    | ["scans", s, a] =>
      match u64? s, u64? a with
      | some s, some a => (st, showGroups (fwdStream st.log s a))
      | _, _ => (st, "bad-op")
    | ["scanr", s] =>
      match u64? s with
      | some s => (st, showGroups (revStream st.log s))
      | none => (st, "bad-op")
    | ["pseq"] => (st, match getPartitionSequence st.wm with | .trap => "trap" | .ok v => showOpt v)
    | _ => (st, "bad-op")

end Driver.ReadGate
