import Driver.Pure
import SierraModel.Seglog.Sys

namespace Driver.Seglog
open SierraModel.Seglog

def parseHexBytes (s : String) : Option Bytes :=
  if s = "-" then some [] else
  let rec go : List Char → Option Bytes
    | a :: b :: rest => match hexVal a, hexVal b, go rest with
      | some x, some y, some r => some (UInt8.ofNat (x * 16 + y) :: r)
      | _, _, _ => none
    | [] => some []
    | _ => none
  go s.toList

def hexOfBytes (b : Bytes) : String :=
  if b.isEmpty then "-" else String.ofList (b.flatMap (fun x => [hexDigit (x.toNat / 16), hexDigit (x.toNat % 16)]))

/-- FNV-1a 64 over a byte list (cheap content fingerprint, same function in the harness) -/
def fnv (b : Bytes) : Nat :=
  b.foldl (fun h x => ((h ^^^ x.toNat) * 1099511628211) % 18446744073709551616) 14695981039346656037

def showErr : RdErr → String
  | .crc => "crc" | .oob => "oob" | .trunc => "trunc" | .io => "io"

def showRec (r : Rec) : String :=
  s!"ok len={r.len} c={if r.compressed then 1 else 0} hdr={hexOfBytes r.hdr} stored={fnv r.stored}:{r.stored.length}"

def showRes : Except RdErr Rec → String
  | .ok r => showRec r
  | .error e => "err " ++ showErr e

structure St where
  sys : Option Sys := none
  recBytes : Bytes := []     -- current file image for corruption experiments
  recH : Nat := 0
  recStart : Nat := 0

def outcomes (H : Nat) (bytes : Bytes) (start : Nat) : String :=
  let r := parseAt H bytes bytes.length start
  let (recs, e) := iterFrom H bytes bytes.length bytes.length start
  let it := joinWith "," (recs.map (fun x => s!"{x.1}:{x.2.len}"))
  let o := recoverScan H bytes bytes.length bytes.length start
  s!"R={showRes r} I=[{it}]{match e with | some e => "!" ++ showErr e | none => ""} O={o}"

def flipBit (bytes : Bytes) (bit : Nat) : Bytes :=
  bytes.modify (bit / 8) (fun x => x ^^^ (UInt8.ofNat (1 <<< (bit % 8))))

def xorAt (bytes : Bytes) (off : Nat) (pat : Bytes) : Bytes :=
  (List.range pat.length).foldl (fun acc i => acc.modify (off + i) (fun x => x ^^^ (pat.getD i 0))) bytes

def showOut : Out → String
  | .unit => "ok"
  | .appended (.ok o l) => s!"ok {o} {l}"
  | .appended .full => "full"
  | .offs wo fl => s!"wo={wo} flushed={fl}"
  | .read r => showRes r
  | .replaced none => "ok"
  | .replaced (some e) => "err " ++ showErr e

/-- run one model operation (`Sys.step`) -/
def run (st : St) (op : Op) : St × String :=
  match st.sys with
  | some s => let (s', o) := s.step op; ({ st with sys := some s' }, showOut o)
  | none => (st, "bad-op")

def step (st : St) : List String → St × String
  | ["create", h, size, start] =>
    match h.toNat?, size.toNat?, start.toNat? with
    | some h, some size, some start => ({ st with sys := some (Sys.create h size start) }, "ok")
    | _, _, _ => (st, "bad-op")
  | ["append", hdr, data, z] =>
    match st.sys, parseHexBytes hdr, parseHexBytes data, parseHexBytes z with
    | some s, some hdr, some data, some z =>
      if hdr.length ≠ s.w.H then (st, "bad-op") else run st (.append hdr data z)
    | _, _, _, _ => (st, "bad-op")
  | ["flush"] => run st .flush
  | ["sync"] => run st .sync
  | ["setlen", off] => match off.toNat? with
    | some off => run st (.setLen off)
    | none => (st, "bad-op")
  | ["compress", b] => run st (.compress (b == "1"))
  | ["read", ri, off, hint] =>
    match ri.toNat?, off.toNat? with
    | some ri, some off => if hint == "R" then run st (.readRandom off) else if ri < 3 then run st (.readSeq ri off) else (st, "bad-op")
    | _, _ => (st, "bad-op")
  | ["iter", ri, off] =>
    -- iteration = repeated sequential reads (`Op.readSeq`) through reader ri
    match st.sys, ri.toNat?, off.toNat? with
    | some s, some ri, some off =>
      if ri ≥ 3 then (st, "bad-op") else
      let rec go (fuel : Nat) (s : Sys) (off : Nat) (acc : List String) : Sys × List String × String :=
        match fuel with
        | 0 => (s, acc, "fuel")
        | fuel + 1 =>
          match s.step (.readSeq ri off) with
          | (s', .read (.ok rc)) => go fuel s' (off + rc.len) (acc ++ [s!"{off}:{rc.len}:{fnv rc.stored}"])
          | (s', .read (.error .oob)) => (s', acc, "end")
          | (s', .read (.error .trunc)) => (s', acc, "end")
          | (s', .read (.error e)) => (s', acc, "!" ++ showErr e)
          | (s', _) => (s', acc, "bad")
      let (s', items, fin) := go (s.w.file.length + 1) s off []
      ({ st with sys := some s' }, s!"[{joinWith "," items}] {fin}")
    | _, _, _ => (st, "bad-op")
  | ["replace", ri, off, hdr] =>
    match st.sys, ri.toNat?, off.toNat?, parseHexBytes hdr with
    | some s, some _, some off, some hdr =>
      if hdr.length ≠ s.w.H then (st, "bad-op") else run st (.replace off hdr)
    | _, _, _, _ => (st, "bad-op")
  | ["fp"] => match st.sys with
    -- fingerprint of the published part of the file + the bookkeeping
    | some s => (st, s!"wo={s.w.writeOffset} flushed={s.w.flushed} fp={fnv (s.w.file.take s.w.flushed)}")
    | none => (st, "bad-op")
  | ["reopen", mode] => match st.sys with
    -- "drop": the writer is dropped (BufWriter flushes on drop, no sync); "crash": the process
    -- state is lost (buffered bytes never reach the OS).  Then `Writer::open` + fresh readers.
    | some s =>
      let w0 := if mode == "drop" then s.w.flushBuf else s.w
      let w' := Writer.openExisting s.w.H s.w.size s.start w0.file
      ({ st with sys := some { s with w := w', readers := [{}, {}, {}], recs := [] } }, s!"{w'.writeOffset}")
    | none => (st, "bad-op")
  | ["rec", h, start, hex] =>
    match h.toNat?, start.toNat?, parseHexBytes hex with
    | some h, some start, some b => ({ st with recBytes := b, recH := h, recStart := start }, outcomes h b start)
    | _, _, _ => (st, "bad-op")
  | ["flip", bit] => match bit.toNat? with
    | some bit => (st, outcomes st.recH (flipBit st.recBytes bit) st.recStart)
    | none => (st, "bad-op")
  | ["burst", off, pat] => match off.toNat?, parseHexBytes pat with
    | some off, some pat => (st, outcomes st.recH (xorAt st.recBytes off pat) st.recStart)
    | _, _ => (st, "bad-op")
  | ["trunc", k] => match k.toNat? with
    | some k => (st, outcomes st.recH (st.recBytes.take k) st.recStart)
    | none => (st, "bad-op")
  | ["crc", hex] => match parseHexBytes hex with
    | some b => (st, toString (crc32 b).toNat)
    | none => (st, "bad-op")
  | _ => (st, "bad-op")

end Driver.Seglog
