import Driver.Pure
import SierraModel.Store.Spec

namespace Driver.Store
open SierraModel.Store SierraModel.Version

structure St where
  nb : Nat := 1
  buckets : List (Nat × Bucket) := []
  names : List String := []          -- stream names; the model's stream id = position
  nextTx : Nat := 0
  saved : Option (List (Nat × Bucket)) := none

def kv (s : String) (k : String) : Option String :=
  if s.startsWith (k ++ "=") then some ((s.drop (k.length + 1)).toString) else none

def findKV (toks : List String) (k : String) : Option String := toks.findSome? (fun t => kv t k)

def nameId (st : St) (n : String) : St × Nat :=
  match st.names.idxOf? n with
  | some i => (st, i)
  | none => ({ st with names := st.names ++ [n] }, st.names.length)

def getBucket (st : St) (b : Nat) : Option Bucket := (st.buckets.find? (·.1 == b)).map (·.2)
def setBucket (st : St) (b : Nat) (bk : Bucket) : St :=
  { st with buckets := st.buckets.map (fun x => if x.1 == b then (b, bk) else x) }

def parseExp (s : String) : Option Expected :=
  match s with
  | "any" => some .any | "exists" => some .exists_ | "empty" => some .empty
  | _ => s.toNat?.map .exact

def parseEid (s : String) : Option Nat :=
  if s == "e-unknown" then some 1000000000 else if s.startsWith "e" then (s.drop 1).toString.toNat? else none

def showErr : Err → String
  | .wrongVersion => "WrongVersion" | .keyMismatch => "KeyMismatch" | .wrongSeq => "WrongSeq"
  | .tooLarge => "TooLarge" | .badTimestamp => "BadTimestamp" | .full => "Full"

def insertStr (x : String × Nat) : List (String × Nat) → List (String × Nat)
  | [] => [x]
  | y :: ys => if x.1 ≤ y.1 then x :: y :: ys else y :: insertStr x ys

def showGroups (gs : List (List Ev)) : String :=
  "[" ++ joinWith "," (gs.map (fun g => joinWith "+" (g.map (fun e => s!"e{e.eid}")))) ++ "]"

/-- split a token list at "|" -/
def splitBar (toks : List String) : List (List String) :=
  toks.foldr (fun t acc => if t == "|" then [] :: acc else match acc with | [] => [[t]] | a :: r => (t :: a) :: r) [[]]

def step (st : St) : List String → St × String
  | "open" :: rest =>
    match (findKV rest "nb").bind (·.toNat?), (findKV rest "seg").bind (·.toNat?), findKV rest "c" with
    | some nb, some seg, some c =>
      ({ nb := nb, buckets := (List.range nb).map (fun b => (b, Bucket.new seg (c == "1"))), names := [], nextTx := 0, saved := none }, "ok")
    | _, _, _ => (st, "bad-op")
  | "append" :: rest =>
    match splitBar rest with
    | head :: evs =>
      match (findKV head "b").bind (·.toNat?), (findKV head "pk").bind (·.toNat?), (findKV head "pid").bind (·.toNat?), (findKV head "exp").bind parseExp with
      | some b, some pk, some pid, some exp =>
        -- events
        let r := evs.foldl (fun (acc : Option (St × List NewEv)) toks =>
          match acc, toks with
          | some (st, es), [eid, stream, ex, tsok, sl, nl, ml, pl, stored] =>
            match parseEid eid, parseExp ex, sl.toNat?, nl.toNat?, ml.toNat?, pl.toNat?, stored.toNat? with
            | some eid, some ex, some sl, some nl, some ml, some pl, some stored =>
              let (st', sid) := nameId st stream
              some (st', es ++ [{ eid := eid, stream := sid, expected := ex, tsOk := tsok == "1",
                                   estimate := EVENT_HEADER_SIZE + sl + nl + ml + pl, stored := stored }])
            | _, _, _, _, _, _, _ => none
          | _, _ => none) (some (st, []))
        match r with
        | some (st1, es) =>
          if es.isEmpty then (st, "bad-op") else
          match getBucket st1 b with
          | some bk =>
            let tx : Tx := { pkey := pk, pid := pid, txId := st1.nextTx, expectedSeq := exp, events := es }
            let (bk', res) := bk.clientAppend tx
            let st2 := setBucket { st1 with nextTx := st1.nextTx + 1 } b bk'
            match res with
            | .ok r =>
              let vs := (r.versions.map (fun x => (st2.names.getD x.1 "?", x.2))).foldl (fun acc x => insertStr x acc) []
              (st2, s!"ok {r.first} {r.last} [{joinWith "," (vs.map (fun x => s!"{x.1}:{x.2}"))}] offs={if head.contains "nooffs" then "*" else joinWith "," (r.offsets.map toString)}")
            | .error e => (st2, "err " ++ showErr e)
          | none => (st, "bad-op")
        | none => (st, "bad-op")
      | _, _, _, _ => (st, "bad-op")
    | _ => (st, "bad-op")
  | ["scan", "s", b, stream, fromS, dir, _] =>
    match (kv b "b").bind (·.toNat?), fromS.toNat? with
    | some b, some fromPos =>
      match getBucket st b with
      | some bk =>
        match st.names.idxOf? stream with
        | none => (st, "[]")
        | some sid =>
          match bk.scan { isStream := true, key := sid } (if dir == "f" then .fwd else .rev) fromPos with
          | .ok gs => (st, showGroups gs)
          | .error _ => (st, "err")
      | none => (st, "bad-op")
    | _, _ => (st, "bad-op")
  | ["scan", "p", pid, fromS, dir, _] =>
    match (kv pid "pid").bind (·.toNat?), fromS.toNat? with
    | some pid, some fromPos =>
      match getBucket st (pid % st.nb) with
      | some bk =>
        match bk.scan { isStream := false, key := pid } (if dir == "f" then .fwd else .rev) fromPos with
        | .ok gs => (st, showGroups gs)
        | .error _ => (st, "err")
      | none => (st, "bad-op")
    | _, _ => (st, "bad-op")
  | ["read", pid, eid] =>
    match (kv pid "pid").bind (·.toNat?), parseEid eid with
    | some pid, some eid =>
      match getBucket st (pid % st.nb) with
      | some bk => (st, match bk.readTransaction eid with | some g => showGroups [g.map (·.1)] | none => "none")
      | none => (st, "bad-op")
    | _, _ => (st, "bad-op")
  | ["sv", b, stream] =>
    match (kv b "b").bind (·.toNat?) with
    | some b =>
      match getBucket st b with
      | some bk =>
        match st.names.idxOf? stream with
        | none => (st, "none")
        | some sid => (st, match bk.streamVersion sid with | some (pk, v) => s!"{pk}:{v}" | none => "none")
      | none => (st, "bad-op")
    | none => (st, "bad-op")
  | ["ps", pid] =>
    match (kv pid "pid").bind (·.toNat?) with
    | some pid =>
      match getBucket st (pid % st.nb) with
      | some bk => (st, match bk.partitionSequence pid with | some v => toString v | none => "none")
      | none => (st, "bad-op")
    | none => (st, "bad-op")
  | ["reopen"] => ({ st with buckets := st.buckets.map (fun x => (x.1, x.2.reopen)) }, "ok")
  | ["crash", _, cut] =>
    match (kv cut "cut").bind (·.toNat?) with
    | some cut =>
      ({ st with saved := some st.buckets, buckets := st.buckets.map (fun x => (x.1, if x.1 == 0 then x.2.crashReopen cut else x.2.reopen)) }, "ok")
    | none => (st, "bad-op")
  | ["idxcut", "newseg", variant] =>
    ({ st with saved := some st.buckets,
               buckets := st.buckets.map (fun x => (x.1, if variant.startsWith "zero-file" then x.2.reopenBlankNext else x.2.reopen)) }, "ok")
  | "idxcut" :: _ => ({ st with saved := some st.buckets, buckets := st.buckets.map (fun x => (x.1, x.2.reopen)) }, "ok")
  | ["restore"] => match st.saved with
    | some bs => ({ st with buckets := bs, saved := none }, "ok")
    | none => (st, "bad-op")
  | _ => (st, "bad-op")

end Driver.Store
