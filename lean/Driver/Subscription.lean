import SierraModel.Cluster.Subscription

/-! Driver of the C09 subscription model: one `c09 …` line per action of a schedule; the result
line is what the harness observes on the real tasks (delivered record, where the tasks park). -/
namespace Driver.Subscription
open SierraModel.Subscription

def keyTok : Key → String
  | .part p => toString p
  | .stream p s => s!"{p}/{s}"

def parseKey (t : String) : Option Key :=
  match t.splitOn "/" with
  | [p] => p.toNat?.map Key.part
  | [p, s] => match p.toNat?, s.toNat? with
    | some p, some s => some (Key.stream p s)
    | _, _ => none
  | _ => none

def parseFrom (t : String) : Option (Option Nat) :=
  if t = "L" then some none else t.toNat?.map some

def parseKeyFrom (t : String) : Option (Key × Option Nat) :=
  match t.splitOn ":" with
  | [k, f] => match parseKey k, parseFrom f with
    | some k, some f => some (k, f)
    | _, _ => none
  | _ => none

def parseKind : String → Option Kind
  | "part" => some .part | "parts" => some .parts
  | "stream" => some .stream | "streams" => some .streams
  | _ => none

def bcStr (s : Sys) : String :=
  match s.job with
  | some (p, nx, _) => s!"bc={p}:{nx}"
  | none => "bc=idle"

def atStr (s : Sys) : String :=
  match s.pc with
  | .off => "at=off"
  | .start => "at=sub:start"
  | .batch k => s!"at=hist:batch:{keyTok k}"
  | .hsend k _ => match s.iter k with
    | e :: _ => s!"at=send:wait:{e.p}:{e.seq}"
    | [] => "at=send:wait:?"
  | .live => "at=live:recv"
  | .lsend e _ => s!"at=send:wait:{e.p}:{e.seq}"

def dlvStr (s s' : Sys) : String :=
  let new := s'.out.drop s.out.length
  if new.isEmpty then "dlv=-" else
  let strs := (List.range new.length).zip new |>.map fun (i, e) =>
    s!"{e.p}:{e.seq}:{e.s}:{e.ver}@{s.out.length + i}"
  "dlv=" ++ ",".intercalate strs

def c09 (st : Option Sys) : List String → Option Sys × String
  | ["new", cap] =>
    match cap.toNat? with
    | some cap => if cap = 0 then (st, "bad-op") else (some (init cap), "ok")
    | none => (st, "bad-op")
  | toks =>
    match st with
    | none => (st, "bad-op")
    | some s =>
      let run (a : Action) (show_ : Sys → Sys → String) : Option Sys × String :=
        match step s a with
        | some s' => (some s', show_ s s')
        | none => (st, "disabled")
      match toks with
      | ["append", p, t] =>
        match p.toNat?, t.toNat? with
        | some p, some t => run (.append p t) fun _ s' =>
            match (s'.log p).getLast? with
            | some e => s!"seq={e.seq} ver={e.ver}"
            | none => "?"
        | _, _ => (st, "bad-op")
      | ["confirm", p, n] =>
        match p.toNat?, n.toNat? with
        | some p, some n => run (.confirm p n) fun _ s' => s!"wm={s'.wm p} {bcStr s'}"
        | _, _ => (st, "bad-op")
      | ["advance", p, n] =>
        match p.toNat?, n.toNat? with
        | some p, some n => run (.advance p n) fun _ s' => s!"wm={s'.wm p}"
        | _, _ => (st, "bad-op")
      | ["bsend"] =>
        run .bsend fun s s' =>
          match s.job with
          | some (p, nx, _) =>
            if s.subd || s.other then s!"sent={p}:{nx} {bcStr s'}" else s!"norecv {bcStr s'}"
          | none => "?"
      | ["other", "on"] => run .otherOn fun _ _ => "ok"
      | ["other", "off"] => run .otherOff fun _ _ => "ok"
      | "subscribe" :: kd :: w :: ks =>
        match parseKind kd, w.toNat?, ks.mapM parseKeyFrom with
        | some kd, some w, some ks => run (.subscribe kd ks w) fun _ s' => atStr s'
        | _, _, _ => (st, "bad-op")
      | ["ack", c] =>
        match c.toNat? with
        | some c => run (.ack c) fun _ _ => "ok"
        | none => (st, "bad-op")
      | ["probe"] =>
        -- the harness released the task into a full window and saw it block: no model action
        match s.pc with
        | .hsend _ _ => (st, if room s then "not-blocked" else "blocked")
        | .lsend _ _ => (st, if room s then "not-blocked" else "blocked")
        | _ => (st, "not-blocked")
      | ["sub", ch, n] =>
        let chk : Option (Option Key) := if ch = "-" then some none else (parseKey ch).map some
        match chk, n.toNat? with
        | some ch, some n => run (.sub ch n) fun s s' => s!"{dlvStr s s'} {atStr s'}"
        | _, _ => (st, "bad-op")
      | _ => (st, "bad-op")

end Driver.Subscription
