import Driver.Pure
import SierraModel.Topology.Manager

namespace Driver.Topo
open SierraModel.Topology

def showList (l : List Nat) : String := joinWith "," (l.map toString)

def parseNatList (s : String) : Option (List Nat) :=
  if s = "-" then some [] else (s.splitOn ",").mapM (·.toNat?)

/-- "peer:since:idx,..." -/
def parseActive (s : String) : Option (List (Nat × (Nat × Nat))) :=
  if s = "-" then some [] else
  (s.splitOn ",").mapM (fun e => match e.splitOn ":" with
    | [p, si, ix] => match p.toNat?, si.toNat?, ix.toNat? with
      | some p, some si, some ix => some (p, (si, ix))
      | _, _, _ => none
    | _ => none)

def insertSorted (x : Nat × (Nat × Nat)) : List (Nat × (Nat × Nat)) → List (Nat × (Nat × Nat))
  | [] => [x]
  | y :: ys => if x.1 ≤ y.1 then x :: y :: ys else y :: insertSorted x ys

def insertNat (x : Nat) : List Nat → List Nat
  | [] => [x]
  | y :: ys => if x ≤ y then x :: y :: ys else y :: insertNat x ys

/-- canonical state digest: replica lists in replica order, active sorted by peer -/
def digest (m : Mgr) : String :=
  let reps := joinWith "|" (m.replicas.map showList)
  let act := (m.active.foldl (fun acc x => insertSorted x acc) []).map (fun e => s!"{e.1}:{e.2.1}:{e.2.2}")
  let refs := (m.refs.foldl (fun acc x => insertNat x acc) [])
  s!"replicas=[{reps}] active=[{joinWith "," act}] refs=[{showList refs}]"

def c13 : List String → String
  | ["cfg", i, n, b, p, rf] =>
    match i.toNat?, n.toNat?, b.toNat?, p.toNat?, rf.toNat? with
    | some i, some n, some b, some p, some rf =>
      if n = 0 ∨ b = 0 then "bad-op" else
      s!"buckets={showList (cfgBuckets i n b rf)} partitions={showList (cfgPartitions i n b p rf)}"
    | _, _, _, _, _ => "bad-op"
  | ["topo", i, n, p, b, rf] =>
    match i.toNat?, n.toNat?, p.toNat?, b.toNat?, rf.toNat? with
    | some i, some n, some p, some b, some rf =>
      if n = 0 ∨ b = 0 then "bad-op" else showList (topoPartitions i n p b rf)
    | _, _, _, _, _ => "bad-op"
  | _ => "bad-op"

def c14one (st : Option Mgr) : List String → Option Mgr × String
  | ["new", n, p, b, rf, peer, idx, since] =>
    match n.toNat?, p.toNat?, b.toNat?, rf.toNat?, peer.toNat?, idx.toNat?, since.toNat? with
    | some n, some p, some b, some rf, some peer, some idx, some since =>
      if n = 0 ∨ b = 0 ∨ rf > 12 then (st, "bad-op") else
      let m := Mgr.new ⟨n, p, b, rf⟩ peer idx since
      (some m, digest m)
    | _, _, _, _, _, _, _ => (st, "bad-op")
  | ["connect", peer, since, idx] =>
    match st, peer.toNat?, since.toNat?, idx.toNat? with
    | some m, some peer, some since, some idx => let m' := onConnected m peer since idx; (some m', digest m')
    | _, _, _, _ => (st, "bad-op")
  | ["connectq", peer, since, idx] =>   -- as `connect`, digest suppressed (large clusters)
    match st, peer.toNat?, since.toNat?, idx.toNat? with
    | some m, some peer, some since, some idx => (some (onConnected m peer since idx), "-")
    | _, _, _, _ => (st, "bad-op")
  | ["disconnect", peer] =>
    match st, peer.toNat? with
    | some m, some peer => let m' := onDisconnected m peer; (some m', digest m')
    | _, _ => (st, "bad-op")
  | ["heartbeat", peer, since, idx] =>
    match st, peer.toNat?, since.toNat?, idx.toNat? with
    | some m, some peer, some since, some idx =>
      let (m', ch) := onHeartbeat m peer since idx; (some m', s!"{ch} {digest m'}")
    | _, _, _, _ => (st, "bad-op")
  | ["timeouts", peers] =>
    match st, parseNatList peers with
    | some m, some ps => let (m', ch) := onTimeouts m ps; (some m', s!"{ch} {digest m'}")
    | _, _ => (st, "bad-op")
  | ["response", rp, act] =>
    match st, parseNatList rp, parseActive act with
    | some m, some rp, some act => let m' := onOwnershipResponse m rp act; (some m', digest m')
    | _, _, _ => (st, "bad-op")
  | ["avail", p] =>
    match st, p.toNat? with
    | some m, some p => (st, joinWith "," ((availableReplicas m p).map (fun e => s!"{e.1}:{e.2}")))
    | _, _ => (st, "bad-op")
  | _ => (st, "bad-op")

/-- multi-manager front end: first token = slot -/
def c14 (sts : List (Nat × Mgr)) : List String → List (Nat × Mgr) × String
  | slot :: rest =>
    match slot.toNat? with
    | some k =>
      let cur := (sts.find? (·.1 == k)).map (·.2)
      let (m', r) := c14one cur rest
      match m' with
      | some m => ((sts.filter (fun e => !(e.1 == k))) ++ [(k, m)], r)
      | none => (sts, r)
    | none => (sts, "bad-op")
  | _ => (sts, "bad-op")

end Driver.Topo
