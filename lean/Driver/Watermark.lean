import Driver.Pure
import SierraModel.Cluster.Persist

/-! Driver of the confirmation-watermark model (C08).  Sub-ops after the `wm` token:

direct `PartitionConfirmationState`:
  `new <rf>` · `at <rf> <wm>` (state whose watermark is preset, as loaded from a file) ·
  `rep <first> <n> <count>` · `run <rf> <f:n:c> …` (fresh state, watermark after each report)
`BucketConfirmationManager` + directory:
  `mdir <rf>` (empty directory) · `minit <c1,c2,…|->` (new manager, `initialize` on the current
  directory with the given on-disk counts) · `madopt` (the re-initialised manager becomes the live
  one) · `mrep <first> <n> <count>` · `mpersist` · `mcrash <k>` (directory := state after `k`
  completed file operations of a persist of the live state; the live manager is untouched)
-/
namespace Driver.Watermark
open SierraModel.Cluster

structure St where
  rf : Nat := 0
  st : Option PState := none
  dir : Files := Files.empty
  mgr : Option Mgr := none
  reinit : Option Mgr := none

def showNats (l : List Nat) : String := if l.isEmpty then "-" else joinWith "," (l.map toString)

def showUnc (m : UMap) : String :=
  if m.isEmpty then "-" else joinWith "," (m.map (fun e => s!"{e.1}:{e.2.count}:{e.2.attempts}"))

def showAdv (l : List Bool) : String :=
  if l.isEmpty then "-" else joinWith "," (l.map (fun b => if b then "1" else "0"))

def showFile : FileC → String
  | .absent => "-"
  | .garbage => "?"
  | .snap s => s!"w{s.wm}u" ++ (if s.unc.isEmpty then "-" else joinWith "." (s.unc.map (fun e => toString e.1)))

def showFiles (f : Files) : String := s!"cur={showFile f.cur} prev={showFile f.prev} tmp={showFile f.tmp}"

def showP (s : PState) : String := s!"wm={s.wm} hi={s.highest} unc={showUnc s.unc}"

/-- what the manager's public API shows: watermark, `get_confirmation_gap`, `get_stuck_events(0,0)` -/
def showM (m : Mgr) : String :=
  s!"wm={m.st.wm} gap={m.st.highest - m.st.wm} stuck={showNats (m.st.unc.map (·.1))} {showFiles m.fs}"

def parseReport (f n c : String) : Option Report :=
  match f.toNat?, n.toNat?, c.toNat? with
  | some f, some n, some c =>
    let r : Report := ⟨f, n, c⟩
    if r.inRange && decide (c ≤ U8_MAX) && decide (n ≤ 4096) then some r else none
  | _, _, _ => none

def parseReportTok (s : String) : Option Report :=
  match s.splitOn ":" with
  | [f, n, c] => parseReport f n c
  | _ => none

def parseDisk (s : String) : Option (List Nat) :=
  if s = "-" then some [] else
  (s.splitOn ",").mapM (fun t => t.toNat?.bind (fun c => if c ≤ U8_MAX then some c else none))

/-- one report on a bare state: per-version `watermark_advanced` flags -/
def repP (rf : Nat) (s : PState) (r : Report) : PState × List Bool :=
  r.expand.foldl (fun (acc : PState × List Bool) u =>
    let (s', adv) := update rf acc.1 u.1 u.2
    (s', acc.2 ++ [adv])) (s, [])

def repM (m : Mgr) (r : Report) : Mgr × List Bool :=
  r.expand.foldl (fun (acc : Mgr × List Bool) u =>
    let (m', adv) := mgrUpdate false acc.1 u.1 u.2
    (m', acc.2 ++ [adv])) (m, [])

def wm (st : St) : List String → St × String
  | ["new", rf] =>
    match rf.toNat? with
    | some rf => if rf ≤ U8_MAX then ({ st with rf := rf, st := some PState.new }, "ok") else (st, "bad-op")
    | none => (st, "bad-op")
  | ["at", rf, w] =>
    match rf.toNat?, w.toNat? with
    | some rf, some w =>
      if rf ≤ U8_MAX ∧ w ≤ U64_MAX then ({ st with rf := rf, st := some { highest := w, wm := w, unc := [] } }, "ok")
      else (st, "bad-op")
    | _, _ => (st, "bad-op")
  | ["rep", f, n, c] =>
    match st.st, parseReport f n c with
    | some s, some r =>
      let (s', adv) := repP st.rf s r
      ({ st with st := some s' }, s!"adv={showAdv adv} {showP s'}")
    | _, _ => (st, "bad-op")
  | "run" :: rf :: toks =>
    match rf.toNat?, toks.mapM parseReportTok with
    | some rf, some rs =>
      if rf ≤ U8_MAX then
        let (s, wms) := rs.foldl (fun (acc : PState × List Nat) r =>
          let s' := applyReport rf acc.1 r
          (s', acc.2 ++ [s'.wm])) (PState.new, [])
        (st, s!"wms={showNats wms} {showP s}")
      else (st, "bad-op")
    | _, _ => (st, "bad-op")
  | ["mdir", rf] =>
    match rf.toNat? with
    | some rf =>
      if rf ≤ U8_MAX then ({ st with rf := rf, dir := Files.empty, mgr := none, reinit := none }, showFiles Files.empty)
      else (st, "bad-op")
    | none => (st, "bad-op")
  | ["minit", disk] =>
    match parseDisk disk with
    | some d =>
      let m := initializeMgr st.rf st.dir d
      ({ st with reinit := some m }, showM m)
    | none => (st, "bad-op")
  | ["madopt"] =>
    match st.reinit with
    | some m => ({ st with mgr := some m, dir := m.fs, reinit := none }, "ok")
    | none => (st, "bad-op")
  | ["mrep", f, n, c] =>
    match st.mgr, parseReport f n c with
    | some m, some r =>
      let (m', adv) := repM m r
      ({ st with mgr := some m', dir := m'.fs }, s!"adv={showAdv adv} {showM m'}")
    | _, _ => (st, "bad-op")
  | ["mpersist"] =>
    match st.mgr with
    | some m =>
      let m' := { m with fs := persist m.st m.fs }
      ({ st with mgr := some m', dir := m'.fs }, showFiles m'.fs)
    | none => (st, "bad-op")
  | ["mcrash", k] =>
    match st.mgr, k.toNat? with
    | some m, some k =>
      let d := crashAfter m.st m.fs k
      ({ st with dir := d }, showFiles d)
    | _, _ => (st, "bad-op")
  | _ => (st, "bad-op")

end Driver.Watermark
