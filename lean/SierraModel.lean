-- This module serves as the root of the `SierraModel` library.
-- Import modules here that should be built as part of the library.
import SierraModel.Basic
