-- Root of the `SierraModel` library: executable models (import-free) and property theorems.
import SierraModel.Props.C01
import SierraModel.Props.C02
import SierraModel.Props.C04
import SierraModel.Props.C05
import SierraModel.Props.C06
import SierraModel.Props.C08
import SierraModel.Props.C12
import SierraModel.Props.C13
import SierraModel.Props.C14
import SierraModel.Props.C17
import SierraModel.Props.C18
import SierraModel.Props.C19
import SierraModel.Props.C21
import SierraModel.Props.C23
import SierraModel.Props.C24
import SierraModel.Props.C25
import SierraModel.Props.C26
