-- Root of the `SierraModel` library: executable models (import-free) and property theorems.
import SierraModel.Topology.Distribute
import SierraModel.Props.C24
