def hello := "world"
