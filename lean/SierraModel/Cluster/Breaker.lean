/-
Model of `WriteCircuitBreaker` (crates/sierradb-cluster/src/circuit_breaker.rs) as it exists
after the `fix:` commits for F26/F27/F28.

Shared state = the six atomic cells + the (mock) clock.  Every public method is a sequence of
ATOMIC steps (exactly one atomic load / store / fetch_add / compare_exchange, or one clock read,
each); a thread is a program counter (carrying the method's locals) plus the list of methods it
still has to call.  `stepT s t` executes the next atomic step of thread `t`; `Act.clock v` is the
environment step that sets the clock (it may happen between any two steps).

Integers: `u32` cells wrap on `fetch_add` (as Rust atomics do); the `+ 1` applied to the value
returned by `fetch_add` is CHECKED (overflow = trap = debug panic); `now - last_failure` with
`last_failure = load().min(now)` (the F26 fix) cannot underflow and is `Nat` (truncated) subtraction.  Ghost fields (`hist`, `epAdm`, `epStale`, `log`, `steps`) do not influence
the cells or the return values; the property theorems (Props/C26.lean) are stated over them.
-/
namespace SierraModel.Breaker

def U32 : Nat := 4294967296

inductive CState | closed | opn | half
  deriving DecidableEq, Repr

structure Cfg where
  threshold : Nat      -- failure_threshold
  timeout : Nat        -- recovery_timeout in ms
  maxCalls : Nat       -- half_open_max_calls
  succThreshold : Nat  -- half_open_success_threshold
  deriving DecidableEq, Repr

inductive Meth | allow | succ | fail | ert
  deriving DecidableEq, Repr

/-- return values: `bool` (should_allow_request), `unit` (record_*), `dur` (estimated_recovery_time,
in ms) -/
inductive Ret | bool (b : Bool) | unit | dur (d : Option Nat)
  deriving DecidableEq, Repr

/-- ghost report history (newest first): `F` = a `failure_count.fetch_add` of record_failure,
`S` = the `failure_count.store(0)` of a record_success that observed Closed,
`Z` = the `failure_count.store(0)` of transition_to_closed -/
inductive Rep | F | S | Z
  deriving DecidableEq, Repr

/-- program points = "about to execute this atomic operation" (names = pause points in the code) -/
inductive Pc
  | idle | dead
  | allowState | allowClock | allowLf (now : Nat) | allowCas | allowHocc
  | succClock | succLs (now : Nat) | succState | succFc | succHosc
  | tclFc | tclState | tclHocc | tclHosc | succCas
  | failClock | failLf (now : Nat) | failState | failFc
  | topState (just : Option (List Rep)) | topHocc | topHosc
  | ertState | ertClock | ertLf (now : Nat)
  deriving DecidableEq, Repr

structure Thread where
  pc : Pc := .idle
  prog : List Meth := []
  rets : List Ret := []   -- newest first
  deriving Repr

/-- ghost log of state changes -/
inductive Ev
  | opened (prev : CState) (just : Option (List Rep))  -- a `state.store(Open)`; `just` = history at the
                                                       -- deciding fetch_add (none: half-open branch)
  | episode (adm stale : Nat)                          -- a half-open episode ended
  deriving DecidableEq, Repr

structure Sys where
  cfg : Cfg
  state : CState := .closed
  fc : Nat := 0
  lf : Nat := 0
  ls : Nat := 0
  hocc : Nat := 0
  hosc : Nat := 0
  clock : Nat := 0
  threads : Nat → Thread
  trapped : Bool := false
  -- ghost
  hist : List Rep := []
  epAdm : Nat := 0     -- probes admitted in the current half-open episode
  epStale : Nat := 0   -- `half_open_call_count.store(0)` executed inside the current episode
  log : List Ev := []
  steps : Nat := 0

def Sys.setT (s : Sys) (t : Nat) (th : Thread) : Sys :=
  { s with threads := fun i => if i = t then th else s.threads i }

/-- continue at `pc` -/
def goto (s : Sys) (t : Nat) (th : Thread) (pc : Pc) : Sys := s.setT t { th with pc := pc }

/-- the method returns `r` -/
def ret (s : Sys) (t : Nat) (th : Thread) (r : Ret) : Sys :=
  s.setT t { th with pc := .idle, rets := r :: th.rets }

/-- arithmetic overflow: the thread panics -/
def trap (s : Sys) (t : Nat) (th : Thread) : Sys :=
  { s.setT t { th with pc := .dead } with trapped := true }

def entry : Meth → Pc
  | .allow => .allowState
  | .succ => .succClock
  | .fail => .failClock
  | .ert => .ertState

/-- ghost: a state change away from HalfOpen closes the current episode -/
def endEpisode (s : Sys) : Sys :=
  if s.state = .half then { s with log := .episode s.epAdm s.epStale :: s.log } else s

/-- `half_open_call_count.store(0)` -/
def hoccReset (s : Sys) : Sys :=
  { s with hocc := 0, epStale := if s.state = .half then s.epStale + 1 else s.epStale }

/-- `state.compare_exchange(Open, HalfOpen)`; success starts an episode -/
def cas (s : Sys) : Sys :=
  if s.state = .opn then { s with state := .half, epAdm := 0, epStale := 0 } else s

/-- `state.store(Open)` -/
def openStore (s : Sys) (just : Option (List Rep)) : Sys :=
  let s1 := endEpisode s
  { s1 with state := .opn, log := .opened s.state just :: s1.log }

/-- `state.store(Closed)` -/
def closeStore (s : Sys) : Sys :=
  { endEpisode s with state := .closed }

/-- what the thread does after its atomic step -/
inductive Next | goto (pc : Pc) | ret (r : Ret) | trap
  deriving DecidableEq, Repr

/-- the atomic step at program point `pc`: effect on cells + ghost, and the continuation -/
def eff (s : Sys) : Pc → Sys × Next
  | .idle => (s, .goto .idle)
  | .dead => (s, .goto .dead)
  -- should_allow_request
  | .allowState =>
    match s.state with
    | .closed => (s, .ret (.bool true))
    | .opn => (s, .goto .allowClock)
    | .half => (s, .goto .allowHocc)
  | .allowClock => (s, .goto (.allowLf s.clock))
  | .allowLf now =>
    if s.cfg.timeout ≤ now - s.lf then (s, .goto .allowCas) else (s, .ret (.bool false))
  | .allowCas => (cas s, .goto .allowHocc)
  | .allowHocc =>
    let adm := decide (s.hocc < s.cfg.maxCalls)
    ({ s with hocc := (s.hocc + 1) % U32,
              epAdm := if adm = true ∧ s.state = .half then s.epAdm + 1 else s.epAdm },
     .ret (.bool adm))
  -- record_success
  | .succClock => (s, .goto (.succLs s.clock))
  | .succLs now => ({ s with ls := now }, .goto .succState)
  | .succState =>
    match s.state with
    | .closed => (s, .goto .succFc)
    | .half => (s, .goto .succHosc)
    | .opn => (s, .goto .succCas)
  | .succFc => ({ s with fc := 0, hist := .S :: s.hist }, .ret .unit)
  | .succHosc =>
    if U32 ≤ s.hosc + 1 then ({ s with hosc := 0 }, .trap)
    else if s.cfg.succThreshold ≤ s.hosc + 1 then ({ s with hosc := s.hosc + 1 }, .goto .tclFc)
    else ({ s with hosc := s.hosc + 1 }, .ret .unit)
  | .succCas => (cas s, .ret .unit)
  -- transition_to_closed
  | .tclFc => ({ s with fc := 0, hist := .Z :: s.hist }, .goto .tclState)
  | .tclState => (closeStore s, .goto .tclHocc)
  | .tclHocc => (hoccReset s, .goto .tclHosc)
  | .tclHosc => ({ s with hosc := 0 }, .ret .unit)
  -- record_failure
  | .failClock => (s, .goto (.failLf s.clock))
  | .failLf now => ({ s with lf := now }, .goto .failState)
  | .failState =>
    match s.state with
    | .closed => (s, .goto .failFc)
    | .half => (s, .goto (.topState none))
    | .opn => (s, .ret .unit)
  | .failFc =>
    if U32 ≤ s.fc + 1 then ({ s with fc := 0, hist := .F :: s.hist }, .trap)
    else if s.cfg.threshold ≤ s.fc + 1 then
      ({ s with fc := s.fc + 1, hist := .F :: s.hist }, .goto (.topState (some (.F :: s.hist))))
    else ({ s with fc := s.fc + 1, hist := .F :: s.hist }, .ret .unit)
  -- transition_to_open
  | .topState just => (openStore s just, .goto .topHocc)
  | .topHocc => (hoccReset s, .goto .topHosc)
  | .topHosc => ({ s with hosc := 0 }, .ret .unit)
  -- estimated_recovery_time
  | .ertState =>
    match s.state with
    | .opn => (s, .goto .ertClock)
    | .half => (s, .ret (.dur (some 0)))
    | .closed => (s, .ret (.dur none))
  | .ertClock => (s, .goto (.ertLf s.clock))
  | .ertLf now =>
    let el := now - s.lf
    (s, .ret (.dur (some (if s.cfg.timeout ≤ el then 0 else s.cfg.timeout - el))))

def fin (s : Sys) (t : Nat) (th : Thread) : Next → Sys
  | .goto pc => goto s t th pc
  | .ret r => ret s t th r
  | .trap => trap s t th

/-- one atomic step of thread `t` (`none`: the thread has finished or panicked).  An idle thread
starts its next method and executes that method's first atomic step. -/
def stepT (s : Sys) (t : Nat) : Option Sys :=
  let th := s.threads t
  let s1 := { s with steps := s.steps + 1 }
  match th.pc with
  | .dead => none
  | .idle =>
    match th.prog with
    | [] => none
    | m :: ms => let r := eff s1 (entry m); some (fin r.1 t { th with prog := ms } r.2)
  | pc => let r := eff s1 pc; some (fin r.1 t th r.2)

inductive Act | step (t : Nat) | clock (v : Nat)
  deriving DecidableEq, Repr

/-- a schedule entry; a step of a finished thread is a stutter -/
def act (s : Sys) : Act → Sys
  | .step t => (stepT s t).getD s
  | .clock v => { s with clock := v }

def run (s : Sys) (sched : List Act) : Sys := sched.foldl act s

/-- `WriteCircuitBreaker::new` at mock time `clock0`, thread `i` runs `progs[i]` -/
def init (cfg : Cfg) (clock0 : Nat) (progs : List (List Meth)) : Sys :=
  { cfg := cfg, ls := clock0, clock := clock0, threads := fun i => { prog := progs.getD i [] } }

end SierraModel.Breaker
