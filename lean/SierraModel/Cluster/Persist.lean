/-
Model of the persistence of confirmation state (`BucketConfirmationManager`,
crates/sierradb-cluster/src/confirmation.rs): `persist_bucket_state`, `load_bucket_state`,
`initialize`, and the manager-level `update_confirmation` with its persist-if-needed policy.

I/O as data.  The three files of a bucket's confirmation directory
(`bucket_state.{current,previous,temp}.dat`) are `FileC`s: absent, present-but-undecodable
(`garbage`: a created/partially written file, or one failing its CRC), or a complete snapshot.
One partition per bucket file is modelled (partitions are independent entries of one HashMap).

`persist_bucket_state` is the op sequence `plan` (exactly the file operations of the code, in
order); a crash after `k` completed operations is `crashAfter … k` (`k ≥ plan length` = the
persist completed).  OS facts used: `rename` is atomic, a file is complete once `sync_all`
returned (op `writeTmp` = `write_all` + `sync_all`).

`initialize` = load current, else previous, else empty; then re-scan the partition's events on
disk from the loaded watermark (`database.read_partition(p, watermark, Forward)`) and feed each
event's on-disk confirmation count (`disk`, an input: count of version `v` = `disk[v-1]`) through
the manager's `update_confirmation`.
-/
import SierraModel.Cluster.Watermark

namespace SierraModel.Cluster

inductive FileC where
  | absent
  | garbage
  | snap (s : PState)
  deriving Repr, DecidableEq

/-- `path.exists()` -/
def FileC.exists_ : FileC → Bool
  | .absent => false
  | _ => true

/-- `load_state_file(..).ok()` -/
def FileC.load : FileC → Option PState
  | .snap s => some s
  | _ => none

structure Files where
  cur : FileC
  prev : FileC
  tmp : FileC
  deriving Repr, DecidableEq

def Files.empty : Files := { cur := .absent, prev := .absent, tmp := .absent }

/-- the file operations of `persist_bucket_state`, in program order -/
inductive POp where
  | createTmp    -- File::create(temp)            (truncates: file exists, content incomplete)
  | writeTmp     -- write_all + sync_all          (temp complete)
  | rmPrev       -- fs::remove_file(previous)
  | curToPrev    -- fs::rename(current, previous)
  | tmpToCur     -- fs::rename(temp, current)
  deriving Repr, DecidableEq

/-- which operations a persist performs on a directory in state `fs`
(`if current.exists() { if previous.exists() { remove } rename }`) -/
def plan (fs : Files) : List POp :=
  [.createTmp, .writeTmp] ++
  (if fs.cur.exists_ then (if fs.prev.exists_ then [.rmPrev] else []) ++ [.curToPrev] else []) ++
  [.tmpToCur]

def applyOp (s : PState) (fs : Files) : POp → Files
  | .createTmp => { fs with tmp := .garbage }
  | .writeTmp => { fs with tmp := .snap s }
  | .rmPrev => { fs with prev := .absent }
  | .curToPrev => { fs with prev := fs.cur, cur := .absent }
  | .tmpToCur => { fs with cur := fs.tmp, tmp := .absent }

/-- directory state when the process dies after `k` completed file operations of a persist of `s` -/
def crashAfter (s : PState) (fs : Files) (k : Nat) : Files := ((plan fs).take k).foldl (applyOp s) fs

/-- a persist that runs to completion -/
def persist (s : PState) (fs : Files) : Files := (plan fs).foldl (applyOp s) fs

/-- `load_bucket_state` (+ `or_insert_with(PartitionConfirmationState::new)`) -/
def loadState (fs : Files) : PState :=
  match fs.cur.load with
  | some s => s
  | none =>
    match fs.prev.load with
    | some s => s
    | none => PState.new

/-- the manager: one partition's state, its bucket directory, and the persist bookkeeping
(`changes_since_persist`, whether `last_persist_times` has an entry) -/
structure Mgr where
  rf : Nat
  st : PState
  fs : Files
  changes : Nat
  persisted : Bool
  deriving Repr, DecidableEq

def Mgr.new (rf : Nat) (fs : Files) (st : PState) : Mgr :=
  { rf := rf, st := st, fs := fs, changes := 0, persisted := false }

/-- `BucketConfirmationManager::update_confirmation` incl. `persist_bucket_if_needed`;
`elapsed` = "more than 5 s since the last persist" (wall clock, an input) -/
def mgrUpdate (elapsed : Bool) (m : Mgr) (version count : Nat) : Mgr × Bool :=
  let (st, adv) := update m.rf m.st version count
  let changes := m.changes + 1
  if !m.persisted || decide (changes > 100) || elapsed then
    ({ m with st := st, fs := persist st m.fs, changes := 0, persisted := true }, adv)
  else ({ m with st := st, changes := changes }, adv)

/-- on-disk confirmation count of version `v` (events on disk are versions 1..disk.length) -/
def diskCount (disk : List Nat) (v : Nat) : Nat := disk.getD (v - 1) 0

/-- versions the re-scan visits: every event with `partition_sequence ≥ watermark` -/
def rescanVersions (w : Nat) (disk : List Nat) : List Nat := List.range' (w + 1) (disk.length - w)

/-- `BucketConfirmationManager::initialize` on directory `fs` and on-disk counts `disk` -/
def initializeMgr (rf : Nat) (fs : Files) (disk : List Nat) : Mgr :=
  let m0 := Mgr.new rf fs (loadState fs)
  (rescanVersions m0.st.wm disk).foldl (fun m v => (mgrUpdate false m v (diskCount disk v)).1) m0

/-- hypothesis of the restart theorem: every reported (version, count) is on disk with at least
that count ("counts are written before they are reported"; version 0 does not exist and is
ignored by the code) -/
def diskCovers (disk : List Nat) (ups : List (Nat × Nat)) : Bool :=
  ups.all (fun u => decide (u.1 = 0) || (decide (u.1 ≤ disk.length) && decide (u.2 ≤ diskCount disk u.1)))

end SierraModel.Cluster
