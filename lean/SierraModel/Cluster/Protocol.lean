/-
Protocol model of the distributed write path (C10 / C11), IronFleet style, for ONE partition with a
fixed replica set of `rf` nodes (ids `0 … rf-1`), quorum `rf / 2 + 1`.

Transcribed from `sierradb-cluster/src/write/{transaction,replicate,confirm,execute}.rs` as the code is
AFTER the `fix:` commit of finding F22 (catch-up appends with the exact expected partition sequence);
`Sys.anyCatchup = true` selects the rule before that fix (`ExpectedVersion::Any`), kept only for
`catchup_any_breaks`.

Granularity: one log slot = one transaction (single-event transactions; the sequence of a transaction
is its index in the partition log).  The local database is modelled by its partition-sequence check
only: an append with expected sequence `Exact s` is accepted iff the log has exactly `s` entries
(Store/Spec, C02); every other refusal (stream version, I/O, `ClusterActor`-level `InvalidSender` /
`StaleWrite` / `PartitionNotOwned`) is the adversary step `deliverFail` (for a `ReplicateWrite`) or
`deliverPartial` (for a commit of a catch-up response).

Node state: `log` (on disk: transaction id + confirmation count per slot), `crashed`, and — in memory,
lost by a crash — the replicator (`next`, `buf`, `catching`) and the coordinator tasks.
Network: a list used as a multiset; the adversary delivers any message (in any order), drops,
duplicates.  Ghost state (not in the code): `acks` = successes reported to clients, `started` = the
(transaction, sequence) pairs assigned by coordinators.
-/
namespace SierraModel.Protocol

abbrev Tx := Nat
abbrev NodeId := Nat

/-- one slot of a partition log: transaction id and the confirmation count stored in its header -/
structure Entry where
  tx : Tx
  cnt : Nat
  deriving DecidableEq, Repr

/-- `BufferedWrite { coordinator_ref, tx, reply_senders }` under its key (expected next sequence) -/
structure BufE where
  key : Nat
  tx : Tx
  coord : NodeId
  senders : List NodeId
  deriving DecidableEq, Repr

/-- one commit of a `PartitionSyncResponse`: transaction, its sequence and count on the coordinator -/
structure Commit where
  tx : Tx
  seq : Nat
  cnt : Nat
  deriving DecidableEq, Repr

inductive Msg where
  /-- `ReplicateWrite` with `expected_partition_sequence = from_next_version(s)` -/
  | rw (src dst : NodeId) (t : Tx) (s : Nat)
  /-- the reply of the ask: `Ok(AppendResult)` / `Err(_)` -/
  | reply (src dst : NodeId) (t : Tx) (s : Nat) (ok : Bool)
  /-- `ConfirmTransaction { transaction_id, confirmation_versions = [s+1], confirmation_count }` -/
  | confirm (src dst : NodeId) (t : Tx) (s : Nat) (c : Nat)
  /-- `PartitionSyncRequest { from_seq, to_seq }` -/
  | syncReq (src dst : NodeId) (frm to : Nat)
  /-- `PartitionSyncResponse { Ok(commits) }` -/
  | syncResp (src dst : NodeId) (commits : List Commit)
  deriving DecidableEq, Repr

/-- a running `transaction::spawn` task on its coordinator -/
structure Task where
  tx : Tx
  seq : Nat
  /-- `pending_replies`: one future per replica the write was sent to -/
  pending : List NodeId
  /-- `confirmed_replicas` (`[None]` = the coordinator itself first) -/
  confirmed : List NodeId
  /-- `set_confirmations_with_retry` returned `Ok` (own count is on disk, synced) -/
  counted : Bool
  /-- `ConfirmTransaction`s sent and the client answered `Ok` -/
  acked : Bool
  deriving DecidableEq, Repr

structure Node where
  log : List Entry := []
  crashed : Bool := false
  /-- the replicator's `buffered_writes.next()` (read from the database at actor start only) -/
  next : Nat := 0
  buf : List BufE := []
  catching : Bool := false
  tasks : List Task := []
  deriving DecidableEq, Repr

structure Sys where
  rf : Nat
  /-- `true` = the catch-up rule before the F22 fix (`ExpectedVersion::Any`) -/
  anyCatchup : Bool := false
  nodes : List Node
  net : List Msg := []
  acks : List (NodeId × Tx × Nat) := []
  started : List (Tx × Nat) := []
  deriving Repr

/-- `required_quorum = replication_factor / 2 + 1` -/
def quorum (rf : Nat) : Nat := rf / 2 + 1

/-- count a transaction carries when appended: `with_confirmation_count(1)` iff `required_quorum <= 1` -/
def initCnt (q : Nat) : Nat := if q ≤ 1 then 1 else 0

def Sys.init (rf : Nat) (anyCatchup : Bool := false) : Sys :=
  { rf := rf, anyCatchup := anyCatchup, nodes := List.replicate rf {} }

def Sys.q (s : Sys) : Nat := quorum s.rf

/-! ### The replica side (`PartitionReplicatorActor`), node-local: `Node → Node × outgoing messages` -/

/-- the same answer to every reply sender of a buffered write -/
def replyAll (me : NodeId) (senders : List NodeId) (t : Tx) (s : Nat) (ok : Bool) : List Msg :=
  senders.map (fun d => Msg.reply me d t s ok)

/-- answers to the entries `progress_to(next)` removes (`StaleWrite`) -/
def staleReplies (me : NodeId) (buf : List BufE) (next : Nat) : List Msg :=
  (buf.filter (fun e => decide (e.key < next))).flatMap (fun e => replyAll me e.senders e.tx e.key false)

/-- `progress_to(next)`: entries below `next` leave the buffer -/
def keepFrom (buf : List BufE) (next : Nat) : List BufE := buf.filter (fun e => decide (next ≤ e.key))

/-- the drain loop: `while let Some(w) = pop() { write_buffered(w)?; }` — pop the entry at `next`;
the database appends it iff its expected sequence is the log length (`Exact`); on success
`progress_to(key + 1)` and every reply sender gets `Ok`, on failure they get the error and the loop
stops (the entry is gone, `next` stays).  Fuel `|buf| + 1` suffices (each round removes an entry). -/
def drain (q : Nat) (me : NodeId) : Nat → Node → Node × List Msg
  | 0, n => (n, [])
  | f + 1, n =>
    match n.buf.find? (fun e => e.key == n.next) with
    | none => (n, [])
    | some e =>
      let buf1 := n.buf.filter (fun x => x.key != n.next)
      if n.log.length = e.key then
        let n' : Node := { n with log := n.log ++ [⟨e.tx, initCnt q⟩], next := e.key + 1,
                                  buf := keepFrom buf1 (e.key + 1) }
        let r := drain q me f n'
        (r.1, replyAll me e.senders e.tx e.key true ++ staleReplies me buf1 (e.key + 1) ++ r.2)
      else ({ n with buf := buf1 }, replyAll me e.senders e.tx e.key false)

/-- `OrderedQueue::insert` as used by `buffer_write` with an unbounded buffer: stale below `next`,
conflict when the key holds another transaction, otherwise inserted / merged (reply senders
collected).  `none` = rejected (the asker gets the error). -/
def bufInsert (n : Node) (src : NodeId) (t : Tx) (s : Nat) : Option (List BufE) :=
  if s < n.next then none
  else match n.buf.find? (fun e => e.key == s) with
    | some e =>
      if e.tx = t then
        some (n.buf.map (fun x => if x.key == s then { x with senders := x.senders ++ [src] } else x))
      else none
    | none => some (n.buf ++ [⟨s, t, src, [src]⟩])

/-- `impl Message<ReplicateWrite> for PartitionReplicatorActor` -/
def onReplicate (q : Nat) (me : NodeId) (n : Node) (src : NodeId) (t : Tx) (s : Nat) : Node × List Msg :=
  match bufInsert n src t s with
  | none => (n, [Msg.reply me src t s false])
  | some buf' =>
    let n1 : Node := { n with buf := buf' }
    drain q me (n1.buf.length + 1) n1

/-- position of the first slot holding transaction `t` (`read_transaction(first_event_id)`) -/
def findTx (log : List Entry) (t : Tx) : Option Nat := log.findIdx? (fun e => e.tx == t)

/-- the append loop of `impl Message<PartitionSyncResponse>`.  Each commit is rebuilt as a transaction
whose events expect their exact stream versions, so a commit the replica already stores fails the
store's stream-version check: the handler logs the error and RETURNS (no further commit, no drain).
Otherwise, after the fix, the commit is appended with `Exact` = its own first sequence and SKIPPED when
the log is elsewhere (`WrongExpectedSequence`); before the fix (`any = true`) it was appended wherever
the log ends.  The count is the coordinator's.  `lim` = number of commits the store looks at before
refusing one for any other reason (adversary; `≥ |commits|` = never).  The `Bool` tells whether the
loop completed. -/
def applyCommits (any : Bool) (me : NodeId) : Nat → List Commit → Node → Node × List Msg × Bool
  | _, [], n => (n, [], true)
  | 0, _ :: _, n => (n, [], false)
  | lim + 1, c :: cs, n =>
    if (findTx n.log c.tx).isSome then (n, [], false)
    else if any || n.log.length = c.seq then
      let p := n.log.length
      let n' : Node := { n with log := n.log ++ [⟨c.tx, c.cnt⟩], next := p + 1, buf := keepFrom n.buf (p + 1) }
      let r := applyCommits any me lim cs n'
      (r.1, staleReplies me n.buf (p + 1) ++ r.2.1, r.2.2)
    else applyCommits any me lim cs n

/-- `impl Message<PartitionSyncResponse> for PartitionReplicatorActor` (`Ok(commits)`): `catching_up`
is reset, the commits are applied, and — only if the loop completed — the buffer is drained -/
def onSyncResp (q : Nat) (any : Bool) (me : NodeId) (n : Node) (lim : Nat) (commits : List Commit) :
    Node × List Msg :=
  let r := applyCommits any me lim commits { n with catching := false }
  if r.2.2 then
    let d := drain q me (r.1.buf.length + 1) r.1
    (d.1, r.2.1 ++ d.2)
  else (r.1, r.2.1)

/-- smallest key of the buffer (`first_key_value` of the `BTreeMap`) -/
def oldest : List BufE → Option BufE
  | [] => none
  | e :: es => match oldest es with
    | none => some e
    | some m => if e.key ≤ m.key then some e else some m

/-- `detect_and_handle_gaps` (expiry is the adversary step `evict`): a gap below the oldest buffered
write and no catch-up running ⇒ `PartitionSyncRequest { from = next, to = oldest - 1 }` to the
coordinator of that write -/
def onGaps (me : NodeId) (n : Node) : Node × List Msg :=
  match oldest n.buf with
  | none => (n, [])
  | some o =>
    if n.next < o.key && !n.catching then
      ({ n with catching := true }, [Msg.syncReq me o.coord n.next (o.key - 1)])
    else (n, [])

/-- `impl Message<PartitionSyncRequest> for ClusterActor`: the commits at sequences `frm ..= to`
below the watermark `w` (an input: C08 keeps it at most the confirmed prefix) -/
def serveSync (n : Node) (frm to w : Nat) : List Commit :=
  ((List.range n.log.length).filter (fun p => decide (frm ≤ p) && decide (p ≤ to) && decide (p < w))).filterMap
    (fun p => (n.log[p]?).map (fun e => ⟨e.tx, p, e.cnt⟩))

def setCnt (log : List Entry) (p : Nat) (c : Nat) : List Entry :=
  log.modify p (fun e => { e with cnt := c })

/-- `impl Message<ConfirmTransaction> for ClusterActor`, `CommittedEvents::Single` arm: the event is
looked up by id, `set_confirmations` checks the transaction id at its offset and overwrites the
count (no sequence check in this arm) -/
def onConfirm (n : Node) (t : Tx) (c : Nat) : Node :=
  match findTx n.log t with
  | none => n
  | some p => { n with log := setCnt n.log p c }

/-! ### The coordinator side (`transaction::{spawn, run}`) -/

/-- `set_confirmations(offsets of the own append, transaction_id, count)`: the record at the offset
must carry the transaction id -/
def setOwnCnt (log : List Entry) (t : Tx) (s : Nat) (c : Nat) : Option (List Entry) :=
  match log[s]? with
  | some e => if e.tx = t then some (setCnt log s c) else none
  | none => none

/-- quorum reached in `run` ⇒ `set_confirmations_with_retry` with `confirmed_replicas.len()`;
`none` = `ConfirmationFailed` (the client gets the error, the task ends) -/
def tryCount (q : Nat) (n : Node) (tk : Task) : Node × Option Task :=
  if !tk.counted && decide (q ≤ tk.confirmed.length) then
    match setOwnCnt n.log tk.tx tk.seq tk.confirmed.length with
    | some log' => ({ n with log := log' }, some { tk with counted := true })
    | none => (n, none)
  else (n, some tk)

def putTask (tasks : List Task) (k : Nat) : Option Task → List Task
  | some tk => tasks.set k tk
  | none => tasks.eraseIdx k

/-- a client write arrives at node `me`, which believes to be the partition's primary and sees the
replicas `view` (any node, any view: divergent membership views): quorum check of
`resolve_write_destination`, local append at the end of the own log (bypassing the replicator: its
`next` is not advanced), `ReplicateWrite` with the assigned sequence to every replica of the view -/
def onStart (rf : Nat) (me : NodeId) (n : Node) (t : Tx) (view : List NodeId) : Option (Node × List Msg × Nat) :=
  let q := quorum rf
  let replicas := (List.range rf).filter (fun i => i != me && view.contains i)
  if replicas.length + 1 < q then none
  else
    let s := n.log.length
    let n1 : Node := { n with log := n.log ++ [⟨t, initCnt q⟩] }
    let tk : Task := { tx := t, seq := s, pending := replicas, confirmed := [me], counted := false, acked := false }
    let r := tryCount q n1 tk
    -- `pending_replies.is_empty()` without quorum ⇒ `ReplicationQuorumFailed`: no task remains
    let tasks := match r.2 with
      | some tk' => if replicas.isEmpty && !tk'.counted then n.tasks else n.tasks ++ [tk']
      | none => n.tasks
    some ({ r.1 with tasks := tasks }, replicas.map (fun d => Msg.rw me d t s), s)

/-- a reply of replica `src` reaches the coordinator task `k` (one future per replica: a reply of a
node that is not pending — duplicate, or not asked — is ignored).  `none` = not enabled (`run`
returned and the late-reply loop has not started: the future is not polled). -/
def onReply (q : Nat) (me : NodeId) (n : Node) (k : Nat) (tk : Task) (src : NodeId) (ok : Bool) :
    Option (Node × List Msg) :=
  if !tk.pending.contains src then some (n, [])
  else if tk.counted && !tk.acked then none
  else
    let pending := tk.pending.erase src
    if ok then
      let tk1 : Task := { tk with pending := pending, confirmed := tk.confirmed ++ [src] }
      if tk.acked then
        -- late success: `confirmation_count += 1`, `ConfirmTransaction` to that replica only
        some ({ n with tasks := n.tasks.set k tk1 }, [Msg.confirm me src tk.tx tk.seq tk1.confirmed.length])
      else
        let r := tryCount q n tk1
        some ({ r.1 with tasks := putTask n.tasks k r.2 }, [])
    else
      let tk1 : Task := { tk with pending := pending }
      if !tk.acked && decide (tk.confirmed.length + pending.length < q) then
        some ({ n with tasks := n.tasks.eraseIdx k }, [])      -- `ReplicationQuorumFailed`
      else some ({ n with tasks := n.tasks.set k tk1 }, [])

/-- after the own count is durable: `ConfirmTransaction` to every confirmed replica, then the client
is answered -/
def onFinish (me : NodeId) (n : Node) (k : Nat) (tk : Task) : Option (Node × List Msg) :=
  if tk.counted && !tk.acked then
    some ({ n with tasks := n.tasks.set k { tk with acked := true } },
          (tk.confirmed.filter (fun r => r != me)).map (fun r => Msg.confirm me r tk.tx tk.seq tk.confirmed.length))
  else none

/-! ### The system: adversary actions and `step` -/

inductive Action where
  /-- a client write with fresh transaction id `t` is coordinated by node `n` seeing replicas `view` -/
  | start (n : NodeId) (t : Tx) (view : List NodeId)
  /-- message `net[i]` is delivered (and consumed); `w` = the coordinator's watermark, read only when
  the message is a `syncReq` -/
  | deliver (i : Nat) (w : Nat)
  /-- `ReplicateWrite` `net[i]` is refused by its destination for a reason outside the sequence rule
  (stream version, I/O error, unknown or stale coordinator, partition not owned): error reply -/
  | deliverFail (i : Nat)
  /-- `PartitionSyncResponse` `net[i]` is delivered and the local store refuses its commit number `k`
  for a reason outside the model (stream version of a diverged history, I/O): the handler returns -/
  | deliverPartial (i : Nat) (k : Nat)
  | drop (i : Nat)
  | dup (i : Nat)
  /-- task `k` of node `n` proceeds past `set_confirmations`: confirmations sent, client answered -/
  | finish (n : NodeId) (k : Nat)
  /-- task `k` of node `n` ends by a timeout (10 s `TIMEOUT` of `run` / of the late-reply loop) -/
  | timeout (n : NodeId) (k : Nat)
  /-- the catch-up timer of node `n` fires -/
  | gaps (n : NodeId)
  /-- buffered entry `k` of node `n` leaves the buffer unapplied (eviction, expiry): error replies -/
  | evict (n : NodeId) (k : Nat)
  /-- the catch-up request of node `n` failed (`PartitionSyncResponse { Err }`) -/
  | syncFail (n : NodeId)
  | crash (n : NodeId)
  | restart (n : NodeId)
  deriving DecidableEq, Repr

/-- replace node `i`, add outgoing messages -/
def Sys.put (s : Sys) (i : NodeId) (n : Node) (net : List Msg) : Sys :=
  { s with nodes := s.nodes.set i n, net := net }

/-- a live node -/
def Sys.live (s : Sys) (i : NodeId) : Option Node :=
  match s.nodes[i]? with
  | some n => if n.crashed then none else some n
  | none => none

def fresh (started : List (Tx × Nat)) (t : Tx) : Bool := started.all (fun p => p.1 != t)

def deliverMsg (s : Sys) (rest : List Msg) (w : Nat) (lim : Option Nat) : Msg → Option Sys
  | .rw src dst t sq =>
    match s.live dst with
    | none => none
    | some n =>
      let r := onReplicate s.q dst n src t sq
      some (s.put dst r.1 (rest ++ r.2))
  | .reply src dst t _ ok =>
    match s.live dst with
    | none => none
    | some n =>
      match n.tasks.findIdx? (fun tk => tk.tx == t) with
      | none => some { s with net := rest }          -- the task is gone: the reply is discarded
      | some k =>
        match n.tasks[k]? with
        | none => none
        | some tk =>
          match onReply s.q dst n k tk src ok with
          | none => none
          | some r => some (s.put dst r.1 (rest ++ r.2))
  | .confirm _ dst t _ c =>
    match s.live dst with
    | none => none
    | some n => some (s.put dst (onConfirm n t c) rest)
  | .syncReq src dst frm to =>
    match s.live dst with
    | none => none
    | some n => some { s with net := rest ++ [Msg.syncResp dst src (serveSync n frm to w)] }
  | .syncResp _ dst commits =>
    match s.live dst with
    | none => none
    | some n =>
      let r := onSyncResp s.q s.anyCatchup dst n (lim.getD commits.length) commits
      some (s.put dst r.1 (rest ++ r.2))

def step (s : Sys) : Action → Option Sys
  | .start i t view =>
    match s.live i with
    | none => none
    | some n =>
      if !fresh s.started t then none
      else match onStart s.rf i n t view with
        | none => none
        | some (n', out, sq) => some { s.put i n' (s.net ++ out) with started := (t, sq) :: s.started }
  | .deliver i w =>
    match s.net[i]? with
    | none => none
    | some m => deliverMsg s (s.net.eraseIdx i) w none m
  | .deliverPartial i k =>
    match s.net[i]? with
    | some (.syncResp src dst cs) => deliverMsg s (s.net.eraseIdx i) 0 (some k) (.syncResp src dst cs)
    | _ => none
  | .deliverFail i =>
    match s.net[i]? with
    | some (.rw src dst t sq) =>
      match s.live dst with
      | none => none
      | some _ => some { s with net := s.net.eraseIdx i ++ [Msg.reply dst src t sq false] }
    | _ => none
  | .drop i => if i < s.net.length then some { s with net := s.net.eraseIdx i } else none
  | .dup i =>
    match s.net[i]? with
    | none => none
    | some m => some { s with net := s.net ++ [m] }
  | .finish i k =>
    match s.live i with
    | none => none
    | some n =>
      match n.tasks[k]? with
      | none => none
      | some tk =>
        match onFinish i n k tk with
        | none => none
        | some r => some { s.put i r.1 (s.net ++ r.2) with acks := (i, tk.tx, tk.seq) :: s.acks }
  | .timeout i k =>
    match s.live i with
    | none => none
    | some n =>
      if k < n.tasks.length then some (s.put i { n with tasks := n.tasks.eraseIdx k } s.net) else none
  | .gaps i =>
    match s.live i with
    | none => none
    | some n =>
      let r := onGaps i n
      some (s.put i r.1 (s.net ++ r.2))
  | .evict i k =>
    match s.live i with
    | none => none
    | some n =>
      match n.buf[k]? with
      | none => none
      | some e => some (s.put i { n with buf := n.buf.eraseIdx k } (s.net ++ replyAll i e.senders e.tx e.key false))
  | .syncFail i =>
    match s.live i with
    | none => none
    | some n => some (s.put i { n with catching := false } s.net)
  | .crash i =>
    match s.live i with
    | none => none
    | some n => some (s.put i { n with crashed := true, buf := [], tasks := [], catching := false } s.net)
  | .restart i =>
    match s.nodes[i]? with
    | none => none
    | some n =>
      if n.crashed then some (s.put i { n with crashed := false, next := n.log.length } s.net) else none

/-- run a list of actions; `none` as soon as one is not enabled -/
def run (s : Sys) : List Action → Option Sys
  | [] => some s
  | a :: as => (step s a).bind (fun s' => run s' as)

/-- states reachable from the initial state by any finite list of enabled actions -/
inductive Reachable (rf : Nat) : Sys → Prop where
  | init : Reachable rf (Sys.init rf)
  | step {s s' : Sys} (a : Action) : Reachable rf s → step s a = some s' → Reachable rf s'

/-! ### Observations used by the properties -/

/-- the confirmed prefix of a log: the slots before the first one without a quorum count -/
def confirmedPrefix (q : Nat) (log : List Entry) : List Entry := log.takeWhile (fun e => decide (q ≤ e.cnt))

/-- two nodes store different transactions at sequence `p`, both with a quorum count -/
def conflictAt (s : Sys) (p : Nat) : Bool :=
  s.nodes.any fun a => s.nodes.any fun b =>
    match a.log[p]?, b.log[p]? with
    | some x, some y => decide (s.q ≤ x.cnt) && decide (s.q ≤ y.cnt) && x.tx != y.tx
    | _, _ => false

end SierraModel.Protocol
