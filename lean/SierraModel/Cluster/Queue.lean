/-
Model of `sierradb-cluster/src/write/ordered_queue.rs` (`OrderedQueue<u64, V>`), as the code is
after the two `fix:` commits of C12:
  * `insert` looks the key up BEFORE deciding to evict (a key that is already buffered is merged
    or rejected as a conflict without touching the other entries),
  * `progress_to(next)` removes and returns every entry whose key is below the new `next`
    (the caller answers them as stale).
The `BTreeMap<K, V>` is an association list with strictly increasing keys.
No imports outside core: this file is linked into the native model driver.
-/

namespace SierraModel.Cluster

/-- `trait OrderedValue { fn key_eq(&self, other: &Self) -> bool; fn merge(&mut self, new: Self); }` -/
class OrderedValue (V : Type) where
  /-- `new.key_eq(existing)` -/
  keyEq : V → V → Bool
  /-- `existing.merge(new)` (result = the mutated `existing`) -/
  merge : V → V → V

/-- association list standing for the `BTreeMap<u64, V>` -/
abbrev AMap (V : Type) := List (Nat × V)

namespace AMap
variable {V : Type}

/-- `map.get(&k)` -/
def get? (m : AMap V) (k : Nat) : Option V := (m.find? (fun e => e.1 == k)).map (·.2)
/-- `map.contains_key(&k)` -/
def contains (m : AMap V) (k : Nat) : Bool := m.any (fun e => e.1 == k)
/-- `map.remove(&k)` (the map without `k`) -/
def erase (m : AMap V) (k : Nat) : AMap V := m.filter (fun e => !(e.1 == k))
/-- `map.insert(k, v)` / overwrite of an occupied entry: keeps the keys increasing -/
def put (m : AMap V) (k : Nat) (v : V) : AMap V :=
  m.filter (fun e => decide (e.1 < k)) ++ (k, v) :: m.filter (fun e => decide (k < e.1))
/-- keys of the map, ascending -/
def keys (m : AMap V) : List Nat := m.map (·.1)
/-- BTreeMap representation invariant: strictly increasing keys -/
def Sorted (m : AMap V) : Prop := m.Pairwise (fun a b => a.1 < b.1)

end AMap

/-- `struct OrderedQueue<K, V> { map, next, limit }` -/
structure OQueue (V : Type) where
  map : AMap V
  next : Nat
  limit : Nat

/-- result of `OrderedQueue::insert` (`Ok(InsertResult{..})` / `Err(Error::..)`), plus `trap` for
the `expect("limit must be greater than 0")` on an empty map (unreachable when `limit > 0`) -/
inductive InsertOut (V : Type) where
  /-- `Ok { next: Some(v), merged_with_existing, evicted: None }` -/
  | ready (v : V) (merged : Bool)
  /-- `Ok { next: None, merged_with_existing, evicted }` -/
  | buffered (merged : Bool) (evicted : Option (Nat × V))
  | conflict (v : V)
  | full (k : Nat) (v : V)
  | stale (k : Nat) (v : V)
  | trap

namespace OQueue
variable {V : Type} [OrderedValue V]

/-- `OrderedQueue::new(initial_next, limit)` (asserts `limit > 0`) -/
def new (next limit : Nat) : OQueue V := { map := [], next := next, limit := limit }

/-- the "insert or merge" tail of `insert` on the (possibly evicted-from) map `m` -/
def insertOrMerge (q : OQueue V) (m : AMap V) (key : Nat) (value : V) (evicted : Option (Nat × V)) :
    OQueue V × InsertOut V :=
  match m.get? key with
  | none => ({ q with map := m.put key value }, .buffered false evicted)
  | some ex =>
    if OrderedValue.keyEq value ex then
      ({ q with map := m.put key (OrderedValue.merge ex value) }, .buffered true evicted)
    else (q, .conflict value)

/-- `OrderedQueue::insert(&mut self, key, value)` -/
def insert (q : OQueue V) (key : Nat) (value : V) : OQueue V × InsertOut V :=
  if key = q.next then
    match q.map.get? key with
    | none => (q, .ready value false)
    | some ex =>
      if OrderedValue.keyEq value ex then
        ({ q with map := q.map.erase key }, .ready (OrderedValue.merge ex value) true)
      else (q, .conflict value)
  else if key < q.next then (q, .stale key value)
  else if q.limit ≤ q.map.length && !(q.map.contains key) then
    -- full, key not yet buffered: evict the largest key if it is above the new one
    match q.map.getLast? with
    | none => (q, .trap)
    | some last =>
      if key < last.1 then insertOrMerge q q.map.dropLast key value (some last)
      else (q, .full key value)
  else insertOrMerge q q.map key value none

/-- `OrderedQueue::pop(&mut self) = self.map.remove(&self.next)` -/
def pop (q : OQueue V) : OQueue V × Option V :=
  match q.map.get? q.next with
  | none => (q, none)
  | some v => ({ q with map := q.map.erase q.next }, some v)

/-- `OrderedQueue::progress_to(&mut self, next) -> BTreeMap<K, V>`: sets `next`, removes and returns
the entries below it (`split_off`) -/
def progressTo (q : OQueue V) (next : Nat) : OQueue V × AMap V :=
  ({ q with next := next, map := q.map.filter (fun e => decide (next ≤ e.1)) },
   q.map.filter (fun e => decide (e.1 < next)))

/-- the three public mutators, for histories of arbitrary calls -/
inductive QOp (V : Type) where
  | insert (key : Nat) (value : V)
  | pop
  | progressTo (next : Nat)

def step (q : OQueue V) : QOp V → OQueue V
  | .insert k v => (q.insert k v).1
  | .pop => q.pop.1
  | .progressTo n => (q.progressTo n).1

def run (q : OQueue V) (ops : List (QOp V)) : OQueue V := ops.foldl step q

end OQueue

/-! ### The classification table of `insert` as a specification -/

/-- the nine outcomes of the table (+ the unreachable `expect`) -/
inductive InsertClass where
  | stale | nextVacant | nextMerge | nextConflict
  | futureVacant | futureMerge | futureConflict | full | evictLargest | trap
  deriving DecidableEq, Repr

/-- class of an `InsertOut` together with the eviction flag (what the caller can observe) -/
def InsertOut.cls {V : Type} : InsertOut V → InsertClass
  | .ready _ false => .nextVacant
  | .ready _ true => .nextMerge
  | .buffered false none => .futureVacant
  | .buffered true none => .futureMerge
  | .buffered _ (some _) => .evictLargest
  | .conflict _ => .futureConflict   -- refined by `insertSpec` (the variant carries no position)
  | .full _ _ => .full
  | .stale _ _ => .stale
  | .trap => .trap

/-- The specification table.  Rows are tried top to bottom:
```
 key < next                                   → stale          (queue unchanged)
 key = next, key ∉ map                        → nextVacant     (queue unchanged, value handed back)
 key = next, map[key] = ex, value ≈ ex        → nextMerge      (entry removed, merge(ex,value) handed back)
 key = next, map[key] = ex, value ≉ ex        → nextConflict   (queue unchanged)
 key > next, map[key] = ex, value ≈ ex        → futureMerge    (entry := merge(ex,value), nothing evicted)
 key > next, map[key] = ex, value ≉ ex        → futureConflict (queue unchanged)
 key > next, key ∉ map, |map| < limit         → futureVacant   (entry added)
 key > next, key ∉ map, |map| ≥ limit, max key > key → evictLargest (max entry handed back, entry added)
 key > next, key ∉ map, |map| ≥ limit, max key < key → full    (queue unchanged)
```
-/
def insertSpec {V : Type} [OrderedValue V] (q : OQueue V) (key : Nat) (value : V) : InsertClass :=
  if key < q.next then .stale
  else match q.map.get? key with
    | some ex =>
      if OrderedValue.keyEq value ex then (if key = q.next then .nextMerge else .futureMerge)
      else (if key = q.next then .nextConflict else .futureConflict)
    | none =>
      if key = q.next then .nextVacant
      else if q.map.length < q.limit then .futureVacant
      else match q.map.getLast? with
        | none => .trap
        | some last => if key < last.1 then .evictLargest else .full

/-- observable class of an actual `insert` call: the class of its output, with the position of a
conflict recovered from the key -/
def insertClass {V : Type} [OrderedValue V] (q : OQueue V) (key : Nat) (value : V) : InsertClass :=
  match (q.insert key value).2 with
  | .conflict _ => if key = q.next then .nextConflict else .futureConflict
  | o => o.cls

end SierraModel.Cluster
