/-
Model of the five LOCAL read handlers of `ClusterActor` (crates/sierradb-cluster/src/read.rs) as
the code is after the C07 `fix:` commits:
  `handle_local_read` (ReadEvent), `handle_partition_read_locally` (ReadPartition),
  `handle_stream_read_locally` (ReadStream), `GetStreamVersion`, `GetPartitionSequence`.

* A partition log is the list of its events in partition-sequence order; every event carries the
  confirmation count stored with its transaction (`EventRecord::confirmation_count`).
* The confirmed watermark is a PARAMETER `wm` (the value of the partition's `AtomicWatermark`:
  the number of leading confirmed events, i.e. events with `seq < wm` may be read).  `defWm` is the
  definitional watermark: the length of the longest prefix of events with a quorum count.
* The store's scan iterators (`Database::read_partition` / `read_stream` + `next_batch`) are the
  interface below (`fwdPart`, `fwdStream`, `revStream`, `nextBatch`): the groups (`CommittedEvents`)
  they yield are a function of the log (C03 is the property about the store side; the
  correspondence run checks the interface on every request).  How the store CUTS the groups into
  batches is not fixed by the log (segment boundaries): `cut i` is the maximal number of groups of
  the `i`-th batch, an arbitrary function all theorems quantify over; `next_batch(0)` is `None`.
* `u64` values are `Nat`s (the driver admits only values in range); the two additions that can
  trap (`partition_sequence + 1`) are the checked `addU64`: `none` = debug panic / release wrap.
  `events_collected` always equals `events.len()` and is modelled as that length.
  `as usize` of a `u64` is the identity (64-bit targets).
* `Database::read_stream` looks the stream up in the BUCKET's stream index: when the request names a
  partition the stream does not live in (another partition of the same bucket), the scan yields that
  other partition's events.  The log a scan ranges over may therefore contain events with another
  `part`; the handlers drop them (`event.partition_id != partition_id`, after the fix).  `OwnLog`
  (all events carry the requested partition id) is what a partition's own log satisfies.
* Single-node view: after the local replica counted a "not found", every available replica has
  been tried, so the answer is `Ok(None)` whatever `not_found_count` is; the `u8` counter is the
  saturating `satAddU8` (after the fix) and is not part of the reply.
-/
import SierraModel.Cluster.Watermark

namespace SierraModel.Cluster.ReadGate
open SierraModel.Cluster

structure Ev where
  seq : Nat       -- partition_sequence
  stream : Nat    -- stream id (numbered by the harness)
  version : Nat   -- stream_version
  tx : Nat        -- transaction (numbered by the harness)
  count : Nat     -- confirmation_count stored with the transaction
  part : Nat := 0 -- partition_id (the stream index is per BUCKET: a stream scan can yield events of
                  -- another partition of the bucket; every event of a partition's own log has its id)
  deriving Repr, DecidableEq

abbrev Log := List Ev

/-- the event's transaction carries a quorum confirmation count -/
def quorate (rf : Nat) (e : Ev) : Bool := decide (quorum rf ≤ e.count)

/-- definitional watermark: length of the longest prefix whose events all have a quorum count -/
def defWm (log : Log) (rf : Nat) : Nat := (log.takeWhile (quorate rf)).length

/-- `DEFAULT_BATCH_SIZE` -/
def BATCH : Nat := 50

/-- `usize::clamp(1, DEFAULT_BATCH_SIZE)` -/
def clampBatch (n : Nat) : Nat := if n < 1 then 1 else if n > BATCH then BATCH else n

/-! ### the store's scan interface -/

/-- consecutive events of one transaction form one `CommittedEvents` group -/
def groupTx : List Ev → List (List Ev)
  | [] => []
  | e :: rest =>
    match groupTx rest with
    | (f :: g) :: gs => if f.tx = e.tx then (e :: f :: g) :: gs else [e] :: (f :: g) :: gs
    | other => [e] :: other

/-- `read_partition(pid, start, Forward)`: the events at or after `start`, grouped -/
def fwdPart (log : Log) (start : Nat) : List (List Ev) :=
  groupTx (log.filter (fun e => decide (start ≤ e.seq)))

/-- `read_stream(pid, stream, start, Forward)`: the stream's events from version `start` on -/
def fwdStream (log : Log) (stream start : Nat) : List (List Ev) :=
  groupTx (log.filter (fun e => e.stream == stream && decide (start ≤ e.version)))

/-- `BucketIter::next_batch(limit)` on the remaining groups; `cut` = the store's own bound for
this batch (at least one group is returned when there is one) -/
def nextBatch (rest : List (List Ev)) (cut limit : Nat) : Option (List (List Ev) × List (List Ev)) :=
  if limit = 0 then none
  else match rest with
    | [] => none
    | _ :: _ => let k := max 1 (min cut limit); some (rest.take k, rest.drop k)

/-- `read_stream(pid, stream, u64::MAX, Reverse)`: walking the stream's index backwards, each step
reads the committed group from that event's offset to its commit: the events of the stream at
or after it inside its transaction (a multi-event transaction is therefore seen once per event,
as growing suffixes) -/
def revStream (log : Log) (stream : Nat) : List (List Ev) :=
  let evs := log.filter (fun e => e.stream == stream)
  evs.reverse.map (fun e => evs.filter (fun f => f.tx == e.tx && decide (e.version ≤ f.version)))

/-! ### replies -/

inductive Out (α : Type) where
  | ok (a : α)
  | trap            -- checked arithmetic overflowed: debug panic (the asker gets no reply)
  deriving Repr, DecidableEq

structure Scan where
  events : List Ev
  hasMore : Bool
  deriving Repr, DecidableEq

/-! ### `handle_local_read` (ReadEvent) -/

/-- `required_quorum = (self.replication_factor / 2) + 1` is `quorum rf`.  `id` = the partition
sequence of the event the requested id belongs to (an unknown id is no sequence of the log);
`nf` = `metadata.not_found_count`.  Three gates: exists, quorum count, `seq + 1 > watermark`. -/
def readEvent (log : Log) (wm rf id nf : Nat) : Out (Option Ev) :=
  -- every "not found" branch: `not_found_count.saturating_add(1)`, then (single node) `Ok(None)`
  let notFound : Out (Option Ev) := let _nf := satAddU8 nf 1; .ok none
  match log.find? (fun e => e.seq == id) with
  | none => notFound
  | some e =>
    if e.count < quorum rf then notFound
    else match addU64 e.seq 1 with
      | none => .trap
      | some s1 => if s1 > wm then notFound else .ok (some e)

/-! ### `handle_partition_read_locally` (ReadPartition) -/

structure PSt where
  acc : List Ev          -- events (events_collected = acc.length)
  lastRead : Nat         -- last_read_sequence
  deriving Repr, DecidableEq

/-- the two nested `for` loops over one batch (only `break 'iter` leaves them): `true` = broke -/
def partBatch (count effEnd wm : Nat) : List Ev → PSt → Out (PSt × Bool)
  | [], st => .ok (st, false)
  | e :: es, st =>
    if st.acc.length ≥ count then .ok (st, true)
    else if e.seq > effEnd || e.seq ≥ wm then .ok (st, true)
    else match addU64 e.seq 1 with
      | none => .trap
      | some n => partBatch count effEnd wm es { acc := st.acc ++ [e], lastRead := n }

/-- the `'iter: while let Some(commits) = iter.next_batch(..)` loop; `i` = batch number -/
def partLoop (cut : Nat → Nat) (count effEnd wm : Nat) : Nat → List (List Ev) → Nat → PSt → Out PSt
  | 0, _, _, st => .ok st
  | fuel + 1, rest, i, st =>
    match nextBatch rest (cut i) (clampBatch (effEnd - st.lastRead)) with
    | none => .ok st
    | some (batch, rest') =>
      match partBatch count effEnd wm batch.flatten st with
      | .trap => .trap
      | .ok (st', true) => .ok st'
      | .ok (st', false) =>
        if st'.acc.length ≥ count then .ok st'
        else if (st'.acc.getLast?.map (·.seq)).getD 0 ≥ effEnd then .ok st'
        else partLoop cut count effEnd wm fuel rest' (i + 1) st'

/-- `effective_end_sequence` (inclusive) -/
def effEndOf (endSeq : Option Nat) (wm : Nat) : Nat :=
  match endSeq with | some e => min e wm | none => wm

def readPartition (cut : Nat → Nat) (log : Log) (wm start : Nat) (endSeq : Option Nat) (count : Nat) : Out Scan :=
  let effEnd := effEndOf endSeq wm
  if start > wm then .ok { events := [], hasMore := false }
  else
    let groups := fwdPart log start
    match partLoop cut count effEnd wm (groups.length + 1) groups 0 { acc := [], lastRead := start } with
    | .trap => .trap
    | .ok st =>
      -- `watermark.checked_sub(1).map(|latest| last_read_sequence <= latest).unwrap_or(false)`
      let hasMore := if wm = 0 then false else decide (st.lastRead ≤ wm - 1)
      .ok { events := st.acc, hasMore := hasMore }

/-! ### `handle_stream_read_locally` (ReadStream) -/

structure SSt where
  acc : List Ev          -- events (events_collected = acc.length)
  hasMore : Bool
  lastVer : Nat          -- last_read_version
  deriving Repr, DecidableEq

/-- how the inner `for event in commit` loop ended -/
inductive Brk where
  | none     -- ran to the end of the commit
  | inner    -- `break` (event beyond end_version): the per-commit checks still run
  | iter     -- `break 'iter`
  deriving Repr, DecidableEq

/-- `if let Some(end_ver) = end_version && v > end_ver` -/
def beyondEnd (endVer : Option Nat) (v : Nat) : Bool :=
  match endVer with | some ev => decide (v > ev) | none => false
/-- `if let Some(end_ver) = end_version && v >= end_ver` -/
def reachedEnd (endVer : Option Nat) (v : Nat) : Bool :=
  match endVer with | some ev => decide (v ≥ ev) | none => false

/-- `for event in commit { … }` -/
def streamCommit (pid count wm : Nat) (endVer : Option Nat) : List Ev → SSt → SSt × Brk
  | [], st => (st, .none)
  | e :: es, st =>
    if e.part != pid then (st, .iter)   -- `event.partition_id != partition_id`
    else if st.acc.length ≥ count then ({ st with hasMore := true }, .iter)
    else if e.seq ≥ wm then (st, .iter)
    else if beyondEnd endVer e.version then
      ({ st with hasMore := true }, .inner)
    else streamCommit pid count wm endVer es { st with acc := st.acc ++ [e], lastVer := e.version }

/-- `for commit in commits { … }` with the two checks after every commit: `true` = `break 'iter` -/
def streamBatch (pid count wm : Nat) (endVer : Option Nat) : List (List Ev) → SSt → SSt × Bool
  | [], st => (st, false)
  | c :: cs, st =>
    match streamCommit pid count wm endVer c st with
    | (st', .iter) => (st', true)
    | (st', _) =>
      if st'.acc.length ≥ count then ({ st' with hasMore := true }, true)
      else if reachedEnd endVer ((st'.acc.getLast?.map (·.version)).getD 0) then (st', true)
      else streamBatch pid count wm endVer cs st'

/-- the batch size argument: `end.map(|e| (e.saturating_sub(last_read_version)).clamp(1, 50)).unwrap_or(50)` -/
def streamLimit (endVer : Option Nat) (lastVer : Nat) : Nat :=
  match endVer with
  | some ev => clampBatch (ev - lastVer)
  | none => BATCH

def streamLoop (cut : Nat → Nat) (pid count wm : Nat) (endVer : Option Nat) : Nat → List (List Ev) → Nat → SSt → SSt
  | 0, _, _, st => st
  | fuel + 1, rest, i, st =>
    match nextBatch rest (cut i) (streamLimit endVer st.lastVer) with
    | none => st
    | some (batch, rest') =>
      match streamBatch pid count wm endVer batch st with
      | (st', true) => st'
      | (st', false) => streamLoop cut pid count wm endVer fuel rest' (i + 1) st'

def readStream (cut : Nat → Nat) (log : Log) (pid wm stream start : Nat) (endVer : Option Nat) (count : Nat) : Out Scan :=
  let groups := fwdStream log stream start
  let st := streamLoop cut pid count wm endVer (groups.length + 1) groups 0 { acc := [], hasMore := false, lastVer := 0 }
  .ok { events := st.acc, hasMore := st.hasMore }

/-! ### `GetStreamVersion`, `GetPartitionSequence` -/

/-- first event of the flattened batch that belongs to the requested partition and lies below the
watermark (`find_map`) -/
def findBelow (pid wm : Nat) (batch : List (List Ev)) : Option Nat :=
  (batch.flatten.find? (fun e => e.part == pid && decide (e.seq < wm))).map (·.version)

def verLoop (cut : Nat → Nat) (pid wm : Nat) : Nat → List (List Ev) → Nat → Option Nat
  | 0, _, _ => none
  | fuel + 1, rest, i =>
    match nextBatch rest (cut i) BATCH with
    | none => none
    | some (batch, rest') =>
      match findBelow pid wm batch with
      | some v => some v
      | none => verLoop cut pid wm fuel rest' (i + 1)

def getStreamVersion (cut : Nat → Nat) (log : Log) (pid wm stream : Nat) : Out (Option Nat) :=
  let groups := revStream log stream
  .ok (verLoop cut pid wm (groups.length + 1) groups 0)

/-- `watermark.get().checked_sub(1)` -/
def getPartitionSequence (wm : Nat) : Out (Option Nat) := .ok (if wm = 0 then none else some (wm - 1))

end SierraModel.Cluster.ReadGate
