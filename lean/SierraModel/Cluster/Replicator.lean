/-
Model of the replica side of replication: `PartitionReplicatorActor`
(`sierradb-cluster/src/write/replicate.rs`) at the level of the actor's logic, as the code is after
the C12 `fix:` commits.

State = the `OrderedQueue` of buffered writes, the partition log of the local database (only what
this actor appends; `dbNext` = the database's next partition sequence), and — bookkeeping that the
real system keeps in reply channels — the list of answers sent so far.

  * `deliver`     = `impl Message<ReplicateWrite> for PartitionReplicatorActor` (`buffer_write`,
                    `pop_next_buffered_write`, `write_buffered`/`write_transaction`, the drain loop)
  * `detectGaps`  = `detect_and_handle_gaps` (expiry of the front entries, the `oldest - 1` /
                    `oldest - next` arithmetic as CHECKED subtraction, the catch-up decision)

Time is an input (`now`, in any unit; `received_at.elapsed() <= buffer_timeout` is
`now - at ≤ bufTimeout` with saturating subtraction, as `Instant::elapsed`).  The database is
modelled by its partition-sequence check only (assumption recorded in checks.json): an append of a
transaction whose expected next sequence is `key` succeeds iff `key = dbNext`.
-/
import SierraModel.Cluster.Queue

namespace SierraModel.Cluster

/-- checked `u64` subtraction: `none` = underflow (debug panic / release wrap) -/
def checkedSub (a b : Nat) : Option Nat := if b ≤ a then some (a - b) else none

/-- `ReplySenderTimed { tx, received_at }`; `rid` identifies the ask it answers -/
structure Sender where
  rid : Nat
  recvAt : Nat
  deriving DecidableEq, Repr

/-- `BufferedWrite { coordinator_ref, tx, reply_senders }`: of the transaction only its id, its
expected next partition sequence (`key`) and its event count matter here -/
structure BW where
  key : Nat
  tx : Nat
  n : Nat
  senders : List Sender
  deriving DecidableEq, Repr

/-- `impl OrderedValue for BufferedWrite`: same transaction id; merge = collect the reply senders -/
instance : OrderedValue BW where
  keyEq a b := a.tx == b.tx
  merge ex new := { ex with senders := ex.senders ++ new.senders }

/-- what an asker observes -/
inductive Ans where
  /-- `Ok(AppendResult { first_partition_sequence, last_partition_sequence, .. })` -/
  | applied (first last : Nat)
  /-- `Err(WrongExpectedSequence | DatabaseOperationFailed)` from the local append -/
  | dbFailed
  | stale | conflict | full | evicted
  /-- the reply sender was dropped without a message (expired by `garbage_collect`) -/
  | dropped
  deriving DecidableEq, Repr

/-- one appended transaction: first partition sequence, transaction id, event count -/
structure LogEntry where
  first : Nat
  tx : Nat
  n : Nat
  deriving DecidableEq, Repr

structure Rep where
  q : OQueue BW
  log : List LogEntry
  dbNext : Nat
  answers : List (Nat × Ans)
  bufTimeout : Nat
  catchingUp : Bool
  /-- a panic happened (`expect` on an empty map, arithmetic underflow) -/
  trapped : Bool

namespace Rep

/-- `on_start`: `next_expected_seq` = the database's next sequence -/
def new (next limit bufTimeout : Nat) : Rep :=
  { q := OQueue.new next limit, log := [], dbNext := next, answers := [], bufTimeout := bufTimeout,
    catchingUp := false, trapped := false }

def isAlive (now timeout : Nat) (s : Sender) : Bool := decide (now - s.recvAt ≤ timeout)

def answerAll (st : Rep) (ss : List Sender) (a : Ans) : Rep :=
  { st with answers := st.answers ++ ss.map (fun s => (s.rid, a)) }

/-- `BufferedWrite::garbage_collected`: expired reply senders are dropped; `None` if none is left -/
def gcWrite (st : Rep) (now : Nat) (w : BW) : Rep × Option BW :=
  let alive := w.senders.filter (isAlive now st.bufTimeout)
  let dead := w.senders.filter (fun s => !(isAlive now st.bufTimeout s))
  let st := answerAll st dead .dropped
  if alive.isEmpty then (st, none) else (st, some { w with senders := alive })

/-- `pop_next_buffered_write`: `while let Some(w) = pop() { if w.garbage_collect() { return Some(w) } }`.
Every iteration removes a map entry, so `|map| + 1` iterations suffice; running out of fuel would be
a modelling error and is flagged as `trapped` (proved unreachable in `Props/C12`). -/
def popNext : Nat → Rep → Nat → Rep × Option BW
  | 0, st, _ => ({ st with trapped := true }, none)   -- fuel exhausted: unreachable (fuel > |map|), flagged
  | f + 1, st, now =>
    match st.q.pop with
    | (_, none) => (st, none)
    | (q', some w) =>
      match gcWrite { st with q := q' } now w with
      | (st', some w') => (st', some w')
      | (st', none) => popNext f st' now

/-- answer every reply sender of the entries `progress_to` removed (below the new `next`) as stale -/
def answerStale (st : Rep) (m : AMap BW) : Rep :=
  m.foldl (fun st e => answerAll st e.2.senders .stale) st

/-- `write_buffered` = `write_transaction` (database append with the transaction's expected
partition sequence; on success `progress_to(last + 1)`, the entries it removed are answered
`StaleWrite`) then the result is sent to every reply sender.  Returns `true` on success. -/
def writeBuffered (st : Rep) (w : BW) : Rep × Bool :=
  if w.key = st.dbNext ∧ 0 < w.n then
    let first := st.dbNext
    let last := first + w.n - 1
    let (q', staleEntries) := st.q.progressTo (last + 1)
    let st := { st with q := q', log := st.log ++ [⟨first, w.tx, w.n⟩], dbNext := last + 1 }
    let st := answerStale st staleEntries
    (answerAll st w.senders (.applied first last), true)
  else (answerAll st w.senders .dbFailed, false)

/-- the loop `while let Some(write) = next_write { match write_buffered(write) { Ok => next_write =
pop_next_buffered_write(), Err => break } }`; every iteration but the first consumes a map entry,
so `|map| + 1` iterations suffice (the fuel-exhausted branch is flagged `trapped` and proved
unreachable) -/
def drain : Nat → Rep → Nat → Option BW → Rep
  | _, st, _, none => st
  | 0, st, _, some w => answerAll { st with trapped := true } w.senders .dropped   -- unreachable, flagged
  | f + 1, st, now, some w =>
    match writeBuffered st w with
    | (st', true) =>
      let r := popNext (st'.q.map.length + 1) st' now
      drain f r.1 now r.2
    | (st', false) => st'

/-- error replies of `buffer_write`: `value.reply_senders.into_iter().next()` gets the error, any
further sender of the rejected value is dropped -/
def answerFirst (st : Rep) (v : BW) (a : Ans) : Rep :=
  match v.senders with
  | [] => st
  | s :: rest => answerAll (answerAll st [s] a) rest .dropped

/-- `Ok(Some(write))` of `buffer_write` (the value at the next key, after `garbage_collected`), or
`Ok(None)` when all its senders had expired (then `pop_next_buffered_write`); then the drain loop -/
def onReady (st : Rep) (now : Nat) (v : BW) : Rep :=
  match gcWrite st now v with
  | (st1, some w') => drain (st1.q.map.length + 1) st1 now (some w')
  | (st1, none) =>
    let r := popNext (st1.q.map.length + 1) st1 now
    drain (r.1.q.map.length + 1) r.1 now r.2

/-- reply `BufferEvicted` to the live senders of an evicted entry (expired ones are dropped) -/
def answerEvicted (st : Rep) (now : Nat) : Option (Nat × BW) → Rep
  | none => st
  | some (_, ew) =>
    match gcWrite st now ew with
    | (st1, some ew') => answerAll st1 ew'.senders .evicted
    | (st1, none) => st1

/-- the write was buffered: answer an eviction, then `Ok(None) => pop_next_buffered_write()` and the
drain loop -/
def onBuffered (st : Rep) (now : Nat) (ev : Option (Nat × BW)) : Rep :=
  let st1 := answerEvicted st now ev
  let r := popNext (st1.q.map.length + 1) st1 now
  drain (r.1.q.map.length + 1) r.1 now r.2

/-- the handler after `self.buffered_writes.insert(..)` returned (`q'` = the queue afterwards) -/
def afterInsert (st : Rep) (now : Nat) (q' : OQueue BW) : InsertOut BW → Rep
  | .ready v _ => onReady { st with q := q' } now v
  | .buffered _ ev => onBuffered { st with q := q' } now ev
  | .conflict v => answerFirst st v .conflict
  | .full _ v => answerFirst st v .full
  | .stale _ v => answerFirst st v .stale
  | .trap => { st with trapped := true }

/-- the `ReplicateWrite` handler -/
def deliver (st : Rep) (now key tx n rid : Nat) : Rep :=
  let r := st.q.insert key { key := key, tx := tx, n := n, senders := [⟨rid, now⟩] }
  afterInsert st now r.1 r.2

/-- the expiry loop at the head of `detect_and_handle_gaps`: entries whose senders all expired are
removed from the front; the first entry that keeps a sender stops the loop (its expired senders
are dropped in place).  Returns the map and the dropped senders. -/
def gcFront (now timeout : Nat) : AMap BW → AMap BW × List Sender
  | [] => ([], [])
  | (k, w) :: rest =>
    let alive := w.senders.filter (isAlive now timeout)
    let dead := w.senders.filter (fun s => !(isAlive now timeout s))
    if alive.isEmpty then
      let r := gcFront now timeout rest
      (r.1, dead ++ r.2)
    else ((k, { w with senders := alive }) :: rest, dead)

inductive GapOut where
  /-- circuit breaker does not permit a call -/
  | notPermitted
  /-- nothing buffered -/
  | empty
  /-- `gap_size == 0` or a catch-up is already running -/
  | noAction (gap : Nat)
  /-- `trigger_catch_up(from_seq, to_seq)` -/
  | catchUp (fromSeq toSeq : Nat)
  /-- `oldest - 1` or `oldest - next` underflowed -/
  | trap
  deriving DecidableEq, Repr

/-- `detect_and_handle_gaps` (`permitted` = `breaker.is_call_permitted()`, an input) -/
def detectGaps (st : Rep) (now : Nat) (permitted : Bool) : Rep × GapOut :=
  let r := gcFront now st.bufTimeout st.q.map
  let st := answerAll { st with q := { st.q with map := r.1 } } r.2 .dropped
  if !permitted then (st, .notPermitted)
  else match st.q.map.head? with
    | none => (st, .empty)
    | some (oldest, _) =>
      match checkedSub oldest 1, checkedSub oldest st.q.next with
      | some toSeq, some gap =>
        if 0 < gap && !st.catchingUp then ({ st with catchingUp := true }, .catchUp st.q.next toSeq)
        else (st, .noAction gap)
      | _, _ => ({ st with trapped := true }, .trap)

end Rep

/-- operations of a replica's life, in any order -/
inductive ROp where
  | deliver (now key tx n rid : Nat)
  | gaps (now : Nat) (permitted : Bool)
  deriving DecidableEq, Repr

def Rep.step (st : Rep) : ROp → Rep
  | .deliver now key tx n rid => st.deliver now key tx n rid
  | .gaps now permitted => (st.detectGaps now permitted).1

def Rep.run (st : Rep) (ops : List ROp) : Rep := ops.foldl Rep.step st

end SierraModel.Cluster
