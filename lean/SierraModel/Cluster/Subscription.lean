/-
C09 — subscriptions (crates/sierradb-cluster/src/subscription.rs, confirmation/actor.rs).

A system = shared cells (partition logs, watermark cells, the broadcast ring of OUR receiver),
the confirmation broadcaster (a program: one `send` per step) and ONE subscription task (a
program whose steps are the stretches of code between two `verif::pause` points).
`step : Sys → Action → Option Sys` (`none` = the action is not enabled); a schedule is a list of
actions.  The code modelled is the code after the `fix:` commits for F19 (labelled break in
`read_stream_history`) and F20 (records below the watermark at subscribe time are skipped).

Simplifications (see checks.json `partial`): one event per transaction; the hydrated matcher is a
map key ↦ optional start (the `AllPartitions(n)` / fallback / `AllStreams(n)` forms are expanded by
the harness); a `stream` subscription is a `streams` subscription with one key (same code path).
-/
namespace SierraModel.Subscription

/-- a stored event: partition, partition sequence, stream (number), stream version -/
structure Ev where
  p : Nat
  seq : Nat
  s : Nat
  ver : Nat
deriving DecidableEq, Repr, Inhabited

/-- what a subscription can follow: a partition (positions = sequences) or a stream of a
partition (positions = versions) -/
inductive Key where
  | part (p : Nat)
  | stream (p s : Nat)
deriving DecidableEq, Repr, Inhabited

def Key.pid : Key → Nat
  | .part p => p
  | .stream p _ => p

def Key.matches : Key → Ev → Bool
  | .part p, e => e.p == p
  | .stream p s, e => e.p == p && e.s == s

def Key.pos : Key → Ev → Nat
  | .part _, e => e.seq
  | .stream _ _, e => e.ver

def Key.isPart : Key → Bool
  | .part _ => true
  | .stream _ _ => false

inductive Kind where
  | part | parts | stream | streams
deriving DecidableEq, Repr, Inhabited

/-- where the subscription task is parked -/
inductive Pc where
  | off                        -- not subscribed yet
  | start                      -- `sub:start`  (before the first read_history)
  | batch (k : Key)            -- `hist:batch` (before `next_batch` of k's iterator)
  | hsend (k : Key) (n : Nat)  -- `send:wait` in history; n = events left in the current batch
  | live                       -- `live:recv`  (before `broadcast_rx.recv()`)
  | lsend (e : Ev) (k : Key)   -- `send:wait` in the live loop
deriving DecidableEq, Repr, Inhabited

def upd {α β : Type} [DecidableEq α] (f : α → β) (a : α) (b : β) : α → β :=
  fun x => if x = a then b else f x

structure Sys where
  cap : Nat                    -- capacity of the broadcast ring
  log : Nat → List Ev          -- partition ↦ events (index = sequence)
  wm : Nat → Nat               -- AtomicWatermark cells (sequences < wm are confirmed)
  cur : Nat → Nat              -- ConfirmationActor.next_broadcast_seq
  job : Option (Nat × Nat × Nat)   -- running broadcast: partition, next sequence, end (excl.)
  other : Bool                 -- some other receiver of the broadcast exists
  subd : Bool                  -- our receiver exists
  queue : List (Nat × Nat)     -- our receiver's unread ring slots (partition, sequence)
  lagged : Bool                -- the ring overwrote an unread slot
  kind : Kind
  keys : List Key
  window : Nat
  startWm : Nat → Nat          -- watermarks sampled by `subscribe` (F20 fix)
  frm : Key → Option Nat       -- matcher state: next position wanted (none = LATEST, nothing seen)
  start : Key → Nat            -- ghost: the start position of the key
  lost : Key → Bool            -- ghost: lagged while `frm k = none` (finding F30)
  todo : List Key              -- keys whose history is still to be opened
  opened : List Key            -- keys with an open history iterator
  iter : Key → List Ev         -- what the open iterator still yields (snapshot)
  pc : Pc
  out : List Ev                -- records delivered to the subscriber (index = cursor)
  lastAck : Option Nat         -- value of the `last_ack` watch cell

def init (cap : Nat) : Sys :=
  { cap := cap, log := fun _ => [], wm := fun _ => 0, cur := fun _ => 0, job := none,
    other := false, subd := false, queue := [], lagged := false, kind := .part, keys := [],
    window := 0, startWm := fun _ => 0, frm := fun _ => none, start := fun _ => 0,
    lost := fun _ => false, todo := [], opened := [], iter := fun _ => [], pc := .off,
    out := [], lastAck := none }

/-- matching events of key k in log order -/
def mlist (s : Sys) (k : Key) : List Ev := (s.log k.pid).filter k.matches

/-- number of confirmed matching events = the watermark expressed in positions of k -/
def wpos (s : Sys) (k : Key) : Nat := (((s.log k.pid).take (s.wm k.pid)).filter k.matches).length

inductive Action where
  | append (p st : Nat)
  | confirm (p n : Nat)        -- UpdateConfirmationWithBroadcast: watermark := n, start broadcasting
  | advance (p n : Nat)        -- UpdateConfirmation (replica path): watermark := n, no broadcast
  | bsend                      -- the broadcaster's next `broadcast_tx.send`
  | otherOn | otherOff
  | subscribe (kind : Kind) (keys : List (Key × Option Nat)) (window : Nat)
  | ack (c : Nat)
  | sub (ch : Option Key) (n : Nat)  -- one stretch of the subscription task; ch = the iterator it
                               -- picks next, n = length of the batch `next_batch` returns (else 0)
deriving Repr

/-! ### environment and broadcaster -/

def doAppend (s : Sys) (p st : Nat) : Sys :=
  let l := s.log p
  { s with log := upd s.log p (l ++ [⟨p, l.length, st, (l.filter (fun e => e.s == st)).length⟩]) }

def canConfirm (s : Sys) (p n : Nat) : Bool :=
  s.job.isNone && decide (s.wm p < n) && decide (n ≤ (s.log p).length)

def doConfirm (s : Sys) (p n : Nat) : Sys :=
  { s with wm := upd s.wm p n, job := if s.cur p < n then some (p, s.cur p, n) else none }

def doAdvance (s : Sys) (p n : Nat) : Sys := { s with wm := upd s.wm p n }

/-- `broadcast::Sender::send` as seen by our receiver: bounded ring, the oldest unread slot is
overwritten (`Lagged` on the next `recv`) -/
def push (s : Sys) (x : Nat × Nat) : Sys :=
  if s.queue.length < s.cap then { s with queue := s.queue ++ [x] }
  else { s with queue := s.queue.tail ++ [x], lagged := true }

def doBsend (s : Sys) : Option Sys :=
  match s.job with
  | none => none
  | some (p, nx, to) =>
    if !(s.subd || s.other) then
      -- `send` fails: no receiver; stop, keep what was broadcast so far
      some { s with job := none, cur := upd s.cur p nx }
    else
      let s1 := if s.subd then push s (p, nx) else s
      if nx + 1 < to then some { s1 with job := some (p, nx + 1, to) }
      else some { s1 with job := none, cur := upd s1.cur p (nx + 1) }

/-! ### the subscription task -/

def kindOk : Kind → List Key → Bool
  | .part, [k] => k.isPart
  | .parts, ks => ks.all Key.isPart
  | .stream, [k] => !k.isPart
  | .streams, ks => ks.all (fun k => !k.isPart)
  | _, _ => false

def lookupFrom (ks : List (Key × Option Nat)) (k : Key) : Option Nat :=
  match ks.find? (fun x => x.1 == k) with
  | some x => x.2
  | none => none

def needHist (s : Sys) : List Key := s.keys.filter (fun k => (s.frm k).isSome)

def doSubscribe (s : Sys) (kd : Kind) (ks : List (Key × Option Nat)) (w : Nat) : Option Sys :=
  let kys := ks.map (·.1)
  if s.pc ≠ .off then none else
  if !(kindOk kd kys) then none else
  if !(decide kys.Nodup) then none else
  let fr := lookupFrom ks
  let s1 : Sys :=
    { s with
      subd := true, queue := [], lagged := false, kind := kd, keys := kys, window := w,
      startWm := s.wm, frm := fr,
      start := fun k => match fr k with
        | some f => f
        | none => wpos s k
      lost := fun _ => false, opened := [], iter := fun _ => [], pc := .start,
      out := [], lastAck := none }
  some { s1 with todo := needHist s1 }

/-- `send_record`'s wait condition on the `last_ack` watch cell -/
def room (s : Sys) : Bool :=
  match s.lastAck with
  | some a => decide (s.out.length - a ≤ s.window)
  | none => decide (s.out.length + 1 ≤ s.window)

/-- `update_tx.send(Record{cursor,..}); cursor += 1` and the matcher update -/
def deliver (s : Sys) (e : Ev) (k : Key) : Sys :=
  { s with out := s.out ++ [e], frm := upd s.frm k (some (k.pos e + 1)) }

/-- what a fresh iterator of k from position f yields -/
def snap (s : Sys) (k : Key) (f : Nat) : List Ev := (mlist s k).drop f

def openK (s : Sys) (k : Key) (f : Nat) : Sys :=
  { s with todo := s.todo.erase k, opened := [k], iter := upd s.iter k (snap s k f), pc := .batch k }

def openAll (s : Sys) (ks : List Key) : Sys :=
  { s with opened := ks,
           iter := fun k => if k ∈ ks then snap s k ((s.frm k).getD 0) else s.iter k }

def dropIter (s : Sys) (k : Key) : Sys :=
  { s with opened := s.opened.erase k, iter := upd s.iter k [] }

/-- the head of the history loops: pick an open iterator (multi-partition: random; the choice
is the action's argument), else open the next stream, else history is finished -/
def chooseNext (s : Sys) (ch : Option Key) : Option Sys :=
  if s.opened ≠ [] then
    match ch with
    | some k => if k ∈ s.opened then some { s with pc := .batch k } else none
    | none => none
  else if s.todo ≠ [] then
    match ch with
    | some k =>
      if k ∈ s.todo then
        match s.frm k with
        | some f => some (openK s k f)
        | none => none
      else none
    | none => none
  else
    match ch with
    | none => some { s with pc := .live }
    | some _ => none

/-- `read_history` up to its first pause point -/
def beginHist (s : Sys) (ch : Option Key) : Option Sys :=
  match s.kind with
  | .part =>
    match s.keys with
    | [k] =>
      match s.frm k with
      | some f =>
        if f < s.wm k.pid then chooseNext (openAll { s with todo := [] } [k]) ch
        else chooseNext { s with todo := [], opened := [] } ch
      | none => chooseNext { s with todo := [], opened := [] } ch
    | _ => none
  | .parts => chooseNext (openAll { s with todo := [] } (needHist s)) ch
  | .stream => chooseNext { s with todo := needHist s, opened := [] } ch
  | .streams => chooseNext { s with todo := needHist s, opened := [] } ch

/-- `recv` returned `Lagged`: a partition without a position resumes at the watermark sampled by
`subscribe` (`resolve_latest_partitions`); a stream without a position cannot be re-read
(ghost `lost`, finding F30) -/
def onLag (s : Sys) : Sys :=
  { s with lagged := false,
           frm := fun k => match s.frm k with
             | some f => some f
             | none => if k.isPart && decide (k ∈ s.keys) then some (s.startWm k.pid) else none
           lost := fun k => s.lost k || (!k.isPart && decide (k ∈ s.keys) && (s.frm k).isNone) }

/-- the live loop's filter: F20 fix (below the watermark at subscribe time), then `has_seen` -/
def liveRecv (s : Sys) (e : Ev) : Sys :=
  if e.seq < s.startWm e.p then s
  else match s.keys.find? (fun k => k.matches e) with
    | none => s
    | some k =>
      match s.frm k with
      | some f => if k.pos e < f then s else { s with pc := .lsend e k }
      | none => { s with pc := .lsend e k }

def noChoice (ch : Option Key) (r : Sys) : Option Sys :=
  match ch with
  | none => some r
  | some _ => none

def subStep (s : Sys) (ch : Option Key) (n0 : Nat) : Option Sys :=
  match s.pc with
  | .off => none
  | .start => if n0 ≠ 0 then none else beginHist s ch
  | .batch k =>
    match s.iter k with
    | [] => if n0 ≠ 0 then none else chooseNext (dropIter s k) ch  -- `next_batch` = None
    | e :: _ =>
      -- `next_batch` returns the next n events (n depends on the read cache)
      if n0 = 0 ∨ (s.iter k).length < n0 then none else
      if e.seq < s.wm k.pid then noChoice ch { s with pc := .hsend k n0 }
      else chooseNext (dropIter s k) ch                         -- `break 'iter`
  | .hsend k n =>
    if n0 ≠ 0 then none else
    match s.iter k with
    | [] => none
    | e :: rest =>
      if !(room s) then none else
      let s1 := deliver { s with iter := upd s.iter k rest } e k
      if n ≤ 1 then chooseNext s1 ch                            -- batch finished
      else match rest with
        | [] => chooseNext s1 ch
        | e' :: _ =>
          if e'.seq < s.wm k.pid then noChoice ch { s1 with pc := .hsend k (n - 1) }
          else chooseNext (dropIter s1 k) ch                    -- `break 'iter`
  | .live =>
    if n0 ≠ 0 then none else
    if s.lagged then beginHist (onLag s) ch                     -- `Lagged`: re-read history
    else match s.queue with
      | [] => none
      | (p, i) :: q =>
        match (s.log p)[i]? with
        | none => none
        | some e => noChoice ch (liveRecv { s with queue := q } e)
  | .lsend e k =>
    if n0 ≠ 0 then none else
    if !(room s) then none else noChoice ch { (deliver s e k) with pc := .live }

def canAck (s : Sys) (c : Nat) : Bool :=
  decide (c < s.out.length) && (match s.lastAck with | some a => decide (a < c) | none => true)

def step (s : Sys) : Action → Option Sys
  | .append p st => some (doAppend s p st)
  | .confirm p n => if canConfirm s p n then some (doConfirm s p n) else none
  | .advance p n => if canConfirm s p n then some (doAdvance s p n) else none
  | .bsend => doBsend s
  | .otherOn => some { s with other := true }
  | .otherOff => some { s with other := false }
  | .subscribe kind ks w => doSubscribe s kind ks w
  | .ack c => if canAck s c then some { s with lastAck := some c } else none
  | .sub ch n => subStep s ch n

/-- run a schedule; `none` as soon as an action is not enabled -/
def run (s : Sys) : List Action → Option Sys
  | [] => some s
  | a :: as => match step s a with
    | some s' => run s' as
    | none => none

end SierraModel.Subscription
