/-
Model of `PartitionConfirmationState` (crates/sierradb-cluster/src/confirmation.rs) as the code
is after the three `fix:` commits of C08 (keep the maximum of the stored and the reported count;
saturating `attempts`; checked `next_expected + 1`).

* `u64` versions / `u8` counts are `Nat`s; the driver only admits values in range.  The single
  place where the code can overflow a `u64` (`next_expected += 1` when the watermark reaches
  `u64::MAX`) is the checked addition `addU64` below (`none` ⇒ the loop stops, as the code does
  after the fix); `attempts` saturates at 255.
* `unconfirmed_events : BTreeMap<u64, UnconfirmedEventInfo>` is an association list kept sorted by
  key (`mset` replaces an existing key); `first_seen` / `last_attempt` are wall-clock values that
  no watermark decision reads and are not modelled.
* `update_confirmation(&mut self, version, count, rf) -> bool` becomes
  `update rf s version count : PState × Bool`.
* the `while let Some(event) = self.unconfirmed_events.get(&next_expected)` loop is `scan` with
  fuel `unc.length + 1` (every iteration that continues consumes a distinct key; sufficiency is
  `Lemmas/Watermark.lean: scan_stop`).
* a multi-event transaction is reported as one message whose versions are updated one by one with
  the same count (`confirmation/actor.rs: for version in msg.versions`): `Report`/`applyReport`.
-/
namespace SierraModel.Cluster

def U64_MAX : Nat := 2 ^ 64 - 1
def U8_MAX : Nat := 255

/-- `u64::checked_add` -/
def addU64 (a b : Nat) : Option Nat := if a + b ≤ U64_MAX then some (a + b) else none
/-- `u8::saturating_add` -/
def satAddU8 (a b : Nat) : Nat := if a + b ≤ U8_MAX then a + b else U8_MAX

/-- `UnconfirmedEventInfo` without its two timestamps -/
structure Info where
  count : Nat       -- confirmation_count : u8
  attempts : Nat    -- attempts : u8
  deriving Repr, DecidableEq

abbrev UMap := List (Nat × Info)

/-- `BTreeMap::get` -/
def mget (m : UMap) (k : Nat) : Option Info := (m.find? (fun e => e.1 == k)).map (·.2)

/-- `BTreeMap::insert` (sorted by key, replaces) -/
def mset : UMap → Nat → Info → UMap
  | [], k, v => [(k, v)]
  | (k', v') :: rest, k, v =>
    if k < k' then (k, v) :: (k', v') :: rest
    else if k = k' then (k, v) :: rest
    else (k', v') :: mset rest k v

/-- `retain(|&ver, _| ver > w)` -/
def mretain (m : UMap) (w : Nat) : UMap := m.filter (fun e => w < e.1)

structure PState where
  highest : Nat     -- highest_version
  wm : Nat          -- confirmed_watermark
  unc : UMap        -- unconfirmed_events
  deriving Repr, DecidableEq

def PState.new : PState := { highest := 0, wm := 0, unc := [] }

/-- `required_quorum = (replication_factor / 2) + 1` -/
def quorum (rf : Nat) : Nat := rf / 2 + 1

/-- the entry of `v` exists and has a quorum count -/
def okAt (m : UMap) (q v : Nat) : Bool :=
  match mget m v with
  | some e => decide (q ≤ e.count)
  | none => false

/-- "try to advance watermark contiguously": `w` is `new_watermark`, `next_expected = w + 1`.
The caller guarantees `w < u64::MAX` on entry; the recursive call is made only when
`(w + 1) + 1` does not overflow. -/
def scan (m : UMap) (q : Nat) : Nat → Nat → Nat
  | 0, w => w
  | fuel + 1, w =>
    if okAt m q (w + 1) then
      match addU64 (w + 1) 1 with
      | some _ => scan m q fuel (w + 1)
      | none => w + 1
    else w

/-- `update_confirmation`; second component = `watermark_advanced` -/
def update (rf : Nat) (s : PState) (version count : Nat) : PState × Bool :=
  let highest := if version > s.highest then version else s.highest
  if version ≤ s.wm then ({ s with highest := highest }, false)
  else
    let old : Info := (mget s.unc version).getD { count := 0, attempts := 0 }
    let unc1 := mset s.unc version
      { count := max old.count count, attempts := satAddU8 old.attempts 1 }
    let w := scan unc1 (quorum rf) (unc1.length + 1) s.wm
    if w > s.wm then ({ highest := highest, wm := w, unc := mretain unc1 w }, true)
    else ({ highest := highest, wm := s.wm, unc := unc1 }, false)

/-- one confirmation message: a transaction of `n` events whose first version is `first`, all
reported with the same `count` -/
structure Report where
  first : Nat
  n : Nat
  count : Nat
  deriving Repr, DecidableEq

/-- the single-version updates a report expands to -/
def Report.expand (r : Report) : List (Nat × Nat) := (List.range r.n).map (fun i => (r.first + i, r.count))

/-- all versions of the report are `u64` values -/
def Report.inRange (r : Report) : Bool := decide (r.first + r.n ≤ U64_MAX + 1)

/-- a sequence of single-version updates -/
def runUps (rf : Nat) (s : PState) (ups : List (Nat × Nat)) : PState :=
  ups.foldl (fun s u => (update rf s u.1 u.2).1) s

def applyReport (rf : Nat) (s : PState) (r : Report) : PState := runUps rf s r.expand

def runReports (rf : Nat) (s : PState) (rs : List Report) : PState := rs.foldl (applyReport rf) s

/-! ### Specification side: the longest quorum-confirmed prefix -/

/-- maximum count reported for version `v` (0 if never reported) -/
def maxc : List (Nat × Nat) → Nat → Nat
  | [], _ => 0
  | u :: rest, v => if u.1 = v then max u.2 (maxc rest v) else maxc rest v

/-- largest version mentioned -/
def maxVer : List (Nat × Nat) → Nat
  | [] => 0
  | u :: rest => max u.1 (maxVer rest)

/-- count upwards from `w` while `ok (w+1)` -/
def prefixFrom (ok : Nat → Bool) : Nat → Nat → Nat
  | 0, w => w
  | fuel + 1, w => if ok (w + 1) then prefixFrom ok fuel (w + 1) else w

/-- length of the longest prefix 1..p of versions whose maximum reported count is a quorum -/
def prefixLen (q : Nat) (ups : List (Nat × Nat)) : Nat :=
  prefixFrom (fun v => decide (q ≤ maxc ups v)) (maxVer ups + 1) 0

end SierraModel.Cluster
