/-
Model of `sierradb::id` (crates/sierradb/src/id.rs) on 128-bit values, and of the routing rules
`partition_id = hash % num_partitions`, `bucket_id = partition_id % total_buckets`
(database.rs, server request handlers).
-/
namespace SierraModel.Id

/-- `uuid_v7_with_partition_hash` with the clock/random inputs made explicit. -/
def mkId (ts : BitVec 64) (r12 : BitVec 16) (h : BitVec 16) (r46 : BitVec 64) : BitVec 128 :=
  (((ts &&& 0xFFFFFFFFFFFF#64).zeroExtend 128) <<< 80)
  ||| (((r12 &&& 0x0FFF#16).zeroExtend 128) <<< 68)
  ||| (0x7#128 <<< 64)
  ||| (0x2#128 <<< 62)
  ||| ((h.zeroExtend 128) <<< 46)
  ||| ((r46 &&& ((1#64 <<< 46) - 1#64)).zeroExtend 128)

/-- `uuid_to_partition_hash` -/
def hashOf (u : BitVec 128) : BitVec 16 := ((u >>> 46) &&& 0xFFFF#128).truncate 16

/-- `validate_event_id` -/
def validate (u : BitVec 128) (h : BitVec 16) : Bool := hashOf u == h

/-- `set_uuid_flag`: byte 8 (big endian) `|= 0x80` / `&= 0x7f` = bit 63 of the u128. -/
def setFlag (u : BitVec 128) (flag : Bool) : BitVec 128 :=
  if flag then u ||| (1#128 <<< 63) else u &&& ~~~(1#128 <<< 63)

/-- `get_uuid_flag` -/
def getFlag (u : BitVec 128) : Bool := (u &&& (1#128 <<< 63)) != 0#128

/-- routing: partition of a key/id among `p` partitions; bucket of a partition among `b`. -/
def partitionOf (u : BitVec 128) (p : Nat) : Nat := (hashOf u).toNat % p
def bucketOf (pid b : Nat) : Nat := pid % b

/-- `extract_event_id_bucket` -/
def extractEventIdBucket (u : BitVec 128) (b : Nat) : Nat := if b == 1 then 0 else (hashOf u).toNat % b
/-- `partition_id_to_bucket` -/
def partitionIdToBucket (pid b : Nat) : Nat := if b == 1 then 0 else pid % b

/-- `Transaction::new` event-id validation: every event id must embed the key's hash. -/
def txValid (key : BitVec 128) (eventIds : List (BitVec 128)) : Bool :=
  !eventIds.isEmpty && eventIds.all (fun e => validate e (hashOf key))

end SierraModel.Id
