import SierraModel.Topology.Manager

namespace SierraModel.Topology

theorem isReplicaNode_iff (b n rf i : Nat) :
    isReplicaNode b n rf i = true ↔ i ∈ (List.range (effRf rf n)).map (fun off => (b % n + off) % n) := by
  simp only [isReplicaNode, List.any_eq_true, List.mem_range, beq_iff_eq, List.mem_map]

theorem mem_cfgBuckets (i n B rf b : Nat) :
    b ∈ cfgBuckets i n B rf ↔ b < B ∧ isReplicaNode b n rf i = true := by
  simp [cfgBuckets]

theorem mem_cfgPartitions (i n B P rf p : Nat) (hB : 0 < B) :
    p ∈ cfgPartitions i n B P rf ↔ p < P ∧ isReplicaNode (p % B) n rf i = true := by
  simp only [cfgPartitions, List.mem_filter, List.mem_range, List.contains_iff_mem, mem_cfgBuckets]
  constructor
  · rintro ⟨h1, _, h3⟩; exact ⟨h1, h3⟩
  · rintro ⟨h1, h3⟩; exact ⟨h1, Nat.mod_lt _ hB, h3⟩

theorem cfgPartitions_eq_topoPartitions (i n B P rf : Nat) :
    cfgPartitions i n B P rf = topoPartitions i n P B rf := rfl

theorem mem_replicaIdx (p B n rf i : Nat) :
    i ∈ replicaIdx p B n rf ↔ isReplicaNode (p % B) n rf i = true := by
  rw [isReplicaNode_iff]; rfl

theorem modshift_inj (c n a b : Nat) (hn : 0 < n) (ha' : a < n) (hb' : b < n)
    (hab : (c + a) % n = (c + b) % n) : a = b := by
  by_cases hlt : a ≤ b
  · have h1 : (c + b) % n = ((c + a) % n + (b - a)) % n := by
      rw [Nat.add_mod ((c + a) % n), Nat.mod_mod, ← Nat.add_mod]; congr 1; omega
    rw [← hab] at h1
    have hx : (c + a) % n < n := Nat.mod_lt _ hn
    by_cases hs : (c + a) % n + (b - a) < n
    · rw [Nat.mod_eq_of_lt hs] at h1; omega
    · have : ((c + a) % n + (b - a)) % n = (c + a) % n + (b - a) - n := by
        rw [Nat.mod_eq_sub_mod (by omega), Nat.mod_eq_of_lt (by omega)]
      omega
  · have h1 : (c + a) % n = ((c + b) % n + (a - b)) % n := by
      rw [Nat.add_mod ((c + b) % n), Nat.mod_mod, ← Nat.add_mod]; congr 1; omega
    rw [hab] at h1
    have hx : (c + b) % n < n := Nat.mod_lt _ hn
    by_cases hs : (c + b) % n + (a - b) < n
    · rw [Nat.mod_eq_of_lt hs] at h1; omega
    · have : ((c + b) % n + (a - b)) % n = (c + b) % n + (a - b) - n := by
        rw [Nat.mod_eq_sub_mod (by omega), Nat.mod_eq_of_lt (by omega)]
      omega

/-- offsets below n give pairwise distinct node indexes -/
theorem replicaIdx_nodup (p B n rf : Nat) (hn : 0 < n) : (replicaIdx p B n rf).Nodup := by
  unfold replicaIdx
  rw [List.Nodup, List.pairwise_map]
  refine List.Pairwise.imp_of_mem ?_ (List.nodup_range (n := effRf rf n))
  intro a b ha hb hne hab
  simp only [List.mem_range, effRf] at ha hb
  exact hne (modshift_inj _ n a b hn (by omega) (by omega) hab)

theorem replicaIdx_length (p B n rf : Nat) : (replicaIdx p B n rf).length = min rf n := by
  simp [replicaIdx, effRf]

theorem replicaIdx_lt (p B n rf i : Nat) (hn : 0 < n) (h : i ∈ replicaIdx p B n rf) : i < n := by
  simp only [replicaIdx, List.mem_map] at h
  obtain ⟨_, _, rfl⟩ := h
  exact Nat.mod_lt _ hn

end SierraModel.Topology
