/-
Fixed-width bit-layout facts, proved with `bv_decide` (SAT + verified LRAT certificate).
This is the ONLY file allowed to use `bv_decide`; each use adds an axiom
`*._native.bv_decide.ax_*` (trust in the compiled certificate checker), listed in the evidence.
-/
import SierraModel.Id.Uuid
import Std.Tactic.BVDecide

namespace SierraModel.Id

theorem hashOf_mkId (ts : BitVec 64) (r12 : BitVec 16) (h : BitVec 16) (r46 : BitVec 64) :
    hashOf (mkId ts r12 h r46) = h := by
  unfold hashOf mkId; bv_decide

theorem hashOf_setFlag (u : BitVec 128) (b : Bool) : hashOf (setFlag u b) = hashOf u := by
  unfold hashOf setFlag; cases b <;> simp only [if_true, if_false, Bool.false_eq_true] <;> bv_decide

theorem setFlag_other_bits (u : BitVec 128) (b : Bool) :
    (setFlag u b ^^^ u) &&& ~~~(1#128 <<< 63) = 0#128 := by
  unfold setFlag; cases b <;> simp only [if_true, if_false, Bool.false_eq_true] <;> bv_decide

theorem getFlag_setFlag (u : BitVec 128) (b : Bool) : getFlag (setFlag u b) = b := by
  unfold getFlag setFlag; cases b <;> simp only [if_true, if_false, Bool.false_eq_true] <;> bv_decide

/-- version (7) and variant (binary 10) fields of a generated id. -/
theorem mkId_version_variant (ts : BitVec 64) (r12 : BitVec 16) (h : BitVec 16) (r46 : BitVec 64) :
    (mkId ts r12 h r46 >>> 64) &&& 0xF#128 = 0x7#128 ∧ (mkId ts r12 h r46 >>> 62) &&& 0x3#128 = 0x2#128 := by
  unfold mkId; constructor <;> bv_decide

end SierraModel.Id
