/-
Helper lemmas for C12: reply-sender bookkeeping.  Every reply sender (identified by the `rid` of
the ask it belongs to) is, at any time, in exactly one place: answered, or buffered in the queue,
or in the hand of the running handler.  Conservation is stated with `List.Perm` and proved by
counting.
-/
import SierraModel.Lemmas.Replicator

namespace SierraModel.Cluster
namespace Rep

def ridsW (w : BW) : List Nat := w.senders.map (·.rid)
def pendingOf (m : AMap BW) : List Nat := m.flatMap (fun e => ridsW e.2)
/-- rids waiting in the buffer -/
def pending (st : Rep) : List Nat := pendingOf st.q.map
/-- rids that received an answer (or whose reply channel was dropped), in answer order -/
def answered (st : Rep) : List Nat := st.answers.map (·.1)
def held : Option BW → List Nat
  | none => []
  | some w => ridsW w
def evRids : Option (Nat × BW) → List Nat
  | none => []
  | some e => ridsW e.2

theorem perm_of_counts {l₁ l₂ : List Nat} (h : ∀ a, l₁.count a = l₂.count a) : l₁.Perm l₂ :=
  List.perm_iff_count.mpr h

@[simp] theorem answered_answerAll (st : Rep) (ss : List Sender) (a : Ans) :
    answered (answerAll st ss a) = answered st ++ ss.map (·.rid) := by
  simp [answered, answerAll, List.map_append, List.map_map, Function.comp_def]

@[simp] theorem pending_answerAll (st : Rep) (ss : List Sender) (a : Ans) :
    pending (answerAll st ss a) = pending st := rfl

theorem filter_split_count (p : Sender → Bool) (l : List Sender) (a : Nat) :
    ((l.filter p).map (·.rid)).count a + ((l.filter (fun s => !p s)).map (·.rid)).count a =
      (l.map (·.rid)).count a := by
  have := ((List.filter_append_perm p l).map (·.rid)).count_eq a
  simpa [List.map_append, List.count_append] using this

theorem gcWrite_book (st : Rep) (now : Nat) (w : BW) (a : Nat) :
    (answered (gcWrite st now w).1).count a + (held (gcWrite st now w).2).count a =
      (answered st).count a + (ridsW w).count a ∧ pending (gcWrite st now w).1 = pending st := by
  have hs := filter_split_count (isAlive now st.bufTimeout) w.senders a
  unfold gcWrite
  dsimp only
  split
  · next hemp =>
    have : w.senders.filter (isAlive now st.bufTimeout) = [] := by simpa using hemp
    rw [this] at hs
    simp only [answered_answerAll, List.count_append, held, pending_answerAll, ridsW, List.map_nil,
      List.count_nil] at hs ⊢
    exact ⟨by omega, trivial⟩
  · simp only [answered_answerAll, List.count_append, held, pending_answerAll, ridsW] at hs ⊢
    exact ⟨by omega, trivial⟩

theorem pendingOf_perm {m m' : AMap BW} (h : m.Perm m') (a : Nat) : (pendingOf m).count a = (pendingOf m').count a :=
  (h.flatMap_right _).count_eq a

theorem pendingOf_cons (e : Nat × BW) (m : AMap BW) : pendingOf (e :: m) = ridsW e.2 ++ pendingOf m := by
  simp [pendingOf, List.flatMap_cons]

theorem pendingOf_append (m₁ m₂ : AMap BW) : pendingOf (m₁ ++ m₂) = pendingOf m₁ ++ pendingOf m₂ := by
  simp [pendingOf, List.flatMap_append]

theorem pendingOf_filter_split (p : Nat × BW → Bool) (m : AMap BW) (a : Nat) :
    (pendingOf (m.filter p)).count a + (pendingOf (m.filter (fun e => !p e))).count a = (pendingOf m).count a := by
  have := pendingOf_perm (List.filter_append_perm p m) a
  rw [pendingOf_append, List.count_append] at this
  exact this

theorem pop_book {q : OQueue BW} (hs : q.map.Sorted) (a : Nat) :
    (pendingOf q.pop.1.map).count a + (held q.pop.2).count a = (pendingOf q.map).count a := by
  unfold OQueue.pop
  split
  · simp [held]
  · next v hget =>
    have := pendingOf_perm (AMap.perm_erase hs hget) a
    rw [pendingOf_cons, List.count_append] at this
    dsimp only at this
    simp only [held]
    omega

/-- everything accounted for: answered, buffered -/
def bookCount (st : Rep) (a : Nat) : Nat := (answered st).count a + (pending st).count a

theorem popNext_book {st : Rep} (hs : st.q.map.Sorted) (now f : Nat) (a : Nat) :
    bookCount (popNext f st now).1 a + (held (popNext f st now).2).count a = bookCount st a := by
  induction f generalizing st with
  | zero => simp [popNext, bookCount, held, answered, pending]
  | succ f ih =>
    unfold popNext
    have hp := pop_book hs a
    have hsp : st.q.pop.1.map.Sorted := by
      unfold OQueue.pop; split
      · exact hs
      · exact AMap.sorted_erase _ hs
    rcases hpop : st.q.pop with ⟨q', o⟩
    rw [hpop] at hp hsp
    dsimp only at hp hsp
    cases o with
    | none => simp [held]
    | some w =>
      dsimp only
      obtain ⟨g1, g2⟩ := gcWrite_book { st with q := q' } now w a
      have gq := gcWrite_q { st with q := q' } now w
      rcases hgc : gcWrite { st with q := q' } now w with ⟨st', o'⟩
      rw [hgc] at g1 g2 gq
      dsimp only at g1 g2 gq
      cases o' with
      | some w' =>
        dsimp only
        simp only [bookCount, held, pending, answered] at *
        rw [gq]
        omega
      | none =>
        dsimp only
        have := ih (st := st') (by rw [gq]; exact hsp)
        simp only [bookCount, held, pending, answered, List.count_nil] at *
        rw [gq] at this
        omega

theorem answered_answerStale (st : Rep) (m : AMap BW) :
    answered (answerStale st m) = answered st ++ pendingOf m := by
  rw [answerStale_eq]
  simp only [answered, List.map_append, List.map_flatMap, List.map_map, pendingOf, ridsW]
  rfl

theorem writeBuffered_book (st : Rep) (w : BW) (a : Nat) :
    bookCount (writeBuffered st w).1 a = bookCount st a + (ridsW w).count a := by
  unfold writeBuffered
  split
  · simp only [OQueue.progressTo, bookCount, answered_answerAll, pending_answerAll, List.count_append]
    rw [answered_answerStale]
    have hsplit := pendingOf_filter_split (fun e => decide (st.dbNext + w.n - 1 + 1 ≤ e.1)) st.q.map a
    have hfe : (st.q.map.filter (fun e => !decide (st.dbNext + w.n - 1 + 1 ≤ e.1))) =
        st.q.map.filter (fun e => decide (e.1 < st.dbNext + w.n - 1 + 1)) := by
      apply List.filter_congr
      intro e _
      by_cases hc : st.dbNext + w.n - 1 + 1 ≤ e.1
      · have : ¬ e.1 < st.dbNext + w.n - 1 + 1 := by omega
        simp [hc, this]
      · have : e.1 < st.dbNext + w.n - 1 + 1 := by omega
        simp [hc, this]
    rw [hfe] at hsplit
    simp only [pending, answerStale_eq, answered, List.count_append, ridsW] at hsplit ⊢
    omega
  · simp only [bookCount, answered_answerAll, pending_answerAll, List.count_append, ridsW]
    omega


theorem drain_book (hD : ∀ k t n, D k t n → 0 < n) (f : Nat) {st : Rep} (h : RInv D base st) (now : Nat)
    (o : Option BW) (ho : ∀ w, o = some w → WOk D w ∧ st.q.map.length < f) (a : Nat) :
    bookCount (drain f st now o) a = bookCount st a + (held o).count a := by
  induction f generalizing st o with
  | zero =>
    cases o with
    | none => simp [drain, held]
    | some w => have := (ho w rfl).2; omega
  | succ f ih =>
    cases o with
    | none => simp [drain, held]
    | some w =>
      unfold drain
      obtain ⟨hw, hlen⟩ := ho w rfl
      obtain ⟨i1, i2, _⟩ := writeBuffered_spec h hD w hw
      have hb := writeBuffered_book st w a
      rcases hwb : writeBuffered st w with ⟨st', b⟩
      rw [hwb] at i1 i2 hb
      dsimp only at i1 i2 hb
      cases b with
      | false => simp only [held]; exact hb
      | true =>
        dsimp only
        obtain ⟨p1, p2, p3, _, _⟩ := popNext_spec i1 now (st'.q.map.length + 1) (Nat.lt_succ_self _)
        have pb := popNext_book i1.q.sorted now (st'.q.map.length + 1) a
        rw [ih p1 _ (fun w' hw' => ⟨(p2 w' hw').1, by have := (p2 w' hw').2.2; omega⟩)]
        simp only [held] at *
        omega

/-- rids an `insert` hands back to its caller -/
def outRids : InsertOut BW → List Nat
  | .ready v _ => ridsW v
  | .buffered _ ev => evRids ev
  | .conflict v => ridsW v
  | .full _ v => ridsW v
  | .stale _ v => ridsW v
  | .trap => []

theorem ridsW_merge (ex v : BW) : ridsW (OrderedValue.merge ex v) = ridsW ex ++ ridsW v := by
  simp [ridsW, OrderedValue.merge]

theorem insertOrMerge_book {q : OQueue BW} (m : AMap BW) (hs : m.Sorted) (key : Nat) (w : BW)
    (ev : Option (Nat × BW)) (hcf : m.get? key ≠ none → m = q.map ∧ ev = none) (a : Nat) :
    (pendingOf (OQueue.insertOrMerge q m key w ev).1.map).count a +
      (outRids (OQueue.insertOrMerge q m key w ev).2).count a =
    (pendingOf m).count a + (ridsW w).count a + (evRids ev).count a := by
  unfold OQueue.insertOrMerge
  split
  · next hget =>
    have := pendingOf_perm (AMap.put_perm m key w) a
    rw [AMap.erase_of_not_mem (AMap.get?_eq_none.mp hget), pendingOf_cons, List.count_append] at this
    simp only [outRids]
    dsimp only at this
    omega
  · next ex hget =>
    obtain ⟨hm, hev⟩ := hcf (by rw [hget]; simp)
    split
    · have h1 := pendingOf_perm (AMap.put_perm m key (OrderedValue.merge ex w)) a
      have h2 := pendingOf_perm (AMap.perm_erase hs hget) a
      rw [pendingOf_cons, List.count_append] at h1 h2
      dsimp only at h1 h2
      rw [ridsW_merge, List.count_append] at h1
      simp only [outRids]
      omega
    · subst hm; subst hev
      simp only [outRids, evRids, List.count_nil]
      omega

theorem insert_book {q : OQueue BW} (hq : QInv q) (hl : 0 < q.limit) (key : Nat) (w : BW) (a : Nat) :
    (pendingOf (q.insert key w).1.map).count a + (outRids (q.insert key w).2).count a =
      (pendingOf q.map).count a + (ridsW w).count a := by
  unfold OQueue.insert
  split
  · split
    · simp [outRids]
    · next ex hget =>
      split
      · have h2 := pendingOf_perm (AMap.perm_erase hq.sorted hget) a
        rw [pendingOf_cons, List.count_append] at h2
        dsimp only at h2
        simp only [outRids, ridsW_merge, List.count_append]
        omega
      · simp [outRids]
  · split
    · simp [outRids]
    · split
      · next hfull =>
        simp only [Bool.and_eq_true, decide_eq_true_eq, Bool.not_eq_true'] at hfull
        have hnone : q.map.get? key = none := by
          have := hfull.2; rw [AMap.contains_eq] at this
          cases hg : q.map.get? key with
          | none => rfl
          | some v => rw [hg] at this; simp at this
        split
        · next hlast =>
          have : q.map = [] := by simpa using hlast
          rw [this] at hfull
          simp only [List.length_nil] at hfull
          omega
        · next last hlast =>
          split
          · have hb := insertOrMerge_book (q := q) q.map.dropLast (AMap.sorted_dropLast hq.sorted) key w (some last)
              (fun hc => absurd (AMap.get?_dropLast_none hnone) hc) a
            have hne : q.map ≠ [] := by intro hc; simp [hc] at hlast
            have hdl : q.map.dropLast ++ [last] = q.map := by
              have h1 := List.dropLast_concat_getLast hne
              rw [List.getLast?_eq_some_getLast hne] at hlast
              simp only [Option.some.injEq] at hlast
              rw [hlast] at h1; exact h1
            have hc : (pendingOf q.map).count a = (pendingOf q.map.dropLast).count a + (ridsW last.2).count a := by
              conv => lhs; rw [← hdl]
              rw [pendingOf_append, List.count_append, pendingOf_cons]
              simp [pendingOf]
            simp only [evRids] at hb
            omega
          · simp [outRids]
      · have hb := insertOrMerge_book (q := q) q.map hq.sorted key w none (fun _ => ⟨rfl, rfl⟩) a
        simp only [evRids, List.count_nil] at hb
        omega


theorem onReady_book (hD : ∀ k t n, D k t n → 0 < n) {st : Rep} (h : RInv D base st) (now : Nat)
    (v : BW) (hv : WOk D v) (a : Nat) :
    bookCount (onReady st now v) a = bookCount st a + (ridsW v).count a := by
  unfold onReady
  have hg := gcWrite_inv h now v
  have hgs := @gcWrite_some st now v
  obtain ⟨g1, g2⟩ := gcWrite_book st now v a
  rcases hgc : gcWrite st now v with ⟨st2, o2⟩
  rw [hgc] at hg hgs g1 g2
  dsimp only at hg hgs g1 g2
  cases o2 with
  | some w' =>
    dsimp only
    rw [drain_book hD _ hg]
    · simp only [bookCount, held] at *; rw [g2]; omega
    · intro w'' hw''
      simp only [Option.some.injEq] at hw''; subst hw''
      obtain ⟨x, y, z⟩ := hgs rfl
      exact ⟨by unfold WOk at *; rw [x, y, z]; exact hv, Nat.lt_succ_self _⟩
  | none =>
    dsimp only
    obtain ⟨p1, p2, _, _, _⟩ := popNext_spec hg now (st2.q.map.length + 1) (Nat.lt_succ_self _)
    have pb := popNext_book hg.q.sorted now (st2.q.map.length + 1) a
    rw [drain_book hD _ p1 now _ (fun w'' hw'' => ⟨(p2 w'' hw'').1, Nat.lt_succ_self _⟩)]
    simp only [bookCount, held, List.count_nil] at *
    rw [g2] at pb; omega

theorem answerEvicted_book (st : Rep) (now : Nat) (ev : Option (Nat × BW)) (a : Nat) :
    (answered (answerEvicted st now ev)).count a = (answered st).count a + (evRids ev).count a ∧
    (answerEvicted st now ev).q = st.q := by
  unfold answerEvicted
  split
  · simp [evRids]
  · next ek ew =>
    obtain ⟨g1, _⟩ := gcWrite_book st now ew a
    have gq := gcWrite_q st now ew
    rcases hgc : gcWrite st now ew with ⟨st2, o2⟩
    rw [hgc] at g1 gq
    dsimp only at g1 gq
    cases o2 with
    | some ew' =>
      dsimp only
      simp only [answered_answerAll, List.count_append, held, evRids, ridsW, answerAll_q] at *
      exact ⟨by omega, gq⟩
    | none =>
      dsimp only
      simp only [held, evRids, List.count_nil] at *
      exact ⟨by omega, gq⟩

theorem onBuffered_book (hD : ∀ k t n, D k t n → 0 < n) {st : Rep} (h : RInv D base st) (now : Nat)
    (ev : Option (Nat × BW)) (a : Nat) :
    bookCount (onBuffered st now ev) a = bookCount st a + (evRids ev).count a := by
  unfold onBuffered
  dsimp only
  have he := answerEvicted_inv h now ev
  obtain ⟨e1, e2⟩ := answerEvicted_book st now ev a
  generalize hf : (answerEvicted st now ev).q.map.length + 1 = fuel
  have hlt : (answerEvicted st now ev).q.map.length < fuel := by omega
  obtain ⟨p1, p2, _, _, _⟩ := popNext_spec he now fuel hlt
  have pb := popNext_book he.q.sorted now fuel a
  rw [drain_book hD _ p1 now _ (fun w'' hw'' => ⟨(p2 w'' hw'').1, Nat.lt_succ_self _⟩)]
  simp only [bookCount, pending] at pb ⊢
  rw [e2] at pb
  omega

theorem answerFirst_book (st : Rep) (v : BW) (x : Ans) (a : Nat) :
    bookCount (answerFirst st v x) a = bookCount st a + (ridsW v).count a := by
  unfold answerFirst
  split
  · next hnil => simp [ridsW, hnil]
  · next s rest hcons =>
    simp only [bookCount, answered_answerAll, pending_answerAll, List.count_append, ridsW, hcons,
      List.map_cons, List.map_nil, List.count_cons, List.count_nil]
    omega

theorem deliver_book (hD : ∀ k t n, D k t n → 0 < n) {st : Rep} (h : RInv D base st)
    (now key tx n rid : Nat) (hd : D key tx n) (a : Nat) :
    bookCount (st.deliver now key tx n rid) a = bookCount st a + [rid].count a := by
  unfold deliver
  generalize hwdef : ({ key := key, tx := tx, n := n, senders := [⟨rid, now⟩] } : BW) = w
  have hwk : w.key = key ∧ D key w.tx w.n := by subst hwdef; exact ⟨rfl, hd⟩
  have hwr : ridsW w = [rid] := by subst hwdef; rfl
  have h1 := insert_state_inv h key w hwk
  have hready := @OQueue.insert_ready BW _ st.q key w
  have hrej := @OQueue.insert_rejected BW _ st.q key w
  have hnt := OQueue.insert_ne_trap h.limit_pos key w
  have hib := insert_book h.q h.limit_pos key w a
  dsimp only
  rcases hins : st.q.insert key w with ⟨q', o⟩
  rw [hins] at h1 hready hnt hib hrej
  dsimp only at h1 hready hnt hib hrej ⊢
  rw [← hwr]
  cases o with
  | ready v b =>
    obtain ⟨hk, hv⟩ := hready rfl
    have hvok : WOk D v := by
      rcases hv with rfl | ⟨ex, hex, rfl⟩
      · unfold WOk; rw [hwk.1]; exact hwk.2
      · have := h.keyed _ hex
        unfold WOk; show D ex.key ex.tx ex.n; rw [this.1]; exact this.2
    show bookCount (onReady _ now v) a = _
    rw [onReady_book hD h1 now v hvok]
    simp only [bookCount, pending, answered, outRids] at *
    omega
  | buffered b ev =>
    show bookCount (onBuffered _ now ev) a = _
    rw [onBuffered_book hD h1 now ev]
    simp only [bookCount, pending, answered, outRids] at *
    omega
  | conflict v =>
    obtain ⟨rfl, rfl⟩ := hrej.1 v rfl
    exact answerFirst_book st _ _ a
  | full k v =>
    obtain ⟨rfl, rfl⟩ := hrej.2.1 k v rfl
    exact answerFirst_book st _ _ a
  | stale k v =>
    obtain ⟨rfl, rfl⟩ := hrej.2.2 k v rfl
    exact answerFirst_book st _ _ a
  | trap => exact absurd rfl hnt

theorem gcFront_book (now timeout : Nat) (m : AMap BW) (a : Nat) :
    (pendingOf (gcFront now timeout m).1).count a + ((gcFront now timeout m).2.map (·.rid)).count a =
      (pendingOf m).count a := by
  induction m with
  | nil => simp [gcFront, pendingOf]
  | cons e t ih =>
    obtain ⟨k, w⟩ := e
    have hs := filter_split_count (isAlive now timeout) w.senders a
    unfold gcFront
    dsimp only
    split
    · next hemp =>
      have : w.senders.filter (isAlive now timeout) = [] := by simpa using hemp
      rw [this] at hs
      rw [pendingOf_cons]
      simp only [List.map_append, List.count_append, ridsW, List.map_nil, List.count_nil] at *
      omega
    · rw [pendingOf_cons, pendingOf_cons]
      simp only [List.count_append, ridsW] at *
      omega

theorem detectGaps_book (st : Rep) (now : Nat) (permitted : Bool) (a : Nat) :
    bookCount (st.detectGaps now permitted).1 a = bookCount st a := by
  have hg := gcFront_book now st.bufTimeout st.q.map a
  have key : bookCount (answerAll { st with q := { st.q with map := (gcFront now st.bufTimeout st.q.map).1 } }
      (gcFront now st.bufTimeout st.q.map).2 .dropped) a = bookCount st a := by
    rw [bookCount, answered_answerAll, pending_answerAll, List.count_append]
    simp only [bookCount, pending, answered] at *
    omega
  unfold detectGaps
  dsimp only
  split
  · exact key
  · split
    · exact key
    · split
      · split
        · exact key
        · exact key
      · exact key

/-- rids of the deliveries in an operation list -/
def deliveredRids : List ROp → List Nat
  | [] => []
  | .deliver _ _ _ _ rid :: ops => rid :: deliveredRids ops
  | .gaps _ _ :: ops => deliveredRids ops

theorem run_book (hD : ∀ k t n, D k t n → 0 < n) {st : Rep} (h : RInv D base st) (ops : List ROp)
    (hops : ∀ now key tx n rid, ROp.deliver now key tx n rid ∈ ops → D key tx n) (a : Nat) :
    bookCount (st.run ops) a = bookCount st a + (deliveredRids ops).count a := by
  induction ops generalizing st with
  | nil => simp [run, deliveredRids]
  | cons op ops ih =>
    unfold run
    rw [List.foldl_cons]
    have hops' : ∀ now key tx n rid, ROp.deliver now key tx n rid ∈ ops → D key tx n :=
      fun now key tx n rid hm => hops now key tx n rid (List.mem_cons_of_mem _ hm)
    cases op with
    | deliver now key tx n rid =>
      have hd := hops now key tx n rid (by simp)
      have := ih (deliver_inv hD h now key tx n rid hd) hops'
      unfold run at this
      rw [show step st (.deliver now key tx n rid) = st.deliver now key tx n rid from rfl, this,
        deliver_book hD h now key tx n rid hd]
      simp only [deliveredRids, List.count_cons, List.count_nil]
      omega
    | gaps now permitted =>
      have := ih (detectGaps_spec h now permitted).1 hops'
      unfold run at this
      rw [show step st (.gaps now permitted) = (st.detectGaps now permitted).1 from rfl, this,
        detectGaps_book]
      simp only [deliveredRids]


/-! ### the local append of a popped / ready write never fails -/

/-- no asker was answered with a database failure (`WrongExpectedSequence`) -/
def NoFail (st : Rep) : Prop := ∀ x ∈ st.answers, x.2 ≠ Ans.dbFailed

theorem answerAll_nofail {st : Rep} (h : NoFail st) (ss : List Sender) {a : Ans} (ha : a ≠ .dbFailed) :
    NoFail (answerAll st ss a) := by
  intro x hx
  simp only [answerAll, List.mem_append, List.mem_map] at hx
  rcases hx with hx | ⟨s, _, rfl⟩
  · exact h x hx
  · exact ha

theorem gcWrite_nofail {st : Rep} (h : NoFail st) (now : Nat) (w : BW) : NoFail (gcWrite st now w).1 := by
  rw [gcWrite_fst]; exact answerAll_nofail h _ (by simp)

theorem popNext_nofail (f : Nat) {st : Rep} (h : NoFail st) (now : Nat) : NoFail (popNext f st now).1 := by
  induction f generalizing st with
  | zero => exact h
  | succ f ih =>
    unfold popNext
    rcases st.q.pop with ⟨q', o⟩
    cases o with
    | none => exact h
    | some w =>
      dsimp only
      have hg := gcWrite_nofail (st := { st with q := q' }) h now w
      rcases hgc : gcWrite { st with q := q' } now w with ⟨st', o'⟩
      rw [hgc] at hg
      cases o' with
      | some w' => exact hg
      | none => exact ih hg

theorem writeBuffered_nofail {st : Rep} (h : NoFail st) (w : BW) (hk : w.key = st.dbNext) (hn : 0 < w.n) :
    NoFail (writeBuffered st w).1 := by
  unfold writeBuffered
  rw [if_pos ⟨hk, hn⟩]
  simp only [OQueue.progressTo]
  apply answerAll_nofail _ _ (by simp)
  rw [answerStale_eq]
  intro x hx
  simp only [List.mem_append, List.mem_flatMap, List.mem_map] at hx
  rcases hx with hx | ⟨e, _, s, _, rfl⟩
  · exact h x hx
  · simp

theorem drain_nofail (hD : ∀ k t n, D k t n → 0 < n) (f : Nat) {st : Rep} (h : RInv D base st)
    (hn : NoFail st) (now : Nat) (o : Option BW)
    (ho : ∀ w, o = some w → WOk D w ∧ w.key = st.dbNext ∧ st.q.map.length < f) :
    NoFail (drain f st now o) := by
  induction f generalizing st o with
  | zero =>
    cases o with
    | none => exact hn
    | some w => have := (ho w rfl).2.2; omega
  | succ f ih =>
    cases o with
    | none => exact hn
    | some w =>
      unfold drain
      obtain ⟨hw, hk, hlen⟩ := ho w rfl
      obtain ⟨i1, i2, _⟩ := writeBuffered_spec h hD w hw
      have hf := writeBuffered_nofail hn w hk (hD _ _ _ hw)
      rcases hwb : writeBuffered st w with ⟨st', b⟩
      rw [hwb] at i1 i2 hf
      dsimp only at i1 i2 hf
      cases b with
      | false => exact hf
      | true =>
        dsimp only
        obtain ⟨p1, p2, p3, _, _⟩ := popNext_spec i1 now (st'.q.map.length + 1) (Nat.lt_succ_self _)
        apply ih p1 (popNext_nofail _ hf now)
        intro w' hw'
        obtain ⟨x, y, z⟩ := p2 w' hw'
        exact ⟨x, y, by omega⟩

theorem deliver_nofail (hD : ∀ k t n, D k t n → 0 < n) {st : Rep} (h : RInv D base st) (hn : NoFail st)
    (now key tx n rid : Nat) (hd : D key tx n) : NoFail (st.deliver now key tx n rid) := by
  unfold deliver
  generalize hwdef : ({ key := key, tx := tx, n := n, senders := [⟨rid, now⟩] } : BW) = w
  have hwk : w.key = key ∧ D key w.tx w.n := by subst hwdef; exact ⟨rfl, hd⟩
  have h1 := insert_state_inv h key w hwk
  have hready := @OQueue.insert_ready BW _ st.q key w
  dsimp only
  rcases hins : st.q.insert key w with ⟨q', o⟩
  rw [hins] at h1 hready
  dsimp only at h1 hready ⊢
  have hn1 : NoFail { st with q := q' } := hn
  cases o with
  | ready v b =>
    obtain ⟨hk, hv⟩ := hready rfl
    have hvok : WOk D v ∧ v.key = st.dbNext := by
      rcases hv with rfl | ⟨ex, hex, rfl⟩
      · exact ⟨by unfold WOk; rw [hwk.1]; exact hwk.2, by rw [hwk.1, hk]; exact h.next_eq⟩
      · have := h.keyed _ hex
        exact ⟨by unfold WOk; show D ex.key ex.tx ex.n; rw [this.1]; exact this.2,
               by show ex.key = st.dbNext; rw [this.1, hk]; exact h.next_eq⟩
    show NoFail (onReady _ now v)
    unfold onReady
    have hg := gcWrite_inv h1 now v
    have hgn := gcWrite_nofail hn1 now v
    have hgs := @gcWrite_some { st with q := q' } now v
    have hgd : (gcWrite { st with q := q' } now v).1.dbNext = st.dbNext := by rw [gcWrite_fst]; rfl
    rcases hgc : gcWrite { st with q := q' } now v with ⟨st2, o2⟩
    rw [hgc] at hg hgn hgs hgd
    dsimp only at hg hgn hgs hgd
    cases o2 with
    | some w' =>
      dsimp only
      apply drain_nofail hD _ hg hgn
      intro w'' hw''
      simp only [Option.some.injEq] at hw''; subst hw''
      obtain ⟨x, y, z⟩ := hgs rfl
      exact ⟨by unfold WOk at *; rw [x, y, z]; exact hvok.1, by rw [x, hgd]; exact hvok.2, Nat.lt_succ_self _⟩
    | none =>
      dsimp only
      obtain ⟨p1, p2, _, _, _⟩ := popNext_spec hg now (st2.q.map.length + 1) (Nat.lt_succ_self _)
      apply drain_nofail hD _ p1 (popNext_nofail _ hgn now)
      intro w'' hw''
      exact ⟨(p2 w'' hw'').1, (p2 w'' hw'').2.1, Nat.lt_succ_self _⟩
  | buffered b ev =>
    show NoFail (onBuffered _ now ev)
    unfold onBuffered
    dsimp only
    have he := answerEvicted_inv h1 now ev
    have hen : NoFail (answerEvicted { st with q := q' } now ev) := by
      unfold answerEvicted
      split
      · exact hn1
      · next ek ew =>
        have hg := gcWrite_nofail hn1 now ew
        rcases hgc : gcWrite { st with q := q' } now ew with ⟨st2, o2⟩
        rw [hgc] at hg
        cases o2 with
        | some ew' => exact answerAll_nofail hg _ (by simp)
        | none => exact hg
    generalize answerEvicted { st with q := q' } now ev = st1 at he hen
    obtain ⟨p1, p2, _, _, _⟩ := popNext_spec he now (st1.q.map.length + 1) (Nat.lt_succ_self _)
    apply drain_nofail hD _ p1 (popNext_nofail _ hen now)
    intro w'' hw''
    exact ⟨(p2 w'' hw'').1, (p2 w'' hw'').2.1, Nat.lt_succ_self _⟩
  | conflict v =>
    show NoFail (answerFirst st v .conflict)
    unfold answerFirst; split
    · exact hn
    · exact answerAll_nofail (answerAll_nofail hn _ (by simp)) _ (by simp)
  | full k v =>
    show NoFail (answerFirst st v .full)
    unfold answerFirst; split
    · exact hn
    · exact answerAll_nofail (answerAll_nofail hn _ (by simp)) _ (by simp)
  | stale k v =>
    show NoFail (answerFirst st v .stale)
    unfold answerFirst; split
    · exact hn
    · exact answerAll_nofail (answerAll_nofail hn _ (by simp)) _ (by simp)
  | trap => exact hn

theorem detectGaps_nofail {st : Rep} (hn : NoFail st) (now : Nat) (permitted : Bool) :
    NoFail (st.detectGaps now permitted).1 := by
  have key : NoFail (answerAll { st with q := { st.q with map := (gcFront now st.bufTimeout st.q.map).1 } }
      (gcFront now st.bufTimeout st.q.map).2 .dropped) := answerAll_nofail hn _ (by simp)
  unfold detectGaps
  dsimp only
  split
  · exact key
  · split
    · exact key
    · split
      · split
        · exact key
        · exact key
      · exact key

theorem run_nofail (hD : ∀ k t n, D k t n → 0 < n) {st : Rep} (h : RInv D base st) (hn : NoFail st)
    (ops : List ROp) (hops : ∀ now key tx n rid, ROp.deliver now key tx n rid ∈ ops → D key tx n) :
    NoFail (st.run ops) := by
  induction ops generalizing st with
  | nil => exact hn
  | cons op ops ih =>
    unfold run
    rw [List.foldl_cons]
    have hops' : ∀ now key tx n rid, ROp.deliver now key tx n rid ∈ ops → D key tx n :=
      fun now key tx n rid hm => hops now key tx n rid (List.mem_cons_of_mem _ hm)
    cases op with
    | deliver now key tx n rid =>
      have hd := hops now key tx n rid (by simp)
      exact ih (deliver_inv hD h now key tx n rid hd) (deliver_nofail hD h hn now key tx n rid hd) hops'
    | gaps now permitted =>
      exact ih (detectGaps_spec h now permitted).1 (detectGaps_nofail hn now permitted) hops'

/-! ### reachable states -/

/-- every delivered transaction has at least one event (`Transaction::new` rejects empty ones) -/
def ValidOps (ops : List ROp) : Prop := ∀ now key tx n rid, ROp.deliver now key tx n rid ∈ ops → 0 < n

/-- "a write (key, tx, n) occurs in the history" -/
def Delivered (ops : List ROp) (key tx n : Nat) : Prop := ∃ now rid, ROp.deliver now key tx n rid ∈ ops

theorem delivered_pos {ops : List ROp} (hv : ValidOps ops) : ∀ k t n, Delivered ops k t n → 0 < n :=
  fun _ _ _ ⟨now, rid, h⟩ => hv now _ _ _ rid h

theorem reach (next limit timeout : Nat) (hl : 0 < limit) (ops : List ROp) (hv : ValidOps ops) :
    RInv (Delivered ops) next ((Rep.new next limit timeout).run ops) :=
  run_inv (delivered_pos hv) (inv_new next limit timeout hl) ops (fun now _ _ _ rid h => ⟨now, rid, h⟩)

/-- a reachable state seen from a longer history: the invariant w.r.t. the deliveries of `ops ++ more` -/
theorem reach_prefix (next limit timeout : Nat) (hl : 0 < limit) (ops more : List ROp) (hv : ValidOps (ops ++ more)) :
    RInv (Delivered (ops ++ more)) next ((Rep.new next limit timeout).run ops) :=
  run_inv (delivered_pos hv) (inv_new next limit timeout hl) ops
    (fun now _ _ _ rid h => ⟨now, rid, List.mem_append_left _ h⟩)

/-- one step from a state satisfying the invariant: the log is extended by a chain starting at the
old `dbNext` -/
theorem step_log {D : Nat → Nat → Nat → Prop} {base : Nat} (hD : ∀ k t n, D k t n → 0 < n)
    (st : Rep) (h : RInv D base st) (op : ROp)
    (hop : ∀ now key tx n rid, op = .deliver now key tx n rid → D key tx n) :
    ∃ l, (st.step op).log = st.log ++ l ∧ LogChain st.dbNext l (st.step op).dbNext := by
  cases op with
  | deliver now key tx n rid =>
    obtain ⟨l, hl⟩ := deliver_log st now key tx n rid
    have h' := deliver_inv hD h now key tx n rid (hop now key tx n rid rfl)
    refine ⟨l, hl, ?_⟩
    have hc := h'.chain
    rw [hl] at hc
    obtain ⟨m, c1, c2⟩ := logChain_split hc
    rw [logChain_end_unique h.chain c1]
    exact c2
  | gaps now permitted =>
    obtain ⟨_, _, hlog, hdb⟩ := detectGaps_spec h now permitted
    exact ⟨[], by simp [step, hlog], by simp only [step, LogChain]; exact hdb⟩

end Rep
end SierraModel.Cluster
