/-
Invariant of the circuit-breaker step system (model: Cluster/Breaker.lean) and its preservation
by every atomic step and every clock step.  Used by Props/C26.lean.
-/
import SierraModel.Cluster.Breaker

namespace SierraModel.Breaker

/-- number of consecutive `F` at the head (= most recent end) of a report history -/
def trailF : List Rep → Nat
  | .F :: h => trailF h + 1
  | _ => 0

/-- number of atomic steps below which no u32 counter can have wrapped -/
def Bound : Nat := U32 - 1

-- field projections of the ghost/cell helpers ------------------------------------------------

section proj
variable (s : Sys)

@[simp] theorem cas_fc : (cas s).fc = s.fc := by unfold cas; split <;> rfl
@[simp] theorem cas_hist : (cas s).hist = s.hist := by unfold cas; split <;> rfl
@[simp] theorem cas_hocc : (cas s).hocc = s.hocc := by unfold cas; split <;> rfl
@[simp] theorem cas_hosc : (cas s).hosc = s.hosc := by unfold cas; split <;> rfl
@[simp] theorem cas_steps : (cas s).steps = s.steps := by unfold cas; split <;> rfl
@[simp] theorem cas_cfg : (cas s).cfg = s.cfg := by unfold cas; split <;> rfl
@[simp] theorem cas_log : (cas s).log = s.log := by unfold cas; split <;> rfl
@[simp] theorem cas_trapped : (cas s).trapped = s.trapped := by unfold cas; split <;> rfl
@[simp] theorem cas_threads : (cas s).threads = s.threads := by unfold cas; split <;> rfl

@[simp] theorem endEpisode_fc : (endEpisode s).fc = s.fc := by unfold endEpisode; split <;> rfl
@[simp] theorem endEpisode_hist : (endEpisode s).hist = s.hist := by unfold endEpisode; split <;> rfl
@[simp] theorem endEpisode_hocc : (endEpisode s).hocc = s.hocc := by unfold endEpisode; split <;> rfl
@[simp] theorem endEpisode_hosc : (endEpisode s).hosc = s.hosc := by unfold endEpisode; split <;> rfl
@[simp] theorem endEpisode_steps : (endEpisode s).steps = s.steps := by unfold endEpisode; split <;> rfl
@[simp] theorem endEpisode_cfg : (endEpisode s).cfg = s.cfg := by unfold endEpisode; split <;> rfl
@[simp] theorem endEpisode_trapped : (endEpisode s).trapped = s.trapped := by
  unfold endEpisode; split <;> rfl
@[simp] theorem endEpisode_threads : (endEpisode s).threads = s.threads := by
  unfold endEpisode; split <;> rfl
@[simp] theorem endEpisode_state : (endEpisode s).state = s.state := by unfold endEpisode; split <;> rfl
@[simp] theorem endEpisode_epAdm : (endEpisode s).epAdm = s.epAdm := by unfold endEpisode; split <;> rfl
@[simp] theorem endEpisode_epStale : (endEpisode s).epStale = s.epStale := by
  unfold endEpisode; split <;> rfl

end proj

/-- one more atomic step is being taken -/
def tick (s : Sys) : Sys := { s with steps := s.steps + 1 }

/-- proof obligation carried by a thread about to execute `state.store(Open)` on the closed
branch: the history at its deciding fetch_add ended with `threshold` failures -/
def PcOk (th : Nat) (pc : Pc) : Prop := ∀ h, pc = .topState (some h) → th ≤ trailF h

theorem eff_cfg (s : Sys) (pc : Pc) : (eff s pc).1.cfg = s.cfg := by
  cases pc <;> simp only [eff] <;> (try split) <;> (try split) <;> (try split) <;>
    simp [openStore, closeStore, hoccReset]

theorem eff_threads (s : Sys) (pc : Pc) : (eff s pc).1.threads = s.threads := by
  cases pc <;> simp only [eff] <;> (try split) <;> (try split) <;> (try split) <;>
    simp [openStore, closeStore, hoccReset]

theorem eff_steps (s : Sys) (pc : Pc) : (eff s pc).1.steps = s.steps := by
  cases pc <;> simp only [eff] <;> (try split) <;> (try split) <;> (try split) <;>
    simp [openStore, closeStore, hoccReset]

theorem eff_trapped (s : Sys) (pc : Pc) : (eff s pc).1.trapped = s.trapped := by
  cases pc <;> simp only [eff] <;> (try split) <;> (try split) <;> (try split) <;>
    simp [openStore, closeStore, hoccReset]

theorem eff_fcHist (s : Sys) (pc : Pc) (h : s.fc ≤ trailF s.hist) :
    (eff s pc).1.fc ≤ trailF (eff s pc).1.hist := by
  cases pc <;> simp only [eff] <;> (try split) <;> (try split) <;> (try split) <;>
    (try simp only [openStore, closeStore, hoccReset, trailF, cas_fc, cas_hist, endEpisode_fc,
      endEpisode_hist]) <;> omega

theorem eff_bfc (s : Sys) (pc : Pc) (n : Nat) (h : s.fc ≤ n) : (eff s pc).1.fc ≤ n + 1 := by
  cases pc <;> simp only [eff] <;> (try split) <;> (try split) <;> (try split) <;>
    (try simp only [openStore, closeStore, hoccReset, cas_fc, endEpisode_fc]) <;> omega

theorem eff_bhosc (s : Sys) (pc : Pc) (n : Nat) (h : s.hosc ≤ n) : (eff s pc).1.hosc ≤ n + 1 := by
  cases pc <;> simp only [eff] <;> (try split) <;> (try split) <;> (try split) <;>
    (try simp only [openStore, closeStore, hoccReset, cas_hosc, endEpisode_hosc]) <;> omega

theorem eff_bhocc (s : Sys) (pc : Pc) (n : Nat) (h : s.hocc ≤ n) : (eff s pc).1.hocc ≤ n + 1 := by
  have hm : (s.hocc + 1) % U32 ≤ s.hocc + 1 := Nat.mod_le _ _
  cases pc <;> simp only [eff] <;> (try split) <;> (try split) <;> (try split) <;>
    (try simp only [openStore, closeStore, hoccReset, cas_hocc, endEpisode_hocc]) <;> omega

/-- a thread reaches the closed-branch `state.store(Open)` only with a justified history -/
theorem eff_next_ok (s : Sys) (pc : Pc) (hf : s.fc ≤ trailF s.hist) (h : List Rep)
    (hn : (eff s pc).2 = .goto (.topState (some h))) : s.cfg.threshold ≤ trailF h := by
  cases pc <;> simp only [eff] at hn <;> (try split at hn) <;> (try split at hn) <;>
    (try split at hn) <;> (try simp at hn)
  case failFc.isFalse.isTrue h1 h2 =>
    subst hn
    simp only [trailF]; omega

/-- the only traps are the `+ 1` overflows, which need a counter at u32::MAX -/
theorem eff_trap (s : Sys) (pc : Pc) (n : Nat) (hfc : s.fc ≤ n) (hs : s.hosc ≤ n)
    (ht : (eff s pc).2 = .trap) : Bound ≤ n := by
  cases pc <;> simp only [eff] at ht <;> (try split at ht) <;> (try split at ht) <;>
    (try split at ht) <;> (try simp at ht) <;> (simp only [Bound, U32] at *; omega)

theorem mem_endEpisode_log (s : Sys) (e : Ev) :
    e ∈ (endEpisode s).log ↔ e ∈ s.log ∨ (s.state = .half ∧ e = .episode s.epAdm s.epStale) := by
  unfold endEpisode
  split
  · rename_i h
    simp only [List.mem_cons, h, true_and]
    exact Or.comm
  · rename_i h
    exact ⟨Or.inl, fun x => x.elim id (fun y => absurd y.1 h)⟩

theorem eff_logOpen (s : Sys) (pc : Pc) (T : Nat)
    (hl : ∀ p h, Ev.opened p (some h) ∈ s.log → T ≤ trailF h) (hp : PcOk T pc) :
    ∀ p h, Ev.opened p (some h) ∈ (eff s pc).1.log → T ≤ trailF h := by
  intro p h
  cases pc <;> simp only [eff] <;> (try split) <;> (try split) <;> (try split) <;>
    (try simp only [openStore, closeStore, hoccReset, cas_log, List.mem_cons, mem_endEpisode_log]) <;>
    (try exact hl p h)
  case tclState =>
    intro hm
    rcases hm with hm | hm
    · exact hl p h hm
    · exact absurd hm.2 (by simp)
  case topState just =>
    intro hm
    rcases hm with hm | hm | hm
    · injection hm with h1 h2
      exact hp h (by rw [h2])
    · exact hl p h hm
    · exact absurd hm.2 (by simp)

/-- probe accounting of the current episode (as long as `half_open_call_count` cannot wrap):
admitted ≤ maxCalls · (resets landed in the episode) + min(call counter, maxCalls) -/
def EpOk (s : Sys) : Prop :=
  s.state = .half →
    s.epAdm ≤ s.cfg.maxCalls * s.epStale + s.hocc ∧
    s.epAdm ≤ s.cfg.maxCalls * s.epStale + s.cfg.maxCalls

theorem eff_ep (s : Sys) (pc : Pc) (hb : s.hocc + 1 < U32) (he : EpOk s) : EpOk (eff s pc).1 := by
  have hm : (s.hocc + 1) % U32 = s.hocc + 1 := Nat.mod_eq_of_lt hb
  unfold EpOk at *
  cases pc
  case allowHocc =>
    simp only [eff]
    intro h1
    have h3 := he h1
    simp only [hm, decide_eq_true_eq, h1, and_true]
    split <;> omega
  case allowCas =>
    simp only [eff]; unfold cas; split
    · intro _; simp
    · exact he
  case succCas =>
    simp only [eff]; unfold cas; split
    · intro _; simp
    · exact he
  case tclState => simp [eff, closeStore]
  case topState => simp [eff, openStore]
  case tclHocc =>
    simp only [eff, hoccReset]; intro h1; have := he h1
    simp only [h1, if_true, Nat.mul_succ]; omega
  case topHocc =>
    simp only [eff, hoccReset]; intro h1; have := he h1
    simp only [h1, if_true, Nat.mul_succ]; omega
  all_goals (simp only [eff] <;> (try split) <;> (try split) <;> exact he)

theorem eff_logEp (s : Sys) (pc : Pc) (M : Nat)
    (he : s.state = .half → s.epAdm ≤ M * (s.epStale + 1))
    (hl : ∀ a st, Ev.episode a st ∈ s.log → a ≤ M * (st + 1)) :
    ∀ a st, Ev.episode a st ∈ (eff s pc).1.log → a ≤ M * (st + 1) := by
  intro a st
  cases pc <;> simp only [eff] <;> (try split) <;> (try split) <;> (try split) <;>
    (try simp only [openStore, closeStore, hoccReset, cas_log, List.mem_cons, mem_endEpisode_log]) <;>
    (try exact hl a st)
  case tclState =>
    intro hm
    rcases hm with hm | hm
    · exact hl a st hm
    · injection hm.2 with h1 h2
      rw [h1, h2]; exact he hm.1
  case topState just =>
    intro hm
    rcases hm with hm | hm | hm
    · exact absurd hm (by simp)
    · exact hl a st hm
    · injection hm.2 with h1 h2
      rw [h1, h2]; exact he hm.1

section finproj
variable (s : Sys) (t : Nat) (th : Thread) (nx : Next)
@[simp] theorem fin_fc : (fin s t th nx).fc = s.fc := by cases nx <;> rfl
@[simp] theorem fin_hist : (fin s t th nx).hist = s.hist := by cases nx <;> rfl
@[simp] theorem fin_hocc : (fin s t th nx).hocc = s.hocc := by cases nx <;> rfl
@[simp] theorem fin_hosc : (fin s t th nx).hosc = s.hosc := by cases nx <;> rfl
@[simp] theorem fin_steps : (fin s t th nx).steps = s.steps := by cases nx <;> rfl
@[simp] theorem fin_cfg : (fin s t th nx).cfg = s.cfg := by cases nx <;> rfl
@[simp] theorem fin_log : (fin s t th nx).log = s.log := by cases nx <;> rfl
@[simp] theorem fin_state : (fin s t th nx).state = s.state := by cases nx <;> rfl
@[simp] theorem fin_epAdm : (fin s t th nx).epAdm = s.epAdm := by cases nx <;> rfl
@[simp] theorem fin_epStale : (fin s t th nx).epStale = s.epStale := by cases nx <;> rfl
theorem fin_trapped : (fin s t th nx).trapped = (s.trapped || decide (nx = .trap)) := by
  cases nx <;> simp [fin, goto, ret, trap, Sys.setT]
theorem fin_threads_ne (i : Nat) (h : i ≠ t) : (fin s t th nx).threads i = s.threads i := by
  cases nx <;> simp [fin, goto, ret, trap, Sys.setT, h]
theorem fin_pc_self : ((fin s t th nx).threads t).pc =
    (match nx with | .goto pc => pc | .ret _ => .idle | .trap => .dead) := by
  cases nx <;> simp [fin, goto, ret, trap, Sys.setT]
end finproj

structure Inv (s : Sys) : Prop where
  fcHist : s.fc ≤ trailF s.hist
  thr : ∀ t, PcOk s.cfg.threshold (s.threads t).pc
  logOpen : ∀ p h, Ev.opened p (some h) ∈ s.log → s.cfg.threshold ≤ trailF h
  bfc : s.fc ≤ s.steps
  bhocc : s.hocc ≤ s.steps
  bhosc : s.hosc ≤ s.steps
  trapB : s.trapped = true → Bound ≤ s.steps
  ep : s.steps < Bound → EpOk s
  logEp : s.steps < Bound → ∀ a st, Ev.episode a st ∈ s.log → a ≤ s.cfg.maxCalls * (st + 1)

/-- executing the atomic step at `pc` (whose obligation holds) as thread `t` preserves `Inv` -/
theorem inv_exec (s : Sys) (hi : Inv s) (t : Nat) (th : Thread) (pc : Pc)
    (hp : PcOk s.cfg.threshold pc) :
    Inv (fin (eff (tick s) pc).1 t th (eff (tick s) pc).2) := by
  have hcfg : (eff (tick s) pc).1.cfg = s.cfg := eff_cfg _ _
  have hsteps : (eff (tick s) pc).1.steps = s.steps + 1 := eff_steps _ _
  have hB : Bound = U32 - 1 := rfl
  have hU : U32 = 4294967296 := rfl
  constructor
  · rw [fin_fc, fin_hist]; exact eff_fcHist (tick s) pc hi.fcHist
  · intro i
    rw [fin_cfg, hcfg]
    by_cases h : i = t
    · subst h
      rw [fin_pc_self]
      generalize hnx : (eff (tick s) pc).2 = nx
      cases nx with
      | goto q =>
        intro h hq
        simp only [] at hq
        subst hq
        exact eff_next_ok (tick s) pc hi.fcHist h hnx
      | ret r => intro h hq; simp at hq
      | trap => intro h hq; simp at hq
    · rw [fin_threads_ne _ _ _ _ _ h, eff_threads]; exact hi.thr i
  · rw [fin_log, fin_cfg, hcfg]; exact eff_logOpen (tick s) pc _ hi.logOpen hp
  · rw [fin_fc, fin_steps, hsteps]; exact eff_bfc (tick s) pc _ hi.bfc
  · rw [fin_hocc, fin_steps, hsteps]; exact eff_bhocc (tick s) pc _ hi.bhocc
  · rw [fin_hosc, fin_steps, hsteps]; exact eff_bhosc (tick s) pc _ hi.bhosc
  · rw [fin_trapped, fin_steps, hsteps, eff_trapped]
    intro h
    simp only [Bool.or_eq_true, decide_eq_true_eq] at h
    rcases h with h | h
    · have := hi.trapB h; omega
    · have := eff_trap (tick s) pc s.steps hi.bfc hi.bhosc h; omega
  · rw [fin_steps, hsteps]
    intro hb
    have h1 : (tick s).hocc + 1 < U32 := by have := hi.bhocc; show s.hocc + 1 < U32; omega
    have h2 := eff_ep (tick s) pc h1 (hi.ep (by omega))
    unfold EpOk at *
    simpa only [fin_state, fin_epStale, fin_epAdm, fin_hocc, fin_cfg] using h2
  · rw [fin_steps, hsteps, fin_log, fin_cfg, hcfg]
    intro hb
    exact eff_logEp (tick s) pc _ (fun h1 => by have := (hi.ep (by omega) h1).2; rw [Nat.mul_succ]; exact this)
      (hi.logEp (by omega))

theorem entry_ne_dead (m : Meth) : entry m ≠ .dead := by cases m <;> simp [entry]

theorem entry_ok (T : Nat) (m : Meth) : PcOk T (entry m) := by
  intro h hq; cases m <;> simp [entry] at hq

theorem inv_stepT (s : Sys) (hi : Inv s) (t : Nat) (s' : Sys) (h : stepT s t = some s') : Inv s' := by
  unfold stepT at h
  simp only [] at h
  split at h
  · simp at h
  · split at h
    · simp at h
    · injection h with h; subst h
      exact inv_exec s hi t _ _ (entry_ok _ _)
  · rename_i hpc _ _
    injection h with h; subst h
    exact inv_exec s hi t _ _ (hi.thr t)

theorem stepT_steps (s : Sys) (t : Nat) (s' : Sys) (h : stepT s t = some s') :
    s'.steps = s.steps + 1 := by
  unfold stepT at h
  simp only [] at h
  split at h
  · simp at h
  · split at h
    · simp at h
    · injection h with h; subst h; rw [fin_steps, eff_steps]
  · injection h with h; subst h; rw [fin_steps, eff_steps]

theorem stepT_cfg (s : Sys) (t : Nat) (s' : Sys) (h : stepT s t = some s') : s'.cfg = s.cfg := by
  unfold stepT at h
  simp only [] at h
  split at h
  · simp at h
  · split at h
    · simp at h
    · injection h with h; subst h; rw [fin_cfg, eff_cfg]
  · injection h with h; subst h; rw [fin_cfg, eff_cfg]

theorem inv_act (s : Sys) (hi : Inv s) (a : Act) : Inv (act s a) := by
  cases a with
  | step t =>
    simp only [act]
    cases h : stepT s t with
    | none => exact hi
    | some s' => exact inv_stepT s hi t s' h
  | clock v => exact ⟨hi.fcHist, hi.thr, hi.logOpen, hi.bfc, hi.bhocc, hi.bhosc, hi.trapB, hi.ep, hi.logEp⟩

theorem act_steps_le (s : Sys) (a : Act) : (act s a).steps ≤ s.steps + 1 := by
  cases a with
  | step t =>
    simp only [act]
    cases h : stepT s t with
    | none => exact Nat.le_succ _
    | some s' => simp only [Option.getD_some, stepT_steps s t s' h]; exact Nat.le_refl _
  | clock v => exact Nat.le_succ _

theorem act_cfg (s : Sys) (a : Act) : (act s a).cfg = s.cfg := by
  cases a with
  | step t =>
    simp only [act]
    cases h : stepT s t with
    | none => rfl
    | some s' => exact stepT_cfg s t s' h
  | clock v => rfl

theorem inv_run (sched : List Act) : ∀ s : Sys, Inv s → Inv (run s sched) := by
  induction sched with
  | nil => intro s h; exact h
  | cons a as ih => intro s h; exact ih (act s a) (inv_act s h a)

theorem run_steps_le (sched : List Act) : ∀ s : Sys, (run s sched).steps ≤ s.steps + sched.length := by
  induction sched with
  | nil => intro s; exact Nat.le_refl _
  | cons a as ih =>
    intro s
    have h1 := ih (act s a)
    have h2 := act_steps_le s a
    simp only [run, List.foldl_cons, List.length_cons] at *
    omega

theorem run_cfg (sched : List Act) : ∀ s : Sys, (run s sched).cfg = s.cfg := by
  induction sched with
  | nil => intro s; rfl
  | cons a as ih => intro s; exact (ih (act s a)).trans (act_cfg s a)

/-- `threshold ≤ trailF h` says: the `threshold` most recent reports are all failures -/
theorem take_of_trailF : ∀ (T : Nat) (h : List Rep), T ≤ trailF h → h.take T = List.replicate T .F
  | 0, _, _ => by simp
  | T + 1, [], hle => by simp [trailF] at hle
  | T + 1, .F :: h, hle => by
    simp only [trailF] at hle
    simp only [List.take_succ_cons, List.replicate_succ, take_of_trailF T h (by omega)]
  | T + 1, .S :: h, hle => by simp [trailF] at hle
  | T + 1, .Z :: h, hle => by simp [trailF] at hle

/-- a thread is dead only after a trap -/
def DeadOk (s : Sys) : Prop := ∀ t, (s.threads t).pc = .dead → s.trapped = true

theorem eff_not_dead (s : Sys) (pc : Pc) (h : pc ≠ .dead) : (eff s pc).2 ≠ .goto .dead := by
  cases pc <;> simp only [eff] <;> (try split) <;> (try split) <;> (try split) <;> simp at h ⊢

theorem dead_exec (s : Sys) (hd : DeadOk s) (t : Nat) (th : Thread) (pc : Pc) (hp : pc ≠ .dead) :
    DeadOk (fin (eff (tick s) pc).1 t th (eff (tick s) pc).2) := by
  intro i
  rw [fin_trapped, eff_trapped]
  by_cases h : i = t
  · subst h
    rw [fin_pc_self]
    have hn := eff_not_dead (tick s) pc hp
    generalize (eff (tick s) pc).2 = nx at hn
    cases nx with
    | goto q => intro hq; simp only [] at hq; subst hq; exact absurd rfl hn
    | ret r => intro hq; simp at hq
    | trap => intro _; simp
  · rw [fin_threads_ne _ _ _ _ _ h, eff_threads]
    intro hq; have := hd i hq
    simp [tick, this]

theorem dead_stepT (s : Sys) (hd : DeadOk s) (t : Nat) (s' : Sys) (h : stepT s t = some s') :
    DeadOk s' := by
  unfold stepT at h
  simp only [] at h
  split at h
  · simp at h
  · split at h
    · simp at h
    · injection h with h; subst h
      exact dead_exec s hd t _ _ (entry_ne_dead _)
  · rename_i hpc _
    injection h with h; subst h
    exact dead_exec s hd t _ _ hpc

theorem dead_run (sched : List Act) : ∀ s : Sys, DeadOk s → DeadOk (run s sched) := by
  induction sched with
  | nil => intro s h; exact h
  | cons a as ih =>
    intro s h
    apply ih
    cases a with
    | step t =>
      simp only [act]
      cases hs : stepT s t with
      | none => exact h
      | some s' => exact dead_stepT s h t s' hs
    | clock v => exact h

theorem inv_init (cfg : Cfg) (c : Nat) (progs : List (List Meth)) : Inv (init cfg c progs) := by
  constructor <;> simp [init, trailF, PcOk, EpOk]

end SierraModel.Breaker
