/-
C21: the lexemes the client writes (decimal numbers, hyphenated uuids, upper-case keywords) are
well-formed lexemes of the documented grammar with the intended value; every supported client
command is an instance of a well-formed documented form.
-/
import SierraModel.Server.Client
import SierraModel.Lemmas.Version
import SierraModel.Lemmas.GrammarReq

namespace SierraModel.Server
open SierraModel.Version (parseU64 Expected digits U64_MAX)

/-! ### numbers -/

theorem parseU64_digits {n : Nat} (h : n ≤ U64_MAX) : parseU64 (digits n) = some n := by
  have hd := Version.headIsDigit_digits n
  have hp := Version.parseDigits_digits n h
  cases hs : digits n with
  | nil => rw [hs] at hd; simp [Version.headIsDigit] at hd
  | cons c cs =>
    rw [hs] at hd hp
    simp only [Version.headIsDigit] at hd
    have hne : c ≠ '+' := by rintro rfl; revert hd; decide
    unfold parseU64
    split
    · rename_i heq; cases heq
    · rename_i heq; injection heq with h1 _; exact absurd h1 hne
    · exact hp

theorem numOf_digits {n : Nat} (h : n ≤ U64_MAX) : numOf (digits n) = n := by
  simp [numOf, parseU64_digits h]

theorem wfU64_digits {n : Nat} (h : n ≤ U64_MAX) : wfU64 (digits n) := by
  simp [wfU64, parseU64_digits h]

theorem parseU16_digits {n : Nat} (h : n ≤ 65535) : parseU16 (digits n) = some n := by
  have : n ≤ U64_MAX := by simp [U64_MAX]; omega
  simp [parseU16, parseU64_digits this, h]

theorem digitsAux_length : ∀ (f n : Nat) (acc : List Char) (k : Nat), n < 10 ^ (k + 1) →
    (Version.digitsAux f n acc).length ≤ acc.length + (k + 1) := by
  intro f
  induction f with
  | zero => intro n acc k _; simp [Version.digitsAux]
  | succ f ih =>
    intro n acc k hn
    unfold Version.digitsAux
    simp only []
    split
    · simp
    · rename_i hz
      cases k with
      | zero => simp at hn; omega
      | succ k =>
        have : n / 10 < 10 ^ (k + 1) := by
          apply Nat.div_lt_of_lt_mul
          rw [Nat.pow_succ] at hn; omega
        have := ih (n / 10) (Char.ofNat (48 + n % 10) :: acc) k this
        simp at this ⊢; omega

theorem digits_length_u16 {n : Nat} (h : n ≤ 65535) : (digits n).length ≤ 5 := by
  have := digitsAux_length (n + 1) n [] 4 (by omega)
  simpa [digits] using this

theorem dropWhile_length_le {α : Type} (p : α → Bool) (l : List α) : (l.dropWhile p).length ≤ l.length := by
  induction l with
  | nil => simp
  | cons a l ih => simp only [List.dropWhile]; split <;> simp <;> omega

theorem trim_length_le (s : List Char) : (trim s).length ≤ s.length := by
  unfold trim
  rw [List.length_reverse]
  refine Nat.le_trans (dropWhile_length_le _ _) ?_
  rw [List.length_reverse]
  exact dropWhile_length_le _ _

theorem parseUuid_short {s : List Char} (h : s.length < 32) : parseUuid s = none := by
  have h1 : s.length ≠ 32 := by omega
  have h2 : s.length ≠ 36 := by omega
  have h3 : s.length ≠ 38 := by omega
  have h4 : s.length ≠ 45 := by omega
  simp [parseUuid, uuidBody, h1, h2, h3, h4]

theorem pselOf_digits {n : Nat} (h : n ≤ 65535) : pselOf (digits n) = some (.byId n) := by
  have hl := digits_length_u16 h
  have ht := trim_length_le (digits n)
  simp [pselOf, uuidOf, parseUuid_short (s := trim (digits n)) (by omega), parseU16_digits h]

theorem rangeOf_digits {n : Nat} (h : n ≤ U64_MAX) : rangeOf (digits n) = some (.value n) := by
  have hp := parseU64_digits h
  have h1 : upper (digits n) ≠ KW.minus := num_not_kw hp (by intro c rest hk; cases hk; decide)
  have h2 : upper (digits n) ≠ KW.plus := by
    obtain ⟨c, rest, hs, hc, hd⟩ := parseU64_head hp
    have hh := Version.headIsDigit_digits n
    rw [hs] at hh ⊢
    simp only [Version.headIsDigit] at hh
    simp only [upper, upperChar_low hc, KW.plus]
    intro heq
    injection heq with h1 _
    subst h1; revert hh; decide
  simp [rangeOf, h1, h2, hp]

/-! ### uuids -/

theorem hexVal_hexChar {e : Nat} (h : e < 16) : hexVal (hexChar e) = some e := by
  have : e = 0 ∨ e = 1 ∨ e = 2 ∨ e = 3 ∨ e = 4 ∨ e = 5 ∨ e = 6 ∨ e = 7 ∨ e = 8 ∨ e = 9 ∨ e = 10 ∨ e = 11 ∨
      e = 12 ∨ e = 13 ∨ e = 14 ∨ e = 15 := by omega
  rcases this with h | h | h | h | h | h | h | h | h | h | h | h | h | h | h | h <;> subst h <;> decide

theorem isWs_hexChar {e : Nat} (h : e < 16) : isWs (hexChar e) = false := by
  have : e = 0 ∨ e = 1 ∨ e = 2 ∨ e = 3 ∨ e = 4 ∨ e = 5 ∨ e = 6 ∨ e = 7 ∨ e = 8 ∨ e = 9 ∨ e = 10 ∨ e = 11 ∨
      e = 12 ∨ e = 13 ∨ e = 14 ∨ e = 15 := by omega
  rcases this with h | h | h | h | h | h | h | h | h | h | h | h | h | h | h | h <;> subst h <;> decide

theorem parseHex_hexFixed : ∀ (k n : Nat) (acc : List Char) (a : Nat),
    parseHex (hexFixed k n acc) a = parseHex acc (a * 16 ^ k + n % 16 ^ k) := by
  intro k
  induction k with
  | zero => intro n acc a; simp [hexFixed, Nat.mod_one]
  | succ k ih =>
    intro n acc a
    simp only [hexFixed]
    rw [ih]
    simp only [parseHex, hexVal_hexChar (Nat.mod_lt n (by decide : 16 > 0))]
    congr 1
    have h1 : 16 ^ (k + 1) = 16 * 16 ^ k := by rw [Nat.pow_succ, Nat.mul_comm]
    rw [h1, Nat.mod_mul]
    generalize 16 ^ k = m
    generalize n / 16 % m = x
    generalize n % 16 = y
    rw [Nat.add_mul, Nat.mul_assoc, Nat.mul_comm m 16, Nat.add_assoc, Nat.mul_comm x 16, Nat.add_comm y]

theorem hexFixed_acc : ∀ (k n : Nat) (acc : List Char), hexFixed k n acc = hexFixed k n [] ++ acc := by
  intro k
  induction k with
  | zero => intro n acc; rfl
  | succ k ih => intro n acc; simp only [hexFixed]; rw [ih, ih (n / 16) [_]]; simp

theorem uuid_trim (u : Nat) : trim (fmtUuid u) = fmtUuid u := by
  simp only [fmtUuid, hexFixed, trim, List.dropWhile, List.reverse_cons, List.reverse_nil, List.nil_append,
    List.cons_append, isWs_hexChar (Nat.mod_lt _ (by decide : 16 > 0))]

def uuidHex (u : Nat) : List Char :=
  hexFixed 8 (u / 16 ^ 24) (hexFixed 4 (u / 16 ^ 20) (hexFixed 4 (u / 16 ^ 16) (hexFixed 4 (u / 16 ^ 12) (hexFixed 12 u []))))

theorem uuidBody_fmt (u : Nat) : uuidBody (fmtUuid u) = some (uuidHex u) := by
  simp [uuidBody, hyphenated, fmtUuid, uuidHex, hexFixed]

theorem parseUuid_fmt {u : Nat} (h : u ≤ UUID_MAX) : parseUuid (fmtUuid u) = some u := by
  simp only [parseUuid, uuidBody_fmt, uuidHex, parseHex_hexFixed, parseHex]
  congr 1
  simp only [UUID_MAX] at h
  omega

theorem uuidOf_fmt {u : Nat} (h : u ≤ UUID_MAX) : uuidOf (fmtUuid u) = some u := by
  rw [uuidOf, uuid_trim, parseUuid_fmt h]

/-! ### the optional clauses of EAPPEND / EMAPPEND -/

theorem wfUuid_fmt {u : Nat} (h : u ≤ UUID_MAX) : wfUuid (fmtUuid u) := by simp [wfUuid, uuidOf_fmt h]
theorem uuidVal_fmt {u : Nat} (h : u ≤ UUID_MAX) : uuidVal (fmtUuid u) = u := by simp [uuidVal, uuidOf_fmt h]

theorem upper_kws :
    upper KW.partitionKey = KW.partitionKey ∧ upper KW.from_ = KW.from_ ∧ upper KW.window = KW.window ∧
    upper KW.latest = KW.latest ∧ upper KW.eventId = KW.eventId ∧ upper KW.expectedVersion = KW.expectedVersion ∧
    upper KW.timestamp = KW.timestamp ∧ upper KW.payload = KW.payload ∧ upper KW.metadata = KW.metadata ∧
    upper KW.count = KW.count ∧ upper KW.star = KW.star := by decide

theorem expectedOf_lex {e : Expected} (h : ∀ v, e = .exact v → v ≤ U64_MAX) : expectedOf (expectedLex e) = some e := by
  cases e with
  | any => decide
  | exists_ => decide
  | empty => decide
  | exact v => simp [expectedLex, expectedOf, parseU64_digits (h v rfl)]

theorem fold_append : ∀ (xs ys : List ClauseVal) (a : EvAcc),
    foldClauses a (xs ++ ys) = (foldClauses a xs).bind (fun a' => foldClauses a' ys) := by
  intro xs
  induction xs with
  | nil => intro ys a; rfl
  | cons x xs ih =>
    intro ys a
    simp only [List.cons_append, foldClauses]
    cases a.step x with
    | none => rfl
    | some a' => exact ih ys a'

theorem opts_fold {o : AppendOpts} (h : o.WF) (withPk : Bool) :
    foldClauses {} ((o.clauses withPk).map AppendClause.denote) =
      some { eventId := o.eventId, partitionKey := if withPk then o.partitionKey else none,
             expected := if o.expected = .any then none else some o.expected, timestamp := o.timestamp,
             payload := if tokIsEmpty o.payload then none else some o.payload,
             metadata := if tokIsEmpty o.metadata then none else some o.metadata } := by
  obtain ⟨eid, pk, ex, ts, pl, md⟩ := o
  obtain ⟨h1, h2, h3, h4, h5, h6⟩ := h
  simp only at h1 h2 h3 h4 h5 h6
  have hex := expectedOf_lex h3
  simp only [AppendOpts.clauses, List.map_append, fold_append]
  have p1 : foldClauses {} ((eid.map (fun u => AppendClause.eventId KW.eventId (fmtUuid u))).toList.map AppendClause.denote)
      = some { eventId := eid } := by
    cases eid with
    | none => rfl
    | some u => simp [foldClauses, EvAcc.step, AppendClause.denote, uuidVal_fmt (h1 u rfl)]
  rw [p1]; simp only [Option.bind_some]
  have p2 : foldClauses { eventId := eid } (((if withPk then pk else none).map (fun u => AppendClause.partitionKey KW.partitionKey (fmtUuid u))).toList.map AppendClause.denote)
      = some { eventId := eid, partitionKey := if withPk then pk else none } := by
    cases withPk <;> cases pk <;> simp [foldClauses, EvAcc.step, AppendClause.denote]
    rename_i u; exact uuidVal_fmt (h2 u rfl)
  rw [p2]; simp only [Option.bind_some]
  have p3 : foldClauses { eventId := eid, partitionKey := if withPk then pk else none }
      (((if ex = .any then none else some ex).map (fun e => AppendClause.expectedVersion KW.expectedVersion (expectedLex e))).toList.map AppendClause.denote)
      = some { eventId := eid, partitionKey := if withPk then pk else none, expected := if ex = .any then none else some ex } := by
    cases ex <;> simp_all [foldClauses, EvAcc.step, AppendClause.denote]
  rw [p3]; simp only [Option.bind_some]
  have p4 : foldClauses { eventId := eid, partitionKey := if withPk then pk else none, expected := if ex = .any then none else some ex }
      ((ts.map (fun n => AppendClause.timestamp KW.timestamp (digits n))).toList.map AppendClause.denote)
      = some { eventId := eid, partitionKey := if withPk then pk else none, expected := if ex = .any then none else some ex, timestamp := ts } := by
    cases ts with
    | none => rfl
    | some n => simp [foldClauses, EvAcc.step, AppendClause.denote, numOf_digits (h4 n rfl)]
  rw [p4]; simp only [Option.bind_some]
  cases hp : tokIsEmpty pl <;> cases hm : tokIsEmpty md <;>
    simp [foldClauses, EvAcc.step, AppendClause.denote]

theorem opts_denote {o : AppendOpts} (h : o.WF) (withPk : Bool) (s n : List Char) :
    (EventDoc.mk s n (o.clauses withPk)).denote = o.event withPk s n := by
  simp only [EventDoc.denote, opts_fold h, Option.getD_some, EvAcc.finish, AppendOpts.event]
  obtain ⟨eid, pk, ex, ts, pl, md⟩ := o
  cases ex <;> cases hp : tokIsEmpty pl <;> cases hm : tokIsEmpty md <;> simp

theorem opts_wf {o : AppendOpts} (h : o.WF) (withPk : Bool) : ∀ c ∈ o.clauses withPk, c.WF := by
  obtain ⟨eid, pk, ex, ts, pl, md⟩ := o
  obtain ⟨h1, h2, h3, h4, h5, h6⟩ := h
  simp only at h1 h2 h3 h4 h5 h6
  obtain ⟨k1, k2, k3, k4, k5, k6, k7, k8, k9, k10, k11⟩ := upper_kws
  intro c hc
  simp only [AppendOpts.clauses, List.mem_append, Option.mem_toList, Option.map_eq_some_iff] at hc
  rcases hc with ((((⟨u, hu, rfl⟩ | ⟨u, hu, rfl⟩) | ⟨e, he, rfl⟩) | ⟨n, hn, rfl⟩) | hc) | hc
  · exact ⟨k5, wfUuid_fmt (h1 u hu)⟩
  · refine ⟨k1, wfUuid_fmt (h2 u ?_)⟩
    cases withPk <;> simp_all
  · refine ⟨k6, ?_⟩
    have : e = ex := by split at he <;> simp_all
    subst this
    simp [expectedOf_lex h3]
  · exact ⟨k7, wfU64_digits (h4 n hn)⟩
  · split at hc
    · cases hc
    · simp only [List.mem_singleton] at hc; subst hc; exact k8
  · split at hc
    · cases hc
    · simp only [List.mem_singleton] at hc; subst hc; exact k9

theorem opts_kinds {o : AppendOpts} (withPk : Bool) :
    ((o.clauses withPk).map (·.kind)).Nodup ∧
      (withPk = false → ClauseKind.partitionKey ∉ (o.clauses withPk).map (·.kind)) := by
  obtain ⟨eid, pk, ex, ts, pl, md⟩ := o
  cases eid <;> cases pk <;> cases ts <;> cases withPk <;> cases ex <;>
    cases hp : tokIsEmpty pl <;> cases hm : tokIsEmpty md <;>
    simp [AppendOpts.clauses, AppendClause.kind, hp, hm]

/-! ### every supported builder emits a well-formed documented form -/

theorem ClientCmd.toDoc_cmd (k : ClientCmd) : k.toDoc.cmd = k.cmd := by cases k <;> rfl

theorem ClientCmd.toDoc_render (k : ClientCmd) : k.toDoc.render = k.emit := rfl

theorem optPk_wf {pk : Option Nat} (h : optUuid pk) : ∀ p, optPk pk = some p → p.WF := by
  intro p hp
  cases pk with
  | none => cases hp
  | some u => simp only [optPk, Option.map_some, Option.some.injEq] at hp; subst hp; exact ⟨upper_kws.1, wfUuid_fmt (h u rfl)⟩

theorem optPk_val {pk : Option Nat} (h : optUuid pk) : (optPk pk).map (fun p => uuidVal p.uuid) = pk := by
  cases pk with
  | none => rfl
  | some u => simp [optPk, uuidVal_fmt (h u rfl)]

theorem optWindow_wf {w : Option Nat} (h : optU64 w) (h1 : ∀ n, w = some n → 1 ≤ n) :
    ∀ c, optNum KW.window w = some c → c.WFWindow := by
  intro c hc
  cases w with
  | none => cases hc
  | some n =>
    simp only [optNum, Option.map_some, Option.some.injEq] at hc; subst hc
    exact ⟨upper_kws.2.2.1, n, parseU64_digits (h n rfl), h1 n rfl⟩

theorem optNum_val {K : List Char} {w : Option Nat} (h : optU64 w) : (optNum K w).map (fun c => numOf c.num) = w := by
  cases w with
  | none => rfl
  | some n => simp [optNum, numOf_digits (h n rfl)]

theorem stop_wf {b : Option Nat} (h : optU64 b) : rangeOf (stopLex b) = some (stopVal b) := by
  cases b with
  | none => decide
  | some n => exact rangeOf_digits (h n rfl)

theorem count_wf (n : Nat) (h : n ≤ U64_MAX) : (NumClause.mk KW.count (digits n)).WF KW.count :=
  ⟨upper_kws.2.2.2.2.2.2.2.2.2.1, wfU64_digits h⟩

theorem getD100 {c : Option Nat} (h : optU64 c) : c.getD 100 ≤ U64_MAX := by
  cases c with
  | none => decide
  | some n => exact h n rfl

theorem u16_u64 {n : Nat} (h : n ≤ 65535) : n ≤ U64_MAX := by simp [U64_MAX]; omega

theorem ClientCmd.toDoc_WF {k : ClientCmd} (hs : k.Supported) (h : k.WF) : k.toDoc.WF := by
  obtain ⟨k1, k2, k3, k4, k5, k6, k7, k8, k9, k10, k11⟩ := upper_kws
  cases k with
  | eappend s n o => exact ⟨h.1, opts_wf h.2 true, (opts_kinds true).1, (opts_kinds true).2⟩
  | emappend pk evs =>
    obtain ⟨h1, h2, h3⟩ := h
    refine ⟨wfUuid_fmt h1, by simpa using h2, ?_⟩
    intro e he
    obtain ⟨x, hx, rfl⟩ := List.mem_map.mp he
    exact ⟨(h3 x hx).1, opts_wf (h3 x hx).2 false, (opts_kinds false).1, (opts_kinds false).2⟩
  | eget id => exact wfUuid_fmt h
  | epscanByKey key a b c =>
    obtain ⟨h1, h2, h3, h4⟩ := h
    refine ⟨by simp [wfPSel, pselOf, uuidOf_fmt h1], by simp [wfRange, rangeOf_digits h2], by simp [wfRange, stop_wf h3], ?_⟩
    rintro x ⟨rfl⟩; exact count_wf _ (getD100 h4)
  | epscanById p a b c =>
    obtain ⟨h1, h2, h3, h4⟩ := h
    refine ⟨by simp [wfPSel, pselOf_digits h1], by simp [wfRange, rangeOf_digits h2], by simp [wfRange, stop_wf h3], ?_⟩
    rintro x ⟨rfl⟩; exact count_wf _ (getD100 h4)
  | escan s pk a b c =>
    obtain ⟨h1, h2, h3, h4, h5⟩ := h
    refine ⟨h1, by simp [wfRange, rangeOf_digits h3], by simp [wfRange, stop_wf h4], ?_, ?_⟩
    · intro cl hcl
      cases pk with
      | none => simp at hcl; subst hcl; exact ⟨k10, wfU64_digits (getD100 h5)⟩
      | some u =>
        simp at hcl
        rcases hcl with rfl | rfl
        · exact ⟨k10, wfU64_digits (getD100 h5)⟩
        · exact ⟨k1, wfUuid_fmt (h2 u rfl)⟩
    · cases pk <;> simp [ScanClause.kind]
  | epseqByKey key => simp [ClientCmd.toDoc, DocCmd.WF, wfPSel, pselOf, uuidOf_fmt (show key ≤ UUID_MAX from h)]
  | epseqById p => simp [ClientCmd.toDoc, DocCmd.WF, wfPSel, pselOf_digits (show p ≤ 65535 from h)]
  | esver s pk => exact ⟨h.1, optPk_wf h.2⟩
  | esubOpts s pk f w =>
    obtain ⟨h1, h2, h3, h4, h5⟩ := h
    refine ⟨by simp, ?_, ?_, optWindow_wf h4 h5⟩
    · intro x hx; simp at hx; subst hx; exact ⟨h1, optPk_wf h2⟩
    · intro x hx
      cases f with
      | none => cases hx
      | some v => simp at hx; subst hx; exact ⟨k2, wfU64_digits (h3 v rfl)⟩
  | esubFromLatest s =>
    refine ⟨by simp, ?_, ?_, by simp⟩
    · intro x hx; simp at hx; subst hx; exact ⟨h, by simp⟩
    · rintro x ⟨rfl⟩; exact ⟨k2, k4⟩
  | epsubById p f w =>
    obtain ⟨h1, h2, h3, h4⟩ := h
    refine ⟨by simp [EpsubSel.WF, parseU16_digits h1], ?_, optWindow_wf h3 h4⟩
    intro x hx
    cases f with
    | none => cases hx
    | some v => simp at hx; subst hx; exact ⟨k2, wfU64_digits (h2 v rfl)⟩
  | epsubByKey key f w => exact absurd hs (by simp [ClientCmd.Supported])
  | epsubRange a b f w => exact absurd hs (by simp [ClientCmd.Supported])
  | epsubAll f w =>
    obtain ⟨h1, h2, h3⟩ := h
    refine ⟨k11, ?_, optWindow_wf h2 h3⟩
    rintro x ⟨rfl⟩
    cases f with
    | latest => exact ⟨k2, k4⟩
    | seq n => exact ⟨k2, wfU64_digits (h1 n rfl)⟩
  | eack id n => exact ⟨wfUuid_fmt h.1, wfU64_digits h.2⟩

theorem canonSet_single {α : Type} [DecidableEq α] (lt : α → α → Bool) (x : α) : canonSet lt [x] = [x] := rfl

theorem ClientCmd.toDoc_denote {k : ClientCmd} (hs : k.Supported) (h : k.WF) : k.toDoc.denote = k.denote := by
  cases k with
  | eappend s n o => simp [ClientCmd.toDoc, DocCmd.denote, ClientCmd.denote, opts_denote h.2]
  | emappend pk evs =>
    obtain ⟨h1, h2, h3⟩ := h
    simp only [ClientCmd.toDoc, DocCmd.denote, ClientCmd.denote, uuidVal_fmt h1, List.map_map, Request.emappend.injEq, true_and]
    apply List.map_congr_left
    intro e he
    exact opts_denote (h3 e he).2 false e.1 e.2.1
  | eget id => simp [ClientCmd.toDoc, DocCmd.denote, ClientCmd.denote, uuidVal_fmt (show id ≤ UUID_MAX from h)]
  | epscanByKey key a b c =>
    obtain ⟨h1, h2, h3, h4⟩ := h
    simp [ClientCmd.toDoc, DocCmd.denote, ClientCmd.denote, pselVal, pselOf, uuidOf_fmt h1, rangeVal,
      rangeOf_digits h2, stop_wf h3, numOf_digits (getD100 h4)]
  | epscanById p a b c =>
    obtain ⟨h1, h2, h3, h4⟩ := h
    simp [ClientCmd.toDoc, DocCmd.denote, ClientCmd.denote, pselVal, pselOf_digits h1, rangeVal,
      rangeOf_digits h2, stop_wf h3, numOf_digits (getD100 h4)]
  | escan s pk a b c =>
    obtain ⟨h1, h2, h3, h4, h5⟩ := h
    cases pk with
    | none =>
      simp [ClientCmd.toDoc, DocCmd.denote, ClientCmd.denote, rangeVal, rangeOf_digits h3, stop_wf h4,
        ScanClause.denote, foldScan, numOf_digits (getD100 h5)]
    | some u =>
      simp [ClientCmd.toDoc, DocCmd.denote, ClientCmd.denote, rangeVal, rangeOf_digits h3, stop_wf h4,
        ScanClause.denote, foldScan, numOf_digits (getD100 h5), uuidVal_fmt (h2 u rfl)]
  | epseqByKey key => simp [ClientCmd.toDoc, DocCmd.denote, ClientCmd.denote, pselVal, pselOf, uuidOf_fmt (show key ≤ UUID_MAX from h)]
  | epseqById p => simp [ClientCmd.toDoc, DocCmd.denote, ClientCmd.denote, pselVal, pselOf_digits (show p ≤ 65535 from h)]
  | esver s pk => simp [ClientCmd.toDoc, DocCmd.denote, ClientCmd.denote, optPk_val h.2]
  | esubOpts s pk f w =>
    obtain ⟨h1, h2, h3, h4, h5⟩ := h
    have hv := optPk_val h2
    have hw := optNum_val (K := KW.window) h4
    cases f with
    | none => simp [ClientCmd.toDoc, DocCmd.denote, ClientCmd.denote, buildEsub, canonSet_single, StreamSel.denote, hv, hw]
    | some v =>
      simp [ClientCmd.toDoc, DocCmd.denote, ClientCmd.denote, buildEsub, canonSet_single, StreamSel.denote, hv, hw,
        EsubFrom.denote, numOf_digits (h3 v rfl)]
  | esubFromLatest s =>
    simp [ClientCmd.toDoc, DocCmd.denote, ClientCmd.denote, buildEsub, canonSet_single, StreamSel.denote, EsubFrom.denote]
  | epsubById p f w =>
    obtain ⟨h1, h2, h3, h4⟩ := h
    have hw := optNum_val (K := KW.window) h3
    cases f with
    | none => simp [ClientCmd.toDoc, DocCmd.denote, ClientCmd.denote, buildEpsub, EpsubSel.denote, parseU16_digits h1, hw]
    | some v =>
      simp [ClientCmd.toDoc, DocCmd.denote, ClientCmd.denote, buildEpsub, EpsubSel.denote, parseU16_digits h1, hw,
        EpsubFrom.denote, numOf_digits (h2 v rfl)]
  | epsubByKey key f w => exact absurd hs (by simp [ClientCmd.Supported])
  | epsubRange a b f w => exact absurd hs (by simp [ClientCmd.Supported])
  | epsubAll f w =>
    obtain ⟨h1, h2, h3⟩ := h
    have hw := optNum_val (K := KW.window) h2
    cases f with
    | latest => simp [ClientCmd.toDoc, DocCmd.denote, ClientCmd.denote, buildEpsub, EpsubSel.denote, EpsubFrom.denote, hw]
    | seq n => simp [ClientCmd.toDoc, DocCmd.denote, ClientCmd.denote, buildEpsub, EpsubSel.denote, EpsubFrom.denote, hw, numOf_digits (h1 n rfl)]
  | eack id n => simp [ClientCmd.toDoc, DocCmd.denote, ClientCmd.denote, uuidVal_fmt h.1, numOf_digits h.2]

end SierraModel.Server
