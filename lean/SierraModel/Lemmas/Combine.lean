/-
Lemmas about the `combine` combinators of Server/Parse.lean: when does a combinator succeed
(`Ok`), when does it fail without consuming (`perr`), and the characterisation of `many`.
-/
import SierraModel.Server.Parse

namespace SierraModel.Server

/-- the parser result is a success with value `v` and remaining input `r` -/
def Ok {α : Type} (x : Res α) (v : α) (r : List Tok) : Prop :=
  match x with
  | .ok v' r' _ => v' = v ∧ r' = r
  | _ => False

variable {α β : Type}

@[simp] theorem Ok_ok {v w : α} {r r' : List Tok} {c : Bool} : Ok (Res.ok v r c) w r' ↔ v = w ∧ r = r' := by unfold Ok; exact Iff.rfl
@[simp] theorem Ok_perr {v : α} {r : List Tok} : Ok (Res.perr : Res α) v r ↔ False := by unfold Ok; exact Iff.rfl
@[simp] theorem Ok_cerr {v : α} {r : List Tok} : Ok (Res.cerr : Res α) v r ↔ False := by unfold Ok; exact Iff.rfl

attribute [irreducible] Ok

theorem Ok_iff {x : Res α} {v : α} {r : List Tok} : Ok x v r ↔ ∃ c, x = .ok v r c := by
  cases x <;> simp

theorem satisfyMap_Ok {f : Tok → Option α} {ts : List Tok} {v : α} {r : List Tok} :
    Ok (satisfyMap f ts) v r ↔ ∃ t, ts = t :: r ∧ f t = some v := by
  cases ts with
  | nil => simp [satisfyMap]
  | cons t ts =>
    simp only [satisfyMap]
    cases h : f t <;> grind [Ok_ok, Ok_perr]

theorem satisfyMap_ne_cerr {f : Tok → Option α} {ts : List Tok} : satisfyMap f ts ≠ .cerr := by
  cases ts with
  | nil => simp [satisfyMap]
  | cons t ts => simp only [satisfyMap]; cases f t <;> simp

theorem satisfyMap_nil {f : Tok → Option α} : satisfyMap f [] = .perr := rfl

theorem satisfyMap_cons_none {f : Tok → Option α} {t : Tok} {ts : List Tok} (h : f t = none) :
    satisfyMap f (t :: ts) = .perr := by simp [satisfyMap, h]

theorem pmap_Ok {p : P α} {f : α → β} {ts : List Tok} {w : β} {r : List Tok} :
    Ok (pmap p f ts) w r ↔ ∃ v, Ok (p ts) v r ∧ w = f v := by
  unfold pmap
  cases p ts <;> grind [Ok_ok, Ok_perr, Ok_cerr]

theorem pmap_perr {p : P α} {f : α → β} {ts : List Tok} (h : p ts = .perr) : pmap p f ts = .perr := by
  simp [pmap, h]

theorem andThen_Ok {p : P α} {f : α → Option β} {ts : List Tok} {w : β} {r : List Tok} :
    Ok (andThen p f ts) w r ↔ ∃ v, Ok (p ts) v r ∧ f v = some w := by
  unfold andThen
  cases p ts with
  | ok v r' c => cases hf : f v <;> grind [Ok_ok, Ok_perr, Ok_cerr]
  | perr => simp
  | cerr => simp

theorem andThen_perr {p : P α} {f : α → Option β} {ts : List Tok} (h : p ts = .perr) :
    andThen p f ts = .perr := by
  simp [andThen, h]

theorem seq_Ok {p : P α} {q : P β} {ts : List Tok} {x : α × β} {r : List Tok} :
    Ok (seq p q ts) x r ↔ ∃ r1, Ok (p ts) x.1 r1 ∧ Ok (q r1) x.2 r := by
  unfold seq
  cases hp : p ts with
  | ok a r1 c => cases hq : q r1 <;> grind [Ok_ok, Ok_perr, Ok_cerr]
  | perr => simp
  | cerr => simp

theorem seq_perr {p : P α} {q : P β} {ts : List Tok} (h : p ts = .perr) : seq p q ts = .perr := by
  simp [seq, h]

theorem withP_Ok {p : P α} {q : P β} {ts : List Tok} {b : β} {r : List Tok} :
    Ok (withP p q ts) b r ↔ ∃ a r1, Ok (p ts) a r1 ∧ Ok (q r1) b r := by
  simp only [withP, pmap_Ok, seq_Ok]
  constructor
  · rintro ⟨⟨a, b'⟩, ⟨r1, h1, h2⟩, rfl⟩; exact ⟨a, r1, h1, h2⟩
  · rintro ⟨a, r1, h1, h2⟩; exact ⟨(a, b), ⟨r1, h1, h2⟩, rfl⟩

theorem withP_perr {p : P α} {q : P β} {ts : List Tok} (h : p ts = .perr) : withP p q ts = .perr := by
  simp [withP, pmap, seq, h]

theorem skipP_Ok {p : P α} {q : P β} {ts : List Tok} {a : α} {r : List Tok} :
    Ok (skipP p q ts) a r ↔ ∃ b r1, Ok (p ts) a r1 ∧ Ok (q r1) b r := by
  simp only [skipP, pmap_Ok, seq_Ok]
  constructor
  · rintro ⟨⟨a', b⟩, ⟨r1, h1, h2⟩, rfl⟩; exact ⟨b, r1, h1, h2⟩
  · rintro ⟨b, r1, h1, h2⟩; exact ⟨(a, b), ⟨r1, h1, h2⟩, rfl⟩

theorem attempt_Ok {p : P α} {ts : List Tok} {v : α} {r : List Tok} :
    Ok (attempt p ts) v r ↔ Ok (p ts) v r := by
  unfold attempt
  cases p ts <;> simp

theorem attempt_ne_cerr {p : P α} {ts : List Tok} : attempt p ts ≠ .cerr := by
  simp only [attempt]; cases p ts <;> simp

theorem attempt_perr {p : P α} {ts : List Tok} (h : p ts = .perr) : attempt p ts = .perr := by
  simp [attempt, h]

/-- `attempt p` fails without consuming whenever `p` does not succeed -/
theorem attempt_perr_of_not_Ok {p : P α} {ts : List Tok} (h : ∀ v r, ¬ Ok (p ts) v r) :
    attempt p ts = .perr := by
  simp only [attempt]
  cases hp : p ts with
  | ok v r c => exact absurd (by rw [hp]; simp) (h v r)
  | perr => rfl
  | cerr => rfl

theorem orElse_Ok {p q : P α} {ts : List Tok} {v : α} {r : List Tok} :
    Ok (orElse p q ts) v r ↔ Ok (p ts) v r ∨ (p ts = .perr ∧ Ok (q ts) v r) := by
  unfold orElse
  cases p ts <;> simp

theorem orElse_perr {p q : P α} {ts : List Tok} (h1 : p ts = .perr) (h2 : q ts = .perr) :
    orElse p q ts = .perr := by
  simp [orElse, h1, h2]

theorem orElse_of_perr {p q : P α} {ts : List Tok} (h1 : p ts = .perr) : orElse p q ts = q ts := by
  simp [orElse, h1]

theorem optional_Ok {p : P α} {ts : List Tok} {o : Option α} {r : List Tok} :
    Ok (optional p ts) o r ↔ (∃ v, o = some v ∧ Ok (p ts) v r) ∨ (o = none ∧ p ts = .perr ∧ r = ts) := by
  unfold optional
  cases p ts <;> grind [Ok_ok, Ok_perr, Ok_cerr]

theorem eof_Ok {ts : List Tok} {u : Unit} {r : List Tok} : Ok (eof ts) u r ↔ ts = [] ∧ r = [] := by
  cases ts with
  | nil => simp [eof, eq_comm]
  | cons t ts => simp [eof]

/-! ### many -/

/-- every success of `p` consumes at least one frame -/
def Consumes (p : P α) : Prop := ∀ ts v r, Ok (p ts) v r → r.length < ts.length

/-- `many p` as a relation: elements parsed one after the other until `p` fails without consuming -/
inductive ManyRel (p : P α) : List Tok → List α → List Tok → Prop where
  | nil {ts : List Tok} : p ts = .perr → ManyRel p ts [] ts
  | cons {ts r1 r : List Tok} {v : α} {vs : List α} :
      Ok (p ts) v r1 → ManyRel p r1 vs r → ManyRel p ts (v :: vs) r

theorem manyFuel_Ok {p : P α} (hp : Consumes p) : ∀ (n : Nat) (ts : List Tok) (vs : List α) (r : List Tok),
    ts.length < n → (Ok (manyFuel p n ts) vs r ↔ ManyRel p ts vs r) := by
  intro n
  induction n with
  | zero => intro ts vs r h; omega
  | succ n ih =>
    intro ts vs r hlen
    simp only [manyFuel]
    cases hpt : p ts with
    | ok v r1 c =>
      dsimp only
      have hlt : r1.length < ts.length := hp ts v r1 (by rw [hpt]; simp)
      have ih' := ih r1
      constructor
      · intro h
        cases hm : manyFuel p n r1 with
        | ok vs' r' c' =>
          rw [hm] at h
          simp only [Ok_ok] at h
          obtain ⟨rfl, rfl⟩ := h
          exact ManyRel.cons (by rw [hpt]; simp) ((ih' vs' r' (by omega)).mp (by rw [hm]; simp))
        | perr => rw [hm] at h; simp at h
        | cerr => rw [hm] at h; simp at h
      · intro h
        cases h with
        | nil h0 => rw [hpt] at h0; cases h0
        | cons h1 h2 =>
          rw [hpt] at h1
          simp only [Ok_ok] at h1
          obtain ⟨rfl, rfl⟩ := h1
          have hm := (ih' _ _ (by omega)).mpr h2
          cases hmm : manyFuel p n r1 with
          | ok vs' r' c' => rw [hmm] at hm; simp only [Ok_ok] at hm; obtain ⟨rfl, rfl⟩ := hm; simp
          | perr => rw [hmm] at hm; simp at hm
          | cerr => rw [hmm] at hm; simp at hm
    | perr =>
      dsimp only
      constructor
      · intro h
        simp only [Ok_ok] at h
        obtain ⟨rfl, rfl⟩ := h
        exact ManyRel.nil hpt
      · intro h
        cases h with
        | nil h0 => simp
        | cons h1 h2 => rw [hpt] at h1; simp at h1
    | cerr =>
      dsimp only
      constructor
      · intro h; simp at h
      · intro h
        cases h with
        | nil h0 => rw [hpt] at h0; cases h0
        | cons h1 h2 => rw [hpt] at h1; simp at h1

theorem many_Ok {p : P α} (hp : Consumes p) {ts : List Tok} {vs : List α} {r : List Tok} :
    Ok (many p ts) vs r ↔ ManyRel p ts vs r :=
  manyFuel_Ok hp (ts.length + 1) ts vs r (by omega)

theorem many1_Ok {p : P α} (hp : Consumes p) {ts : List Tok} {vs : List α} {r : List Tok} :
    Ok (many1 p ts) vs r ↔ ∃ v vs' r1, vs = v :: vs' ∧ Ok (p ts) v r1 ∧ ManyRel p r1 vs' r := by
  simp only [many1]
  cases hpt : p ts with
  | ok v r1 c =>
    dsimp only
    constructor
    · intro h
      cases hm : many p r1 with
      | ok vs' r' c' =>
        rw [hm] at h
        simp only [Ok_ok] at h
        obtain ⟨rfl, rfl⟩ := h
        exact ⟨v, vs', r1, rfl, by simp, (many_Ok hp).mp (by rw [hm]; simp)⟩
      | perr => rw [hm] at h; cases c <;> simp at h
      | cerr => rw [hm] at h; simp at h
    · rintro ⟨v', vs', r1', rfl, h1, h2⟩
      simp only [Ok_ok] at h1
      obtain ⟨rfl, rfl⟩ := h1
      have hm := (many_Ok hp).mpr h2
      cases hmm : many p r1 with
      | ok vs'' r' c' => rw [hmm] at hm; simp only [Ok_ok] at hm; obtain ⟨rfl, rfl⟩ := hm; simp
      | perr => rw [hmm] at hm; simp at hm
      | cerr => rw [hmm] at hm; simp at hm
  | perr => simp
  | cerr => simp

/-- `ManyRel` of an element parser specified by a piece of concrete syntax: `ss` are the pieces,
`Side s rest` what the element parser requires of the input following the piece. -/
def Chain {σ : Type} (WFi : σ → Prop) (ren : σ → List Tok) (Side : σ → List Tok → Prop) :
    List σ → List Tok → Prop
  | [], _ => True
  | s :: ss, r => WFi s ∧ Side s (renderAll ren ss ++ r) ∧ Chain WFi ren Side ss r

theorem manyRel_spec {σ : Type} {p : P α} {WFi : σ → Prop} {ren : σ → List Tok} {den : σ → α}
    {Side : σ → List Tok → Prop}
    (hp : ∀ ts x r, Ok (p ts) x r ↔ ∃ s, WFi s ∧ ts = ren s ++ r ∧ x = den s ∧ Side s r)
    {ts : List Tok} {xs : List α} {r : List Tok} :
    ManyRel p ts xs r ↔
      ∃ ss, ts = renderAll ren ss ++ r ∧ xs = ss.map den ∧ Chain WFi ren Side ss r ∧ p r = .perr := by
  constructor
  · intro h
    induction h with
    | nil h0 => exact ⟨[], by simp [renderAll], rfl, trivial, h0⟩
    | cons h1 _ ih =>
      obtain ⟨ss, rfl, rfl, hc, hr⟩ := ih
      obtain ⟨s, hw, rfl, rfl, hs⟩ := (hp _ _ _).mp h1
      exact ⟨s :: ss, by simp [renderAll], rfl, ⟨hw, hs, hc⟩, hr⟩
  · rintro ⟨ss, rfl, rfl, hc, hr⟩
    induction ss with
    | nil => simpa [renderAll] using ManyRel.nil hr
    | cons s ss ih =>
      obtain ⟨hw, hs, hc'⟩ := hc
      have h1 : Ok (p (ren s ++ (renderAll ren ss ++ r))) (den s) (renderAll ren ss ++ r) :=
        (hp _ _ _).mpr ⟨s, hw, rfl, rfl, hs⟩
      have := ManyRel.cons h1 (ih hc')
      simpa [renderAll, List.append_assoc] using this

/-- `parse` succeeds iff the command parser succeeds on the whole input -/
theorem parse_ok_iff {c : Cmd} {ts : List Tok} {req : Request} :
    parse c ts = .ok req ↔ Ok (c.parser ts) req [] := by
  have key : Ok (skipP c.parser eof ts) req [] ↔ Ok (c.parser ts) req [] := by
    rw [skipP_Ok]
    constructor
    · rintro ⟨b, r1, h1, h2⟩
      obtain ⟨rfl, _⟩ := eof_Ok.mp h2
      exact h1
    · intro h; exact ⟨(), [], h, eof_Ok.mpr ⟨rfl, rfl⟩⟩
  rw [← key]
  simp only [parse]
  cases h : skipP c.parser eof ts with
  | ok v r c' =>
    simp only [Except.ok.injEq, Ok_ok]
    constructor
    · rintro rfl
      have : Ok (skipP c.parser eof ts) v r := by rw [h]; simp
      rw [skipP_Ok] at this
      obtain ⟨b, r1, _, h2⟩ := this
      obtain ⟨_, rfl⟩ := eof_Ok.mp h2
      exact ⟨rfl, rfl⟩
    · rintro ⟨rfl, _⟩; rfl
  | perr => simp
  | cerr => simp

end SierraModel.Server
