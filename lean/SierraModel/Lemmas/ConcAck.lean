/-
Concurrency model (C20): a waiting client is satisfied by the next sync of its segment (a
`flushPoll`, or the sync inside a rollover), and then acknowledged at its next poll.
-/
import SierraModel.Lemmas.ConcWatch

set_option linter.unusedSimpArgs false
set_option linter.unusedVariables false

namespace SierraModel.Store
open SierraModel.Version

theorem step_flushPoll (c : Conc) (o : Outbox) :
    c.step o .flushPoll = some ({ c with b := c.b.sync }, o) := rfl

/-- (f) in a state satisfying the invariants -/
theorem waiter_cases {c : Conc} {o : Outbox} (h : ConcInv c) (hw : WatchInv c o) {cl : Nat}
    {r : AppendOk} {seg : Nat} (hg : getAssoc c.clients cl = some (.replied (.ok r) seg)) :
    c.watchOf seg ≥ r.writeOff ∨
    (seg = c.b.live.id ∧
      (∀ c' o', c.step o .flushPoll = some (c', o') → c'.watchOf seg ≥ r.writeOff) ∧
      (∀ c' o', c.step o .process = some (c', o') → c'.b.live.id ≠ c.b.live.id →
        c'.watchOf seg ≥ r.writeOff)) := by
  have hle : r.writeOff ≤ c.flushedWatchOf seg := hw.cl_ok _ (getAssoc_mem hg) r seg rfl
  by_cases hs : seg = c.b.live.id
  · refine Or.inr ⟨hs, ?_, ?_⟩
    · intro c' o' hst
      rw [step_flushPoll] at hst
      injection hst with hst; injection hst with h1 h2; subst h1
      exact hle
    · intro c' o' hst hne
      have hrel := step_rel hst
      cases hrel with
      | process cl' tx rest hq =>
        have ht := h.head_ok hq
        have e2 : (c.afterProcess tx rest).b = (c.b.appendTx tx).1 := rfl
        rcases appendTx_live_cases h.inv ht with ⟨h1, _⟩ | ⟨h1, _⟩
        · exact absurd (by rw [e2, h1]) hne
        · have e1 : (c.afterProcess tx rest).sealedWatch =
              setAssoc c.sealedWatch c.b.live.id c.b.live.writeOff := by
            unfold Conc.afterProcess; simp [h1]; rfl
          unfold Conc.watchOf
          rw [e1, e2, h1, hs]
          have : (c.b.live.id == c.b.live.id + 1) = false := by simp
          simp only [this, Bool.false_eq_true, if_false, getAssoc_setAssoc_self, Option.getD_some]
          unfold Conc.flushedWatchOf at hle
          simpa [hs] using hle
  · left
    have hb : (seg == c.b.live.id) = false := by simpa using hs
    unfold Conc.flushedWatchOf at hle
    unfold Conc.watchOf
    simpa [hb] using hle

/-- the state of client `cl` while it waits for / has got the acknowledgement of reply `r` -/
def WaitingOrAcked (c : Conc) (cl : Nat) (r : AppendOk) (seg : Nat) : Prop :=
  getAssoc c.clients cl = some (.replied (.ok r) seg) ∨ getAssoc c.clients cl = some (.acked r)

theorem waitingOrAcked_step {c : Conc} {o : Outbox} {a : Action} {c' : Conc} {o' : Outbox}
    {cl : Nat} {r : AppendOk} {seg : Nat} (hp : WaitingOrAcked c cl r seg)
    (hs : c.step o a = some (c', o')) : WaitingOrAcked c' cl r seg := by
  have hrel := step_rel hs
  unfold WaitingOrAcked at hp ⊢
  cases hrel with
  | send cl' tx hen =>
    by_cases hc : cl = cl'
    · subst hc; rcases hen with hen | hen <;> rcases hp with hp | hp <;> rw [hen] at hp <;> cases hp
    · simpa only [getAssoc_setAssoc_ne _ _ hc] using hp
  | process cl' tx rest hq => exact hp
  | flushPoll => exact hp
  | recvReply cl' x res seg' tx0 _ hg =>
    by_cases hc : cl = cl'
    · subst hc; rcases hp with hp | hp <;> rw [hg] at hp <;> cases hp
    · simpa only [getAssoc_setAssoc_ne _ _ hc] using hp
  | pollAck cl' r' seg' hg _ =>
    by_cases hc : cl = cl'
    · subst hc
      right
      rcases hp with hp | hp <;> rw [hg] at hp
      · injection hp with hp; injection hp with hp1 hp2; injection hp1 with hp1; subst hp1
        exact getAssoc_setAssoc_self _ _ _
      · cases hp
    · simpa only [getAssoc_setAssoc_ne _ _ hc] using hp
  | pollPending cl' r' seg' _ _ => exact hp
  | liveHit rd eid en _ => exact hp
  | liveMiss rd eid _ => exact hp
  | pool rd eid _ => exact hp

theorem waitingOrAcked_run {cl : Nat} {r : AppendOk} {seg : Nat} : ∀ (sched : List Action) (c : Conc)
    (o : Outbox), WaitingOrAcked c cl r seg → WaitingOrAcked (c.run o sched).1 cl r seg
  | [], _, _, hp => hp
  | a :: as, c, o, hp => by
    rw [Conc.run_cons]
    rcases next_cases c o a with ⟨_, hn⟩ | ⟨c', o', hs, hn⟩
    · rw [hn]; exact waitingOrAcked_run as c o hp
    · rw [hn]; exact waitingOrAcked_run as c' o' (waitingOrAcked_step hp hs)

/-- a poll of a waiting client whose watch value is reached acknowledges -/
theorem pollWait_acks {c : Conc} {o : Outbox} {cl : Nat} {r : AppendOk} {seg : Nat}
    (hp : WaitingOrAcked c cl r seg) (hw : c.watchOf seg ≥ r.writeOff) :
    getAssoc (c.next o (.pollWait cl)).1.clients cl = some (.acked r) := by
  rcases hp with hp | hp
  · have : c.step o (.pollWait cl) =
        some ({ c with clients := setAssoc c.clients cl (.acked r), ackedLog := c.ackedLog ++ [r] }, o) := by
      simp only [Conc.step, hp, hw, if_true]
    unfold Conc.next
    rw [this]
    exact getAssoc_setAssoc_self _ _ _
  · have : c.step o (.pollWait cl) = none := by simp only [Conc.step, hp]
    unfold Conc.next
    rw [this]; exact hp

theorem next_flushPoll (c : Conc) (o : Outbox) :
    c.next o .flushPoll = ({ c with b := c.b.sync }, o) := rfl

/-- once the watch value is reached, whatever happens next, the next poll acknowledges -/
theorem acked_once_satisfied {c : Conc} {o : Outbox} (hi : ConcInv c) (hw : WatchInv c o) {cl : Nat}
    {r : AppendOk} {seg : Nat} (hp : WaitingOrAcked c cl r seg) (hsat : c.watchOf seg ≥ r.writeOff)
    (mid : List Action) (hok : SchedOk c o (mid ++ [.pollWait cl])) :
    getAssoc (c.run o (mid ++ [.pollWait cl])).1.clients cl = some (.acked r) := by
  rw [schedOk_append] at hok
  rw [Conc.run_append, Conc.run_cons, Conc.run_nil]
  exact pollWait_acks (waitingOrAcked_run mid c o hp)
    (Nat.le_trans hsat (watchOf_mono_run seg mid c o hi hw hok.1))

/-- a waiting client is acknowledged at its next poll after one `flushPoll` -/
theorem acked_after_sync {c : Conc} {o : Outbox} (hi : ConcInv c) (hw : WatchInv c o) {cl : Nat}
    {r : AppendOk} {seg : Nat} (hg : getAssoc c.clients cl = some (.replied (.ok r) seg))
    (mid : List Action) (hok : SchedOk c o (.flushPoll :: (mid ++ [.pollWait cl]))) :
    getAssoc (c.run o (.flushPoll :: (mid ++ [.pollWait cl]))).1.clients cl = some (.acked r) := by
  obtain ⟨ha, hok⟩ := hok
  rw [Conc.run_cons]
  rw [next_flushPoll] at hok ⊢
  have hs := step_flushPoll c o
  have hle : r.writeOff ≤ c.flushedWatchOf seg := hw.cl_ok _ (getAssoc_mem hg) r seg rfl
  exact acked_once_satisfied (concInv_step hi ha hs) (watchInv_step hi hw hs) (Or.inl hg) hle mid hok

end SierraModel.Store
