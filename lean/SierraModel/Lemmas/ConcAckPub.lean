/-
Concurrency model (C15): acknowledged ⇒ published.  Every reply in flight belongs to a processed
transaction whose events are published or still pending in the live segment the reply came from,
with the watch below the reply's write offset; a successful `pollWait` excludes the second case.
-/
import SierraModel.Lemmas.ConcPub

set_option linter.unusedSimpArgs false
set_option linter.unusedVariables false

namespace SierraModel.Store
open SierraModel.Version

/-- the events of `tx` are published, or pending in the live segment `seg` whose watch value is
below `w` -/
def TxVisible (b : Bucket) (tx : Tx) (seg w : Nat) : Prop :=
  ∀ e ∈ tx.events, b.published e.eid = true ∨
    (seg = b.live.id ∧ (∃ en ∈ b.live.pending, en.eid = e.eid) ∧ b.live.watch < w)

theorem txVisible_sync {b : Bucket} {tx : Tx} {seg w : Nat} (h : TxVisible b tx seg w) :
    TxVisible b.sync tx seg w := by
  intro e he
  left
  rw [published_iff, pubIdx_sync]
  rcases h e he with hp | ⟨_, ⟨en, h1, h2⟩, _⟩
  · obtain ⟨en, h1, h2⟩ := (published_iff _ _).1 hp
    exact ⟨en, List.mem_append_left _ h1, h2⟩
  · exact ⟨en, List.mem_append_right _ h1, h2⟩

theorem txVisible_appendTx {b : Bucket} (hi : Inv b) {tx0 : Tx} (ht : TxOk b tx0) {tx : Tx}
    {seg w : Nat} (h : TxVisible b tx seg w) : TxVisible (b.appendTx tx0).1 tx seg w := by
  intro e he
  rcases appendTx_live_cases hi ht with ⟨h1, h2, _, h4, h5, ext, h6⟩ | ⟨_, h2, h3, _⟩
  · rcases h e he with hp | ⟨hs, ⟨en, hm, hen⟩, hw⟩
    · exact Or.inl (published_mono (appendTx_pub hi ht).1 hp)
    · exact Or.inr ⟨by rw [h1]; exact hs, ⟨en, by rw [h6]; exact List.mem_append_left _ hm, hen⟩,
        by rw [h2]; exact hw⟩
  · left
    have hpub : (b.appendTx tx0).1.pubIdx = b.pubIdx ++ b.live.pending := by
      simp [Bucket.pubIdx, h2, h3]
    rw [published_iff, hpub]
    rcases h e he with hp | ⟨_, ⟨en, h1, h2⟩, _⟩
    · obtain ⟨en, h1, h2⟩ := (published_iff _ _).1 hp
      exact ⟨en, List.mem_append_left _ h1, h2⟩
    · exact ⟨en, List.mem_append_right _ h1, h2⟩

theorem hydrate_eids (recs : List Placed) : (hydrate recs).map (·.eid) = (evsOf recs).map (·.eid) := by
  rw [hydrate_eq, evsOf, List.map_map, List.map_map]
  rfl

/-- right after an accepted append the events of the transaction are pending in the live segment
and the watch is below the reply's write offset -/
theorem txVisible_new {b : Bucket} (hi : Inv b) {tx : Tx} (ht : TxOk b tx) {r : AppendOk}
    (hr : (b.appendTx tx).2 = .ok r) :
    TxVisible (b.appendTx tx).1 tx (b.appendTx tx).1.live.id r.writeOff := by
  rcases appendTx_cases hi ht with ⟨e, he⟩ | ⟨e, he⟩ | ⟨vs, _, hlen, _, he⟩ <;> rw [he] at hr ⊢
  · cases hr
  · cases hr
  · injection hr with hr; subst hr
    intro e hev
    right
    refine ⟨rfl, ?_, ?_⟩
    · have hm : e.eid ∈ (hydrate ((b.preRoll tx).txPlaced tx vs)).map (·.eid) := by
        rw [hydrate_eids]
        unfold Bucket.txPlaced
        rw [evsOf_mkPlaced, mkEvs_eids _ _ _ _ _ _ _ hlen.symm]
        exact List.mem_map.2 ⟨e, hev, rfl⟩
      obtain ⟨en, h1, h2⟩ := List.mem_map.1 hm
      exact ⟨en, List.mem_append_right _ h1, h2⟩
    · have hi1 := inv_preRoll hi tx
      have h1 : (b.preRoll tx).live.watch ≤ (b.preRoll tx).live.writeOff :=
        Nat.le_trans hi1.watch_le hi1.durable_le
      have h2 := storedSum_pos tx.events ht.1 ht.2.1
      show (b.preRoll tx).live.watch < (b.preRoll tx).live.writeOff + storedSum tx.events + tx.commitLen
      omega

/-- a satisfied wait excludes the pending case -/
theorem txVisible_satisfied {c : Conc} {tx : Tx} {seg w : Nat} (h : TxVisible c.b tx seg w)
    (hw : c.watchOf seg ≥ w) : ∀ e ∈ tx.events, c.b.published e.eid = true := by
  intro e he
  rcases h e he with hp | ⟨hs, _, hlt⟩
  · exact hp
  · exfalso
    unfold Conc.watchOf at hw
    simp [hs] at hw
    omega

/-- acknowledged ⇒ published, with what it needs about the replies in flight -/
structure AckInv (c : Conc) (o : Outbox) : Prop where
  out_ok : ∀ x ∈ o.items, ∀ r, x.2.1 = .ok r →
    ∃ tx, (tx, .ok r) ∈ c.processed ∧ TxVisible c.b tx x.2.2 r.writeOff
  cl_ok : ∀ x ∈ c.clients, ∀ r seg, x.2 = .replied (.ok r) seg →
    ∃ tx, (tx, .ok r) ∈ c.processed ∧ TxVisible c.b tx seg r.writeOff
  acked_ok : ∀ r ∈ c.ackedLog,
    ∃ tx, (tx, .ok r) ∈ c.processed ∧ ∀ e ∈ tx.events, c.b.published e.eid = true

theorem ackInv_init (b : Bucket) : AckInv (Conc.init b) {} :=
  ⟨by simp, by simp [Conc.init], by simp [Conc.init]⟩

theorem ackInv_step {c : Conc} {o : Outbox} {a : Action} {c' : Conc} {o' : Outbox}
    (h : ConcInv c) (hk : AckInv c o) (hs : c.step o a = some (c', o')) : AckInv c' o' := by
  have hrel := step_rel hs
  cases hrel with
  | process cl tx rest hq =>
    have ht := h.head_ok hq
    have hproc : ∀ y, y ∈ c.processed → y ∈ (c.afterProcess tx rest).processed :=
      fun y hy => List.mem_append_left _ hy
    refine ⟨?_, ?_, ?_⟩
    · intro x hx r hr
      rcases List.mem_append.1 hx with hx | hx
      · obtain ⟨tx1, h1, h2⟩ := hk.out_ok x hx r hr
        exact ⟨tx1, hproc _ h1, txVisible_appendTx h.inv ht h2⟩
      · simp only [List.mem_singleton] at hx; subst hx
        refine ⟨tx, ?_, txVisible_new h.inv ht hr⟩
        have hr' : (c.b.appendTx tx).2 = .ok r := hr
        show (tx, Except.ok r) ∈ c.processed ++ [(tx, (c.b.appendTx tx).2)]
        rw [hr']; simp
    · intro x hx r seg hr
      obtain ⟨tx1, h1, h2⟩ := hk.cl_ok x hx r seg hr
      exact ⟨tx1, hproc _ h1, txVisible_appendTx h.inv ht h2⟩
    · intro r hr
      obtain ⟨tx1, h1, h2⟩ := hk.acked_ok r hr
      exact ⟨tx1, hproc _ h1, fun e he => published_mono (appendTx_pub h.inv ht).1 (h2 e he)⟩
  | flushPoll =>
    refine ⟨?_, ?_, ?_⟩
    · intro x hx r hr
      obtain ⟨tx1, h1, h2⟩ := hk.out_ok x hx r hr
      exact ⟨tx1, h1, txVisible_sync h2⟩
    · intro x hx r seg hr
      obtain ⟨tx1, h1, h2⟩ := hk.cl_ok x hx r seg hr
      exact ⟨tx1, h1, txVisible_sync h2⟩
    · intro r hr
      obtain ⟨tx1, h1, h2⟩ := hk.acked_ok r hr
      exact ⟨tx1, h1, fun e he => published_mono ⟨_, pubIdx_sync c.b⟩ (h2 e he)⟩
  | send cl tx _ =>
    refine ⟨hk.out_ok, ?_, hk.acked_ok⟩
    intro x hx r seg hr
    rcases mem_setAssoc hx with hx | rfl
    · exact hk.cl_ok x hx r seg hr
    · cases hr
  | recvReply cl x res seg tx0 hf _ =>
    refine ⟨fun y hy => hk.out_ok y (List.mem_filter.1 hy).1, ?_, hk.acked_ok⟩
    intro y hy r seg' hr
    rcases mem_setAssoc hy with hy | rfl
    · exact hk.cl_ok y hy r seg' hr
    · have hm := List.mem_of_find?_eq_some hf
      cases res with
      | error e => cases hr
      | ok r0 =>
        simp only [replyState, ClientState.replied.injEq, Except.ok.injEq] at hr
        obtain ⟨rfl, rfl⟩ := hr
        exact hk.out_ok _ hm r0 rfl
  | pollAck cl r seg hg hw =>
    refine ⟨hk.out_ok, ?_, ?_⟩
    · intro x hx r' seg' hr
      rcases mem_setAssoc hx with hx | rfl
      · exact hk.cl_ok x hx r' seg' hr
      · cases hr
    · intro r' hr'
      rcases List.mem_append.1 hr' with hr' | hr'
      · exact hk.acked_ok r' hr'
      · simp only [List.mem_singleton] at hr'; subst hr'
        obtain ⟨tx1, h1, h2⟩ := hk.cl_ok _ (getAssoc_mem hg) r' seg rfl
        exact ⟨tx1, h1, txVisible_satisfied h2 hw⟩
  | pollPending cl r seg _ _ => exact hk
  | liveHit rd eid en _ => exact ⟨hk.out_ok, hk.cl_ok, hk.acked_ok⟩
  | liveMiss rd eid _ => exact ⟨hk.out_ok, hk.cl_ok, hk.acked_ok⟩
  | pool rd eid _ => exact ⟨hk.out_ok, hk.cl_ok, hk.acked_ok⟩

theorem ackInv_run (sched : List Action) (c : Conc) (o : Outbox) (hi : ConcInv c)
    (hk : AckInv c o) (hok : SchedOk c o sched) :
    ConcInv (c.run o sched).1 ∧ AckInv (c.run o sched).1 (c.run o sched).2 :=
  run_induct (P := AckInv) (fun _ _ _ _ _ hi hk _ hs => ackInv_step hi hk hs) sched c o hi hk hok

end SierraModel.Store
