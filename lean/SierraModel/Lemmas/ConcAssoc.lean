/-
Association-list helpers of the concurrency model (`setAssoc`, `getAssoc`).
-/
import SierraModel.Store.Conc

set_option linter.unusedSimpArgs false

namespace SierraModel.Store

variable {α : Type}

theorem getAssoc_nil (k : Nat) : getAssoc ([] : List (Nat × α)) k = none := rfl

theorem getAssoc_cons (x : Nat × α) (l : List (Nat × α)) (k : Nat) :
    getAssoc (x :: l) k = if x.1 = k then some x.2 else getAssoc l k := by
  unfold getAssoc
  by_cases h : x.1 = k
  · simp [List.find?_cons, h]
  · have hb : (x.1 == k) = false := by simpa using h
    simp [List.find?_cons, h, hb]

theorem getAssoc_mem : ∀ {l : List (Nat × α)} {k : Nat} {v : α}, getAssoc l k = some v → (k, v) ∈ l
  | [], _, _, h => by simp [getAssoc_nil] at h
  | x :: l, k, v, h => by
    rw [getAssoc_cons] at h
    by_cases hx : x.1 = k
    · simp only [hx, if_true, Option.some.injEq] at h
      have : x = (k, v) := by rw [← hx, ← h]
      simp [this]
    · simp only [hx, if_false] at h
      exact List.mem_cons_of_mem _ (getAssoc_mem h)

theorem getAssoc_none_of_keys : ∀ {l : List (Nat × α)} {k : Nat}, (∀ x ∈ l, x.1 ≠ k) → getAssoc l k = none
  | [], _, _ => rfl
  | x :: l, k, h => by
    rw [getAssoc_cons, if_neg (h x (by simp))]
    exact getAssoc_none_of_keys (fun y hy => h y (by simp [hy]))

theorem getAssoc_append (l1 l2 : List (Nat × α)) (k : Nat) :
    getAssoc (l1 ++ l2) k = (getAssoc l1 k).or (getAssoc l2 k) := by
  induction l1 with
  | nil => simp [getAssoc_nil]
  | cons x l ih =>
    rw [List.cons_append, getAssoc_cons, getAssoc_cons, ih]
    by_cases hx : x.1 = k <;> simp [hx]

theorem getAssoc_map_upd (l : List (Nat × α)) (k k' : Nat) (v : α) :
    getAssoc (l.map (fun x => if x.1 == k then (k, v) else x)) k' =
      if k' = k then (getAssoc l k).map (fun _ => v) else getAssoc l k' := by
  induction l with
  | nil => simp [getAssoc_nil]
  | cons x l ih =>
    rw [List.map_cons, getAssoc_cons, getAssoc_cons, getAssoc_cons, ih]
    by_cases hx : x.1 = k
    · by_cases hk : k' = k
      · subst hk; simp [hx]
      · have : ¬ k = k' := fun h => hk h.symm
        simp [hx, hk, this]
    · have hb : (x.1 == k) = false := by simpa using hx
      by_cases hk : k' = k
      · subst hk; simp [hx, hb]
      · simp [hb, hk]

theorem any_key_iff (l : List (Nat × α)) (k : Nat) :
    l.any (·.1 == k) = true ↔ (getAssoc l k).isSome = true := by
  induction l with
  | nil => simp [getAssoc_nil]
  | cons x l ih =>
    rw [getAssoc_cons, List.any_cons]
    by_cases hx : x.1 = k
    · simp [hx]
    · have hb : (x.1 == k) = false := by simpa using hx
      simp [hx, hb, ih]

theorem getAssoc_setAssoc (l : List (Nat × α)) (k k' : Nat) (v : α) :
    getAssoc (setAssoc l k v) k' = if k' = k then some v else getAssoc l k' := by
  unfold setAssoc
  by_cases hany : l.any (·.1 == k) = true
  · rw [if_pos hany, getAssoc_map_upd]
    by_cases hk : k' = k
    · simp only [hk, if_true]
      have := (any_key_iff l k).1 hany
      cases hg : getAssoc l k with
      | none => rw [hg] at this; simp at this
      | some _ => rfl
    · simp [hk]
  · rw [if_neg hany, getAssoc_append]
    have hnone : getAssoc l k = none := by
      cases hg : getAssoc l k with
      | none => rfl
      | some _ => exact absurd ((any_key_iff l k).2 (by rw [hg]; rfl)) hany
    by_cases hk : k' = k
    · subst hk; simp [hnone, getAssoc_cons]
    · have : ¬ k = k' := fun h => hk h.symm
      simp [hk, getAssoc_cons, getAssoc_nil, this]

theorem getAssoc_setAssoc_self (l : List (Nat × α)) (k : Nat) (v : α) :
    getAssoc (setAssoc l k v) k = some v := by rw [getAssoc_setAssoc, if_pos rfl]

theorem getAssoc_setAssoc_ne (l : List (Nat × α)) {k k' : Nat} (v : α) (h : k' ≠ k) :
    getAssoc (setAssoc l k v) k' = getAssoc l k' := by rw [getAssoc_setAssoc, if_neg h]

theorem mem_setAssoc {l : List (Nat × α)} {k : Nat} {v : α} {x : Nat × α} (h : x ∈ setAssoc l k v) :
    x ∈ l ∨ x = (k, v) := by
  unfold setAssoc at h
  split at h
  · obtain ⟨y, hy, rfl⟩ := List.mem_map.1 h
    by_cases hyk : (y.1 == k) = true
    · simp [hyk]
    · simp [hyk, hy]
  · rcases List.mem_append.1 h with h | h
    · exact Or.inl h
    · exact Or.inr (by simpa using h)

end SierraModel.Store
