/-
Concurrency model, basics: the shapes of `appendTx`'s outcome, input validity of schedules
(`SendOk`, `SchedOk`), the core reachability invariant `ConcInv` and the induction principle over
schedules.
-/
import SierraModel.Lemmas.ConcAssoc
import SierraModel.Lemmas.StoreAck2

set_option linter.unusedSimpArgs false
set_option linter.unusedVariables false

namespace SierraModel.Store
open SierraModel.Version

/-! ### outcome of `appendTx` -/

/-- the three shapes of the outcome of `appendTx`: rejected without / with the pre-append
rollover, or committed after the pre-append rollover decision -/
theorem appendTx_cases {b : Bucket} (h : Inv b) {tx : Tx} (ht : TxOk b tx) :
    (∃ e, b.appendTx tx = (b, .error e)) ∨ (∃ e, b.appendTx tx = (b.preRoll tx, .error e)) ∨
    (∃ vs, b.abs.checkEvents tx.pkey tx.events [] = .ok vs ∧ vs.length = tx.events.length ∧
      storeAccepts tx.expectedSeq (seqCur ((b.preRoll tx).nextPartSeq tx.pid)) = true ∧
      b.appendTx tx = ((b.preRoll tx).commitTx tx vs, .ok (okReply (b.preRoll tx) tx vs))) := by
  have hres := appendTx_res' h ht
  generalize b.appendTx tx = x at hres
  cases hres with
  | invalid e _ => exact Or.inl ⟨e, rfl⟩
  | tooLarge vs _ _ _ => exact Or.inl ⟨_, rfl⟩
  | wrongSeq vs _ _ => exact Or.inr (Or.inl ⟨_, rfl⟩)
  | noSpace vs e _ _ _ _ => exact Or.inr (Or.inl ⟨_, rfl⟩)
  | badTs vs _ _ _ => exact Or.inr (Or.inl ⟨_, rfl⟩)
  | ok vs hc _ hs _ _ =>
    exact Or.inr (Or.inr ⟨vs, hc, (h.check_verOk tx vs 0 hc).2, hs, rfl⟩)

theorem allRecs_commitTx (b1 : Bucket) (tx : Tx) (vs : List Nat) :
    (b1.commitTx tx vs).allRecs = b1.allRecs ++ b1.txBlock tx vs := by
  simp [Bucket.allRecs, Bucket.commitTx]

theorem mkPlaced_recTx (pkey pid txId : Nat) (single : Bool) :
    ∀ (es : List NewEv) (vs : List Nat) (off seq : Nat),
      ∀ p ∈ mkPlaced pkey pid txId single es vs off seq, recTx p.r = txId
  | [], _, _, _ => by simp [mkPlaced]
  | e :: es, [], _, _ => by simp [mkPlaced]
  | e :: es, v :: vs, off, seq => by
    intro p hp
    simp only [mkPlaced, List.mem_cons] at hp
    rcases hp with rfl | hp
    · rfl
    · exact mkPlaced_recTx pkey pid txId single es vs _ _ p hp

theorem txBlock_recTx (b1 : Bucket) (tx : Tx) (vs : List Nat) :
    ∀ p ∈ b1.txBlock tx vs, recTx p.r = tx.txId := by
  intro p hp
  unfold Bucket.txBlock at hp
  split at hp
  · exact mkPlaced_recTx _ _ _ _ _ _ _ _ p hp
  · rcases List.mem_append.1 hp with hp | hp
    · exact mkPlaced_recTx _ _ _ _ _ _ _ _ p hp
    · simp only [List.mem_singleton] at hp; subst hp; rfl

/-- two requests with disjoint event ids and different transaction ids -/
def Tx.Disj (tx tx' : Tx) : Prop :=
  (∀ e ∈ tx.events, ∀ e' ∈ tx'.events, e.eid ≠ e'.eid) ∧ tx.txId ≠ tx'.txId

instance (tx tx' : Tx) : Decidable (Tx.Disj tx tx') := by unfold Tx.Disj; exact inferInstance

theorem txOk_sync {b : Bucket} {tx : Tx} : TxOk b.sync tx ↔ TxOk b tx := Iff.rfl

theorem txOk_commitTx {b1 : Bucket} {tx tx' : Tx} {vs : List Nat} (hlen : vs.length = tx.events.length)
    (ht' : TxOk b1 tx') (hd : Tx.Disj tx tx') : TxOk (b1.commitTx tx vs) tx' := by
  obtain ⟨h1, h2, h3, h4, h5⟩ := ht'
  refine ⟨h1, h2, h3, ?_, ?_⟩
  · intro e he hm
    unfold Bucket.eids at hm
    rw [allRecs_commitTx, evsOf_append, List.map_append, List.mem_append, evsOf_txBlock,
      mkEvs_eids _ _ _ _ _ _ _ hlen.symm] at hm
    rcases hm with hm | hm
    · exact h4 e he hm
    · obtain ⟨e0, he0, heq⟩ := List.mem_map.1 hm
      exact hd.1 e0 he0 e he heq
  · intro hm
    unfold Bucket.txIds at hm
    rw [allRecs_commitTx, List.map_append, List.mem_append] at hm
    rcases hm with hm | hm
    · exact h5 hm
    · obtain ⟨p, hp, heq⟩ := List.mem_map.1 hm
      rw [txBlock_recTx b1 tx vs p hp] at heq
      exact hd.2 heq

/-- a valid request stays valid when a disjoint request is processed before it -/
theorem txOk_appendTx {b : Bucket} (h : Inv b) {tx tx' : Tx} (ht : TxOk b tx) (ht' : TxOk b tx')
    (hd : Tx.Disj tx tx') : TxOk (b.appendTx tx).1 tx' := by
  rcases appendTx_cases h ht with ⟨e, he⟩ | ⟨e, he⟩ | ⟨vs, _, hlen, _, he⟩ <;> rw [he]
  · exact ht'
  · unfold TxOk Bucket.eids Bucket.txIds at *
    rw [allRecs_preRoll]; exact ht'
  · refine txOk_commitTx hlen ?_ hd
    unfold TxOk Bucket.eids Bucket.txIds at *
    rw [allRecs_preRoll]; exact ht'

/-! ### schedules -/

/-- validity of a `send`: the request is `TxOk` for the bucket (everything processed so far) and
disjoint from everything still queued (sent, not yet processed) -/
def SendOk (c : Conc) (tx : Tx) : Prop := TxOk c.b tx ∧ ∀ q ∈ c.queue, Tx.Disj q.2 tx

instance (c : Conc) (tx : Tx) : Decidable (SendOk c tx) := by unfold SendOk; exact inferInstance

/-- input validity of one action: only enabled `send`s are constrained -/
def ActOk (c : Conc) (o : Outbox) : Action → Prop
  | .send cl tx => (c.step o (.send cl tx)).isSome = true → SendOk c tx
  | _ => True

instance (c : Conc) (o : Outbox) : (a : Action) → Decidable (ActOk c o a)
  | .send cl tx => by unfold ActOk; exact inferInstance
  | .process => isTrue trivial
  | .flushPoll => isTrue trivial
  | .recvReply _ => isTrue trivial
  | .pollWait _ => isTrue trivial
  | .lookupLive _ _ => isTrue trivial
  | .lookupPool _ => isTrue trivial

/-- one step of a schedule (a disabled action is skipped) -/
def Conc.next (c : Conc) (o : Outbox) (a : Action) : Conc × Outbox := (c.step o a).getD (c, o)

theorem Conc.run_nil (c : Conc) (o : Outbox) : c.run o [] = (c, o) := rfl

theorem Conc.run_cons (c : Conc) (o : Outbox) (a : Action) (as : List Action) :
    c.run o (a :: as) = (c.next o a).1.run (c.next o a).2 as := by
  unfold Conc.next
  rw [Conc.run]
  cases c.step o a <;> rfl

theorem Conc.run_append (as as' : List Action) : ∀ (c : Conc) (o : Outbox),
    c.run o (as ++ as') = (c.run o as).1.run (c.run o as).2 as' := by
  induction as with
  | nil => intro c o; rfl
  | cons a as ih => intro c o; rw [List.cons_append, Conc.run_cons, Conc.run_cons, ih]

/-- input validity of a schedule: every (enabled) `send` carries a request that is fresh w.r.t.
everything processed or queued at that moment, non-empty, with positive stored sizes -/
def SchedOk : Conc → Outbox → List Action → Prop
  | _, _, [] => True
  | c, o, a :: as => ActOk c o a ∧ SchedOk (c.next o a).1 (c.next o a).2 as

instance SchedOk.dec : (c : Conc) → (o : Outbox) → (as : List Action) → Decidable (SchedOk c o as)
  | _, _, [] => isTrue trivial
  | c, o, a :: as => @instDecidableAnd _ _ _ (SchedOk.dec (c.next o a).1 (c.next o a).2 as)

theorem schedOk_append (as as' : List Action) : ∀ (c : Conc) (o : Outbox),
    SchedOk c o (as ++ as') ↔ SchedOk c o as ∧ SchedOk (c.run o as).1 (c.run o as).2 as' := by
  induction as with
  | nil => intro c o; simp [SchedOk, Conc.run_nil]
  | cons a as ih => intro c o; simp only [List.cons_append, SchedOk, Conc.run_cons, ih, and_assoc]

end SierraModel.Store
