/-
Concurrency model (C16): what an accepted request commits (`Committed`), and the strict order of
versions / sequences between earlier and later committed events.
-/
import SierraModel.Lemmas.ConcPubVer
import SierraModel.Lemmas.ConcAckPub

set_option linter.unusedSimpArgs false
set_option linter.unusedVariables false

namespace SierraModel.Store
open SierraModel.Version

/-! ### order of versions and sequences -/

theorem latestOf_ge_mem {A : List Ev} (h : VerOk A) {a : Ev} (ha : a ∈ A) :
    ∃ v', latestOf A a.stream = some (a.pkey, v') ∧ a.version ≤ v' := by
  obtain ⟨A1, A2, rfl⟩ := List.append_of_mem ha
  have e : A1 ++ a :: A2 = (A1 ++ [a]) ++ A2 := by simp
  rw [e] at h ⊢
  exact latestOf_mono h (by rw [latestOf_snoc, if_pos rfl])

theorem seqOf_ge_mem {A : List Ev} (h : SeqOk A) {a : Ev} (ha : a ∈ A) :
    ∃ s', seqOf A a.pid = some s' ∧ a.seq ≤ s' := by
  obtain ⟨A1, A2, rfl⟩ := List.append_of_mem ha
  have e : A1 ++ a :: A2 = (A1 ++ [a]) ++ A2 := by simp
  rw [e] at h ⊢
  exact seqOf_mono h (by rw [seqOf_snoc, if_pos rfl])

/-- a later event of a stream has a larger version than every earlier one -/
theorem version_lt_of_later {A B : List Ev} (h : VerOk (A ++ B)) {a b : Ev} (ha : a ∈ A) (hb : b ∈ B)
    (hs : a.stream = b.stream) : a.version < b.version := by
  obtain ⟨B1, B2, rfl⟩ := List.append_of_mem hb
  have e : A ++ (B1 ++ b :: B2) = ((A ++ B1) ++ [b]) ++ B2 := by simp
  rw [e] at h
  have h1 := conc_verOk_prefix h
  obtain ⟨h2, h3⟩ := (verOk_snoc _ _).1 h1
  obtain ⟨v', h4, h5⟩ := latestOf_ge_mem h2 (List.mem_append_left B1 ha)
  rw [← hs, h4] at h3
  simp only [] at h3
  omega

/-- a later event of a partition has a larger sequence than every earlier one -/
theorem seq_lt_of_later {A B : List Ev} (h : SeqOk (A ++ B)) {a b : Ev} (ha : a ∈ A) (hb : b ∈ B)
    (hs : a.pid = b.pid) : a.seq < b.seq := by
  obtain ⟨B1, B2, rfl⟩ := List.append_of_mem hb
  have e : A ++ (B1 ++ b :: B2) = ((A ++ B1) ++ [b]) ++ B2 := by simp
  rw [e] at h
  have h1 := conc_seqOk_prefix h
  obtain ⟨h2, h3⟩ := (seqOk_snoc _ _).1 h1
  obtain ⟨s', h4, h5⟩ := seqOf_ge_mem h2 (List.mem_append_left B1 ha)
  rw [nextSeqOf_seqOf, ← hs, h4] at h3
  simp only [] at h3
  omega

/-! ### versions assigned to events with exact / empty expectations -/

def curOf : Option Nat → Current
  | some v => .current v
  | none => .empty

theorem checkEvents_assigned (s : Spec) (pkey pid txId : Nat) (single : Bool) :
    ∀ (es : List NewEv) (seen : List (Nat × Nat)) (vs : List Nat) (seq : Nat),
      s.checkEvents pkey es seen = .ok vs →
      ∀ e ∈ es, ∃ ev ∈ mkEvs pkey pid txId single es vs seq, ev.stream = e.stream ∧ ev.eid = e.eid ∧
        (∀ v, e.expected = .exact v → ev.version = v + 1) ∧ (e.expected = .empty → ev.version = 0)
  | [], _, _, _, _ => by simp
  | e :: es, seen, vs, seq, h => by
    unfold Spec.checkEvents at h
    have key : ∀ (c : Option Nat), storeAccepts e.expected (curOf c) = true →
        (s.checkEvents pkey es ((e.stream, nextV c) :: seen.filter (·.1 != e.stream))).map (nextV c :: ·) = .ok vs →
        ∀ e' ∈ e :: es, ∃ ev ∈ mkEvs pkey pid txId single (e :: es) vs seq, ev.stream = e'.stream ∧
          ev.eid = e'.eid ∧ (∀ v, e'.expected = .exact v → ev.version = v + 1) ∧
          (e'.expected = .empty → ev.version = 0) := by
      intro c hacc hrec
      cases hr : s.checkEvents pkey es ((e.stream, nextV c) :: seen.filter (·.1 != e.stream)) with
      | error err => simp [hr, Except.map] at hrec
      | ok vs' =>
        simp [hr, Except.map] at hrec; subst hrec
        intro e' he'
        simp only [mkEvs, List.mem_cons]
        rcases List.mem_cons.1 he' with rfl | he'
        · refine ⟨mkEv pkey pid txId single e' (nextV c) seq, Or.inl rfl, rfl, rfl, ?_, ?_⟩
          · intro v hv
            rw [hv] at hacc
            cases c with
            | some w => simp [curOf, storeAccepts] at hacc; simp [mkEv, nextV, hacc]
            | none => simp [curOf, storeAccepts] at hacc
          · intro hv
            rw [hv] at hacc
            cases c with
            | some w => simp [curOf, storeAccepts] at hacc
            | none => simp [mkEv, nextV]
        · obtain ⟨ev, h1, h2⟩ := checkEvents_assigned s pkey pid txId single es _ vs' (seq + 1) hr e' he'
          exact ⟨ev, Or.inr h1, h2⟩
    cases hf : seen.find? (·.1 == e.stream) with
    | some kv =>
      obtain ⟨k, v⟩ := kv
      simp only [hf] at h
      by_cases hacc : storeAccepts e.expected (.current v) = true
      · simp only [hacc, Bool.not_true, Bool.false_eq_true, if_false] at h
        exact key (some v) hacc h
      · simp [hacc] at h
    | none =>
      simp only [hf] at h
      cases hs : s.streamLatest e.stream with
      | some kv =>
        obtain ⟨k, v⟩ := kv
        simp only [hs] at h
        by_cases hk : k = pkey
        · subst hk
          simp only [bne_self_eq_false, Bool.false_eq_true, if_false] at h
          by_cases hacc : storeAccepts e.expected (.current v) = true
          · simp only [hacc, Bool.not_true, Bool.false_eq_true, if_false] at h
            exact key (some v) hacc h
          · simp [hacc] at h
        · simp [hk] at h
      | none =>
        simp only [hs] at h
        by_cases hacc : storeAccepts e.expected .empty = true
        · simp only [hacc, Bool.not_true, Bool.false_eq_true, if_false] at h
          exact key none hacc h
        · simp [hacc] at h

/-! ### what an accepted request commits -/

/-- `evs` is what the accepted request `tx` with reply `r` committed -/
structure Committed (tx : Tx) (r : AppendOk) (evs : List Ev) : Prop where
  ev_ok : ∀ e ∈ tx.events, ∃ ev ∈ evs, ev.stream = e.stream ∧ ev.eid = e.eid ∧
    (∀ v, e.expected = .exact v → ev.version = v + 1) ∧ (e.expected = .empty → ev.version = 0)
  seq_ok : ∃ ev ∈ evs, ev.pid = tx.pid ∧ (∀ s, tx.expectedSeq = .exact s → ev.seq = s + 1) ∧
    (tx.expectedSeq = .empty → ev.seq = 0)
  ver_ok : (∃ x, x ∈ r.versions) ∧
    ∀ st w, (st, w) ∈ r.versions → ∃ ev ∈ evs, ev.stream = st ∧ ev.version = w

theorem setVersion_eq_setAssoc (vs : List (Nat × Nat)) (s v : Nat) : setVersion vs s v = setAssoc vs s v := rfl

theorem setVersion_ne_nil (vs : List (Nat × Nat)) (s v : Nat) : setVersion vs s v ≠ [] := by
  unfold setVersion
  split
  · rename_i h
    obtain ⟨x, hx, _⟩ := List.any_eq_true.1 h
    intro hh
    rw [List.map_eq_nil_iff] at hh
    rw [hh] at hx; simp at hx
  · simp

theorem foldl_setVersion_ne_nil : ∀ (entries : List Entry) (acc : List (Nat × Nat)),
    (acc ≠ [] ∨ entries ≠ []) → entries.foldl (fun vs e => setVersion vs e.stream e.version) acc ≠ []
  | [], acc, h => by rcases h with h | h; exact h; exact absurd rfl h
  | e :: es, acc, _ => by
    rw [List.foldl_cons]
    exact foldl_setVersion_ne_nil es _ (Or.inl (setVersion_ne_nil _ _ _))

theorem mem_foldl_setVersion' : ∀ (entries : List Entry) (acc : List (Nat × Nat)) (x : Nat × Nat),
    x ∈ entries.foldl (fun vs e => setVersion vs e.stream e.version) acc →
      x ∈ acc ∨ ∃ en ∈ entries, en.stream = x.1 ∧ en.version = x.2
  | [], acc, x, h => Or.inl h
  | e :: es, acc, x, h => by
    rw [List.foldl_cons] at h
    rcases mem_foldl_setVersion' es _ x h with h | ⟨en, h1, h2⟩
    · rw [setVersion_eq_setAssoc] at h
      rcases mem_setAssoc h with h | rfl
      · exact Or.inl h
      · exact Or.inr ⟨e, by simp, rfl, rfl⟩
    · exact Or.inr ⟨en, by simp [h1], h2⟩

theorem mem_hydrate_ev {recs : List Placed} {en : Entry} (h : en ∈ hydrate recs) :
    ∃ ev ∈ evsOf recs, ev.stream = en.stream ∧ ev.version = en.version := by
  rw [hydrate_eq] at h
  obtain ⟨x, hx, rfl⟩ := List.mem_map.1 h
  exact ⟨x.1, List.mem_map.2 ⟨x, hx, rfl⟩, rfl, rfl⟩

theorem mkEvs_head_seq (pkey pid txId : Nat) (single : Bool) :
    ∀ (es : List NewEv) (vs : List Nat) (seq : Nat), es ≠ [] → vs.length = es.length →
      ∃ ev ∈ mkEvs pkey pid txId single es vs seq, ev.pid = pid ∧ ev.seq = seq
  | [], _, _, h, _ => absurd rfl h
  | e :: es, [], _, _, h => by simp at h
  | e :: es, v :: vs, seq, _, _ => ⟨mkEv pkey pid txId single e v seq, by simp [mkEvs], rfl, rfl⟩

/-- an accepted append commits exactly one new transaction, described by `Committed` -/
theorem appendTx_ok_abs {b : Bucket} (h : Inv b) {tx : Tx} (ht : TxOk b tx) {r : AppendOk}
    (hr : (b.appendTx tx).2 = .ok r) :
    ∃ evs, (b.appendTx tx).1.abs.txs = b.abs.txs ++ [evs] ∧ Committed tx r evs := by
  rcases appendTx_cases h ht with ⟨e, he⟩ | ⟨e, he⟩ | ⟨vs, hc, hlen, hacc, he⟩ <;> rw [he] at hr ⊢
  · cases hr
  · cases hr
  · injection hr with hr; subst hr
    have hi1 := inv_preRoll h tx
    have habs := abs_commitTx hi1 tx vs ht.1 hlen.symm
    refine ⟨evsOf ((b.preRoll tx).txBlock tx vs), by rw [habs, abs_preRoll], ?_⟩
    rw [evsOf_txBlock]
    refine ⟨checkEvents_assigned _ _ _ _ _ _ _ _ _ hc, ?_, ?_, ?_⟩
    · obtain ⟨ev, h1, h2, h3⟩ := mkEvs_head_seq tx.pkey tx.pid tx.txId tx.single tx.events vs
        ((b.preRoll tx).nextPartSeq tx.pid) ht.1 hlen
      refine ⟨ev, h1, h2, ?_, ?_⟩
      · intro s hs
        rw [hs] at hacc
        unfold seqCur at hacc
        by_cases hn : (b.preRoll tx).nextPartSeq tx.pid = 0
        · simp [hn, storeAccepts] at hacc
        · simp [hn, storeAccepts] at hacc
          rw [h3]; omega
      · intro hs
        rw [hs] at hacc
        unfold seqCur at hacc
        by_cases hn : (b.preRoll tx).nextPartSeq tx.pid = 0
        · rw [h3, hn]
        · simp [hn, storeAccepts] at hacc
    · apply List.exists_mem_of_ne_nil
      apply foldl_setVersion_ne_nil
      right
      intro hnil
      have := hydrate_eids ((b.preRoll tx).txPlaced tx vs)
      rw [hnil] at this
      unfold Bucket.txPlaced at this
      rw [evsOf_mkPlaced, mkEvs_eids _ _ _ _ _ _ _ hlen.symm] at this
      simp at this
      exact ht.1 this
    · intro st w hm
      rcases mem_foldl_setVersion' _ [] (st, w) hm with hm | ⟨en, h1, h2, h3⟩
      · simp at hm
      · obtain ⟨ev, h4, h5, h6⟩ := mem_hydrate_ev h1
        unfold Bucket.txPlaced at h4
        rw [evsOf_mkPlaced] at h4
        exact ⟨ev, h4, by rw [h5, h2], by rw [h6, h3]⟩

/-- a rejected append commits nothing -/
theorem appendTx_err_abs {b : Bucket} (h : Inv b) {tx : Tx} (ht : TxOk b tx) {e : Err}
    (hr : (b.appendTx tx).2 = .error e) : (b.appendTx tx).1.abs = b.abs := by
  rcases appendTx_cases h ht with ⟨e, he⟩ | ⟨e, he⟩ | ⟨vs, hc, hlen, hacc, he⟩
  · rw [he]
  · rw [he]; exact abs_preRoll b tx
  · rw [he] at hr; cases hr

end SierraModel.Store
