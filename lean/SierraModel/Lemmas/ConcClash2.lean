/-
Concurrency model (C16): no two accepted requests claim the same expectation, and no two accepted
requests get the same reply.
-/
import SierraModel.Lemmas.ConcClash

set_option linter.unusedSimpArgs false
set_option linter.unusedVariables false

namespace SierraModel.Store
open SierraModel.Version

/-- two processed requests do not both succeed with the same expectation on a stream or a
partition, and do not get the same reply -/
def NoClash (p q : Tx × Except Err AppendOk) : Prop :=
  ∀ r1 r2, p.2 = .ok r1 → q.2 = .ok r2 →
    (∀ e1 ∈ p.1.events, ∀ e2 ∈ q.1.events, e1.stream = e2.stream →
      (∀ v, ¬ (e1.expected = .exact v ∧ e2.expected = .exact v)) ∧
      ¬ (e1.expected = .empty ∧ e2.expected = .empty)) ∧
    (p.1.pid = q.1.pid →
      (∀ s, ¬ (p.1.expectedSeq = .exact s ∧ q.1.expectedSeq = .exact s)) ∧
      ¬ (p.1.expectedSeq = .empty ∧ q.1.expectedSeq = .empty)) ∧
    r1 ≠ r2

theorem noClash_of_committed {A evs1 evs2 : List Ev} (hv : VerOk (A ++ evs2)) (hq : SeqOk (A ++ evs2))
    (hsub : ∀ ev ∈ evs1, ev ∈ A) {tx1 tx2 : Tx} {r1 r2 : AppendOk} (c1 : Committed tx1 r1 evs1)
    (c2 : Committed tx2 r2 evs2) : NoClash (tx1, .ok r1) (tx2, .ok r2) := by
  intro r1' r2' h1 h2
  injection h1 with h1; injection h2 with h2; subst h1 h2
  refine ⟨?_, ?_, ?_⟩
  · intro e1 he1 e2 he2 hs
    obtain ⟨ev1, hm1, hs1, _, hx1, hy1⟩ := c1.ev_ok e1 he1
    obtain ⟨ev2, hm2, hs2, _, hx2, hy2⟩ := c2.ev_ok e2 he2
    have hlt := version_lt_of_later hv (hsub ev1 hm1) hm2 (by rw [hs1, hs2, hs])
    constructor
    · intro v ⟨ha, hb⟩
      rw [hx1 v ha, hx2 v hb] at hlt; omega
    · intro ⟨ha, hb⟩
      rw [hy1 ha, hy2 hb] at hlt; omega
  · intro hp
    obtain ⟨ev1, hm1, hs1, hx1, hy1⟩ := c1.seq_ok
    obtain ⟨ev2, hm2, hs2, hx2, hy2⟩ := c2.seq_ok
    have hlt := seq_lt_of_later hq (hsub ev1 hm1) hm2 (by rw [hs1, hs2]; exact hp)
    constructor
    · intro s ⟨ha, hb⟩
      rw [hx1 s ha, hx2 s hb] at hlt; omega
    · intro ⟨ha, hb⟩
      rw [hy1 ha, hy2 hb] at hlt; omega
  · intro heq
    subst heq
    obtain ⟨⟨st, w⟩, hm⟩ := c1.ver_ok.1
    obtain ⟨ev1, hm1, hs1, hw1⟩ := c1.ver_ok.2 st w hm
    obtain ⟨ev2, hm2, hs2, hw2⟩ := c2.ver_ok.2 st w hm
    have hlt := version_lt_of_later hv (hsub ev1 hm1) hm2 (by rw [hs1, hs2])
    omega

structure ClashInv (c : Conc) : Prop where
  committed : ∀ p ∈ c.processed, ∀ r, p.2 = .ok r → ∃ evs ∈ c.b.abs.txs, Committed p.1 r evs
  noClash : c.processed.Pairwise NoClash

theorem clashInv_init (b : Bucket) : ClashInv (Conc.init b) :=
  ⟨by simp [Conc.init], by simp [Conc.init]⟩

theorem clashInv_step {c : Conc} {o : Outbox} {a : Action} {c' : Conc} {o' : Outbox}
    (h : ConcInv c) (hk : ClashInv c) (hs : c.step o a = some (c', o')) : ClashInv c' := by
  have hrel := step_rel hs
  cases hrel with
  | process cl tx rest hq =>
    have ht := h.head_ok hq
    have hp : (c.afterProcess tx rest).processed = c.processed ++ [(tx, (c.b.appendTx tx).2)] := rfl
    have hb : (c.afterProcess tx rest).b = (c.b.appendTx tx).1 := rfl
    cases hres : (c.b.appendTx tx).2 with
    | error e =>
      have habs := appendTx_err_abs h.inv ht hres
      refine ⟨?_, ?_⟩
      · rw [hp, hb, habs, hres]
        intro p hp' r hr
        rcases List.mem_append.1 hp' with hp' | hp'
        · exact hk.committed p hp' r hr
        · simp only [List.mem_singleton] at hp'; subst hp'; cases hr
      · rw [hp, hres, List.pairwise_append]
        refine ⟨hk.noClash, by simp, ?_⟩
        intro p _ q hq'
        simp only [List.mem_singleton] at hq'; subst hq'
        intro r1 r2 _ h2; cases h2
    | ok r =>
      obtain ⟨evs, habs, hcom⟩ := appendTx_ok_abs h.inv ht hres
      have hi' := inv_appendTx h.inv ht
      have hev : (c.b.appendTx tx).1.abs.events = c.b.abs.events ++ evs := by
        unfold Spec.events; rw [habs]; simp
      refine ⟨?_, ?_⟩
      · rw [hp, hb, habs, hres]
        intro p hp' r' hr
        rcases List.mem_append.1 hp' with hp' | hp'
        · obtain ⟨evs1, h1, h2⟩ := hk.committed p hp' r' hr
          exact ⟨evs1, List.mem_append_left _ h1, h2⟩
        · simp only [List.mem_singleton] at hp'; subst hp'
          injection hr with hr; subst hr
          exact ⟨evs, by simp, hcom⟩
      · rw [hp, hres, List.pairwise_append]
        refine ⟨hk.noClash, by simp, ?_⟩
        intro p hp' q hq'
        simp only [List.mem_singleton] at hq'; subst hq'
        intro r1 r2 h1 h2
        obtain ⟨evs1, hm1, hc1⟩ := hk.committed p hp' r1 h1
        have hsub : ∀ ev ∈ evs1, ev ∈ c.b.abs.events :=
          fun ev hev' => List.mem_flatten.2 ⟨evs1, hm1, hev'⟩
        have hv := hi'.ver_ok
        have hq := hi'.seq_ok
        rw [hev] at hv hq
        obtain ⟨tx1, res1⟩ := p
        simp only [] at h1; subst h1
        exact noClash_of_committed hv hq hsub hc1 hcom r1 r2 rfl h2
  | flushPoll => exact ⟨hk.committed, hk.noClash⟩
  | send cl tx _ => exact ⟨hk.committed, hk.noClash⟩
  | recvReply cl x res seg tx0 _ _ => exact ⟨hk.committed, hk.noClash⟩
  | pollAck cl r seg _ _ => exact ⟨hk.committed, hk.noClash⟩
  | pollPending cl r seg _ _ => exact hk
  | liveHit rd eid en _ => exact ⟨hk.committed, hk.noClash⟩
  | liveMiss rd eid _ => exact ⟨hk.committed, hk.noClash⟩
  | pool rd eid _ => exact ⟨hk.committed, hk.noClash⟩

theorem clashInv_run (sched : List Action) (c : Conc) (o : Outbox) (hi : ConcInv c)
    (hk : ClashInv c) (hok : SchedOk c o sched) :
    ConcInv (c.run o sched).1 ∧ ClashInv (c.run o sched).1 :=
  run_induct (P := fun c _ => ClashInv c) (fun _ _ _ _ _ hi hk _ hs => clashInv_step hi hk hs)
    sched c o hi hk hok

theorem pairwise_mem_cases {α : Type} {R : α → α → Prop} : ∀ {l : List α}, l.Pairwise R →
    ∀ {x y : α}, x ∈ l → y ∈ l → x = y ∨ R x y ∨ R y x
  | [], _, _, _, hx, _ => by simp at hx
  | a :: l, h, x, y, hx, hy => by
    rw [List.pairwise_cons] at h
    rcases List.mem_cons.1 hx with hx1 | hx1 <;> rcases List.mem_cons.1 hy with hy1 | hy1
    · exact Or.inl (hx1.trans hy1.symm)
    · exact Or.inr (Or.inl (hx1 ▸ h.1 y hy1))
    · exact Or.inr (Or.inr (hy1 ▸ h.1 x hx1))
    · exact pairwise_mem_cases h.2 hx1 hy1

/-- an accepted reply identifies its request among the processed ones -/
theorem reply_unique {c : Conc} (hk : ClashInv c) {tx1 tx2 : Tx} {r : AppendOk}
    (h1 : (tx1, Except.ok r) ∈ c.processed) (h2 : (tx2, Except.ok r) ∈ c.processed) : tx1 = tx2 := by
  rcases pairwise_mem_cases hk.noClash h1 h2 with h | h | h
  · injection h
  · exact absurd rfl (h r r rfl rfl).2.2
  · exact absurd rfl (h r r rfl rfl).2.2

end SierraModel.Store
