/-
A concrete schedule for the non-vacuity examples of C15 / C16 / C20: segment size 300, events of
stored size 100; client 0 creates stream 7; clients 1 and 2 race `Exact 0` on it (one wins);
client 3's append rolls the segment over; reader 9's lookup of event 101 and reader 8's lookup of
event 100 straddle the rollover; client 1 polls only after the rollover (its segment is sealed);
client 3 needs one `flushPoll`.
-/
import SierraModel.Lemmas.ConcInv

namespace SierraModel.Store.Example
open SierraModel.Version

def ev (eid : Nat) (exp : Expected) : NewEv :=
  { eid := eid, stream := 7, expected := exp, tsOk := true, estimate := 100, stored := 100 }

def mkTx (txId eid : Nat) (exp : Expected) (expSeq : Expected := .any) : Tx :=
  { pkey := 1, pid := 5, txId := txId, expectedSeq := expSeq, events := [ev eid exp] }

def tx0 : Tx := mkTx 1000 100 .empty .empty
def tx1 : Tx := mkTx 1001 101 (.exact 0)
def tx2 : Tx := mkTx 1002 102 (.exact 0)
def tx3 : Tx := mkTx 1003 103 (.exact 1) (.exact 1)

def start : Conc := Conc.init (Bucket.new 300 false)

/-- up to the acknowledgement of client 0 -/
def phase1 : List Action :=
  [.send 0 tx0, .process, .recvReply 0, .pollWait 0, .flushPoll, .pollWait 0]

/-- the race of clients 1 and 2; client 3 queues the request that will roll the segment over;
readers 9 and 8 do the first step of their lookups -/
def phase2 : List Action :=
  [.send 1 tx1, .send 2 tx2, .process, .process, .recvReply 1, .recvReply 2, .send 3 tx3,
   .lookupLive 9 101, .lookupLive 8 100]

/-- the rollover, the second steps of the lookups, the late poll of client 1, client 3 -/
def phase3 : List Action :=
  [.process, .lookupPool 9, .lookupPool 8, .pollWait 1, .recvReply 3, .pollWait 3, .flushPoll,
   .pollWait 3]

def sched : List Action := phase1 ++ phase2 ++ phase3

def isOk : Except Err AppendOk → Bool
  | .ok _ => true
  | .error _ => false

def errOf : Except Err AppendOk → Option Err
  | .ok _ => none
  | .error e => some e

def isAcked : Option ClientState → Bool
  | some (.acked _) => true
  | _ => false

def isWaiting : Option ClientState → Bool
  | some (.replied (.ok _) _) => true
  | _ => false

def isFailed : Option ClientState → Bool
  | some (.failed _) => true
  | _ => false

def foundBy : Option ReaderState → Nat → Bool
  | some (.done eid true), e => eid == e
  | _, _ => false

def missedBy : Option ReaderState → Nat → Bool
  | some (.missedLive eid), e => eid == e
  | _, _ => false

end SierraModel.Store.Example
