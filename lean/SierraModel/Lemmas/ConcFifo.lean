/-
Concurrency model (C16): the processed requests with their results are the serial execution of the
sent requests in send order (FIFO queue, one writer).
-/
import SierraModel.Lemmas.ConcSerial

set_option linter.unusedSimpArgs false
set_option linter.unusedVariables false

namespace SierraModel.Store
open SierraModel.Version

/-! ### serial execution without syncs -/

def Bucket.serialRun (b : Bucket) : List Tx → Bucket
  | [] => b
  | tx :: txs => (b.appendTx tx).1.serialRun txs

def Bucket.serialResults (b : Bucket) : List Tx → List (Except Err AppendOk)
  | [] => []
  | tx :: txs => (b.appendTx tx).2 :: (b.appendTx tx).1.serialResults txs

theorem serialRun_snoc : ∀ (txs : List Tx) (b : Bucket) (tx : Tx),
    b.serialRun (txs ++ [tx]) = ((b.serialRun txs).appendTx tx).1
  | [], _, _ => rfl
  | t :: txs, b, tx => by simp only [List.cons_append, Bucket.serialRun]; exact serialRun_snoc txs _ tx

theorem serialResults_snoc : ∀ (txs : List Tx) (b : Bucket) (tx : Tx),
    b.serialResults (txs ++ [tx]) = b.serialResults txs ++ [((b.serialRun txs).appendTx tx).2]
  | [], _, _ => rfl
  | t :: txs, b, tx => by
    simp only [List.cons_append, Bucket.serialResults, Bucket.serialRun]
    rw [serialResults_snoc txs _ tx]

/-- the processed requests are the sync-free serial execution from `b0` -/
structure SerialInv (b0 : Bucket) (c : Conc) : Prop where
  results : c.processed.map (·.2) = b0.serialResults (c.processed.map (·.1))
  state : c.b.sync = (b0.serialRun (c.processed.map (·.1))).sync
  inv : Inv (b0.serialRun (c.processed.map (·.1)))

theorem txOk_of_sync_eq {b b' : Bucket} (h : b.sync = b'.sync) {tx : Tx} (ht : TxOk b tx) : TxOk b' tx := by
  have : b.allRecs = b'.allRecs := by
    rw [← allRecs_sync b, ← allRecs_sync b', h]
  unfold TxOk Bucket.eids Bucket.txIds at *
  rw [← this]; exact ht

theorem serialInv_step {b0 : Bucket} {c : Conc} {o : Outbox} {a : Action} {c' : Conc} {o' : Outbox}
    (h : ConcInv c) (hsi : SerialInv b0 c) (hs : c.step o a = some (c', o')) : SerialInv b0 c' := by
  have hrel := step_rel hs
  cases hrel with
  | process cl tx rest hq =>
    have ht := h.head_ok hq
    have ht' := txOk_of_sync_eq hsi.state ht
    have h1 := appendTx_sync h.inv tx
    have h2 := appendTx_sync hsi.inv tx
    rw [hsi.state] at h1
    have hp : (c.afterProcess tx rest).processed = c.processed ++ [(tx, (c.b.appendTx tx).2)] := rfl
    have hb : (c.afterProcess tx rest).b = (c.b.appendTx tx).1 := rfl
    refine ⟨?_, ?_, ?_⟩
    · rw [hp, List.map_append, List.map_append, hsi.results]
      simp only [List.map_cons, List.map_nil]
      rw [serialResults_snoc, ← h1.1, h2.1]
    · rw [hp, hb, List.map_append]
      simp only [List.map_cons, List.map_nil]
      rw [serialRun_snoc, ← h1.2, h2.2]
    · rw [hp, List.map_append]
      simp only [List.map_cons, List.map_nil]
      rw [serialRun_snoc]
      exact inv_appendTx hsi.inv ht'
  | flushPoll => exact ⟨hsi.results, by show c.b.sync.sync = _; rw [sync_sync]; exact hsi.state, hsi.inv⟩
  | send cl tx _ => exact ⟨hsi.results, hsi.state, hsi.inv⟩
  | recvReply cl x res seg tx0 _ _ => exact ⟨hsi.results, hsi.state, hsi.inv⟩
  | pollAck cl r seg _ _ => exact ⟨hsi.results, hsi.state, hsi.inv⟩
  | pollPending cl r seg _ _ => exact hsi
  | liveHit rd eid en _ => exact ⟨hsi.results, hsi.state, hsi.inv⟩
  | liveMiss rd eid _ => exact ⟨hsi.results, hsi.state, hsi.inv⟩
  | pool rd eid _ => exact ⟨hsi.results, hsi.state, hsi.inv⟩

theorem serialInv_run (b0 : Bucket) (sched : List Action) (c : Conc) (o : Outbox) (hi : ConcInv c)
    (hsi : SerialInv b0 c) (hok : SchedOk c o sched) :
    ConcInv (c.run o sched).1 ∧ SerialInv b0 (c.run o sched).1 :=
  run_induct (P := fun c _ => SerialInv b0 c) (fun _ _ _ _ _ hi hsi _ hs => serialInv_step hi hsi hs)
    sched c o hi hsi hok

theorem serialInv_init (segSize : Nat) (comp : Bool) :
    SerialInv (Bucket.new segSize comp) (Conc.init (Bucket.new segSize comp)) :=
  ⟨rfl, rfl, inv_new segSize comp⟩

/-! ### the writer's operations of a schedule (appends and syncs, interleaved) -/

/-- the writer operation an action performs, if any -/
def Conc.writerOp (c : Conc) : Action → List RawOp
  | .process => match c.queue with | (_, tx) :: _ => [.appendTx tx] | [] => []
  | .flushPoll => [.sync]
  | _ => []

/-- the writer's operations of a schedule, in order -/
def Conc.writerOps : Conc → Outbox → List Action → List RawOp
  | _, _, [] => []
  | c, o, a :: as => c.writerOp a ++ Conc.writerOps (c.next o a).1 (c.next o a).2 as

/-- requests and results of a raw history -/
def Bucket.rawResults (b : Bucket) : List RawOp → List (Tx × Except Err AppendOk)
  | [] => []
  | .appendTx tx :: ops => (tx, (b.appendTx tx).2) :: (b.appendTx tx).1.rawResults ops
  | .sync :: ops => b.sync.rawResults ops

/-- the request an action sends, if it is an enabled `send` -/
def Conc.sentOf (c : Conc) (o : Outbox) (a : Action) : List Tx :=
  match a with | .send _ tx => if (c.step o a).isSome then [tx] else [] | _ => []

/-- the requests of the enabled `send`s of a schedule, in order -/
def Conc.sentTxs : Conc → Outbox → List Action → List Tx
  | _, _, [] => []
  | c, o, a :: as => c.sentOf o a ++ Conc.sentTxs (c.next o a).1 (c.next o a).2 as

/-- one step: bucket, processed list and queue in terms of the writer operation / the send -/
theorem next_writer (c : Conc) (o : Outbox) (a : Action) :
    (c.next o a).1.b = c.b.rawRun (c.writerOp a) ∧
    (c.next o a).1.processed = c.processed ++ c.b.rawResults (c.writerOp a) ∧
    (c.next o a).1.processed.map (·.1) ++ (c.next o a).1.queue.map (·.2) =
      c.processed.map (·.1) ++ c.queue.map (·.2) ++ c.sentOf o a := by
  unfold Conc.sentOf
  rcases next_cases c o a with ⟨hnone, hn⟩ | ⟨c', o', hs, hn⟩
  · rw [hn]
    cases a with
    | process =>
      have hq : c.queue = [] := by
        cases hq : c.queue with
        | nil => rfl
        | cons x xs => simp [Conc.step, hq] at hnone
      simp [Conc.writerOp, hq, Bucket.rawRun, Bucket.rawResults]
    | flushPoll => simp [Conc.step] at hnone
    | send cl tx => simp [Conc.writerOp, Bucket.rawRun, Bucket.rawResults, hnone]
    | recvReply cl => simp [Conc.writerOp, Bucket.rawRun, Bucket.rawResults]
    | pollWait cl => simp [Conc.writerOp, Bucket.rawRun, Bucket.rawResults]
    | lookupLive rd eid => simp [Conc.writerOp, Bucket.rawRun, Bucket.rawResults]
    | lookupPool rd => simp [Conc.writerOp, Bucket.rawRun, Bucket.rawResults]
  · rw [hn]
    have hrel := step_rel hs
    cases hrel with
    | process cl tx rest hq =>
      simp [Conc.writerOp, hq, Bucket.rawRun, Bucket.rawStep, Bucket.rawResults, Conc.afterProcess]
    | flushPoll => simp [Conc.writerOp, Bucket.rawRun, Bucket.rawStep, Bucket.rawResults]
    | send cl tx _ => simp [Conc.writerOp, Bucket.rawRun, Bucket.rawResults, hs]
    | recvReply cl x res seg tx0 _ _ => simp [Conc.writerOp, Bucket.rawRun, Bucket.rawResults]
    | pollAck cl r seg _ _ => simp [Conc.writerOp, Bucket.rawRun, Bucket.rawResults]
    | pollPending cl r seg _ _ => simp [Conc.writerOp, Bucket.rawRun, Bucket.rawResults]
    | liveHit rd eid en _ => simp [Conc.writerOp, Bucket.rawRun, Bucket.rawResults]
    | liveMiss rd eid _ => simp [Conc.writerOp, Bucket.rawRun, Bucket.rawResults]
    | pool rd eid _ => simp [Conc.writerOp, Bucket.rawRun, Bucket.rawResults]

theorem rawRun_append (b : Bucket) : ∀ (ops ops' : List RawOp), b.rawRun (ops ++ ops') = (b.rawRun ops).rawRun ops'
  | [], _ => rfl
  | op :: ops, ops' => by simp only [List.cons_append, Bucket.rawRun]; exact rawRun_append _ ops ops'

theorem rawResults_append : ∀ (ops ops' : List RawOp) (b : Bucket),
    b.rawResults (ops ++ ops') = b.rawResults ops ++ (b.rawRun ops).rawResults ops'
  | [], _, _ => rfl
  | .appendTx tx :: ops, ops', b => by
    simp only [List.cons_append, Bucket.rawResults, Bucket.rawRun, Bucket.rawStep]
    rw [rawResults_append ops ops']
  | .sync :: ops, ops', b => by
    simp only [List.cons_append, Bucket.rawResults, Bucket.rawRun, Bucket.rawStep]
    rw [rawResults_append ops ops']

/-- the final bucket, the processed list and the queue of a schedule -/
theorem run_writer : ∀ (sched : List Action) (c : Conc) (o : Outbox),
    (c.run o sched).1.b = c.b.rawRun (c.writerOps o sched) ∧
    (c.run o sched).1.processed = c.processed ++ c.b.rawResults (c.writerOps o sched) ∧
    (c.run o sched).1.processed.map (·.1) ++ (c.run o sched).1.queue.map (·.2) =
      c.processed.map (·.1) ++ c.queue.map (·.2) ++ c.sentTxs o sched
  | [], c, o => by simp [Conc.run_nil, Conc.writerOps, Conc.sentTxs, Bucket.rawRun, Bucket.rawResults]
  | a :: as, c, o => by
    obtain ⟨h1, h2, h3⟩ := next_writer c o a
    obtain ⟨i1, i2, i3⟩ := run_writer as (c.next o a).1 (c.next o a).2
    rw [Conc.run_cons]
    refine ⟨?_, ?_, ?_⟩
    · rw [i1, h1, Conc.writerOps, rawRun_append]
    · rw [i2, h2, h1, Conc.writerOps, rawResults_append, List.append_assoc]
    · have e : c.sentTxs o (a :: as) = c.sentOf o a ++ (c.next o a).1.sentTxs (c.next o a).2 as := rfl
      rw [i3, h3, e, List.append_assoc]

theorem rawRunOk_append : ∀ (ops ops' : List RawOp) (b : Bucket),
    RawRunOk b (ops ++ ops') ↔ RawRunOk b ops ∧ RawRunOk (b.rawRun ops) ops'
  | [], _, _ => by simp [RawRunOk, Bucket.rawRun]
  | op :: ops, ops', b => by
    simp only [List.cons_append, RawRunOk, Bucket.rawRun, rawRunOk_append ops ops', and_assoc]

theorem concInv_next {c : Conc} {o : Outbox} {a : Action} (hi : ConcInv c) (ha : ActOk c o a) :
    ConcInv (c.next o a).1 := by
  rcases next_cases c o a with ⟨_, hn⟩ | ⟨c', o', hs, hn⟩
  · rw [hn]; exact hi
  · rw [hn]; exact concInv_step hi ha hs

theorem writerOp_ok {c : Conc} (hi : ConcInv c) (a : Action) : RawRunOk c.b (c.writerOp a) := by
  cases a with
  | process =>
    unfold Conc.writerOp
    cases hq : c.queue with
    | nil => exact trivial
    | cons x xs =>
      obtain ⟨cl, tx⟩ := x
      exact ⟨hi.head_ok hq, trivial⟩
  | flushPoll => exact ⟨trivial, trivial⟩
  | send cl tx => exact trivial
  | recvReply cl => exact trivial
  | pollWait cl => exact trivial
  | lookupLive rd eid => exact trivial
  | lookupPool rd => exact trivial

/-- the writer's operations of a valid schedule form a valid raw history -/
theorem writerOps_ok : ∀ (sched : List Action) (c : Conc) (o : Outbox), ConcInv c → SchedOk c o sched →
    RawRunOk c.b (c.writerOps o sched)
  | [], _, _, _, _ => trivial
  | a :: as, c, o, hi, ⟨ha, hr⟩ => by
    have e : c.writerOps o (a :: as) = c.writerOp a ++ (c.next o a).1.writerOps (c.next o a).2 as := rfl
    rw [e, rawRunOk_append, ← (next_writer c o a).1]
    exact ⟨writerOp_ok hi a, writerOps_ok as _ _ (concInv_next hi ha) hr⟩

end SierraModel.Store
