/-
Concurrency model: the core reachability invariant `ConcInv` (bucket invariant + validity of the
queued requests) and induction over schedules.
-/
import SierraModel.Lemmas.ConcStep

set_option linter.unusedSimpArgs false
set_option linter.unusedVariables false

namespace SierraModel.Store
open SierraModel.Version

structure ConcInv (c : Conc) : Prop where
  inv : Inv c.b
  q_ok : ∀ q ∈ c.queue, TxOk c.b q.2
  q_disj : c.queue.Pairwise (fun q q' => Tx.Disj q.2 q'.2)

theorem concInv_init (segSize : Nat) (comp : Bool) : ConcInv (Conc.init (Bucket.new segSize comp)) :=
  ⟨inv_new segSize comp, by simp [Conc.init], by simp [Conc.init]⟩

theorem actOk_send {c : Conc} {o : Outbox} {cl : Nat} {tx : Tx} {x : Conc × Outbox}
    (hok : ActOk c o (.send cl tx)) (hs : c.step o (.send cl tx) = some x) : SendOk c tx :=
  hok (by rw [hs]; rfl)

/-- the head of the queue is a valid request for the current bucket -/
theorem ConcInv.head_ok {c : Conc} (h : ConcInv c) {cl : Nat} {tx : Tx} {rest : List (Nat × Tx)}
    (hq : c.queue = (cl, tx) :: rest) : TxOk c.b tx :=
  h.q_ok (cl, tx) (by rw [hq]; simp)

theorem concInv_step {c : Conc} {o : Outbox} {a : Action} {c' : Conc} {o' : Outbox}
    (h : ConcInv c) (hok : ActOk c o a) (hs : c.step o a = some (c', o')) : ConcInv c' := by
  have hrel := step_rel hs
  cases hrel with
  | send cl tx hen =>
    obtain ⟨h1, h2⟩ := actOk_send hok hs
    refine ⟨h.inv, ?_, ?_⟩
    · intro q hq
      rcases List.mem_append.1 hq with hq | hq
      · exact h.q_ok q hq
      · simp only [List.mem_singleton] at hq; subst hq; exact h1
    · show List.Pairwise _ (c.queue ++ [(cl, tx)])
      rw [List.pairwise_append]
      refine ⟨h.q_disj, by simp, ?_⟩
      intro q hq q' hq'
      simp only [List.mem_singleton] at hq'; subst hq'
      exact h2 q hq
  | process cl tx rest hq =>
    have ht := h.head_ok hq
    have hd := h.q_disj
    rw [hq, List.pairwise_cons] at hd
    refine ⟨inv_appendTx h.inv ht, ?_, hd.2⟩
    intro q hq'
    have hq' : q ∈ rest := hq'
    exact txOk_appendTx h.inv ht (h.q_ok q (by rw [hq]; simp [hq'])) (hd.1 q hq')
  | flushPoll => exact ⟨inv_sync h.inv, h.q_ok, h.q_disj⟩
  | recvReply cl x res seg tx0 _ _ => exact ⟨h.inv, h.q_ok, h.q_disj⟩
  | pollAck cl r seg _ _ => exact ⟨h.inv, h.q_ok, h.q_disj⟩
  | pollPending cl r seg _ _ => exact h
  | liveHit rd eid en _ => exact ⟨h.inv, h.q_ok, h.q_disj⟩
  | liveMiss rd eid _ => exact ⟨h.inv, h.q_ok, h.q_disj⟩
  | pool rd eid _ => exact ⟨h.inv, h.q_ok, h.q_disj⟩

theorem next_cases (c : Conc) (o : Outbox) (a : Action) :
    (c.step o a = none ∧ c.next o a = (c, o)) ∨
    (∃ c' o', c.step o a = some (c', o') ∧ c.next o a = (c', o')) := by
  unfold Conc.next
  cases h : c.step o a with
  | none => exact Or.inl ⟨rfl, rfl⟩
  | some x => exact Or.inr ⟨x.1, x.2, rfl, rfl⟩

/-- induction over schedules: a property preserved by every enabled valid step from a state
satisfying `ConcInv` holds after every valid schedule -/
theorem run_induct {P : Conc → Outbox → Prop}
    (hstep : ∀ c o a c' o', ConcInv c → P c o → ActOk c o a → c.step o a = some (c', o') → P c' o') :
    ∀ (sched : List Action) (c : Conc) (o : Outbox), ConcInv c → P c o → SchedOk c o sched →
      ConcInv (c.run o sched).1 ∧ P (c.run o sched).1 (c.run o sched).2
  | [], c, o, hi, hp, _ => ⟨hi, hp⟩
  | a :: as, c, o, hi, hp, ⟨ha, hr⟩ => by
    rw [Conc.run_cons]
    rcases next_cases c o a with ⟨_, hn⟩ | ⟨c', o', hs, hn⟩
    · rw [hn] at hr ⊢; exact run_induct hstep as c o hi hp hr
    · rw [hn] at hr ⊢
      exact run_induct hstep as c' o' (concInv_step hi ha hs) (hstep c o a c' o' hi hp ha hs) hr

theorem concInv_run (sched : List Action) (c : Conc) (o : Outbox) (hi : ConcInv c)
    (hok : SchedOk c o sched) : ConcInv (c.run o sched).1 :=
  (run_induct (P := fun _ _ => True) (fun _ _ _ _ _ _ _ _ _ => trivial) sched c o hi trivial hok).1

end SierraModel.Store
