/-
Concurrency model (C15): the published index entries (sealed indexes + published live index) are
append-only along every step.
-/
import SierraModel.Lemmas.ConcWatch

set_option linter.unusedSimpArgs false
set_option linter.unusedVariables false

namespace SierraModel.Store
open SierraModel.Version

/-- the published index entries a reader can see: sealed indexes (oldest first), then the
published live index -/
def Bucket.pubIdx (b : Bucket) : List Entry := (b.sealed.map (·.index)).flatten ++ b.live.index

/-- the two-step reader lookup finds `eid` somewhere -/
def Bucket.published (b : Bucket) (eid : Nat) : Bool :=
  b.live.index.any (·.eid == eid) || b.inSealed eid

theorem inSealed_iff (b : Bucket) (eid : Nat) :
    b.inSealed eid = true ↔ ∃ en ∈ (b.sealed.map (·.index)).flatten, en.eid = eid := by
  unfold Bucket.inSealed
  simp only [List.any_eq_true, beq_iff_eq, List.mem_flatten, List.mem_map]
  constructor
  · rintro ⟨s, hs, en, hen, he⟩; exact ⟨en, ⟨s.index, ⟨s, hs, rfl⟩, hen⟩, he⟩
  · rintro ⟨en, ⟨l, ⟨s, hs, rfl⟩, hen⟩, he⟩; exact ⟨s, hs, en, hen, he⟩

theorem published_iff (b : Bucket) (eid : Nat) :
    b.published eid = true ↔ ∃ en ∈ b.pubIdx, en.eid = eid := by
  unfold Bucket.published Bucket.pubIdx
  rw [Bool.or_eq_true, inSealed_iff]
  simp only [List.any_eq_true, beq_iff_eq, List.mem_append]
  constructor
  · rintro (⟨en, h1, h2⟩ | ⟨en, h1, h2⟩)
    · exact ⟨en, Or.inr h1, h2⟩
    · exact ⟨en, Or.inl h1, h2⟩
  · rintro ⟨en, h1 | h1, h2⟩
    · exact Or.inr ⟨en, h1, h2⟩
    · exact Or.inl ⟨en, h1, h2⟩

theorem pubIdx_sync (b : Bucket) : b.sync.pubIdx = b.pubIdx ++ b.live.pending := by
  simp [Bucket.pubIdx, Bucket.sync]

/-- `appendTx` only appends to the published entries (a rollover publishes the pending entries and
moves the live index to the sealed indexes), and only appends sealed segments -/
theorem appendTx_pub {b : Bucket} (h : Inv b) {tx : Tx} (ht : TxOk b tx) :
    (∃ ext, (b.appendTx tx).1.pubIdx = b.pubIdx ++ ext) ∧
    (∃ ext, (b.appendTx tx).1.sealed = b.sealed ++ ext) := by
  rcases appendTx_live_cases h ht with ⟨_, _, _, h4, h5, _⟩ | ⟨_, h2, h3, _⟩
  · exact ⟨⟨[], by simp [Bucket.pubIdx, h4, h5]⟩, ⟨[], by simp [h4]⟩⟩
  · exact ⟨⟨b.live.pending, by simp [Bucket.pubIdx, h2, h3]⟩, ⟨_, h2⟩⟩

/-- one step only appends to the published entries and to the sealed segments -/
theorem step_pub {c : Conc} {o : Outbox} {a : Action} {c' : Conc} {o' : Outbox}
    (h : ConcInv c) (hs : c.step o a = some (c', o')) :
    (∃ ext, c'.b.pubIdx = c.b.pubIdx ++ ext) ∧ (∃ ext, c'.b.sealed = c.b.sealed ++ ext) := by
  have triv : (∃ ext, c.b.pubIdx = c.b.pubIdx ++ ext) ∧ (∃ ext, c.b.sealed = c.b.sealed ++ ext) :=
    ⟨⟨[], by simp⟩, ⟨[], by simp⟩⟩
  have hrel := step_rel hs
  cases hrel with
  | process cl tx rest hq => exact appendTx_pub h.inv (h.head_ok hq)
  | flushPoll => exact ⟨⟨_, pubIdx_sync c.b⟩, ⟨[], by simp [Bucket.sync]⟩⟩
  | send cl tx _ => exact triv
  | recvReply cl x res seg tx0 _ _ => exact triv
  | pollAck cl r seg _ _ => exact triv
  | pollPending cl r seg _ _ => exact triv
  | liveHit rd eid en _ => exact triv
  | liveMiss rd eid _ => exact triv
  | pool rd eid _ => exact triv

/-- along a schedule the published entries and the sealed segments are only appended to -/
theorem run_pub : ∀ (sched : List Action) (c : Conc) (o : Outbox), ConcInv c → SchedOk c o sched →
    (∃ ext, (c.run o sched).1.b.pubIdx = c.b.pubIdx ++ ext) ∧
    (∃ ext, (c.run o sched).1.b.sealed = c.b.sealed ++ ext)
  | [], c, o, _, _ => ⟨⟨[], by simp [Conc.run_nil]⟩, ⟨[], by simp [Conc.run_nil]⟩⟩
  | a :: as, c, o, hi, ⟨ha, hr⟩ => by
    rw [Conc.run_cons]
    rcases next_cases c o a with ⟨_, hn⟩ | ⟨c', o', hs, hn⟩
    · rw [hn] at hr ⊢; exact run_pub as c o hi hr
    · rw [hn] at hr ⊢
      obtain ⟨⟨e1, h1⟩, ⟨e2, h2⟩⟩ := step_pub hi hs
      obtain ⟨⟨e3, h3⟩, ⟨e4, h4⟩⟩ := run_pub as c' o' (concInv_step hi ha hs) hr
      exact ⟨⟨e1 ++ e3, by rw [h3, h1, List.append_assoc]⟩, ⟨e2 ++ e4, by rw [h4, h2, List.append_assoc]⟩⟩

theorem published_mono {b b' : Bucket} (h : ∃ ext, b'.pubIdx = b.pubIdx ++ ext) {eid : Nat}
    (hp : b.published eid = true) : b'.published eid = true := by
  obtain ⟨ext, he⟩ := h
  rw [published_iff] at hp ⊢
  obtain ⟨en, h1, h2⟩ := hp
  exact ⟨en, by rw [he]; exact List.mem_append_left _ h1, h2⟩

theorem inSealed_mono {b b' : Bucket} (h : ∃ ext, b'.sealed = b.sealed ++ ext) {eid : Nat}
    (hp : b.inSealed eid = true) : b'.inSealed eid = true := by
  obtain ⟨ext, he⟩ := h
  unfold Bucket.inSealed at hp ⊢
  rw [he, List.any_append, hp]; rfl

end SierraModel.Store
