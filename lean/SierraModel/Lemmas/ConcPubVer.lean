/-
Concurrency model (C15): stream versions and partition sequences read through the published
indexes never decrease when the published entries are appended to.
-/
import SierraModel.Lemmas.ConcPub

set_option linter.unusedSimpArgs false
set_option linter.unusedVariables false

namespace SierraModel.Store
open SierraModel.Version

/-- latest sequence of a partition in an event list (oldest first) -/
def seqOf (evs : List Ev) (pid : Nat) : Option Nat := (evs.reverse.find? (·.pid == pid)).map (·.seq)

theorem nextSeqOf_seqOf (evs : List Ev) (pid : Nat) :
    nextSeqOf evs pid = match seqOf evs pid with | some s => s + 1 | none => 0 := by
  unfold nextSeqOf seqOf
  cases evs.reverse.find? (·.pid == pid) <;> rfl

theorem conc_verOkR_suffix : ∀ (l1 l2 : List Ev), VerOkR (l1 ++ l2) → VerOkR l2
  | [], _, h => h
  | _ :: l1, l2, h => conc_verOkR_suffix l1 l2 h.1

theorem conc_seqOkR_suffix : ∀ (l1 l2 : List Ev), SeqOkR (l1 ++ l2) → SeqOkR l2
  | [], _, h => h
  | _ :: l1, l2, h => conc_seqOkR_suffix l1 l2 h.1

theorem conc_verOk_prefix {a b : List Ev} (h : VerOk (a ++ b)) : VerOk a := by
  unfold VerOk at h ⊢; rw [List.reverse_append] at h; exact conc_verOkR_suffix _ _ h

theorem conc_seqOk_prefix {a b : List Ev} (h : SeqOk (a ++ b)) : SeqOk a := by
  unfold SeqOk at h ⊢; rw [List.reverse_append] at h; exact conc_seqOkR_suffix _ _ h

/-- versions never decrease when events are appended (newest-first induction) -/
theorem latestOf_mono_aux {st k v : Nat} (ar : List Ev) (h0 : latestOf ar.reverse st = some (k, v)) :
    ∀ (l1 : List Ev), VerOkR (l1 ++ ar) →
      ∃ v', latestOf (l1 ++ ar).reverse st = some (k, v') ∧ v ≤ v'
  | [], _ => ⟨v, h0, Nat.le_refl _⟩
  | e :: l1, h => by
    obtain ⟨v1, h1, hle⟩ := latestOf_mono_aux ar h0 l1 h.1
    have h2 := h.2
    rw [List.cons_append, List.reverse_cons, latestOf_snoc]
    by_cases hs : e.stream = st
    · rw [if_pos hs]
      have h1' : latestOf (l1.append ar).reverse st = some (k, v1) := h1
      rw [hs, h1'] at h2
      simp only [] at h2
      exact ⟨v1 + 1, by rw [h2.1, h2.2], by omega⟩
    · rw [if_neg hs]; exact ⟨v1, h1, hle⟩

theorem latestOf_mono {a b : List Ev} (h : VerOk (a ++ b)) {st k v : Nat}
    (h0 : latestOf a st = some (k, v)) : ∃ v', latestOf (a ++ b) st = some (k, v') ∧ v ≤ v' := by
  have := latestOf_mono_aux (st := st) (k := k) (v := v) a.reverse (by simpa using h0) b.reverse
    (by unfold VerOk at h; simpa using h)
  simpa using this

theorem seqOf_snoc (evs : List Ev) (e : Ev) (pid : Nat) :
    seqOf (evs ++ [e]) pid = if e.pid = pid then some e.seq else seqOf evs pid := by
  simp only [seqOf, List.reverse_append, List.reverse_cons, List.reverse_nil, List.nil_append,
    List.singleton_append, List.find?_cons]
  by_cases h : e.pid = pid
  · simp [h]
  · have hb : (e.pid == pid) = false := by simpa using h
    simp [h, hb]

theorem seqOf_mono_aux {pid s : Nat} (ar : List Ev) (h0 : seqOf ar.reverse pid = some s) :
    ∀ (l1 : List Ev), SeqOkR (l1 ++ ar) → ∃ s', seqOf (l1 ++ ar).reverse pid = some s' ∧ s ≤ s'
  | [], _ => ⟨s, h0, Nat.le_refl _⟩
  | e :: l1, h => by
    obtain ⟨s1, h1, hle⟩ := seqOf_mono_aux ar h0 l1 h.1
    have h2 := h.2
    rw [List.cons_append, List.reverse_cons, seqOf_snoc]
    by_cases hs : e.pid = pid
    · rw [if_pos hs]
      have h1' : seqOf (l1.append ar).reverse pid = some s1 := h1
      rw [hs, nextSeqOf_seqOf, h1'] at h2
      simp only [] at h2
      exact ⟨s1 + 1, by rw [h2], by omega⟩
    · rw [if_neg hs]; exact ⟨s1, h1, hle⟩

theorem seqOf_mono {a b : List Ev} (h : SeqOk (a ++ b)) {pid s : Nat}
    (h0 : seqOf a pid = some s) : ∃ s', seqOf (a ++ b) pid = some s' ∧ s ≤ s' := by
  have := seqOf_mono_aux (pid := pid) (s := s) a.reverse (by simpa using h0) b.reverse
    (by unfold SeqOk at h; simpa using h)
  simpa using this

/-! ### the reader-side queries read the published entries -/

theorem pubIdx_find (b : Bucket) (p : Entry → Bool) :
    b.pubIdx.reverse.find? p = (b.live.index.reverse.find? p).or
      (b.sealed.reverse.findSome? (fun s => s.index.reverse.find? p)) := by
  unfold Bucket.pubIdx
  rw [List.reverse_append, List.find?_append, find_rev_flatten, ← List.map_reverse, List.findSome?_map]
  rfl

theorem streamVersion_pubIdx (b : Bucket) (st : Nat) :
    b.streamVersion st = (b.pubIdx.reverse.find? (·.stream == st)).map (fun e => (e.pkey, e.version)) := by
  rw [pubIdx_find]
  unfold Bucket.streamVersion lastOf
  cases b.live.index.reverse.find? (·.stream == st) <;> simp

theorem partitionSequence_pubIdx (b : Bucket) (pid : Nat) :
    b.partitionSequence pid = (b.pubIdx.reverse.find? (·.pid == pid)).map (·.seq) := by
  rw [pubIdx_find]
  unfold Bucket.partitionSequence lastOf
  cases b.live.index.reverse.find? (·.pid == pid) <;> simp

theorem hydrate_split {recs : List Placed} {a b : List Entry} (h : hydrate recs = a ++ b) :
    ∃ r1 r2, recs = r1 ++ r2 ∧ hydrate r1 = a ∧ hydrate r2 = b := by
  unfold hydrate at h ⊢
  exact List.filterMap_eq_append_iff.1 h

/-- the published entries are the index entries of a prefix of the records -/
theorem Inv.pubIdx_split {b : Bucket} (h : Inv b) :
    ∃ r1 r2, b.allRecs = r1 ++ r2 ∧ hydrate r1 = b.pubIdx := by
  have e : hydrate b.allRecs = b.pubIdx ++ b.live.pending := by
    rw [← h.allIdx_eq]; unfold Bucket.allIdx Bucket.pubIdx; rw [List.append_assoc]
  obtain ⟨r1, r2, h1, h2, _⟩ := hydrate_split e
  exact ⟨r1, r2, h1, h2⟩

/-- an earlier published prefix and the later published entries as event lists -/
theorem pub_events {b b' : Bucket} (hi' : Inv b') (hext : ∃ ext, b'.pubIdx = b.pubIdx ++ ext) :
    ∃ ra rb, hydrate ra = b.pubIdx ∧ hydrate (ra ++ rb) = b'.pubIdx ∧
      VerOk (evsOf ra ++ evsOf rb) ∧ SeqOk (evsOf ra ++ evsOf rb) := by
  obtain ⟨ext, he⟩ := hext
  obtain ⟨r1, r2, h1, h2⟩ := hi'.pubIdx_split
  rw [he] at h2
  obtain ⟨ra, rb, h3, h4, h5⟩ := hydrate_split h2
  refine ⟨ra, rb, h4, by rw [he, hydrate_append, h4, h5], ?_, ?_⟩
  · have := hi'.ver_ok
    rw [hi'.abs_events, h1, h3, evsOf_append, evsOf_append] at this
    exact conc_verOk_prefix this
  · have := hi'.seq_ok
    rw [hi'.abs_events, h1, h3, evsOf_append, evsOf_append] at this
    exact conc_seqOk_prefix this

/-- the stream version read through the published indexes never decreases -/
theorem streamVersion_mono {b b' : Bucket} (hi' : Inv b') (hext : ∃ ext, b'.pubIdx = b.pubIdx ++ ext)
    {st k v : Nat} (h : b.streamVersion st = some (k, v)) :
    ∃ v', b'.streamVersion st = some (k, v') ∧ v ≤ v' := by
  obtain ⟨ra, rb, h1, h2, hv, _⟩ := pub_events hi' hext
  rw [streamVersion_pubIdx, ← h1, latest_hydrate] at h
  rw [streamVersion_pubIdx, ← h2, latest_hydrate, evsOf_append]
  exact latestOf_mono hv h

/-- the partition sequence read through the published indexes never decreases -/
theorem partitionSequence_mono {b b' : Bucket} (hi' : Inv b')
    (hext : ∃ ext, b'.pubIdx = b.pubIdx ++ ext) {pid s : Nat} (h : b.partitionSequence pid = some s) :
    ∃ s', b'.partitionSequence pid = some s' ∧ s ≤ s' := by
  obtain ⟨ra, rb, h1, h2, _, hs⟩ := pub_events hi' hext
  rw [partitionSequence_pubIdx, ← h1, seq_hydrate] at h
  rw [partitionSequence_pubIdx, ← h2, seq_hydrate, evsOf_append]
  exact seqOf_mono hs h

end SierraModel.Store
