/-
Concurrency model (C15): the two-step reader lookup of a published event id finds it, whatever is
scheduled between its two steps.
-/
import SierraModel.Lemmas.ConcAckPub

set_option linter.unusedSimpArgs false
set_option linter.unusedVariables false

namespace SierraModel.Store
open SierraModel.Version

/-- the action is a lookup step of reader `rd` -/
def Action.byReader : Action → Nat → Bool
  | .lookupLive r _, rd => r == rd
  | .lookupPool r, rd => r == rd
  | _, _ => false

/-- reader `rd`'s lookup of `eid` has found it, or missed the live index while a sealed index
has it -/
def ReaderGood (c : Conc) (rd eid : Nat) : Prop :=
  getAssoc c.readers rd = some (.done eid true) ∨
  (getAssoc c.readers rd = some (.missedLive eid) ∧ c.b.inSealed eid = true)

theorem published_not_live {b : Bucket} {eid : Nat} (hp : b.published eid = true)
    (hf : b.live.index.find? (·.eid == eid) = none) : b.inSealed eid = true := by
  unfold Bucket.published at hp
  rw [Bool.or_eq_true] at hp
  rcases hp with hp | hp
  · exfalso
    obtain ⟨en, h1, h2⟩ := List.any_eq_true.1 hp
    exact List.find?_eq_none.1 hf en h1 h2
  · exact hp

/-- the first step of the lookup of a published id -/
theorem readerGood_lookupLive {c : Conc} {o : Outbox} {rd eid : Nat} (hp : c.b.published eid = true) :
    ReaderGood (c.next o (.lookupLive rd eid)).1 rd eid := by
  unfold Conc.next
  cases hf : c.b.live.index.find? (·.eid == eid) with
  | some en =>
    have : c.step o (.lookupLive rd eid) =
        some ({ c with readers := setAssoc c.readers rd (.done eid true) }, o) := by
      simp only [Conc.step, hf]
    rw [this]
    exact Or.inl (getAssoc_setAssoc_self _ _ _)
  | none =>
    have : c.step o (.lookupLive rd eid) =
        some ({ c with readers := setAssoc c.readers rd (.missedLive eid) }, o) := by
      simp only [Conc.step, hf]
    rw [this]
    exact Or.inr ⟨getAssoc_setAssoc_self _ _ _, published_not_live hp hf⟩

theorem readerGood_step {c : Conc} {o : Outbox} {a : Action} {c' : Conc} {o' : Outbox}
    (h : ConcInv c) {rd eid : Nat} (hg : ReaderGood c rd eid) (ha : a.byReader rd = false)
    (hs : c.step o a = some (c', o')) : ReaderGood c' rd eid := by
  have hseal := fun (hh : c.b.inSealed eid = true) => inSealed_mono (step_pub h hs).2 hh
  have hrel := step_rel hs
  unfold ReaderGood at hg ⊢
  cases hrel with
  | process cl tx rest hq => exact hg.imp id (fun x => ⟨x.1, hseal x.2⟩)
  | flushPoll => exact hg.imp id (fun x => ⟨x.1, hseal x.2⟩)
  | send cl tx _ => exact hg
  | recvReply cl x res seg tx0 _ _ => exact hg
  | pollAck cl r seg _ _ => exact hg
  | pollPending cl r seg _ _ => exact hg
  | liveHit rd' eid' en _ =>
    have hne : rd ≠ rd' := by intro hh; subst hh; simp [Action.byReader] at ha
    simpa only [getAssoc_setAssoc_ne _ _ hne] using hg
  | liveMiss rd' eid' _ =>
    have hne : rd ≠ rd' := by intro hh; subst hh; simp [Action.byReader] at ha
    simpa only [getAssoc_setAssoc_ne _ _ hne] using hg
  | pool rd' eid' _ =>
    have hne : rd ≠ rd' := by intro hh; subst hh; simp [Action.byReader] at ha
    simpa only [getAssoc_setAssoc_ne _ _ hne] using hg

theorem readerGood_run {rd eid : Nat} : ∀ (sched : List Action) (c : Conc) (o : Outbox), ConcInv c →
    ReaderGood c rd eid → (∀ a ∈ sched, a.byReader rd = false) → SchedOk c o sched →
    ReaderGood (c.run o sched).1 rd eid
  | [], _, _, _, hg, _, _ => hg
  | a :: as, c, o, hi, hg, hb, ⟨ha, hr⟩ => by
    rw [Conc.run_cons]
    have hb' : ∀ a' ∈ as, a'.byReader rd = false := fun a' h' => hb a' (List.mem_cons_of_mem _ h')
    rcases next_cases c o a with ⟨_, hn⟩ | ⟨c', o', hs, hn⟩
    · rw [hn] at hr ⊢; exact readerGood_run as c o hi hg hb' hr
    · rw [hn] at hr ⊢
      exact readerGood_run as c' o' (concInv_step hi ha hs)
        (readerGood_step hi hg (hb a (by simp)) hs) hb' hr

/-- the second step of the lookup -/
theorem readerGood_lookupPool {c : Conc} {o : Outbox} {rd eid : Nat} (hg : ReaderGood c rd eid) :
    getAssoc (c.next o (.lookupPool rd)).1.readers rd = some (.done eid true) := by
  unfold Conc.next
  rcases hg with hg | ⟨hg, hsl⟩
  · have : c.step o (.lookupPool rd) = none := by simp only [Conc.step, hg]
    rw [this]; exact hg
  · have : c.step o (.lookupPool rd) =
        some ({ c with readers := setAssoc c.readers rd (.done eid (c.b.inSealed eid)) }, o) := by
      simp only [Conc.step, hg]; rfl
    rw [this, hsl]
    exact getAssoc_setAssoc_self _ _ _

/-- the whole lookup of a published id, with anything by other threads in between -/
theorem lookup_finds {c : Conc} {o : Outbox} (hi : ConcInv c) {rd eid : Nat}
    (hp : c.b.published eid = true) (mid : List Action) (hb : ∀ a ∈ mid, a.byReader rd = false)
    (hok : SchedOk c o (.lookupLive rd eid :: (mid ++ [.lookupPool rd]))) :
    getAssoc (c.run o (.lookupLive rd eid :: (mid ++ [.lookupPool rd]))).1.readers rd
      = some (.done eid true) := by
  obtain ⟨ha, hok⟩ := hok
  rw [schedOk_append] at hok
  rw [Conc.run_cons, Conc.run_append, Conc.run_cons, Conc.run_nil]
  have hg := readerGood_lookupLive (o := o) (rd := rd) hp
  have hi' : ConcInv (c.next o (.lookupLive rd eid)).1 := by
    rcases next_cases c o (.lookupLive rd eid) with ⟨_, hn⟩ | ⟨c', o', hs, hn⟩
    · rw [hn]; exact hi
    · rw [hn]; exact concInv_step hi ha hs
  exact readerGood_lookupPool (readerGood_run mid _ _ hi' hg hb hok.1)

/-- a reader that reports "found" has seen a published entry -/
def ReaderInv (c : Conc) : Prop :=
  ∀ x ∈ c.readers, ∀ eid, x.2 = .done eid true → c.b.published eid = true

theorem readerInv_step {c : Conc} {o : Outbox} {a : Action} {c' : Conc} {o' : Outbox}
    (h : ConcInv c) (hr : ReaderInv c) (hs : c.step o a = some (c', o')) : ReaderInv c' := by
  have hmono := fun eid (hh : c.b.published eid = true) => published_mono (step_pub h hs).1 hh
  have hrel := step_rel hs
  unfold ReaderInv at hr ⊢
  cases hrel with
  | process cl tx rest hq => exact fun x hx eid he => hmono eid (hr x hx eid he)
  | flushPoll => exact fun x hx eid he => hmono eid (hr x hx eid he)
  | send cl tx _ => exact hr
  | recvReply cl x res seg tx0 _ _ => exact hr
  | pollAck cl r seg _ _ => exact hr
  | pollPending cl r seg _ _ => exact hr
  | liveHit rd eid en hf =>
    intro x hx eid' he
    rcases mem_setAssoc hx with hx | rfl
    · exact hr x hx eid' he
    · injection he with he1 he2; subst he1
      have h1 := List.mem_of_find?_eq_some hf
      have h2 : en.eid = eid := by simpa using List.find?_some hf
      unfold Bucket.published
      rw [Bool.or_eq_true]; left
      exact List.any_eq_true.2 ⟨en, h1, by simpa using h2⟩
  | liveMiss rd eid _ =>
    intro x hx eid' he
    rcases mem_setAssoc hx with hx | rfl
    · exact hr x hx eid' he
    · cases he
  | pool rd eid _ =>
    intro x hx eid' he
    rcases mem_setAssoc hx with hx | rfl
    · exact hr x hx eid' he
    · injection he with he1 he2; subst he1
      unfold Bucket.published
      rw [Bool.or_eq_true]; right; exact he2

theorem readerInv_run (sched : List Action) (c : Conc) (o : Outbox) (hi : ConcInv c)
    (hr : ReaderInv c) (hok : SchedOk c o sched) :
    ConcInv (c.run o sched).1 ∧ ReaderInv (c.run o sched).1 :=
  run_induct (P := fun c _ => ReaderInv c) (fun _ _ _ _ _ hi hr _ hs => readerInv_step hi hr hs)
    sched c o hi hr hok

end SierraModel.Store
