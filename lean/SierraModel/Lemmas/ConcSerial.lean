/-
Concurrency model (C16): `sync` commutes with `appendTx` (same result, same state up to a sync), so
the results of the processed requests do not depend on where the syncs are interleaved.
-/
import SierraModel.Lemmas.ConcInv

set_option linter.unusedSimpArgs false
set_option linter.unusedVariables false

namespace SierraModel.Store
open SierraModel.Version

theorem streamLatestW_sync (b : Bucket) (st : Nat) : b.sync.streamLatestW st = b.streamLatestW st := by
  unfold Bucket.streamLatestW lastWhere Bucket.sync
  simp only [List.reverse_nil, List.find?_nil, List.reverse_append, List.find?_append]
  cases b.live.pending.reverse.find? (·.stream == st) with
  | some e => simp
  | none =>
    cases b.live.index.reverse.find? (·.stream == st) <;> simp

theorem validateVersions_congr {b b' : Bucket} (h : ∀ st, b.streamLatestW st = b'.streamLatestW st)
    (pkey : Nat) : ∀ (es : List NewEv) (seen : List (Nat × Nat)),
      validateVersions b pkey es seen = validateVersions b' pkey es seen
  | [], _ => rfl
  | e :: es, seen => by
    unfold validateVersions
    rw [h e.stream]
    simp only [validateVersions_congr h pkey es]

theorem sync_sync (b : Bucket) : b.sync.sync = b.sync := by
  simp [Bucket.sync]

theorem rollover_sync (b : Bucket) : b.rollover.sync = b.rollover := by
  simp [Bucket.rollover, Bucket.sync]

theorem sync_rollover (b : Bucket) : b.sync.rollover = b.rollover := by
  unfold Bucket.rollover; rw [sync_sync]

theorem preRoll_sync (b : Bucket) (tx : Tx) : b.sync.preRoll tx = (b.preRoll tx).sync := by
  unfold Bucket.preRoll
  have h1 : b.sync.live.writeOff = b.live.writeOff := rfl
  have h2 : b.sync.upper tx = b.upper tx := rfl
  have h3 : b.sync.segSize = b.segSize := rfl
  rw [h1, h2, h3]
  split
  · rw [sync_rollover, rollover_sync]
  · rfl

theorem nextPartSeq_sync {b : Bucket} (h : Inv b) (pid : Nat) :
    b.sync.nextPartSeq pid = b.nextPartSeq pid := by
  rw [(inv_sync h).nextPartSeq_eq, h.nextPartSeq_eq, abs_sync]

/-- (b) `sync` before an append changes neither its result nor (up to a sync) its final state -/
theorem appendTx_sync {b : Bucket} (h : Inv b) (tx : Tx) :
    (b.sync.appendTx tx).2 = (b.appendTx tx).2 ∧ (b.sync.appendTx tx).1.sync = (b.appendTx tx).1.sync := by
  have hi1 := inv_preRoll h tx
  rw [appendTx_unfold, appendTx_unfold, validateVersions_congr (streamLatestW_sync b), preRoll_sync,
    nextPartSeq_sync hi1]
  have e1 : b.sync.compression = b.compression := rfl
  have e2 : b.sync.segSize = b.segSize := rfl
  have e3 : (b.preRoll tx).sync.segSize = (b.preRoll tx).segSize := rfl
  have e4 : (b.preRoll tx).sync.live.writeOff = (b.preRoll tx).live.writeOff := rfl
  rw [e1, e2, e3, e4]
  cases validateVersions b tx.pkey tx.events [] with
  | error e => exact ⟨rfl, sync_sync b⟩
  | ok curs =>
    simp only []
    split
    · exact ⟨rfl, sync_sync b⟩
    · split
      · exact ⟨rfl, sync_sync _⟩
      · cases writeEvents tx.pkey tx.pid tx.txId tx.single (b.preRoll tx).segSize tx.events curs
            (b.preRoll tx).live.writeOff ((b.preRoll tx).nextPartSeq tx.pid) [] with
        | error x => exact ⟨rfl, sync_sync _⟩
        | ok x =>
          obtain ⟨placed, off, nextAfter⟩ := x
          simp only []
          split
          · exact ⟨rfl, sync_sync _⟩
          · refine ⟨rfl, ?_⟩
            simp [Bucket.sync]

end SierraModel.Store
