/-
Concurrency model: `Conc.step` as a relation (one constructor per enabled atomic action), the core
reachability invariant `ConcInv` and induction over schedules.
-/
import SierraModel.Lemmas.ConcBase

set_option linter.unusedSimpArgs false
set_option linter.unusedVariables false

namespace SierraModel.Store
open SierraModel.Version

/-- the state after `process` of the queue head `(client, tx)` -/
def Conc.afterProcess (c : Conc) (tx : Tx) (rest : List (Nat × Tx)) : Conc :=
  { c with b := (c.b.appendTx tx).1, queue := rest,
           sealedWatch := if (c.b.appendTx tx).1.live.id != c.b.live.id
             then setAssoc c.sealedWatch c.b.live.id c.b.sync.live.watch else c.sealedWatch,
           processed := c.processed ++ [(tx, (c.b.appendTx tx).2)] }

/-- the reader-pool lookup: some sealed index has the event id -/
def Bucket.inSealed (b : Bucket) (eid : Nat) : Bool := b.sealed.any (fun s => s.index.any (·.eid == eid))

/-- the client's state after it received the reply -/
def replyState (res : Except Err AppendOk) (seg : Nat) : ClientState :=
  match res with | .ok r => .replied (.ok r) seg | .error e => .failed e

/-- `Conc.step` as a relation -/
inductive Step (c : Conc) (o : Outbox) : Action → Conc → Outbox → Prop
  | send (cl : Nat) (tx : Tx) :
      (getAssoc c.clients cl = some .idle ∨ getAssoc c.clients cl = none) →
      Step c o (.send cl tx)
        { c with queue := c.queue ++ [(cl, tx)], clients := setAssoc c.clients cl (.sent tx) } o
  | process (cl : Nat) (tx : Tx) (rest : List (Nat × Tx)) : c.queue = (cl, tx) :: rest →
      Step c o .process (c.afterProcess tx rest)
        (Outbox.mk (o.items ++ [(cl, (c.b.appendTx tx).2, (c.b.appendTx tx).1.live.id)]))
  | flushPoll : Step c o .flushPoll { c with b := c.b.sync } o
  | recvReply (cl x : Nat) (res : Except Err AppendOk) (seg : Nat) (tx0 : Tx) :
      o.items.find? (·.1 == cl) = some (x, res, seg) → getAssoc c.clients cl = some (.sent tx0) →
      Step c o (.recvReply cl)
        { c with clients := setAssoc c.clients cl (replyState res seg) }
        (Outbox.mk (o.items.filter (·.1 != cl)))
  | pollAck (cl : Nat) (r : AppendOk) (seg : Nat) :
      getAssoc c.clients cl = some (.replied (.ok r) seg) → c.watchOf seg ≥ r.writeOff →
      Step c o (.pollWait cl)
        { c with clients := setAssoc c.clients cl (.acked r), ackedLog := c.ackedLog ++ [r] } o
  | pollPending (cl : Nat) (r : AppendOk) (seg : Nat) :
      getAssoc c.clients cl = some (.replied (.ok r) seg) → ¬ c.watchOf seg ≥ r.writeOff →
      Step c o (.pollWait cl) c o
  | liveHit (rd eid : Nat) (en : Entry) : c.b.live.index.find? (·.eid == eid) = some en →
      Step c o (.lookupLive rd eid) { c with readers := setAssoc c.readers rd (.done eid true) } o
  | liveMiss (rd eid : Nat) : c.b.live.index.find? (·.eid == eid) = none →
      Step c o (.lookupLive rd eid) { c with readers := setAssoc c.readers rd (.missedLive eid) } o
  | pool (rd eid : Nat) : getAssoc c.readers rd = some (.missedLive eid) →
      Step c o (.lookupPool rd)
        { c with readers := setAssoc c.readers rd (.done eid (c.b.inSealed eid)) } o

theorem step_rel {c : Conc} {o : Outbox} {a : Action} {c' : Conc} {o' : Outbox}
    (h : c.step o a = some (c', o')) : Step c o a c' o' := by
  cases a with
  | send cl tx =>
    simp only [Conc.step] at h
    split at h
    · injection h with h; injection h with h1 h2; subst h1 h2
      exact Step.send cl tx (Or.inl (by assumption))
    · injection h with h; injection h with h1 h2; subst h1 h2
      exact Step.send cl tx (Or.inr (by assumption))
    · cases h
  | process =>
    simp only [Conc.step] at h
    split at h
    · cases h
    · rename_i cl tx rest hq
      injection h with h; injection h with h1 h2; subst h1 h2
      exact Step.process cl tx rest hq
  | flushPoll =>
    simp only [Conc.step] at h
    injection h with h; injection h with h1 h2; subst h1 h2
    exact Step.flushPoll
  | recvReply cl =>
    simp only [Conc.step] at h
    split at h
    · rename_i x res seg tx0 h1 h2
      injection h with h; injection h with h3 h4; subst h3 h4
      exact Step.recvReply cl x res seg tx0 h1 h2
    · cases h
  | pollWait cl =>
    simp only [Conc.step] at h
    split at h
    · rename_i r seg hg
      split at h
      · injection h with h; injection h with h1 h2; subst h1 h2
        exact Step.pollAck cl r seg hg (by assumption)
      · injection h with h; injection h with h1 h2; subst h1 h2
        exact Step.pollPending cl r seg hg (by assumption)
    · cases h
  | lookupLive rd eid =>
    simp only [Conc.step] at h
    split at h
    · rename_i en hf
      injection h with h; injection h with h1 h2; subst h1 h2
      exact Step.liveHit rd eid en hf
    · rename_i hf
      injection h with h; injection h with h1 h2; subst h1 h2
      exact Step.liveMiss rd eid hf
  | lookupPool rd =>
    simp only [Conc.step] at h
    split at h
    · rename_i eid hg
      injection h with h; injection h with h1 h2; subst h1 h2
      exact Step.pool rd eid hg
    · cases h

end SierraModel.Store
