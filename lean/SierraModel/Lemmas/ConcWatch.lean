/-
Concurrency model, the sync watch channels (C20): per segment the watch value never decreases, and
every reply in flight is covered by the value its channel takes at the next sync.
-/
import SierraModel.Lemmas.ConcInv

set_option linter.unusedSimpArgs false
set_option linter.unusedVariables false

namespace SierraModel.Store
open SierraModel.Version

/-- what `appendTx` does to the live segment: same segment (watch unchanged, write offset grows)
or a rollover (published + pending entries become the new sealed index) -/
theorem appendTx_live_cases {b : Bucket} (h : Inv b) {tx : Tx} (ht : TxOk b tx) :
    ((b.appendTx tx).1.live.id = b.live.id ∧ (b.appendTx tx).1.live.watch = b.live.watch ∧
      b.live.writeOff ≤ (b.appendTx tx).1.live.writeOff ∧ (b.appendTx tx).1.sealed = b.sealed ∧
      (b.appendTx tx).1.live.index = b.live.index ∧
      ∃ ext, (b.appendTx tx).1.live.pending = b.live.pending ++ ext) ∨
    ((b.appendTx tx).1.live.id = b.live.id + 1 ∧
      (b.appendTx tx).1.sealed = b.sealed ++
        [{ id := b.live.id, recs := b.live.recs, index := b.live.index ++ b.live.pending }] ∧
      (b.appendTx tx).1.live.index = [] ∧ (b.appendTx tx).1.live.watch = SEGMENT_HEADER_SIZE) := by
  have hpre : (b.preRoll tx = b) ∨ (b.preRoll tx = b.rollover) := by
    rcases preRoll_cases b tx with e | ⟨e, _, _⟩
    · exact Or.inl e
    · exact Or.inr e
  rcases appendTx_cases h ht with ⟨e, he⟩ | ⟨e, he⟩ | ⟨vs, _, _, _, he⟩ <;> rw [he]
  · exact Or.inl ⟨rfl, rfl, Nat.le_refl _, rfl, rfl, [], by simp⟩
  · rcases hpre with e | e <;> rw [e]
    · exact Or.inl ⟨rfl, rfl, Nat.le_refl _, rfl, rfl, [], by simp⟩
    · exact Or.inr ⟨rfl, rfl, rfl, rfl⟩
  · rcases hpre with e | e <;> rw [e]
    · refine Or.inl ⟨rfl, rfl, ?_, rfl, rfl, _, rfl⟩
      show b.live.writeOff ≤ b.live.writeOff + storedSum tx.events + tx.commitLen
      omega
    · exact Or.inr ⟨rfl, rfl, rfl, rfl⟩

/-- the value the watch channel of `seg` has after the next `sync` -/
def Conc.flushedWatchOf (c : Conc) (seg : Nat) : Nat :=
  if seg == c.b.live.id then c.b.live.writeOff else (getAssoc c.sealedWatch seg).getD 0

theorem flushedWatchOf_eq (c : Conc) (seg : Nat) :
    c.flushedWatchOf seg = ({ c with b := c.b.sync } : Conc).watchOf seg := rfl

/-- the watch-channel invariant -/
structure WatchInv (c : Conc) (o : Outbox) : Prop where
  sealed_lt : ∀ x ∈ c.sealedWatch, x.1 < c.b.live.id
  out_ok : ∀ x ∈ o.items, ∀ r, x.2.1 = .ok r → r.writeOff ≤ c.flushedWatchOf x.2.2
  cl_ok : ∀ x ∈ c.clients, ∀ r seg, x.2 = .replied (.ok r) seg → r.writeOff ≤ c.flushedWatchOf seg

theorem watchInv_init (b : Bucket) : WatchInv (Conc.init b) {} :=
  ⟨by simp [Conc.init], by simp, by simp [Conc.init]⟩

theorem watchOf_le_flushed {c : Conc} (h : Inv c.b) (seg : Nat) : c.watchOf seg ≤ c.flushedWatchOf seg := by
  unfold Conc.watchOf Conc.flushedWatchOf
  split
  · exact Nat.le_trans h.watch_le h.durable_le
  · exact Nat.le_refl _

theorem sealedWatch_none {c : Conc} (hlt : ∀ x ∈ c.sealedWatch, x.1 < c.b.live.id) {seg : Nat}
    (hs : c.b.live.id ≤ seg) : getAssoc c.sealedWatch seg = none :=
  getAssoc_none_of_keys (fun x hx => by have := hlt x hx; omega)

/-- `process` never decreases a watch value, nor the value after the next sync -/
theorem process_watch {c : Conc} (h : ConcInv c) (hlt : ∀ x ∈ c.sealedWatch, x.1 < c.b.live.id)
    {tx : Tx} (ht : TxOk c.b tx) (rest : List (Nat × Tx)) (seg : Nat) :
    c.watchOf seg ≤ (c.afterProcess tx rest).watchOf seg ∧
    c.flushedWatchOf seg ≤ (c.afterProcess tx rest).flushedWatchOf seg := by
  have hw : c.b.live.watch ≤ c.b.live.writeOff := Nat.le_trans h.inv.watch_le h.inv.durable_le
  have e2 : (c.afterProcess tx rest).b = (c.b.appendTx tx).1 := rfl
  rcases appendTx_live_cases h.inv ht with ⟨h1, h2, h3, _⟩ | ⟨h1, _⟩
  · have e1 : (c.afterProcess tx rest).sealedWatch = c.sealedWatch := by
      unfold Conc.afterProcess; simp [h1]
    unfold Conc.watchOf Conc.flushedWatchOf
    rw [e1, e2, h1, h2]
    constructor <;> split <;> omega
  · have e1 : (c.afterProcess tx rest).sealedWatch =
        setAssoc c.sealedWatch c.b.live.id c.b.live.writeOff := by
      unfold Conc.afterProcess; simp [h1]; rfl
    unfold Conc.watchOf Conc.flushedWatchOf
    rw [e1, e2, h1]
    by_cases hs1 : seg = c.b.live.id + 1
    · have hn := sealedWatch_none hlt (seg := seg) (by omega)
      have hs2 : (seg == c.b.live.id) = false := by simp; omega
      have hs3 : (seg == c.b.live.id + 1) = true := by simp [hs1]
      simp only [hs2, hs3, hn, if_true, Bool.false_eq_true, if_false, Option.getD_none]
      omega
    · have hb1 : (seg == c.b.live.id + 1) = false := by simpa using hs1
      by_cases hs0 : seg = c.b.live.id
      · subst hs0
        simp only [hb1, beq_self_eq_true, if_true, Bool.false_eq_true, if_false,
          getAssoc_setAssoc_self, Option.getD_some]
        omega
      · have hb0 : (seg == c.b.live.id) = false := by simpa using hs0
        simp only [hb1, hb0, Bool.false_eq_true, if_false, getAssoc_setAssoc_ne _ _ hs0]
        omega

theorem process_sealed_lt {c : Conc} (h : ConcInv c) (hlt : ∀ x ∈ c.sealedWatch, x.1 < c.b.live.id)
    {tx : Tx} (ht : TxOk c.b tx) (rest : List (Nat × Tx)) :
    ∀ x ∈ (c.afterProcess tx rest).sealedWatch, x.1 < (c.afterProcess tx rest).b.live.id := by
  have e2 : (c.afterProcess tx rest).b = (c.b.appendTx tx).1 := rfl
  rcases appendTx_live_cases h.inv ht with ⟨h1, _⟩ | ⟨h1, _⟩
  · have e1 : (c.afterProcess tx rest).sealedWatch = c.sealedWatch := by
      unfold Conc.afterProcess; simp [h1]
    rw [e1, e2, h1]; exact hlt
  · have e1 : (c.afterProcess tx rest).sealedWatch =
        setAssoc c.sealedWatch c.b.live.id c.b.live.writeOff := by
      unfold Conc.afterProcess; simp [h1]; rfl
    rw [e1, e2, h1]
    intro x hx
    rcases mem_setAssoc hx with hx | rfl
    · have := hlt x hx; omega
    · exact Nat.lt_succ_self _

/-- (g), one step: no watch value decreases, nor the value after the next sync -/
theorem step_watch_mono {c : Conc} {o : Outbox} {a : Action} {c' : Conc} {o' : Outbox}
    (h : ConcInv c) (hlt : ∀ x ∈ c.sealedWatch, x.1 < c.b.live.id)
    (hs : c.step o a = some (c', o')) (seg : Nat) :
    c.watchOf seg ≤ c'.watchOf seg ∧ c.flushedWatchOf seg ≤ c'.flushedWatchOf seg := by
  have hrel := step_rel hs
  cases hrel with
  | process cl tx rest hq => exact process_watch h hlt (h.head_ok hq) rest seg
  | flushPoll => exact ⟨watchOf_le_flushed h.inv seg, Nat.le_refl _⟩
  | send cl tx _ => exact ⟨Nat.le_refl _, Nat.le_refl _⟩
  | recvReply cl x res seg tx0 _ _ => exact ⟨Nat.le_refl _, Nat.le_refl _⟩
  | pollAck cl r seg _ _ => exact ⟨Nat.le_refl _, Nat.le_refl _⟩
  | pollPending cl r seg _ _ => exact ⟨Nat.le_refl _, Nat.le_refl _⟩
  | liveHit rd eid en _ => exact ⟨Nat.le_refl _, Nat.le_refl _⟩
  | liveMiss rd eid _ => exact ⟨Nat.le_refl _, Nat.le_refl _⟩
  | pool rd eid _ => exact ⟨Nat.le_refl _, Nat.le_refl _⟩

theorem appendTx_ok_writeOff {b : Bucket} (h : Inv b) {tx : Tx} (ht : TxOk b tx) {r : AppendOk}
    (hr : (b.appendTx tx).2 = .ok r) : r.writeOff = (b.appendTx tx).1.live.writeOff := by
  rcases appendTx_cases h ht with ⟨e, he⟩ | ⟨e, he⟩ | ⟨vs, _, _, _, he⟩ <;> rw [he] at hr ⊢
  · cases hr
  · cases hr
  · injection hr with hr; subst hr; rfl

theorem watchInv_step {c : Conc} {o : Outbox} {a : Action} {c' : Conc} {o' : Outbox}
    (h : ConcInv c) (hw : WatchInv c o) (hs : c.step o a = some (c', o')) : WatchInv c' o' := by
  have hmono := fun seg => (step_watch_mono h hw.sealed_lt hs seg).2
  have hout : ∀ x ∈ o.items, ∀ r, x.2.1 = .ok r → r.writeOff ≤ c'.flushedWatchOf x.2.2 :=
    fun x hx r hr => Nat.le_trans (hw.out_ok x hx r hr) (hmono _)
  have hcl : ∀ x ∈ c.clients, ∀ r seg, x.2 = .replied (.ok r) seg → r.writeOff ≤ c'.flushedWatchOf seg :=
    fun x hx r seg hr => Nat.le_trans (hw.cl_ok x hx r seg hr) (hmono _)
  have hrel := step_rel hs
  cases hrel with
  | process cl tx rest hq =>
    refine ⟨process_sealed_lt h hw.sealed_lt (h.head_ok hq) rest, ?_, hcl⟩
    intro x hx r hr
    rcases List.mem_append.1 hx with hx | hx
    · exact hout x hx r hr
    · simp only [List.mem_singleton] at hx; subst hx
      rw [appendTx_ok_writeOff h.inv (h.head_ok hq) hr]
      unfold Conc.flushedWatchOf
      simp [Conc.afterProcess]
  | flushPoll => exact ⟨hw.sealed_lt, hout, hcl⟩
  | send cl tx _ =>
    refine ⟨hw.sealed_lt, hout, ?_⟩
    intro x hx r seg hr
    rcases mem_setAssoc hx with hx | rfl
    · exact hcl x hx r seg hr
    · cases hr
  | recvReply cl x res seg tx0 hf _ =>
    refine ⟨hw.sealed_lt, fun y hy => hout y (List.mem_filter.1 hy).1, ?_⟩
    intro y hy r seg' hr
    rcases mem_setAssoc hy with hy | rfl
    · exact hcl y hy r seg' hr
    · have hm := List.mem_of_find?_eq_some hf
      cases res with
      | error e => cases hr
      | ok r0 =>
        simp only [replyState, ClientState.replied.injEq, Except.ok.injEq] at hr
        obtain ⟨rfl, rfl⟩ := hr
        exact hout _ hm r0 rfl
  | pollAck cl r seg _ _ =>
    refine ⟨hw.sealed_lt, hout, ?_⟩
    intro x hx r' seg' hr
    rcases mem_setAssoc hx with hx | rfl
    · exact hcl x hx r' seg' hr
    · cases hr
  | pollPending cl r seg _ _ => exact hw
  | liveHit rd eid en _ => exact ⟨hw.sealed_lt, hout, hcl⟩
  | liveMiss rd eid _ => exact ⟨hw.sealed_lt, hout, hcl⟩
  | pool rd eid _ => exact ⟨hw.sealed_lt, hout, hcl⟩

theorem watchInv_run (sched : List Action) (c : Conc) (o : Outbox) (hi : ConcInv c)
    (hw : WatchInv c o) (hok : SchedOk c o sched) :
    ConcInv (c.run o sched).1 ∧ WatchInv (c.run o sched).1 (c.run o sched).2 :=
  run_induct (P := WatchInv) (fun _ _ _ _ _ hi hw _ hs => watchInv_step hi hw hs) sched c o hi hw hok

/-- (g) along a schedule -/
theorem watchOf_mono_run (seg : Nat) : ∀ (sched : List Action) (c : Conc) (o : Outbox), ConcInv c →
    WatchInv c o → SchedOk c o sched → c.watchOf seg ≤ (c.run o sched).1.watchOf seg
  | [], c, o, _, _, _ => Nat.le_refl _
  | a :: as, c, o, hi, hw, ⟨ha, hr⟩ => by
    rw [Conc.run_cons]
    rcases next_cases c o a with ⟨_, hn⟩ | ⟨c', o', hs, hn⟩
    · rw [hn] at hr ⊢; exact watchOf_mono_run seg as c o hi hw hr
    · rw [hn] at hr ⊢
      exact Nat.le_trans (step_watch_mono hi hw.sealed_lt hs seg).1
        (watchOf_mono_run seg as c' o' (concInv_step hi ha hs) (watchInv_step hi hw hs) hr)

end SierraModel.Store
