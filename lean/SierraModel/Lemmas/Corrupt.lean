import SierraModel.Lemmas.Record
import SierraModel.Lemmas.CrcBurst

namespace SierraModel.Seglog

/-- parsing a framed record `len ‖ crc ‖ payload` with arbitrary field values -/
theorem parseAt_frame (H : Nat) (pre post payload : Bytes) (L C limit : Nat)
    (hL : L < 2 ^ 32) (hC : C < 2 ^ 32) (hp : payload.length = L % COMPRESSION_FLAG)
    (hH : H ≤ payload.length) (hnm : (le32 L ++ le32 C).all (· == 0) = false)
    (hl : pre.length + RECORD_HEAD_SIZE + payload.length ≤ limit) :
    parseAt H (pre ++ (le32 L ++ le32 C) ++ payload ++ post) limit pre.length =
      if (crc32 (le32 L ++ payload.take H ++ payload.drop H)).toNat ≠ C then .error .crc
      else if (decide (L ≥ COMPRESSION_FLAG) && decide ((payload.drop H).length < 4)) then .error .io
      else .ok { hdr := payload.take H, stored := payload.drop H, compressed := decide (L ≥ COMPRESSION_FLAG),
                 len := RECORD_HEAD_SIZE + L % COMPRESSION_FLAG } := by
  set head := le32 L ++ le32 C with hhead
  have hheadlen : head.length = RECORD_HEAD_SIZE := by simp [hhead, le32_length, RECORD_HEAD_SIZE]
  have hslice1 : slice (pre ++ head ++ payload ++ post) pre.length RECORD_HEAD_SIZE = head := by
    rw [← hheadlen]
    have : pre ++ head ++ payload ++ post = pre ++ head ++ (payload ++ post) := by simp [List.append_assoc]
    rw [this]; exact slice_append_mid pre head _
  have hslice2 : slice (pre ++ head ++ payload ++ post) (pre.length + RECORD_HEAD_SIZE) (L % COMPRESSION_FLAG)
      = payload := by
    have h := slice_inner pre head payload post
    rw [hheadlen, hp] at h
    have : pre ++ head ++ payload ++ post = pre ++ (head ++ payload) ++ post := by simp [List.append_assoc]
    rw [this]; exact h
  have htake : head.take 4 = le32 L := List.take_left' (le32_length L)
  have hdrop : head.drop 4 = le32 C := List.drop_left' (le32_length L)
  unfold parseAt
  rw [if_neg (by unfold RECORD_HEAD_SIZE at *; omega)]
  simp only [hslice1]
  rw [hnm]
  simp only [Bool.false_eq_true, if_false, htake, hdrop, fromLe32_le32 L hL, fromLe32_le32 C hC]
  rw [if_neg (by unfold RECORD_HEAD_SIZE at *; omega), if_neg (by omega)]
  simp only [hslice2]

/-- corruption confined to at most 4 consecutive bytes of header‖data is reported as a checksum
mismatch (a corollary for bit windows of ≤ 32 bits straddling bytes: `crc32_bit_window`) -/
theorem payload_burst (H : Nat) (pre post hdr stored : Bytes) (c : Bool) (wf : WF H hdr stored c)
    (p w w' q : Bytes) (hsplit : hdr ++ stored = p ++ w ++ q) (hlen : w.length = w'.length)
    (h4 : w.length ≤ 4) (hne : w ≠ w') (limit : Nat)
    (hl : pre.length + (encodeRec hdr stored c).length ≤ limit) :
    parseAt H (pre ++ (le32 (lenFlagOf hdr stored c) ++
        le32 (crc32 (le32 (lenFlagOf hdr stored c) ++ hdr ++ stored)).toNat) ++ (p ++ w' ++ q) ++ post)
      limit pre.length = .error .crc := by
  have hlenP : (p ++ w' ++ q).length = (hdr ++ stored).length := by
    rw [hsplit]; simp [List.length_append, hlen]
  have hpl : (p ++ w' ++ q).length = lenFlagOf hdr stored c % COMPRESSION_FLAG := by
    rw [lenFlag_mod wf, hlenP, List.length_append, wf.hlen]
  rw [encodeRec_length] at hl
  have hHle : H ≤ (p ++ w' ++ q).length := by rw [hlenP, List.length_append, wf.hlen]; omega
  rw [parseAt_frame H pre post (p ++ w' ++ q) _ _ limit (lenFlag_lt wf) (BitVec.isLt _) hpl hHle
    (head_not_marker wf) (by rw [hlenP, List.length_append]; omega)]
  have hcrc : crc32 (le32 (lenFlagOf hdr stored c) ++ (p ++ w' ++ q).take H ++ (p ++ w' ++ q).drop H)
      ≠ crc32 (le32 (lenFlagOf hdr stored c) ++ hdr ++ stored) := by
    rw [List.append_assoc, List.take_append_drop]
    have e1 : le32 (lenFlagOf hdr stored c) ++ (p ++ w' ++ q) = (le32 (lenFlagOf hdr stored c) ++ p) ++ w' ++ q := by
      simp [List.append_assoc]
    have e2 : le32 (lenFlagOf hdr stored c) ++ hdr ++ stored = (le32 (lenFlagOf hdr stored c) ++ p) ++ w ++ q := by
      rw [List.append_assoc, hsplit]; simp [List.append_assoc]
    rw [e1, e2]
    exact (crc32_burst _ w w' q hlen h4 hne).symm
  rw [if_pos]
  intro h
  exact hcrc (BitVec.eq_of_toNat_eq h)

/-- any corruption of the stored checksum field is reported (checksum mismatch, or — when it
zeroes the head of an empty H = 0 record — a truncation marker): never a valid record -/
theorem crc_field_corruption (H : Nat) (pre post hdr stored : Bytes) (c : Bool) (wf : WF H hdr stored c)
    (C' : Nat) (hC' : C' < 2 ^ 32) (hne : C' ≠ (crc32 (le32 (lenFlagOf hdr stored c) ++ hdr ++ stored)).toNat)
    (limit : Nat) (hl : pre.length + (encodeRec hdr stored c).length ≤ limit) :
    parseAt H (pre ++ (le32 (lenFlagOf hdr stored c) ++ le32 C') ++ (hdr ++ stored) ++ post) limit pre.length = .error .crc ∨
    parseAt H (pre ++ (le32 (lenFlagOf hdr stored c) ++ le32 C') ++ (hdr ++ stored) ++ post) limit pre.length = .error .trunc := by
  rw [encodeRec_length] at hl
  cases hnm : (le32 (lenFlagOf hdr stored c) ++ le32 C').all (· == 0) with
  | true =>
    right
    have hheadlen : (le32 (lenFlagOf hdr stored c) ++ le32 C').length = RECORD_HEAD_SIZE := by
      simp [le32_length, RECORD_HEAD_SIZE]
    have hslice1 : slice (pre ++ (le32 (lenFlagOf hdr stored c) ++ le32 C') ++ (hdr ++ stored) ++ post) pre.length RECORD_HEAD_SIZE
        = le32 (lenFlagOf hdr stored c) ++ le32 C' := by
      rw [← hheadlen]
      have : pre ++ (le32 (lenFlagOf hdr stored c) ++ le32 C') ++ (hdr ++ stored) ++ post
          = pre ++ (le32 (lenFlagOf hdr stored c) ++ le32 C') ++ ((hdr ++ stored) ++ post) := by simp [List.append_assoc]
      rw [this]; exact slice_append_mid pre _ _
    unfold parseAt
    rw [if_neg (by unfold RECORD_HEAD_SIZE at *; omega)]
    simp only [hslice1, hnm, if_true]
  | false =>
    left
    have hpl : (hdr ++ stored).length = lenFlagOf hdr stored c % COMPRESSION_FLAG := by
      rw [lenFlag_mod wf, List.length_append, wf.hlen]
    rw [parseAt_frame H pre post (hdr ++ stored) _ C' limit (lenFlag_lt wf) hC' hpl
      (by rw [List.length_append, wf.hlen]; omega) hnm (by rw [List.length_append]; omega)]
    rw [if_pos]
    rw [List.append_assoc, List.take_append_drop, ← List.append_assoc]
    exact fun h => hne h.symm

end SierraModel.Seglog

namespace SierraModel.Seglog

theorem le32_split (n : Nat) : le32 n = (le32 n).take 3 ++ [UInt8.ofNat (n / 16777216 % 256)] := by
  simp [le32]

theorem le32_flag_take (L : Nat) : (le32 (L + 2 ^ 31)).take 3 = (le32 L).take 3 := by
  simp only [le32, List.take_succ_cons, List.take_zero, List.cons.injEq, and_true]
  refine ⟨?_, ?_, ?_⟩ <;> (congr 1; omega)

theorem top_byte_ne (L : Nat) (h : L < 2 ^ 31) :
    UInt8.ofNat (L / 16777216 % 256) ≠ UInt8.ofNat ((L + 2 ^ 31) / 16777216 % 256) := by
  intro he
  have := congrArg UInt8.toNat he
  simp only [UInt8.toNat_ofNat'] at this
  omega

theorem le32_top_split (A : Nat) (payload : Bytes) : le32 A ++ payload
    = (le32 A).take 3 ++ [UInt8.ofNat (A / 16777216 % 256)] ++ payload := by
  simp [le32]

theorem le32_flag_split (A : Nat) (payload : Bytes) : le32 (A + 2 ^ 31) ++ payload
    = (le32 A).take 3 ++ [UInt8.ofNat ((A + 2 ^ 31) / 16777216 % 256)] ++ payload := by
  simp only [le32, List.take_succ_cons, List.take_zero, List.cons_append, List.nil_append, List.cons.injEq, and_true]
  refine ⟨?_, ?_, ?_⟩ <;> (congr 1; omega)

theorem crc_one_byte (pre payload : Bytes) (x y : UInt8) (hne : x ≠ y) :
    crc32 (pre ++ [x] ++ payload) ≠ crc32 (pre ++ [y] ++ payload) :=
  crc32_burst pre [x] [y] payload rfl (by simp) (fun he => hne (List.singleton_inj.mp he))

theorem crc_flag_ne (A : Nat) (hA : A < 2 ^ 31) (payload : Bytes) :
    crc32 (le32 A ++ payload) ≠ crc32 (le32 (A + 2 ^ 31) ++ payload) := by
  rw [le32_top_split, le32_flag_split]
  exact crc_one_byte _ _ _ _ (top_byte_ne A hA)

theorem lenFlag_false (hdr stored : Bytes) : lenFlagOf hdr stored false = hdr.length + stored.length := by
  simp [lenFlagOf]
theorem lenFlag_true (hdr stored : Bytes) : lenFlagOf hdr stored true = hdr.length + stored.length + 2 ^ 31 := by
  simp [lenFlagOf, COMPRESSION_FLAG]

/-- flipping the compression-flag bit (bit 31 of the length field) is reported as a checksum
mismatch, whichever way it is flipped -/
theorem flag_bit_flip (H : Nat) (pre post hdr stored : Bytes) (c : Bool) (wf : WF H hdr stored c)
    (limit : Nat) (hl : pre.length + (encodeRec hdr stored c).length ≤ limit) :
    parseAt H (pre ++ (le32 (lenFlagOf hdr stored (!c)) ++
        le32 (crc32 (le32 (lenFlagOf hdr stored c) ++ hdr ++ stored)).toNat) ++ (hdr ++ stored) ++ post)
      limit pre.length = .error .crc := by
  have hs := wf.small; have hh := wf.hlen
  rw [encodeRec_length] at hl
  have hL' : lenFlagOf hdr stored (!c) < 2 ^ 32 := by
    cases c <;> simp only [Bool.not_false, Bool.not_true, lenFlag_false, lenFlag_true] <;> omega
  have hmod : lenFlagOf hdr stored (!c) % COMPRESSION_FLAG = H + stored.length := by
    unfold COMPRESSION_FLAG
    cases c <;> simp only [Bool.not_false, Bool.not_true, lenFlag_false, lenFlag_true] <;> omega
  have hpl : (hdr ++ stored).length = lenFlagOf hdr stored (!c) % COMPRESSION_FLAG := by
    rw [hmod, List.length_append, hh]
  have hnz : lenFlagOf hdr stored (!c) ≠ 0 := by
    cases hc : c with
    | false => simp only [Bool.not_false, lenFlag_true]; omega
    | true =>
      have h4 := wf.zlen hc
      simp only [Bool.not_true, lenFlag_false]; omega
  have hnm : (le32 (lenFlagOf hdr stored (!c)) ++
      le32 (crc32 (le32 (lenFlagOf hdr stored c) ++ hdr ++ stored)).toNat).all (· == 0) = false := by
    cases hz : (le32 (lenFlagOf hdr stored (!c)) ++
      le32 (crc32 (le32 (lenFlagOf hdr stored c) ++ hdr ++ stored)).toNat).all (· == 0) with
    | false => rfl
    | true =>
      rw [List.all_append, Bool.and_eq_true] at hz
      exact absurd (le32_eq_zero_iff _ hL' hz.1) hnz
  rw [parseAt_frame H pre post (hdr ++ stored) _ _ limit hL' (BitVec.isLt _) hpl
    (by rw [List.length_append, hh]; omega) hnm (by rw [List.length_append]; omega)]
  rw [if_pos]
  rw [List.append_assoc, List.take_append_drop]
  intro hcrc
  have hcrc' : crc32 (le32 (lenFlagOf hdr stored !c) ++ (hdr ++ stored))
      = crc32 (le32 (lenFlagOf hdr stored c) ++ (hdr ++ stored)) := by
    apply BitVec.eq_of_toNat_eq
    rw [hcrc, List.append_assoc]
  have hA : hdr.length + stored.length < 2 ^ 31 := by omega
  cases hc : c with
  | false =>
    rw [hc] at hcrc'
    simp only [Bool.not_false, lenFlag_false, lenFlag_true] at hcrc'
    exact crc_flag_ne _ hA _ hcrc'.symm
  | true =>
    rw [hc] at hcrc'
    simp only [Bool.not_true, lenFlag_false, lenFlag_true] at hcrc'
    exact crc_flag_ne _ hA _ hcrc'

end SierraModel.Seglog
