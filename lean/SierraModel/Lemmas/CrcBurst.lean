import SierraModel.Seglog.Crc
import Std.Tactic.BVDecide

namespace SierraModel.Seglog

/-! ### single-step facts -/

theorem crcStep_xor (a b : BitVec 32) (x y : Bool) :
    crcStep (a ^^^ b) (x != y) = crcStep a x ^^^ crcStep b y := by
  cases x <;> cases y <;> simp only [crcStep, POLY] <;> bv_decide

theorem crcStep_inj (a b : BitVec 32) (x : Bool) (h : crcStep a x = crcStep b x) : a = b := by
  cases x <;> simp only [crcStep, POLY] at h <;> bv_decide

theorem crcStep_true_eq_zero (r : BitVec 32) (h : crcStep r true = 0#32) : r = 1#32 := by
  simp only [crcStep, POLY] at h; bv_decide

/-- no feedback happened when the result has its top bit clear -/
theorem crcStep_msb_false (r : BitVec 32) (b : Bool) (h : (crcStep r b).msb = false) :
    crcStep r b = r >>> 1 := by
  cases b <;> simp only [crcStep, POLY] at h ⊢ <;> bv_decide

/-! ### runs -/

@[simp] theorem crcRun_nil (r : BitVec 32) : crcRun r [] = r := rfl
@[simp] theorem crcRun_cons (r : BitVec 32) (b : Bool) (l : List Bool) :
    crcRun r (b :: l) = crcRun (crcStep r b) l := rfl
theorem crcRun_append (r : BitVec 32) (l₁ l₂ : List Bool) :
    crcRun r (l₁ ++ l₂) = crcRun (crcRun r l₁) l₂ := by
  simp [crcRun, List.foldl_append]
theorem crcRun_concat (r : BitVec 32) (l : List Bool) (b : Bool) :
    crcRun r (l ++ [b]) = crcStep (crcRun r l) b := by
  simp [crcRun_append]

theorem crcRun_inj (l : List Bool) : ∀ a b : BitVec 32, crcRun a l = crcRun b l → a = b := by
  induction l with
  | nil => intro a b h; simpa using h
  | cons x l ih => intro a b h; exact crcStep_inj a b x (ih _ _ h)

/-- linearity of a run over GF(2) -/
theorem crcRun_xor : ∀ (m n : List Bool) (a b : BitVec 32), m.length = n.length →
    crcRun (a ^^^ b) (List.zipWith (· != ·) m n) = crcRun a m ^^^ crcRun b n := by
  intro m
  induction m with
  | nil => intro n a b h; cases n <;> simp_all
  | cons x m ih =>
    intro n a b h
    cases n with
    | nil => simp at h
    | cons y n =>
      simp only [List.zipWith_cons_cons, crcRun_cons, crcStep_xor]
      exact ih n _ _ (by simpa using h)

/-- backward growth: if a run over `d` ends in a value with exactly `j+1` significant bits and
no overflow is possible, the start value has exactly `j + d.length + 1` significant bits -/
theorem crcRun_back (j : Nat) : ∀ (d : List Bool) (r : BitVec 32), j + d.length ≤ 31 →
    2 ^ j ≤ (crcRun r d).toNat → (crcRun r d).toNat < 2 ^ (j + 1) →
    2 ^ (j + d.length) ≤ r.toNat ∧ r.toNat < 2 ^ (j + d.length + 1) := by
  intro d
  induction d with
  | nil => intro r _ h1 h2; simpa using ⟨h1, h2⟩
  | cons b d ih =>
    intro r hl h1 h2
    simp only [crcRun_cons, List.length_cons] at hl h1 h2 ⊢
    obtain ⟨g1, g2⟩ := ih (crcStep r b) (by omega) h1 h2
    have hlt : (crcStep r b).toNat < 2 ^ 31 :=
      Nat.lt_of_lt_of_le g2 (Nat.pow_le_pow_right (by decide) (by omega))
    have hmsb : (crcStep r b).msb = false := by
      rw [BitVec.msb_eq_false_iff_two_mul_lt]; omega
    have hs := crcStep_msb_false r b hmsb
    have hn : (crcStep r b).toNat = r.toNat / 2 := by
      rw [hs]; simp [BitVec.toNat_ushiftRight, Nat.shiftRight_eq_div_pow]
    rw [hn] at g1 g2
    have e1 : 2 ^ (j + (d.length + 1)) = 2 * 2 ^ (j + d.length) := by
      rw [← Nat.add_assoc, Nat.pow_succ, Nat.mul_comm]
    have e2 : 2 ^ (j + (d.length + 1) + 1) = 2 * 2 ^ (j + d.length + 1) := by
      rw [Nat.pow_succ, Nat.mul_comm]; rfl
    rw [e1, e2]
    omega

/-- a difference pattern of length ≤ 32 ending in a `true` never drives register 0 back to 0 -/
theorem crcRun_zero_concat_true_ne (d : List Bool) (hd : d.length ≤ 31) :
    crcRun 0#32 (d ++ [true]) ≠ 0#32 := by
  intro h
  rw [crcRun_concat] at h
  have h1 := crcStep_true_eq_zero _ h
  have := crcRun_back 0 d 0#32 (by omega) (by rw [h1]; decide) (by rw [h1]; decide)
  have h2 := this.1
  have : 0 < 2 ^ (0 + d.length) := Nat.pow_pos (by decide)
  simp at h2

/-- core: two distinct equal-length windows of ≤ 32 bits give distinct registers -/
theorem crcRun_window_ne (r : BitVec 32) : ∀ (n : Nat) (w w' : List Bool),
    w.length = n → w'.length = n → n ≤ 32 → w ≠ w' → crcRun r w ≠ crcRun r w' := by
  intro n
  induction n with
  | zero =>
    intro w w' h h' _ hne
    simp only [List.length_eq_zero_iff] at h h'
    exact absurd (h.trans h'.symm) hne
  | succ n ih =>
    intro w w' h h' hn hne
    rcases List.eq_nil_or_concat w with rfl | ⟨u, a, rfl⟩
    · simp at h
    rcases List.eq_nil_or_concat w' with rfl | ⟨u', a', rfl⟩
    · simp at h'
    simp only [List.concat_eq_append] at h h' hne ⊢
    simp only [List.length_append, List.length_cons, List.length_nil] at h h'
    have hu : u.length = n := by omega
    have hu' : u'.length = n := by omega
    rw [crcRun_concat, crcRun_concat]
    intro heq
    by_cases haa : a = a'
    · subst haa
      have := crcStep_inj _ _ _ heq
      have hne' : u ≠ u' := by rintro rfl; exact hne rfl
      exact ih u u' hu hu' (by omega) hne' this
    · have hx : (a != a') = true := by cases a <;> cases a' <;> simp_all
      have h0 : crcStep (crcRun r u ^^^ crcRun r u') (a != a') = 0#32 := by
        rw [crcStep_xor, heq, BitVec.xor_self]
      have hl := crcRun_xor u u' r r (hu.trans hu'.symm)
      rw [BitVec.xor_self] at hl
      rw [← hl, hx, ← crcRun_concat] at h0
      exact crcRun_zero_concat_true_ne _ (by simp [List.length_zipWith]; omega) h0

/-- GOAL A: any error burst confined to at most 32 consecutive bits changes the register -/
theorem crcRun_burst (r0 : BitVec 32) (pre w w' post : List Bool)
    (hlen : w.length = w'.length) (h32 : w.length ≤ 32) (hne : w ≠ w') :
    crcRun r0 (pre ++ w ++ post) ≠ crcRun r0 (pre ++ w' ++ post) := by
  intro h
  rw [crcRun_append, crcRun_append _ (pre ++ w')] at h
  have h' := crcRun_inj post _ _ h
  rw [crcRun_append, crcRun_append] at h'
  exact crcRun_window_ne (crcRun r0 pre) w.length w w' rfl hlen.symm h32 hne h'

/-! ### byte level -/

theorem byteBits_length (x : UInt8) : (byteBits x).length = 8 := by simp [byteBits]

theorem byteBits_inj (x y : UInt8) (h : byteBits x = byteBits y) : x = y := by
  apply UInt8.toNat_inj.mp
  apply Nat.eq_of_testBit_eq
  intro i
  by_cases hi : i < 8
  · have := congrArg (fun l => l[i]?) h
    simpa [byteBits, hi] using this
  · have hx : x.toNat < 2 ^ i :=
      Nat.lt_of_lt_of_le x.toNat_lt (Nat.pow_le_pow_right (by decide) (by omega) : 2 ^ 8 ≤ 2 ^ i)
    have hy : y.toNat < 2 ^ i :=
      Nat.lt_of_lt_of_le y.toNat_lt (Nat.pow_le_pow_right (by decide) (by omega) : 2 ^ 8 ≤ 2 ^ i)
    rw [Nat.testBit_lt_two_pow hx, Nat.testBit_lt_two_pow hy]

theorem bitsOf_append (a b : List UInt8) : bitsOf (a ++ b) = bitsOf a ++ bitsOf b := by
  simp [bitsOf]

theorem bitsOf_length (m : List UInt8) : (bitsOf m).length = 8 * m.length := by
  induction m with
  | nil => rfl
  | cons x m ih =>
    have : bitsOf (x :: m) = byteBits x ++ bitsOf m := by simp [bitsOf]
    rw [this, List.length_append, ih, byteBits_length, List.length_cons]; omega

theorem bitsOf_inj : ∀ m m' : List UInt8, bitsOf m = bitsOf m' → m = m' := by
  intro m
  induction m with
  | nil =>
    intro m' h
    have := congrArg List.length h
    rw [bitsOf_length, bitsOf_length] at this
    cases m' with
    | nil => rfl
    | cons _ _ => simp at this
  | cons x m ih =>
    intro m' h
    cases m' with
    | nil =>
      have := congrArg List.length h
      rw [bitsOf_length, bitsOf_length] at this
      simp at this
    | cons y m' =>
      have e1 : bitsOf (x :: m) = byteBits x ++ bitsOf m := by simp [bitsOf]
      have e2 : bitsOf (y :: m') = byteBits y ++ bitsOf m' := by simp [bitsOf]
      rw [e1, e2] at h
      have := List.append_inj h (by rw [byteBits_length, byteBits_length])
      rw [byteBits_inj x y this.1, ih m' this.2]

/-- sharper bit-window form: two distinct byte strings whose bit streams differ only inside a
window of at most 32 consecutive bit positions have different checksums -/
theorem crc32_bit_window (m m' : List UInt8) (p w w' q : List Bool)
    (hm : bitsOf m = p ++ w ++ q) (hm' : bitsOf m' = p ++ w' ++ q)
    (hlen : w.length = w'.length) (h32 : w.length ≤ 32) (hne : m ≠ m') :
    crc32 m ≠ crc32 m' := by
  have hw : w ≠ w' := by
    rintro rfl
    exact hne (bitsOf_inj m m' (hm.trans hm'.symm))
  intro h
  unfold crc32 at h
  rw [hm, hm'] at h
  have h' : crcRun 0xFFFFFFFF#32 (p ++ w ++ q) = crcRun 0xFFFFFFFF#32 (p ++ w' ++ q) := by
    have := congrArg (· ^^^ 0xFFFFFFFF#32) h
    simpa [BitVec.xor_assoc] using this
  exact crcRun_burst _ p w w' q hlen h32 hw h'

/-- GOAL B: any corruption confined to 4 consecutive bytes is detected -/
theorem crc32_burst (pre w w' post : List UInt8)
    (hlen : w.length = w'.length) (h4 : w.length ≤ 4) (hne : w ≠ w') :
    crc32 (pre ++ w ++ post) ≠ crc32 (pre ++ w' ++ post) := by
  apply crc32_bit_window _ _ (bitsOf pre) (bitsOf w) (bitsOf w') (bitsOf post)
  · rw [bitsOf_append, bitsOf_append]
  · rw [bitsOf_append, bitsOf_append]
  · rw [bitsOf_length, bitsOf_length, hlen]
  · rw [bitsOf_length]; omega
  · intro h
    have h1 := List.append_cancel_right h
    exact hne (List.append_cancel_left h1)

end SierraModel.Seglog
