import SierraModel.Topology.Distribute
import Mathlib.Data.Nat.GCD.Basic
import Mathlib.Data.Nat.ModEq
import Mathlib.Tactic.IntervalCases

namespace SierraModel.Topology

theorem jump_coprime (n : Nat) (_hn : 0 < n) : Nat.Coprime (jump n) n := by
  unfold jump
  split
  · simp
  · rename_i h2
    have h3 : 3 ≤ n := by omega
    simp only []
    split
    · -- n even, candidate even: jump = n/2+2
      rename_i hc
      simp only [Bool.and_eq_true, beq_iff_eq] at hc
      obtain ⟨he, hce⟩ := hc
      show Nat.gcd (n / 2 + 1 + 1) n = 1
      have hd1 := Nat.gcd_dvd_left (n / 2 + 1 + 1) n
      have hd2 := Nat.gcd_dvd_right (n / 2 + 1 + 1) n
      generalize Nat.gcd (n / 2 + 1 + 1) n = d at *
      -- d ∣ 2*(n/2+2) - n = 4
      have h4 : d ∣ 4 := by
        have : d ∣ 2 * (n / 2 + 1 + 1) := Dvd.dvd.mul_left hd1 2
        have h' : 2 * (n / 2 + 1 + 1) = n + 4 := by omega
        rw [h'] at this
        exact (Nat.dvd_add_right hd2).mp this
      have hle : d ≤ 4 := Nat.le_of_dvd (by norm_num) h4
      have hodd : (n / 2 + 1 + 1) % 2 = 1 := by omega
      interval_cases d
      · simp at h4
      · rfl
      · exfalso; obtain ⟨k, hk⟩ := hd1; omega
      · exfalso; obtain ⟨k, hk⟩ := h4; omega
      · exfalso; obtain ⟨k, hk⟩ := hd1; omega
    · rename_i hc
      simp only [Bool.and_eq_true, beq_iff_eq, not_and] at hc
      show Nat.gcd (n / 2 + 1) n = 1
      have hd1 := Nat.gcd_dvd_left (n / 2 + 1) n
      have hd2 := Nat.gcd_dvd_right (n / 2 + 1) n
      generalize Nat.gcd (n / 2 + 1) n = d at *
      by_cases he : n % 2 = 0
      · -- n even, candidate odd: d ∣ 2*(n/2+1) - n = 2
        have hco := hc he
        have h2' : d ∣ 2 := by
          have : d ∣ 2 * (n / 2 + 1) := Dvd.dvd.mul_left hd1 2
          have h' : 2 * (n / 2 + 1) = n + 2 := by omega
          rw [h'] at this
          exact (Nat.dvd_add_right hd2).mp this
        have hle : d ≤ 2 := Nat.le_of_dvd (by norm_num) h2'
        interval_cases d
        · simp at h2'
        · rfl
        · exfalso; obtain ⟨k, hk⟩ := hd1; omega
      · -- n odd: d ∣ 2*(n/2+1) - n = 1
        have h1 : d ∣ 1 := by
          have : d ∣ 2 * (n / 2 + 1) := Dvd.dvd.mul_left hd1 2
          have h' : 2 * (n / 2 + 1) = n + 1 := by omega
          rw [h'] at this
          exact (Nat.dvd_add_right hd2).mp this
        exact Nat.dvd_one.mp h1

/-- the arithmetic progression the walk produces. -/
def seqOf (p j n m : Nat) : List Nat := (List.range m).map (fun i => (p + i * j) % n)

theorem seqOf_succ (p j n m : Nat) : seqOf p j n (m + 1) = seqOf p j n m ++ [(p + m * j) % n] := by
  simp [seqOf, List.range_succ]

theorem ap_inj {p j n a b : Nat} (hc : Nat.Coprime j n) (hab : a < b) (hbn : b < n)
    (h : (p + a * j) % n = (p + b * j) % n) : False := by
  have hm : (p + a * j) ≡ (p + b * j) [MOD n] := h
  have hm2 : a * j ≡ b * j [MOD n] := Nat.ModEq.add_left_cancel' p hm
  have hm3 : a ≡ b [MOD n] := Nat.ModEq.cancel_right_of_coprime (by rw [Nat.gcd_comm]; exact hc) hm2
  have : a % n = b % n := hm3
  rw [Nat.mod_eq_of_lt (by omega), Nat.mod_eq_of_lt hbn] at this
  omega

theorem seqOf_nodup {p j n m : Nat} (hc : Nat.Coprime j n) (hm : m ≤ n) : (seqOf p j n m).Nodup := by
  induction m with
  | zero => simp [seqOf]
  | succ m ih =>
    rw [seqOf_succ]
    refine List.nodup_append.mpr ⟨ih (by omega), by simp, ?_⟩
    intro x hx y hy
    simp only [List.mem_singleton] at hy
    subst hy
    simp only [seqOf, List.mem_map, List.mem_range] at hx
    obtain ⟨i, hi, hxi⟩ := hx
    intro heq
    exact ap_inj hc hi (by omega) (heq ▸ hxi)

theorem not_mem_seqOf {p j n m : Nat} (hc : Nat.Coprime j n) (hm : m < n) :
    (p + m * j) % n ∉ seqOf p j n m := by
  intro hx
  simp only [seqOf, List.mem_map, List.mem_range] at hx
  obtain ⟨i, hi, hxi⟩ := hx
  exact ap_inj hc hi hm hxi

theorem walk_eq {p j n : Nat} (hc : Nat.Coprime j n) (hn : 0 < n) (hj : j < 2 ^ 16) (hn16 : n < 2 ^ 16) :
    ∀ (k m : Nat), m + 1 + k ≤ min n MAX_REPLICATION_FACTOR →
      walk n j k ((p + m * j) % n) (seqOf p j n (m + 1)) = some (seqOf p j n (m + 1 + k)) := by
  intro k
  induction k with
  | zero => intro m _; simp [walk]
  | succ k ih =>
    intro m hm
    have hm1 : m + 1 + (k + 1) ≤ n := le_trans hm (Nat.min_le_left _ _)
    have hm2 : m + 1 + (k + 1) ≤ 12 := le_trans hm (Nat.min_le_right _ _)
    have hlt : (p + m * j) % n < n := Nat.mod_lt _ hn
    have hadd : addU32 ((p + m * j) % n) j = some ((p + m * j) % n + j) := by
      unfold addU32; rw [if_pos]; omega
    have hcur : ((p + m * j) % n + j) % n = (p + (m + 1) * j) % n := by
      rw [Nat.add_mul, Nat.one_mul, ← Nat.add_assoc, Nat.add_mod ((p + m * j) % n) j n, Nat.mod_mod,
        ← Nat.add_mod]
    have hnm : (p + (m + 1) * j) % n ∉ seqOf p j n (m + 1) :=
      not_mem_seqOf hc (by omega)
    have hlen : (seqOf p j n (m + 1)).length = m + 1 := by simp [seqOf]
    unfold walk
    rw [hadd]
    simp only [hcur]
    have hcont : (seqOf p j n (m + 1)).contains ((p + (m + 1) * j) % n) = false := by
      simpa using hnm
    have hfull : ¬ (seqOf p j n (m + 1)).length ≥ MAX_REPLICATION_FACTOR := by
      rw [hlen]; unfold MAX_REPLICATION_FACTOR; omega
    rw [hcont]
    simp only [Bool.false_or, decide_eq_true_eq, hfull, if_false]
    have hih := ih (m + 1) (Nat.le_min.mpr ⟨by omega, by unfold MAX_REPLICATION_FACTOR; omega⟩)
    have key : m + 1 + 1 + k = m + 1 + (k + 1) := by omega
    rw [← seqOf_succ, hih, key]

theorem jump_lt (n : Nat) (hn : n < 2 ^ 16) : jump n < 2 ^ 16 := by
  unfold jump
  split
  · norm_num
  · simp only []
    split <;> omega

/-- closed form of the model for in-range inputs. -/
theorem distribute_eq (h n rf : Nat) (hn : 0 < n) (hn16 : n < 2 ^ 16) :
    distribute h n rf = some (seqOf (h % n) (jump n) n (min rf (min n MAX_REPLICATION_FACTOR))) := by
  unfold distribute
  have hn0 : (n == 0) = false := by simp; omega
  simp only [hn0, Bool.false_eq_true, if_false]
  generalize ha : min rf (min n MAX_REPLICATION_FACTOR) = a
  by_cases h0 : a = 0
  · subst h0; simp [seqOf]
  · have : (a == 0) = false := by simp [h0]
    simp only [this, Bool.false_eq_true, if_false]
    by_cases h1 : a > 1
    · simp only [h1, if_true]
      have hw := walk_eq (p := h % n) (jump_coprime n hn) hn (jump_lt n hn16) hn16 (a - 1) 0
        (by rw [← ha] at h1 ⊢; omega)
      have e1 : seqOf (h % n) (jump n) n (0 + 1) = [h % n] := by simp [seqOf]
      rw [e1] at hw
      simp only [Nat.zero_mul, Nat.add_zero, Nat.mod_mod] at hw
      rw [hw]
      congr 2
      omega
    · have : a = 1 := by omega
      subst this
      simp [seqOf]

end SierraModel.Topology
