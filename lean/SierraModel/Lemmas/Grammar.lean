/-
Lemmas for C21: lexical facts (keywords vs numbers vs stream ids) and the specification of every
parser of Server/Parse.lean in terms of the concrete syntax of Server/Grammar.lean.
-/
import SierraModel.Lemmas.Combine

namespace SierraModel.Server
open SierraModel.Version (parseU64 Expected)

/-! ## lexical facts -/

theorem upperChar_low {c : Char} (h : c.toNat < 97) : upperChar c = [c] := by
  unfold upperChar
  have h1 : ¬ (97 ≤ c.toNat ∧ c.toNat ≤ 122) := by omega
  have h2 : c.toNat < 128 := by omega
  simp [h1, h2]

theorem mem_upper_of_mem {c : Char} (hc : c.toNat < 97) : ∀ {cs : List Char}, c ∈ cs → c ∈ upper cs := by
  intro cs
  induction cs with
  | nil => simp
  | cons d ds ih =>
    intro h
    simp only [upper, List.mem_append]
    rcases List.mem_cons.mp h with rfl | h
    · left; rw [upperChar_low hc]; simp
    · right; exact ih h

/-- a number lexeme starts with `+` or a digit -/
theorem parseU64_head {s : List Char} {v : Nat} (h : parseU64 s = some v) :
    ∃ c rest, s = c :: rest ∧ c.toNat < 97 ∧ (c = '+' ∨ Version.isDigit c = true) := by
  unfold parseU64 at h
  split at h
  · cases h
  · exact ⟨'+', _, rfl, by decide, Or.inl rfl⟩
  · rename_i h1 h2
    cases s with
    | nil => exact absurd rfl h1
    | cons c cs =>
      refine ⟨c, cs, rfl, ?_⟩
      unfold Version.parseDigits at h
      split at h
      · rename_i hd
        refine ⟨?_, Or.inr hd⟩
        simp only [Version.isDigit, Bool.and_eq_true, decide_eq_true_eq] at hd
        omega
      · cases h

/-- the upper-cased form of a number lexeme starts with `+` or a digit -/
theorem upper_num_head {s : List Char} {v : Nat} (h : parseU64 s = some v) :
    ∃ c rest, upper s = c :: rest ∧ (c = '+' ∨ Version.isDigit c = true) := by
  obtain ⟨c, rest, rfl, hc, hd⟩ := parseU64_head h
  exact ⟨c, upper rest, by simp [upper, upperChar_low hc], hd⟩

theorem num_not_kw {s : List Char} {v : Nat} (h : parseU64 s = some v) {K : List Char}
    (hK : ∀ c rest, K = c :: rest → c ≠ '+' ∧ Version.isDigit c = false) : upper s ≠ K := by
  obtain ⟨c, rest, he, hd⟩ := upper_num_head h
  intro hk
  rw [he] at hk
  obtain ⟨h1, h2⟩ := hK c rest hk.symm
  rcases hd with rfl | hd
  · exact h1 rfl
  · rw [hd] at h2; cases h2

theorem num_not_latest {s : List Char} {v : Nat} (h : parseU64 s = some v) : upper s ≠ KW.latest :=
  num_not_kw h (by intro c rest hk; cases hk; decide)
theorem num_not_star {s : List Char} {v : Nat} (h : parseU64 s = some v) : upper s ≠ KW.star :=
  num_not_kw h (by intro c rest hk; cases hk; decide)

theorem parseU16_some {s : List Char} {v : Nat} (h : parseU16 s = some v) : parseU64 s = some v := by
  unfold parseU16 at h
  cases hp : parseU64 s with
  | none => rw [hp] at h; cases h
  | some w => rw [hp] at h; dsimp only at h; split at h <;> simp_all

theorem splitOnce_mem {d : Char} : ∀ {s : List Char} {ab : List Char × List Char},
    splitOnce d s = some ab → d ∈ s := by
  intro s
  induction s with
  | nil => intro ab h; cases h
  | cons c cs ih =>
    intro ab h
    unfold splitOnce at h
    split at h
    · rename_i hc; subst hc; simp
    · cases hs : splitOnce d cs with
      | none => rw [hs] at h; cases h
      | some x => exact List.mem_cons_of_mem _ (ih hs)

/-- a keyword lexeme contains no `=` -/
theorem kw_splitOnce {k K : List Char} (h : upper k = K) (hK : '=' ∉ K) : splitOnce '=' k = none := by
  cases hs : splitOnce '=' k with
  | none => rfl
  | some ab =>
    have := mem_upper_of_mem (c := '=') (by decide) (splitOnce_mem hs)
    rw [h] at this
    exact absurd this hK

/-! ## the first token -/

/-- the next frame is the keyword `K` -/
def headKw (K : List Char) : List Tok → Bool
  | [] => false
  | t :: _ => isKw K t

/-- the next frame cannot start a stream id: end of input, a reserved keyword, or not text -/
def Stops : List Tok → Prop
  | [] => True
  | .text k :: _ => isReserved k = true
  | .blob _ :: _ => True

theorem isKw_text {K k : List Char} : isKw K (.text k) = true ↔ upper k = K := by
  simp [isKw]

theorem headKw_of_kw {K K' k : List Char} {r : List Tok} (h : upper k = K') (hne : K' ≠ K) :
    headKw K (.text k :: r) = false := by
  simp [headKw, isKw, h, hne]

theorem reserved_of_kw {k K : List Char} (h : upper k = K) (hK : K ∈ reserved) : isReserved k = true := by
  simp only [isReserved, List.contains_eq_mem, decide_eq_true_eq]
  rw [h]; exact hK

theorem not_kw_of_not_reserved {k K : List Char} (h : isReserved k = false) (hK : K ∈ reserved) : upper k ≠ K := by
  intro hk
  rw [reserved_of_kw hk hK] at h
  cases h

/-! ## parser.rs -/

theorem textMap_nil {α : Type} {f : List Char → Option α} : textMap f [] = .perr := rfl
theorem textMap_blob {α : Type} {f : List Char → Option α} {b : List Nat} {ts : List Tok} :
    textMap f (.blob b :: ts) = .perr := rfl
theorem textMap_text {α : Type} {f : List Char → Option α} {l : List Char} {ts : List Tok} :
    textMap f (.text l :: ts) = match f l with | some v => .ok v ts true | none => .perr := rfl

theorem kw_nil {K : List Char} : kw K [] = .perr := rfl
theorem kw_blob {K : List Char} {b : List Nat} {ts : List Tok} : kw K (.blob b :: ts) = .perr := rfl
theorem kw_text {K l : List Char} {ts : List Tok} :
    kw K (.text l :: ts) = if upper l = K then .ok () ts true else .perr := by
  simp only [kw, satisfyMap, isKw, beq_iff_eq]
  split <;> simp_all

/-- a parser that looks at one text frame -/
theorem tok1_Ok {α : Type} {p : P α} {g : List Char → Option α} (h0 : p [] = .perr)
    (hb : ∀ b ts, p (.blob b :: ts) = .perr)
    (ht : ∀ l ts, p (.text l :: ts) = match g l with | some v => .ok v ts true | none => .perr)
    {ts : List Tok} {v : α} {r : List Tok} :
    Ok (p ts) v r ↔ ∃ l, ts = .text l :: r ∧ g l = some v := by
  cases ts with
  | nil => simp [h0]
  | cons t ts =>
    cases t with
    | blob b => simp [hb]
    | text l =>
      rw [ht]
      cases hg : g l with
      | none =>
        simp only [Ok_perr, List.cons.injEq, Tok.text.injEq, false_iff]
        rintro ⟨l', ⟨rfl, rfl⟩, h⟩; rw [hg] at h; cases h
      | some w =>
        simp only [Ok_ok, List.cons.injEq, Tok.text.injEq]
        constructor
        · rintro ⟨rfl, rfl⟩; exact ⟨l, ⟨rfl, rfl⟩, hg⟩
        · rintro ⟨l', ⟨rfl, rfl⟩, h⟩; rw [hg] at h; cases h; exact ⟨rfl, rfl⟩

theorem textMap_Ok {α : Type} {f : List Char → Option α} {ts : List Tok} {v : α} {r : List Tok} :
    Ok (textMap f ts) v r ↔ ∃ l, ts = .text l :: r ∧ f l = some v :=
  tok1_Ok textMap_nil (fun _ _ => textMap_blob) (fun _ _ => textMap_text)

theorem kw_Ok {K : List Char} {ts : List Tok} {u : Unit} {r : List Tok} :
    Ok (kw K ts) u r ↔ ∃ k, ts = .text k :: r ∧ upper k = K := by
  have := tok1_Ok (p := kw K) (g := fun l => if upper l = K then some () else none) (ts := ts) (v := u) (r := r)
    kw_nil (fun _ _ => kw_blob) (by intro l ts; rw [kw_text]; split <;> rfl)
  rw [this]
  constructor
  · rintro ⟨l, rfl, h⟩; split at h; · exact ⟨l, rfl, by assumption⟩
    · cases h
  · rintro ⟨l, rfl, h⟩; exact ⟨l, rfl, by simp [h]⟩

theorem kw_perr {K : List Char} {ts : List Tok} (h : headKw K ts = false) : kw K ts = .perr := by
  cases ts with
  | nil => rfl
  | cons t ts => simp only [headKw] at h; simp [kw, satisfyMap, h]

theorem str_Ok {ts : List Tok} {cs : List Char} {r : List Tok} : Ok (str ts) cs r ↔ ts = .text cs :: r := by
  simp only [str, textMap_Ok]
  constructor
  · rintro ⟨l, rfl, h⟩; cases h; rfl
  · rintro rfl; exact ⟨_, rfl, rfl⟩

theorem dataTok_Ok {ts : List Tok} {d : Tok} {r : List Tok} : Ok (dataTok ts) d r ↔ ts = d :: r := by
  simp only [dataTok, satisfyMap_Ok]
  constructor
  · rintro ⟨t, rfl, h⟩; cases h; rfl
  · rintro rfl; exact ⟨_, rfl, rfl⟩

theorem numberU64_Ok {ts : List Tok} {n : Nat} {r : List Tok} :
    Ok (numberU64 ts) n r ↔ ∃ l, ts = .text l :: r ∧ parseU64 l = some n := textMap_Ok

theorem partitionId_Ok {ts : List Tok} {n : Nat} {r : List Tok} :
    Ok (partitionId ts) n r ↔ ∃ l, ts = .text l :: r ∧ parseU16 l = some n := textMap_Ok

theorem partitionIds_Ok {ts : List Tok} {n : List Nat} {r : List Tok} :
    Ok (partitionIds ts) n r ↔ ∃ l, ts = .text l :: r ∧ parsePidList l = some n := textMap_Ok

theorem partitionIdSequence_Ok {ts : List Tok} {n : Nat × Nat} {r : List Tok} :
    Ok (partitionIdSequence ts) n r ↔ ∃ l, ts = .text l :: r ∧ parsePidSeq l = some n := textMap_Ok

theorem uuidP_Ok {ts : List Tok} {u : Nat} {r : List Tok} :
    Ok (uuidP ts) u r ↔ ∃ l, ts = .text l :: r ∧ uuidOf l = some u := by
  simp only [uuidP, andThen_Ok, str_Ok]

theorem streamId_Ok {ts : List Tok} {s : List Char} {r : List Tok} :
    Ok (streamId ts) s r ↔ ts = .text s :: r ∧ wfStream s := by
  simp only [streamId, andThen_Ok, textMap_Ok, wfStream]
  constructor
  · rintro ⟨v, ⟨l, rfl, h1⟩, h2⟩
    by_cases hr : isReserved l = true
    · simp [hr] at h1
    · simp only [hr] at h1
      injection h1 with h1
      subst h1
      by_cases hs : streamIdOk l = true
      · simp only [hs] at h2
        injection h2 with h2
        subst h2
        exact ⟨rfl, by simpa using hr, hs⟩
      · simp [hs] at h2
  · rintro ⟨rfl, hr, hs⟩
    exact ⟨s, ⟨s, rfl, by simp [hr]⟩, by simp [hs]⟩

theorem streamId_perr {ts : List Tok} (h : Stops ts) : streamId ts = .perr := by
  unfold streamId
  apply andThen_perr
  cases ts with
  | nil => rfl
  | cons t ts =>
    cases t with
    | text k => simp only [Stops] at h; simp [textMap_text, h]
    | blob b => rfl

theorem streamIdVersion_Ok {ts : List Tok} {x : List Char × Nat} {r : List Tok} :
    Ok (streamIdVersion ts) x r ↔
      ∃ l ab, ts = .text l :: r ∧ splitOnce '=' l = some ab ∧ streamVersionOf ab = some x := by
  simp only [streamIdVersion, andThen_Ok, textMap_Ok]
  constructor
  · rintro ⟨ab, ⟨l, rfl, h1⟩, h2⟩; exact ⟨l, ab, rfl, h1, h2⟩
  · rintro ⟨l, ab, rfl, h1, h2⟩; exact ⟨ab, ⟨l, rfl, h1⟩, h2⟩

theorem streamIdVersion_perr_kw {k K : List Char} {r : List Tok} (h : upper k = K) (hK : '=' ∉ K) :
    streamIdVersion (.text k :: r) = .perr := by
  unfold streamIdVersion
  apply andThen_perr
  simp [textMap_text, kw_splitOnce h hK]

theorem partitionIdSequence_perr_kw {k K : List Char} {r : List Tok} (h : upper k = K) (hK : '=' ∉ K) :
    partitionIdSequence (.text k :: r) = .perr := by
  simp [partitionIdSequence, textMap_text, parsePidSeq, kw_splitOnce h hK]

theorem expectedVersion_Ok {ts : List Tok} {e : Expected} {r : List Tok} :
    Ok (expectedVersion ts) e r ↔ ∃ l, ts = .text l :: r ∧ expectedOf l = some e := by
  apply tok1_Ok
  · rfl
  · intro b ts; rfl
  · intro l ts
    simp only [expectedVersion, orElse, pmap, numberU64, textMap_text, kw_text, expectedOf]
    cases hp : parseU64 l with
    | some v => rfl
    | none =>
      dsimp only
      have n1 : KW.exists_ ≠ KW.any := by decide
      have n2 : KW.empty ≠ KW.any := by decide
      have n3 : KW.empty ≠ KW.exists_ := by decide
      by_cases h1 : upper l = KW.any
      · simp [h1]
      · by_cases h2 : upper l = KW.exists_
        · simp [h2, n1]
        · by_cases h3 : upper l = KW.empty
          · simp [h3, n2, n3]
          · simp [h1, h2, h3]

theorem rangeValue_Ok {ts : List Tok} {v : RangeV} {r : List Tok} :
    Ok (rangeValue ts) v r ↔ ∃ l, ts = .text l :: r ∧ rangeOf l = some v := by
  apply tok1_Ok
  · rfl
  · intro b ts; rfl
  · intro l ts
    simp only [rangeValue, orElse, pmap, numberU64, textMap_text, kw_text, rangeOf]
    have n1 : KW.plus ≠ KW.minus := by decide
    by_cases h1 : upper l = KW.minus
    · simp [h1]
    · by_cases h2 : upper l = KW.plus
      · simp [h2, n1]
      · simp only [h1, h2, if_false]
        cases hp : parseU64 l <;> rfl

theorem partitionSelector_Ok {ts : List Tok} {v : PSel} {r : List Tok} :
    Ok (partitionSelector ts) v r ↔ ∃ l, ts = .text l :: r ∧ pselOf l = some v := by
  apply tok1_Ok
  · rfl
  · intro b ts; rfl
  · intro l ts
    simp only [partitionSelector, orElse, attempt, pmap, uuidP, andThen, str, partitionId, textMap_text, pselOf]
    cases hu : uuidOf l with
    | some u => rfl
    | none =>
      dsimp only
      cases hp : parseU16 l <;> rfl

end SierraModel.Server
