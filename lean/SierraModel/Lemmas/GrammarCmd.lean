/-
C21: every command parser accepts exactly the renderings of the well-formed documented forms, and
produces their denotation.
-/
import SierraModel.Lemmas.Grammar

namespace SierraModel.Server
open SierraModel.Version (parseU64 Expected)

/-! ## generic: optional / many over a piece of concrete syntax -/

section generic
variable {α σ : Type} {p : P α} {WFi : σ → Prop} {ren : σ → List Tok} {den : σ → α}
  {Side : σ → List Tok → Prop}

theorem optional_spec
    (hp : ∀ ts x r, Ok (p ts) x r ↔ ∃ s, WFi s ∧ ts = ren s ++ r ∧ x = den s ∧ Side s r)
    {ts : List Tok} {o : Option α} {r : List Tok} :
    Ok (optional p ts) o r ↔
      ∃ w : Option σ, (∀ s, w = some s → WFi s ∧ Side s r) ∧ ts = renderOpt ren w ++ r ∧ o = w.map den ∧
        (w = none → p r = .perr) := by
  rw [optional_Ok]
  constructor
  · rintro (⟨v, rfl, h⟩ | ⟨rfl, h, rfl⟩)
    · obtain ⟨s, hw, rfl, rfl, hs⟩ := (hp _ _ _).mp h
      exact ⟨some s, by rintro s' ⟨rfl⟩; exact ⟨hw, hs⟩, rfl, rfl, by simp⟩
    · exact ⟨none, by simp, by simp [renderOpt], rfl, fun _ => h⟩
  · rintro ⟨w, hw, rfl, rfl, hn⟩
    cases w with
    | none => right; exact ⟨rfl, hn rfl, by simp [renderOpt]⟩
    | some s =>
      left
      obtain ⟨h1, h2⟩ := hw s rfl
      exact ⟨den s, rfl, (hp _ _ _).mpr ⟨s, h1, rfl, rfl, h2⟩⟩

theorem consumes_of_spec
    (hp : ∀ ts x r, Ok (p ts) x r → ∃ s, ts = ren s ++ r) (hne : ∀ s, ren s ≠ []) : Consumes p := by
  intro ts v r h
  obtain ⟨s, rfl⟩ := hp ts v r h
  have := hne s
  cases hs : ren s with
  | nil => exact absurd hs this
  | cons a as => simp; omega

theorem Chain.wf : ∀ {ss : List σ} {r : List Tok}, Chain WFi ren Side ss r → ∀ s ∈ ss, WFi s := by
  intro ss
  induction ss with
  | nil => intro r _ s hs; cases hs
  | cons a as ih =>
    intro r hc s hs
    obtain ⟨h1, _, h3⟩ := hc
    rcases List.mem_cons.mp hs with rfl | hs
    · exact h1
    · exact ih h3 s hs

/-- a chain without side conditions -/
theorem Chain.of_wf (hside : ∀ s r, Side s r) : ∀ {ss : List σ} {r : List Tok}, (∀ s ∈ ss, WFi s) →
    Chain WFi ren Side ss r := by
  intro ss
  induction ss with
  | nil => intro r _; trivial
  | cons a as ih =>
    intro r h
    exact ⟨h a (by simp), hside _ _, ih (fun s hs => h s (by simp [hs]))⟩

theorem many_spec (hc : Consumes p)
    (hp : ∀ ts x r, Ok (p ts) x r ↔ ∃ s, WFi s ∧ ts = ren s ++ r ∧ x = den s ∧ Side s r)
    {ts : List Tok} {xs : List α} {r : List Tok} :
    Ok (many p ts) xs r ↔
      ∃ ss, ts = renderAll ren ss ++ r ∧ xs = ss.map den ∧ Chain WFi ren Side ss r ∧ p r = .perr := by
  rw [many_Ok hc, manyRel_spec hp]

theorem many1_spec (hc : Consumes p)
    (hp : ∀ ts x r, Ok (p ts) x r ↔ ∃ s, WFi s ∧ ts = ren s ++ r ∧ x = den s ∧ Side s r)
    {ts : List Tok} {xs : List α} {r : List Tok} :
    Ok (many1 p ts) xs r ↔
      ∃ ss, ss ≠ [] ∧ ts = renderAll ren ss ++ r ∧ xs = ss.map den ∧ Chain WFi ren Side ss r ∧
        p r = .perr := by
  rw [many1_Ok hc]
  constructor
  · rintro ⟨v, vs, r1, rfl, h1, h2⟩
    obtain ⟨ss, rfl, rfl, hch, hr⟩ := (manyRel_spec hp).mp h2
    obtain ⟨s, hw, rfl, rfl, hs⟩ := (hp _ _ _).mp h1
    exact ⟨s :: ss, by simp, by simp [renderAll], rfl, ⟨hw, hs, hch⟩, hr⟩
  · rintro ⟨ss, hne, rfl, rfl, hch, hr⟩
    cases ss with
    | nil => exact absurd rfl hne
    | cons s ss =>
      obtain ⟨hw, hs, hch'⟩ := hch
      refine ⟨den s, ss.map den, renderAll ren ss ++ r, rfl, ?_, ?_⟩
      · have := (hp (ren s ++ (renderAll ren ss ++ r)) (den s) (renderAll ren ss ++ r)).mpr ⟨s, hw, rfl, rfl, hs⟩
        simpa [renderAll, List.append_assoc] using this
      · exact (manyRel_spec hp).mpr ⟨ss, rfl, rfl, hch', hr⟩

end generic

/-! ## what may follow: end of input or one of some keywords -/

/-- the input is empty or starts with (a lexeme of) one of the keywords `Ks` -/
def StartsKw (Ks : List (List Char)) (r : List Tok) : Prop :=
  r = [] ∨ ∃ k rest, r = .text k :: rest ∧ upper k ∈ Ks

theorem StartsKw.nil {Ks : List (List Char)} : StartsKw Ks [] := Or.inl rfl

theorem StartsKw.mono {Ks Ks' : List (List Char)} {r : List Tok} (h : StartsKw Ks r) (hs : ∀ K ∈ Ks, K ∈ Ks') :
    StartsKw Ks' r := by
  rcases h with rfl | ⟨k, rest, rfl, hk⟩
  · exact Or.inl rfl
  · exact Or.inr ⟨k, rest, rfl, hs _ hk⟩

theorem StartsKw.stops {Ks : List (List Char)} {r : List Tok} (h : StartsKw Ks r) (hK : ∀ K ∈ Ks, K ∈ reserved) :
    Stops r := by
  rcases h with rfl | ⟨k, rest, rfl, hk⟩
  · trivial
  · exact reserved_of_kw rfl (hK _ hk)

theorem StartsKw.headKw {Ks : List (List Char)} {r : List Tok} (h : StartsKw Ks r) {K : List Char} (hK : K ∉ Ks) :
    headKw K r = false := by
  rcases h with rfl | ⟨k, rest, rfl, hk⟩
  · rfl
  · simp only [SierraModel.Server.headKw, isKw, beq_eq_false_iff_ne, ne_eq]
    rintro rfl; exact hK hk

theorem StartsKw.streamIdVersion {Ks : List (List Char)} {r : List Tok} (h : StartsKw Ks r)
    (hK : ∀ K ∈ Ks, '=' ∉ K) : streamIdVersion r = .perr := by
  rcases h with rfl | ⟨k, rest, rfl, hk⟩
  · rfl
  · exact streamIdVersion_perr_kw rfl (hK _ hk)

theorem StartsKw.partitionIdSequence {Ks : List (List Char)} {r : List Tok} (h : StartsKw Ks r)
    (hK : ∀ K ∈ Ks, '=' ∉ K) : partitionIdSequence r = .perr := by
  rcases h with rfl | ⟨k, rest, rfl, hk⟩
  · rfl
  · exact partitionIdSequence_perr_kw rfl (hK _ hk)

theorem startsKw_append {Ks : List (List Char)} {a b : List Tok} (ha : StartsKw Ks a) (hb : StartsKw Ks b) :
    StartsKw Ks (a ++ b) := by
  rcases ha with rfl | ⟨k, rest, rfl, hk⟩
  · simpa using hb
  · exact Or.inr ⟨k, rest ++ b, rfl, hk⟩

/-! ## clauses -/

theorem pkClause_Ok {ts : List Tok} {u : Nat} {r : List Tok} :
    Ok (pkClause ts) u r ↔ ∃ p : PkClause, p.WF ∧ ts = p.render ++ r ∧ u = uuidVal p.uuid ∧ True := by
  simp only [pkClause, withP_Ok, kw_Ok, uuidP_Ok]
  constructor
  · rintro ⟨_, r1, ⟨k, rfl, hk⟩, ⟨l, rfl, hl⟩⟩
    exact ⟨⟨k, l⟩, ⟨hk, by simp [wfUuid, hl]⟩, rfl, by simp [uuidVal, hl], trivial⟩
  · rintro ⟨⟨k, l⟩, ⟨hk, hl⟩, rfl, rfl, _⟩
    refine ⟨(), _, ⟨k, rfl, hk⟩, ⟨l, rfl, ?_⟩⟩
    simp only [wfUuid] at hl
    cases h : uuidOf l with
    | none => rw [h] at hl; cases hl
    | some u => simp [uuidVal, h]

theorem pkClause_perr {ts : List Tok} (h : headKw KW.partitionKey ts = false) : pkClause ts = .perr :=
  withP_perr (kw_perr h)

theorem numClause_Ok {K : List Char} {ts : List Tok} {n : Nat} {r : List Tok} :
    Ok (withP (kw K) numberU64 ts) n r ↔ ∃ c : NumClause, c.WF K ∧ ts = c.render ++ r ∧ n = numOf c.num ∧ True := by
  simp only [withP_Ok, kw_Ok, numberU64_Ok]
  constructor
  · rintro ⟨_, r1, ⟨k, rfl, hk⟩, ⟨l, rfl, hl⟩⟩
    exact ⟨⟨k, l⟩, ⟨hk, by simp [wfU64, hl]⟩, rfl, by simp [numOf, hl], trivial⟩
  · rintro ⟨⟨k, l⟩, ⟨hk, hl⟩, rfl, rfl, _⟩
    refine ⟨(), _, ⟨k, rfl, hk⟩, ⟨l, rfl, ?_⟩⟩
    simp only [wfU64] at hl
    cases h : parseU64 l with
    | none => rw [h] at hl; cases hl
    | some u => simp [numOf, h]

theorem windowP_Ok {ts : List Tok} {n : Nat} {r : List Tok} :
    Ok (windowP ts) n r ↔ ∃ c : NumClause, c.WFWindow ∧ ts = c.render ++ r ∧ n = numOf c.num ∧ True := by
  simp only [windowP, numberU64Min, withP_Ok, kw_Ok, andThen_Ok, numberU64_Ok]
  constructor
  · rintro ⟨_, r1, ⟨k, rfl, hk⟩, ⟨v, ⟨l, rfl, hl⟩, hv⟩⟩
    split at hv
    · cases hv
    · injection hv with hv; subst hv
      exact ⟨⟨k, l⟩, ⟨hk, v, hl, by omega⟩, rfl, by simp [numOf, hl], trivial⟩
  · rintro ⟨⟨k, l⟩, ⟨hk, v, hl, hv⟩, rfl, rfl, _⟩
    refine ⟨(), _, ⟨k, rfl, hk⟩, ⟨v, ⟨l, rfl, hl⟩, ?_⟩⟩
    have : ¬ v < 1 := by omega
    simp [numOf, hl, this]

theorem windowP_perr {ts : List Tok} (h : headKw KW.window ts = false) : windowP ts = .perr :=
  withP_perr (kw_perr h)

/-- a keyword lexeme is not a number -/
theorem kw_not_num {k K : List Char} (h : upper k = K)
    (hK : ∀ c rest, K = c :: rest → c ≠ '+' ∧ Version.isDigit c = false) : parseU64 k = none := by
  cases hp : parseU64 k with
  | none => rfl
  | some v => exact absurd h (num_not_kw hp hK)

/-! ## ESUB -/

def StreamSel.Side (s : StreamSel) (r : List Tok) : Prop := s.pk = none → pkClause r = .perr

theorem esubSelItem_Ok {ts : List Tok} {x : List Char × Option Nat} {r : List Tok} :
    Ok (esubSelItem ts) x r ↔ ∃ s : StreamSel, s.WF ∧ ts = s.render ++ r ∧ x = s.denote ∧ s.Side r := by
  simp only [esubSelItem, seq_Ok, streamId_Ok, optional_spec (fun _ _ _ => pkClause_Ok)]
  constructor
  · rintro ⟨r1, ⟨rfl, hs⟩, w, hw, rfl, hx, hn⟩
    refine ⟨⟨x.1, w⟩, ⟨hs, fun p hp => (hw p hp).1⟩, by simp [StreamSel.render], ?_, hn⟩
    cases x; simp only [StreamSel.denote] at *; rw [hx]
  · rintro ⟨⟨id, pk⟩, ⟨hs, hp⟩, rfl, rfl, hn⟩
    exact ⟨renderOpt PkClause.render pk ++ r, ⟨by simp [StreamSel.render, StreamSel.denote], hs⟩, pk,
      fun p h => ⟨hp p h, trivial⟩, rfl, rfl, hn⟩

theorem esubSelItem_consumes : Consumes esubSelItem :=
  consumes_of_spec (ren := StreamSel.render)
    (fun ts x r h => by obtain ⟨s, _, h2, _⟩ := esubSelItem_Ok.mp h; exact ⟨s, h2⟩)
    (by intro s; simp [StreamSel.render])

theorem esubSelItem_perr {r : List Tok} (h : Stops r) : esubSelItem r = .perr :=
  seq_perr (streamId_perr h)

/-- the selectors of a documented form chain: after a selector without PARTITION_KEY comes another
stream id, FROM, WINDOW or the end -/
theorem esub_chain {Ks : List (List Char)} {R : List Tok} (hR : StartsKw Ks R) (hK : KW.partitionKey ∉ Ks) :
    ∀ {sels : List StreamSel}, (∀ s ∈ sels, s.WF) →
      Chain StreamSel.WF StreamSel.render StreamSel.Side sels R := by
  intro sels
  induction sels with
  | nil => intro _; trivial
  | cons s ss ih =>
    intro h
    refine ⟨h s (by simp), ?_, ih (fun x hx => h x (by simp [hx]))⟩
    intro _
    apply pkClause_perr
    cases ss with
    | nil => simpa [renderAll] using hR.headKw hK
    | cons s' ss' =>
      have hw : s'.WF := h s' (by simp)
      simp only [renderAll, StreamSel.render, List.cons_append, headKw, isKw, beq_eq_false_iff_ne, ne_eq]
      exact not_kw_of_not_reserved hw.1.1 (by decide)

def entryTok (e : List Char) : List Tok := [.text e]

theorem streamIdVersion_spec {ts : List Tok} {x : List Char × Nat} {r : List Tok} :
    Ok (streamIdVersion ts) x r ↔ ∃ e, wfStreamVersion e ∧ ts = entryTok e ++ r ∧ x = entryVal e ∧ True := by
  simp only [streamIdVersion_Ok, wfStreamVersion, entryTok, entryVal]
  constructor
  · rintro ⟨l, ab, rfl, h1, h2⟩
    exact ⟨l, by simp [h1, h2], rfl, by simp [h1, h2], trivial⟩
  · rintro ⟨e, hw, rfl, rfl, _⟩
    cases h1 : splitOnce '=' e with
    | none => simp [h1] at hw
    | some ab =>
      cases h2 : streamVersionOf ab with
      | none => simp [h1, h2] at hw
      | some v => exact ⟨e, ab, rfl, h1, by simp [h2]⟩

theorem streamIdVersion_consumes : Consumes streamIdVersion :=
  consumes_of_spec (ren := entryTok)
    (fun ts x r h => by obtain ⟨s, _, h2, _⟩ := streamIdVersion_spec.mp h; exact ⟨s, h2⟩)
    (by intro s; simp [entryTok])

theorem renderAll_entryTok (es : List (List Char)) : renderAll entryTok es = es.map .text := by
  induction es with
  | nil => rfl
  | cons e es ih => simp [renderAll, entryTok, ih]

def EsubFrom.Side (x : EsubFrom) (r : List Tok) : Prop :=
  ∀ kf km es, x = .map kf km es → streamIdVersion r = .perr

theorem esubFrom_Ok {ts : List Tok} {f : EsubFromV} {r : List Tok} :
    Ok (esubFrom ts) f r ↔ ∃ x : EsubFrom, x.WF ∧ ts = x.render ++ r ∧ f = x.denote ∧ x.Side r := by
  simp only [esubFrom, withP_Ok, kw_Ok]
  constructor
  · rintro ⟨_, r1, ⟨kf, rfl, hkf⟩, h⟩
    rcases orElse_Ok.mp h with h1 | ⟨_, h1⟩
    · obtain ⟨_, h2, rfl⟩ := pmap_Ok.mp h1
      obtain ⟨kl, rfl, hkl⟩ := kw_Ok.mp h2
      exact ⟨.latest kf kl, ⟨hkf, hkl⟩, rfl, rfl, by intro _ _ _ h; cases h⟩
    · rcases orElse_Ok.mp h1 with h2 | ⟨_, h2⟩
      · obtain ⟨n, h3, rfl⟩ := pmap_Ok.mp h2
        obtain ⟨l, rfl, hl⟩ := numberU64_Ok.mp h3
        exact ⟨.version kf l, ⟨hkf, by simp [wfU64, hl]⟩, rfl, by simp [EsubFrom.denote, numOf, hl],
          by intro _ _ _ h; cases h⟩
      · obtain ⟨m, h3, rfl⟩ := pmap_Ok.mp h2
        obtain ⟨_, r2, h4, h5⟩ := withP_Ok.mp h3
        obtain ⟨km, rfl, hkm⟩ := kw_Ok.mp h4
        obtain ⟨es, hne, rfl, rfl, hch, hr⟩ := (many1_spec streamIdVersion_consumes (fun _ _ _ => streamIdVersion_spec)).mp h5
        refine ⟨.map kf km es, ⟨hkf, hkm, hne, Chain.wf hch⟩, ?_, rfl, ?_⟩
        · simp [EsubFrom.render, renderAll_entryTok]
        · intro _ _ _ _; exact hr
  · rintro ⟨x, hw, rfl, rfl, hs⟩
    cases x with
    | latest kf kl =>
      obtain ⟨hkf, hkl⟩ := hw
      refine ⟨(), .text kl :: r, ⟨kf, rfl, hkf⟩, orElse_Ok.mpr (Or.inl ?_)⟩
      exact pmap_Ok.mpr ⟨(), kw_Ok.mpr ⟨kl, rfl, hkl⟩, rfl⟩
    | version kf n =>
      obtain ⟨hkf, hn⟩ := hw
      simp only [wfU64] at hn
      cases hp : parseU64 n with
      | none => rw [hp] at hn; cases hn
      | some v =>
        refine ⟨(), .text n :: r, ⟨kf, rfl, hkf⟩, orElse_Ok.mpr (Or.inr ⟨?_, orElse_Ok.mpr (Or.inl ?_)⟩)⟩
        · apply pmap_perr
          rw [kw_text, if_neg (num_not_latest hp)]
        · exact pmap_Ok.mpr ⟨v, numberU64_Ok.mpr ⟨n, rfl, hp⟩, by simp [EsubFrom.denote, numOf, hp]⟩
    | map kf km es =>
      obtain ⟨hkf, hkm, hne, hes⟩ := hw
      have hnum : parseU64 km = none := kw_not_num hkm (by intro c rest hk; cases hk; decide)
      refine ⟨(), .text km :: (es.map .text ++ r), ⟨kf, by simp [EsubFrom.render], hkf⟩,
        orElse_Ok.mpr (Or.inr ⟨?_, orElse_Ok.mpr (Or.inr ⟨?_, ?_⟩)⟩)⟩
      · apply pmap_perr
        rw [kw_text, if_neg (by rw [hkm]; decide)]
      · apply pmap_perr
        simp [numberU64, textMap_text, hnum]
      · refine pmap_Ok.mpr ⟨es.map entryVal, withP_Ok.mpr ⟨(), _, kw_Ok.mpr ⟨km, rfl, hkm⟩, ?_⟩, rfl⟩
        refine (many1_spec streamIdVersion_consumes (fun _ _ _ => streamIdVersion_spec)).mpr
          ⟨es, hne, by simp [renderAll_entryTok], rfl, Chain.of_wf (fun _ _ => trivial) hes, hs _ _ _ rfl⟩

theorem esubFrom_perr {ts : List Tok} (h : headKw KW.from_ ts = false) : esubFrom ts = .perr :=
  withP_perr (kw_perr h)

theorem EsubFrom.startsKw {x : EsubFrom} (h : x.WF) (r : List Tok) : StartsKw [KW.from_] (x.render ++ r) := by
  cases x with
  | latest kf kl => exact Or.inr ⟨kf, _, rfl, by rw [show upper kf = KW.from_ from h.1]; simp⟩
  | version kf n => exact Or.inr ⟨kf, _, rfl, by rw [show upper kf = KW.from_ from h.1]; simp⟩
  | map kf km es => exact Or.inr ⟨kf, _, rfl, by rw [show upper kf = KW.from_ from h.1]; simp⟩

theorem NumClause.startsKw {c : NumClause} {K : List Char} (h : upper c.kw = K) (r : List Tok) :
    StartsKw [K] (c.render ++ r) :=
  Or.inr ⟨c.kw, _, rfl, by simp [h]⟩

theorem optWindow_startsKw {w : Option NumClause} (hw : ∀ c, w = some c → c.WFWindow) :
    StartsKw [KW.window] (renderOpt NumClause.render w ++ []) := by
  cases w with
  | none => exact Or.inl rfl
  | some c => exact NumClause.startsKw (hw c rfl).1 []

/-- ESUB: the parser accepts exactly the renderings of well-formed ESUB forms -/
theorem esubP_Ok {ts : List Tok} {req : Request} :
    Ok (esubP ts) req [] ↔
      ∃ sels f w, (DocCmd.esub sels f w).WF ∧ ts = (DocCmd.esub sels f w).render ∧
        req = (DocCmd.esub sels f w).denote := by
  simp only [esubP, pmap_Ok, seq_Ok, optional_spec (fun _ _ _ => esubFrom_Ok), optional_spec (fun _ _ _ => windowP_Ok),
    many1_spec esubSelItem_consumes (fun _ _ _ => esubSelItem_Ok)]
  constructor
  · rintro ⟨⟨xs, xf, xw⟩, ⟨r1, ⟨sels, hne, rfl, hxs, hch, _⟩, r2, ⟨f, hf, rfl, hxf, _⟩, w, hw, rfl, hxw, _⟩, rfl⟩
    simp only at hxs hxf hxw
    subst hxs hxf hxw
    exact ⟨sels, f, w, ⟨hne, Chain.wf hch, fun x hx => (hf x hx).1, fun c hc => (hw c hc).1⟩,
      by simp [DocCmd.render], rfl⟩
  · rintro ⟨sels, f, w, ⟨hne, hsels, hf, hw⟩, rfl, rfl⟩
    have hW : StartsKw [KW.window] (renderOpt NumClause.render w ++ []) := optWindow_startsKw hw
    have hF : StartsKw [KW.from_, KW.window] (renderOpt EsubFrom.render f ++ (renderOpt NumClause.render w ++ [])) := by
      cases f with
      | none => simpa [renderOpt] using hW.mono (by simp)
      | some x => exact (EsubFrom.startsKw (hf x rfl) _).mono (by simp)
    refine ⟨(sels.map StreamSel.denote, f.map EsubFrom.denote, w.map (fun c => numOf c.num)),
      ⟨renderOpt EsubFrom.render f ++ (renderOpt NumClause.render w ++ []),
        ⟨sels, hne, by simp [DocCmd.render], rfl, esub_chain hF (by decide) hsels,
          esubSelItem_perr (hF.stops (by decide))⟩,
        renderOpt NumClause.render w ++ [],
        ⟨f, fun x hx => ⟨hf x hx, ?_⟩, rfl, rfl, fun _ => esubFrom_perr (hW.headKw (by decide))⟩,
        w, fun c hc => ⟨hw c hc, trivial⟩, rfl, rfl, fun _ => rfl⟩, rfl⟩
    intro _ _ _ _
    exact hW.streamIdVersion (by decide)

/-! ## EPSUB -/

/-- the selector frame of EPSUB: `*`, else a partition id, else a comma separated list -/
def epsubSelOf (l : List Char) : Option EpsubSelV :=
  if upper l = KW.star then some .all
  else match parseU16 l with
    | some p => some (.one p)
    | none => (parsePidList l).map .many

theorem epsubSel_Ok {ts : List Tok} {v : EpsubSelV} {r : List Tok} :
    Ok (epsubSel ts) v r ↔ ∃ sel : EpsubSel, sel.WF ∧ ts = .text sel.lex :: r ∧ v = sel.denote := by
  have key : Ok (epsubSel ts) v r ↔ ∃ l, ts = .text l :: r ∧ epsubSelOf l = some v := by
    apply tok1_Ok
    · rfl
    · intro b ts; rfl
    · intro l ts
      simp only [epsubSel, orElse, pmap, partitionId, partitionIds, textMap_text, kw_text, epsubSelOf]
      by_cases h1 : upper l = KW.star
      · simp [h1]
      · simp only [h1, if_false]
        cases hp : parseU16 l with
        | some p => rfl
        | none =>
          dsimp only
          cases hl : parsePidList l <;> rfl
  rw [key]
  constructor
  · rintro ⟨l, rfl, h⟩
    unfold epsubSelOf at h
    by_cases h1 : upper l = KW.star
    · simp only [h1, if_true] at h
      injection h with h; subst h
      exact ⟨.all l, h1, rfl, rfl⟩
    · simp only [h1, if_false] at h
      cases hp : parseU16 l with
      | some p =>
        rw [hp] at h; injection h with h; subst h
        exact ⟨.one l, by simp [EpsubSel.WF, hp], rfl, by simp [EpsubSel.denote, hp]⟩
      | none =>
        rw [hp] at h
        cases hl : parsePidList l with
        | none => rw [hl] at h; cases h
        | some ps =>
          rw [hl] at h; injection h with h; subst h
          exact ⟨.list l, ⟨h1, hp, by simp [hl]⟩, rfl, by simp [EpsubSel.denote, hl]⟩
  · rintro ⟨sel, hw, rfl, rfl⟩
    cases sel with
    | all l => exact ⟨l, rfl, by simp [epsubSelOf, show upper l = KW.star from hw, EpsubSel.denote]⟩
    | one l =>
      simp only [EpsubSel.WF] at hw
      cases hp : parseU16 l with
      | none => rw [hp] at hw; cases hw
      | some p =>
        exact ⟨l, rfl, by simp [epsubSelOf, num_not_star (parseU16_some hp), hp, EpsubSel.denote]⟩
    | list l =>
      obtain ⟨h1, h2, h3⟩ := hw
      cases hl : parsePidList l with
      | none => rw [hl] at h3; cases h3
      | some ps => exact ⟨l, rfl, by simp [epsubSelOf, h1, h2, hl, EpsubSel.denote]⟩

theorem partitionIdSequence_spec {ts : List Tok} {x : Nat × Nat} {r : List Tok} :
    Ok (partitionIdSequence ts) x r ↔ ∃ e, wfPidSeq e ∧ ts = entryTok e ++ r ∧ x = pidSeqVal e ∧ True := by
  simp only [partitionIdSequence_Ok, wfPidSeq, entryTok, pidSeqVal]
  constructor
  · rintro ⟨l, rfl, h⟩; exact ⟨l, by simp [h], rfl, by simp [h], trivial⟩
  · rintro ⟨e, hw, rfl, rfl, _⟩
    cases h : parsePidSeq e with
    | none => simp [h] at hw
    | some v => exact ⟨e, rfl, by simp [h]⟩

theorem partitionIdSequence_consumes : Consumes partitionIdSequence :=
  consumes_of_spec (ren := entryTok)
    (fun ts x r h => by obtain ⟨s, _, h2, _⟩ := partitionIdSequence_spec.mp h; exact ⟨s, h2⟩)
    (by intro s; simp [entryTok])

def EpsubFrom.Side (x : EpsubFrom) (r : List Tok) : Prop :=
  ∀ kf km es, x = .map kf km es none →
    partitionIdSequence r = .perr ∧ withP (kw KW.default_) numberU64 r = .perr

theorem epsubFrom_Ok {ts : List Tok} {f : FromSeqs} {r : List Tok} :
    Ok (epsubFrom ts) f r ↔ ∃ x : EpsubFrom, x.WF ∧ ts = x.render ++ r ∧ f = x.denote ∧ x.Side r := by
  simp only [epsubFrom, withP_Ok, kw_Ok]
  constructor
  · rintro ⟨_, r1, ⟨kf, rfl, hkf⟩, h⟩
    rcases orElse_Ok.mp h with h1 | ⟨_, h1⟩
    · obtain ⟨_, h2, rfl⟩ := pmap_Ok.mp h1
      obtain ⟨kl, rfl, hkl⟩ := kw_Ok.mp h2
      exact ⟨.latest kf kl, ⟨hkf, hkl⟩, rfl, rfl, by intro _ _ _ h; cases h⟩
    · rcases orElse_Ok.mp h1 with h2 | ⟨_, h2⟩
      · obtain ⟨n, h3, rfl⟩ := pmap_Ok.mp h2
        obtain ⟨l, rfl, hl⟩ := numberU64_Ok.mp h3
        exact ⟨.seq kf l, ⟨hkf, by simp [wfU64, hl]⟩, rfl, by simp [EpsubFrom.denote, numOf, hl],
          by intro _ _ _ h; cases h⟩
      · obtain ⟨m, h3, rfl⟩ := pmap_Ok.mp h2
        obtain ⟨_, r2, h4, h5⟩ := withP_Ok.mp h3
        obtain ⟨km, rfl, hkm⟩ := kw_Ok.mp h4
        obtain ⟨r3, h6, h7⟩ := seq_Ok.mp h5
        obtain ⟨es, hne, rfl, hm1, hch, hr⟩ :=
          (many1_spec partitionIdSequence_consumes (fun _ _ _ => partitionIdSequence_spec)).mp h6
        obtain ⟨d, hd, rfl, hm2, hdn⟩ := (optional_spec (fun _ _ _ => numClause_Ok)).mp h7
        refine ⟨.map kf km es d, ⟨hkf, hkm, hne, Chain.wf hch, fun c hc => (hd c hc).1⟩, ?_, ?_, ?_⟩
        · simp [EpsubFrom.render, renderAll_entryTok]
        · simp only [EpsubFrom.denote, hm1, hm2]
        · intro _ _ _ hx
          injection hx with _ _ _ hx; subst hx
          exact ⟨by simpa [renderOpt] using hr, hdn rfl⟩
  · rintro ⟨x, hw, rfl, rfl, hs⟩
    cases x with
    | latest kf kl =>
      obtain ⟨hkf, hkl⟩ := hw
      refine ⟨(), .text kl :: r, ⟨kf, rfl, hkf⟩, orElse_Ok.mpr (Or.inl ?_)⟩
      exact pmap_Ok.mpr ⟨(), kw_Ok.mpr ⟨kl, rfl, hkl⟩, rfl⟩
    | seq kf n =>
      obtain ⟨hkf, hn⟩ := hw
      simp only [wfU64] at hn
      cases hp : parseU64 n with
      | none => rw [hp] at hn; cases hn
      | some v =>
        refine ⟨(), .text n :: r, ⟨kf, rfl, hkf⟩, orElse_Ok.mpr (Or.inr ⟨?_, orElse_Ok.mpr (Or.inl ?_)⟩)⟩
        · apply pmap_perr
          rw [kw_text, if_neg (num_not_latest hp)]
        · exact pmap_Ok.mpr ⟨v, numberU64_Ok.mpr ⟨n, rfl, hp⟩, by simp [EpsubFrom.denote, numOf, hp]⟩
    | map kf km es d =>
      obtain ⟨hkf, hkm, hne, hes, hd⟩ := hw
      have hnum : parseU64 km = none := kw_not_num hkm (by intro c rest hk; cases hk; decide)
      refine ⟨(), .text km :: (es.map .text ++ (renderOpt NumClause.render d ++ r)),
        ⟨kf, by simp [EpsubFrom.render], hkf⟩,
        orElse_Ok.mpr (Or.inr ⟨?_, orElse_Ok.mpr (Or.inr ⟨?_, ?_⟩)⟩)⟩
      · apply pmap_perr
        rw [kw_text, if_neg (by rw [hkm]; decide)]
      · apply pmap_perr
        simp [numberU64, textMap_text, hnum]
      · refine pmap_Ok.mpr ⟨(es.map pidSeqVal, d.map (fun c => numOf c.num)),
          withP_Ok.mpr ⟨(), _, kw_Ok.mpr ⟨km, rfl, hkm⟩, seq_Ok.mpr ⟨renderOpt NumClause.render d ++ r, ?_, ?_⟩⟩, rfl⟩
        · refine (many1_spec partitionIdSequence_consumes (fun _ _ _ => partitionIdSequence_spec)).mpr
            ⟨es, hne, by simp [renderAll_entryTok], rfl, Chain.of_wf (fun _ _ => trivial) hes, ?_⟩
          cases d with
          | none => simpa [renderOpt] using (hs _ _ _ rfl).1
          | some c => exact (NumClause.startsKw (hd c rfl).1 r).partitionIdSequence (by decide)
        · refine (optional_spec (fun _ _ _ => numClause_Ok)).mpr
            ⟨d, fun c hc => ⟨hd c hc, trivial⟩, rfl, rfl, ?_⟩
          rintro rfl
          exact (hs _ _ _ rfl).2

theorem epsubFrom_perr {ts : List Tok} (h : headKw KW.from_ ts = false) : epsubFrom ts = .perr :=
  withP_perr (kw_perr h)

theorem EpsubFrom.startsKw {x : EpsubFrom} (h : x.WF) (r : List Tok) : StartsKw [KW.from_] (x.render ++ r) := by
  cases x with
  | latest kf kl => exact Or.inr ⟨kf, _, rfl, by rw [show upper kf = KW.from_ from h.1]; simp⟩
  | seq kf n => exact Or.inr ⟨kf, _, rfl, by rw [show upper kf = KW.from_ from h.1]; simp⟩
  | map kf km es d => exact Or.inr ⟨kf, _, rfl, by rw [show upper kf = KW.from_ from h.1]; simp⟩

/-- EPSUB: the parser accepts exactly the renderings of well-formed EPSUB forms -/
theorem epsubP_Ok {ts : List Tok} {req : Request} :
    Ok (epsubP ts) req [] ↔
      ∃ sel f w, (DocCmd.epsub sel f w).WF ∧ ts = (DocCmd.epsub sel f w).render ∧
        req = (DocCmd.epsub sel f w).denote := by
  simp only [epsubP, pmap_Ok, seq_Ok, optional_spec (fun _ _ _ => epsubFrom_Ok),
    optional_spec (fun _ _ _ => windowP_Ok), epsubSel_Ok]
  constructor
  · rintro ⟨⟨xs, xf, xw⟩, ⟨r1, ⟨sel, hsel, rfl, hxs⟩, r2, ⟨f, hf, rfl, hxf, _⟩, w, hw, rfl, hxw, _⟩, rfl⟩
    simp only at hxs hxf hxw
    subst hxs hxf hxw
    exact ⟨sel, f, w, ⟨hsel, fun x hx => (hf x hx).1, fun c hc => (hw c hc).1⟩, by simp [DocCmd.render], rfl⟩
  · rintro ⟨sel, f, w, ⟨hsel, hf, hw⟩, rfl, rfl⟩
    have hW : StartsKw [KW.window] (renderOpt NumClause.render w ++ []) := optWindow_startsKw hw
    refine ⟨(sel.denote, f.map EpsubFrom.denote, w.map (fun c => numOf c.num)),
      ⟨renderOpt EpsubFrom.render f ++ (renderOpt NumClause.render w ++ []),
        ⟨sel, hsel, by simp [DocCmd.render], rfl⟩,
        renderOpt NumClause.render w ++ [],
        ⟨f, fun x hx => ⟨hf x hx, ?_⟩, rfl, rfl, fun _ => epsubFrom_perr (hW.headKw (by decide))⟩,
        w, fun c hc => ⟨hw c hc, trivial⟩, rfl, rfl, fun _ => rfl⟩, rfl⟩
    intro _ _ _ _
    exact ⟨hW.partitionIdSequence (by decide), withP_perr (kw_perr (hW.headKw (by decide)))⟩

end SierraModel.Server
