/-
C21: EAPPEND / EMAPPEND / ESCAN / EPSCAN / EGET / ESVER / EPSEQ / EACK — each parser accepts exactly
the renderings of the well-formed documented forms.
-/
import SierraModel.Lemmas.GrammarCmd

namespace SierraModel.Server
open SierraModel.Version (parseU64 Expected)

/-! ## one optional clause: `attempt(keyword(K).with(arg).map(ctor))` -/

section alt
variable {α β : Type}

theorem alt_Ok {K : List Char} {q : P α} {f : α → β} {ts : List Tok} {v : β} {r : List Tok} :
    Ok (attempt (pmap (withP (kw K) q) f) ts) v r ↔
      ∃ k a r1, ts = .text k :: r1 ∧ upper k = K ∧ Ok (q r1) a r ∧ v = f a := by
  simp only [attempt_Ok, pmap_Ok, withP_Ok, kw_Ok]
  constructor
  · rintro ⟨a, ⟨_, r1, ⟨k, rfl, hk⟩, hq⟩, rfl⟩; exact ⟨k, a, r1, rfl, hk, hq, rfl⟩
  · rintro ⟨k, a, r1, rfl, hk, hq, rfl⟩; exact ⟨a, ⟨(), r1, ⟨k, rfl, hk⟩, hq⟩, rfl⟩

theorem alt_perr {K : List Char} {q : P α} {f : α → β} {ts : List Tok} (h : headKw K ts = false) :
    attempt (pmap (withP (kw K) q) f) ts = .perr :=
  attempt_perr (pmap_perr (withP_perr (kw_perr h)))

end alt

/-- the six clause keywords of EAPPEND -/
def appendKws : List (List Char) :=
  [KW.eventId, KW.partitionKey, KW.expectedVersion, KW.timestamp, KW.payload, KW.metadata]

theorem appendClause_perr {pk : Bool} {r : List Tok} (h : ∀ K ∈ appendKws, headKw K r = false) :
    appendClause pk r = .perr := by
  unfold appendClause
  have h1 := h KW.eventId (by simp [appendKws])
  have h2 := h KW.partitionKey (by simp [appendKws])
  have h3 := h KW.expectedVersion (by simp [appendKws])
  have h4 := h KW.timestamp (by simp [appendKws])
  have h5 := h KW.payload (by simp [appendKws])
  have h6 := h KW.metadata (by simp [appendKws])
  refine orElse_perr (alt_perr h1) (orElse_perr ?_ (orElse_perr (alt_perr h3) (orElse_perr (alt_perr h4)
    (orElse_perr (alt_perr h5) (alt_perr h6)))))
  cases pk
  · rfl
  · exact alt_perr h2

theorem appendClause_perr_nil {pk : Bool} : appendClause pk [] = .perr :=
  appendClause_perr (by intro K _; rfl)

theorem appendClause_perr_stream {pk : Bool} {s : List Char} {r : List Tok} (h : wfStream s) :
    appendClause pk (.text s :: r) = .perr := by
  apply appendClause_perr
  intro K hK
  simp only [headKw, isKw, beq_eq_false_iff_ne, ne_eq]
  refine not_kw_of_not_reserved h.1 ?_
  simp only [appendKws, List.mem_cons, List.not_mem_nil, or_false] at hK
  rcases hK with rfl | rfl | rfl | rfl | rfl | rfl <;> decide

def AppendClause.WFin (pk : Bool) (c : AppendClause) : Prop := c.WF ∧ (pk = false → c.kind ≠ .partitionKey)

theorem uuid_some {l : List Char} (h : wfUuid l) : uuidOf l = some (uuidVal l) := by
  simp only [wfUuid] at h
  cases hu : uuidOf l with
  | none => rw [hu] at h; cases h
  | some u => simp [uuidVal, hu]

theorem u64_some {l : List Char} (h : wfU64 l) : parseU64 l = some (numOf l) := by
  simp only [wfU64] at h
  cases hu : parseU64 l with
  | none => rw [hu] at h; cases h
  | some u => simp [numOf, hu]

theorem appendClause_Ok {pk : Bool} {ts : List Tok} {v : ClauseVal} {r : List Tok} :
    Ok (appendClause pk ts) v r ↔
      ∃ c : AppendClause, c.WFin pk ∧ ts = c.render ++ r ∧ v = c.denote ∧ True := by
  constructor
  · intro h
    unfold appendClause at h
    rcases orElse_Ok.mp h with h | ⟨_, h⟩
    · obtain ⟨k, a, r1, rfl, hk, hq, rfl⟩ := alt_Ok.mp h
      obtain ⟨l, rfl, hl⟩ := uuidP_Ok.mp hq
      exact ⟨.eventId k l, ⟨⟨hk, by simp [wfUuid, hl]⟩, by simp [AppendClause.kind]⟩, rfl,
        by simp [AppendClause.denote, uuidVal, hl], trivial⟩
    rcases orElse_Ok.mp h with h | ⟨_, h⟩
    · cases pk with
      | false => simp at h
      | true =>
        obtain ⟨k, a, r1, rfl, hk, hq, rfl⟩ := alt_Ok.mp h
        obtain ⟨l, rfl, hl⟩ := uuidP_Ok.mp hq
        exact ⟨.partitionKey k l, ⟨⟨hk, by simp [wfUuid, hl]⟩, by simp⟩, rfl,
          by simp [AppendClause.denote, uuidVal, hl], trivial⟩
    rcases orElse_Ok.mp h with h | ⟨_, h⟩
    · obtain ⟨k, a, r1, rfl, hk, hq, rfl⟩ := alt_Ok.mp h
      obtain ⟨l, rfl, hl⟩ := expectedVersion_Ok.mp hq
      exact ⟨.expectedVersion k l, ⟨⟨hk, by simp [hl]⟩, by simp [AppendClause.kind]⟩, rfl,
        by simp [AppendClause.denote, hl], trivial⟩
    rcases orElse_Ok.mp h with h | ⟨_, h⟩
    · obtain ⟨k, a, r1, rfl, hk, hq, rfl⟩ := alt_Ok.mp h
      obtain ⟨l, rfl, hl⟩ := numberU64_Ok.mp hq
      exact ⟨.timestamp k l, ⟨⟨hk, by simp [wfU64, hl]⟩, by simp [AppendClause.kind]⟩, rfl,
        by simp [AppendClause.denote, numOf, hl], trivial⟩
    rcases orElse_Ok.mp h with h | ⟨_, h⟩
    · obtain ⟨k, a, r1, rfl, hk, hq, rfl⟩ := alt_Ok.mp h
      obtain rfl := dataTok_Ok.mp hq
      exact ⟨.payload k a, ⟨hk, by simp [AppendClause.kind]⟩, rfl, rfl, trivial⟩
    · obtain ⟨k, a, r1, rfl, hk, hq, rfl⟩ := alt_Ok.mp h
      obtain rfl := dataTok_Ok.mp hq
      exact ⟨.metadata k a, ⟨hk, by simp [AppendClause.kind]⟩, rfl, rfl, trivial⟩
  · rintro ⟨c, ⟨hw, hpk⟩, rfl, rfl, _⟩
    unfold appendClause
    have hne : ∀ {k K K' : List Char} {r : List Tok}, upper k = K' → K' ≠ K → headKw K (.text k :: r) = false :=
      fun h1 h2 => headKw_of_kw h1 h2
    cases c with
    | eventId k l =>
      obtain ⟨hk, hl⟩ := hw
      exact orElse_Ok.mpr (Or.inl (alt_Ok.mpr ⟨k, _, _, rfl, hk, uuidP_Ok.mpr ⟨l, rfl, uuid_some hl⟩, rfl⟩))
    | partitionKey k l =>
      obtain ⟨hk, hl⟩ := hw
      cases pk with
      | false => exact absurd rfl (hpk rfl)
      | true =>
        refine orElse_Ok.mpr (Or.inr ⟨alt_perr (hne hk (by decide)), orElse_Ok.mpr (Or.inl ?_)⟩)
        exact alt_Ok.mpr ⟨k, _, _, rfl, hk, uuidP_Ok.mpr ⟨l, rfl, uuid_some hl⟩, rfl⟩
    | expectedVersion k l =>
      obtain ⟨hk, hl⟩ := hw
      have h2 : (if pk = true then attempt (pmap (withP (kw KW.partitionKey) uuidP) ClauseVal.partitionKey)
          else fun _ => Res.perr) (Tok.text k :: Tok.text l :: r) = .perr := by
        cases pk
        · rfl
        · exact alt_perr (hne hk (by decide))
      refine orElse_Ok.mpr (Or.inr ⟨alt_perr (hne hk (by decide)), orElse_Ok.mpr (Or.inr ⟨h2, orElse_Ok.mpr (Or.inl ?_)⟩)⟩)
      cases he : expectedOf l with
      | none => rw [he] at hl; cases hl
      | some e =>
        exact alt_Ok.mpr ⟨k, e, _, rfl, hk, expectedVersion_Ok.mpr ⟨l, rfl, he⟩, by simp [AppendClause.denote, he]⟩
    | timestamp k l =>
      obtain ⟨hk, hl⟩ := hw
      have h2 : (if pk = true then attempt (pmap (withP (kw KW.partitionKey) uuidP) ClauseVal.partitionKey)
          else fun _ => Res.perr) (Tok.text k :: Tok.text l :: r) = .perr := by
        cases pk
        · rfl
        · exact alt_perr (hne hk (by decide))
      refine orElse_Ok.mpr (Or.inr ⟨alt_perr (hne hk (by decide)), orElse_Ok.mpr (Or.inr ⟨h2,
        orElse_Ok.mpr (Or.inr ⟨alt_perr (hne hk (by decide)), orElse_Ok.mpr (Or.inl ?_)⟩)⟩)⟩)
      exact alt_Ok.mpr ⟨k, _, _, rfl, hk, numberU64_Ok.mpr ⟨l, rfl, u64_some hl⟩, rfl⟩
    | payload k d =>
      have hk : upper k = KW.payload := hw
      have h2 : (if pk = true then attempt (pmap (withP (kw KW.partitionKey) uuidP) ClauseVal.partitionKey)
          else fun _ => Res.perr) (Tok.text k :: d :: r) = .perr := by
        cases pk
        · rfl
        · exact alt_perr (hne hk (by decide))
      refine orElse_Ok.mpr (Or.inr ⟨alt_perr (hne hk (by decide)), orElse_Ok.mpr (Or.inr ⟨h2,
        orElse_Ok.mpr (Or.inr ⟨alt_perr (hne hk (by decide)), orElse_Ok.mpr (Or.inr ⟨alt_perr (hne hk (by decide)),
          orElse_Ok.mpr (Or.inl ?_)⟩)⟩)⟩)⟩)
      exact alt_Ok.mpr ⟨k, d, _, rfl, hk, dataTok_Ok.mpr rfl, rfl⟩
    | metadata k d =>
      have hk : upper k = KW.metadata := hw
      have h2 : (if pk = true then attempt (pmap (withP (kw KW.partitionKey) uuidP) ClauseVal.partitionKey)
          else fun _ => Res.perr) (Tok.text k :: d :: r) = .perr := by
        cases pk
        · rfl
        · exact alt_perr (hne hk (by decide))
      refine orElse_Ok.mpr (Or.inr ⟨alt_perr (hne hk (by decide)), orElse_Ok.mpr (Or.inr ⟨h2,
        orElse_Ok.mpr (Or.inr ⟨alt_perr (hne hk (by decide)), orElse_Ok.mpr (Or.inr ⟨alt_perr (hne hk (by decide)),
          orElse_Ok.mpr (Or.inr ⟨alt_perr (hne hk (by decide)), ?_⟩)⟩)⟩)⟩)⟩)
      exact alt_Ok.mpr ⟨k, d, _, rfl, hk, dataTok_Ok.mpr rfl, rfl⟩

theorem appendClause_consumes {pk : Bool} : Consumes (appendClause pk) :=
  consumes_of_spec (ren := AppendClause.render)
    (fun ts x r h => by obtain ⟨s, _, h2, _⟩ := appendClause_Ok.mp h; exact ⟨s, h2⟩)
    (by intro s; cases s <;> simp [AppendClause.render])

/-! ## the "already specified" loop -/

def EvAcc.has (a : EvAcc) : ClauseKind → Bool
  | .eventId => a.eventId.isSome
  | .partitionKey => a.partitionKey.isSome
  | .expectedVersion => a.expected.isSome
  | .timestamp => a.timestamp.isSome
  | .payload => a.payload.isSome
  | .metadata => a.metadata.isSome
  | .count => false

theorem EvAcc.step_none {a : EvAcc} {v : ClauseVal} : a.step v = none ↔ a.has v.kind = true := by
  cases v <;> simp [EvAcc.step, EvAcc.has, ClauseVal.kind, Option.isSome_iff_ne_none]

theorem EvAcc.step_has {a a' : EvAcc} {v : ClauseVal} (h : a.step v = some a') (k : ClauseKind) :
    a'.has k = (a.has k || k == v.kind) := by
  cases v <;> simp only [EvAcc.step] at h <;> split at h <;> cases h <;> cases k <;> simp [EvAcc.has, ClauseVal.kind]

theorem foldClauses_isSome : ∀ (vs : List ClauseVal) (a : EvAcc),
    (foldClauses a vs).isSome = true ↔ (vs.map (·.kind)).Nodup ∧ ∀ v ∈ vs, a.has v.kind = false := by
  intro vs
  induction vs with
  | nil => intro a; simp [foldClauses]
  | cons v vs ih =>
    intro a
    simp only [foldClauses]
    cases hs : a.step v with
    | none =>
      have := EvAcc.step_none.mp hs
      simp only [Option.isSome_none, Bool.false_eq_true, false_iff, not_and]
      intro _ h
      rw [h v (by simp)] at this
      cases this
    | some a' =>
      have hn : a.has v.kind = false := by
        cases hh : a.has v.kind with
        | false => rfl
        | true => rw [EvAcc.step_none.mpr hh] at hs; cases hs
      simp only [ih a', List.map_cons, List.nodup_cons, List.mem_map, not_exists, not_and, List.mem_cons,
        forall_eq_or_imp, EvAcc.step_has hs, Bool.or_eq_false_iff, beq_eq_false_iff_ne, ne_eq]
      constructor
      · rintro ⟨h1, h2⟩
        exact ⟨⟨fun x hx heq => (h2 x hx).2 heq, h1⟩, hn, fun x hx => (h2 x hx).1⟩
      · rintro ⟨⟨h1, h2⟩, _, h4⟩
        exact ⟨h2, fun x hx => ⟨h4 x hx, fun heq => h1 x hx heq⟩⟩

theorem denote_kind (c : AppendClause) : c.denote.kind = c.kind := by
  cases c <;> rfl

theorem buildEvent_iff {stream name : List Char} {cls : List AppendClause} {ev : AppendEv} :
    buildEvent stream name (cls.map AppendClause.denote) = some ev ↔
      (cls.map (·.kind)).Nodup ∧ ev = (EventDoc.mk stream name cls).denote := by
  have hk : (cls.map AppendClause.denote).map (·.kind) = cls.map (·.kind) := by
    simp [List.map_map, Function.comp_def, denote_kind]
  have key := foldClauses_isSome (cls.map AppendClause.denote) {}
  rw [hk] at key
  simp only [buildEvent, EventDoc.denote]
  cases hf : foldClauses {} (cls.map AppendClause.denote) with
  | none =>
    rw [hf] at key
    have hno : ¬ (cls.map (·.kind)).Nodup := by
      intro hn
      have := key.mpr ⟨hn, fun v _ => by cases v.kind <;> rfl⟩
      simp at this
    simp [hno]
  | some a =>
    rw [hf] at key
    simp only [Option.map_some, Option.some.injEq, Option.getD_some]
    constructor
    · rintro rfl; exact ⟨(key.mp rfl).1, rfl⟩
    · rintro ⟨_, rfl⟩; rfl

/-! ## EAPPEND / EMAPPEND -/

def EventDoc.Side (pk : Bool) (_ : EventDoc) (r : List Tok) : Prop := appendClause pk r = .perr

theorem eventP_Ok {pk : Bool} {ts : List Tok} {ev : AppendEv} {r : List Tok} :
    Ok (eventP pk ts) ev r ↔
      ∃ e : EventDoc, e.WF pk ∧ ts = e.render ++ r ∧ ev = e.denote ∧ e.Side pk r := by
  simp only [eventP, andThen_Ok, seq_Ok, streamId_Ok, str_Ok,
    many_spec appendClause_consumes (fun _ _ _ => appendClause_Ok)]
  constructor
  · rintro ⟨⟨s, n, vs⟩, ⟨r1, ⟨rfl, hs⟩, r2, rfl, cls, rfl, hvs, hch, hr⟩, hb⟩
    simp only at hvs hb
    subst hvs
    obtain ⟨hnd, rfl⟩ := buildEvent_iff.mp hb
    refine ⟨⟨s, n, cls⟩, ⟨hs, fun c hc => (Chain.wf hch c hc).1, hnd, ?_⟩, by simp [EventDoc.render], rfl, hr⟩
    intro hpk hmem
    obtain ⟨c, hc, hk⟩ := List.mem_map.mp hmem
    exact (Chain.wf hch c hc).2 hpk hk
  · rintro ⟨⟨s, n, cls⟩, ⟨hs, hcl, hnd, hpk⟩, rfl, rfl, hr⟩
    refine ⟨(s, n, cls.map AppendClause.denote),
      ⟨.text n :: (renderAll AppendClause.render cls ++ r), ⟨by simp [EventDoc.render], hs⟩,
        renderAll AppendClause.render cls ++ r, rfl, cls, rfl, rfl, ?_, hr⟩, buildEvent_iff.mpr ⟨hnd, rfl⟩⟩
    refine Chain.of_wf (fun _ _ => trivial) (fun c hc => ⟨hcl c hc, fun h1 h2 => ?_⟩)
    exact hpk h1 (List.mem_map.mpr ⟨c, hc, h2⟩)

theorem eventP_consumes {pk : Bool} : Consumes (eventP pk) :=
  consumes_of_spec (ren := EventDoc.render)
    (fun ts x r h => by obtain ⟨s, _, h2, _⟩ := eventP_Ok.mp h; exact ⟨s, h2⟩)
    (by intro s; simp [EventDoc.render])

theorem eventP_perr_nil {pk : Bool} : eventP pk [] = .perr :=
  andThen_perr (seq_perr (streamId_perr trivial))

/-- EAPPEND -/
theorem eappendP_Ok {ts : List Tok} {req : Request} :
    Ok (eappendP ts) req [] ↔
      ∃ ev, (DocCmd.eappend ev).WF ∧ ts = (DocCmd.eappend ev).render ∧ req = (DocCmd.eappend ev).denote := by
  simp only [eappendP, pmap_Ok, eventP_Ok]
  constructor
  · rintro ⟨_, ⟨e, hw, rfl, rfl, _⟩, rfl⟩
    exact ⟨e, hw, by simp [DocCmd.render], rfl⟩
  · rintro ⟨e, hw, rfl, rfl⟩
    exact ⟨e.denote, ⟨e, hw, by simp [DocCmd.render], rfl, appendClause_perr_nil⟩, rfl⟩

/-- the events of a documented EMAPPEND chain: after an event comes another stream id or the end -/
theorem emappend_chain : ∀ {evs : List EventDoc}, (∀ e ∈ evs, e.WF false) →
    Chain (EventDoc.WF false) EventDoc.render (EventDoc.Side false) evs [] := by
  intro evs
  induction evs with
  | nil => intro _; trivial
  | cons e es ih =>
    intro h
    refine ⟨h e (by simp), ?_, ih (fun x hx => h x (by simp [hx]))⟩
    cases es with
    | nil => exact appendClause_perr_nil
    | cons e' es' =>
      have hw : e'.WF false := h e' (by simp)
      simp only [EventDoc.Side, renderAll, EventDoc.render, List.cons_append]
      exact appendClause_perr_stream hw.1

/-- EMAPPEND -/
theorem emappendP_Ok {ts : List Tok} {req : Request} :
    Ok (emappendP ts) req [] ↔
      ∃ pk evs, (DocCmd.emappend pk evs).WF ∧ ts = (DocCmd.emappend pk evs).render ∧
        req = (DocCmd.emappend pk evs).denote := by
  simp only [emappendP, pmap_Ok, seq_Ok, uuidP_Ok, many1_spec eventP_consumes (fun _ _ _ => eventP_Ok)]
  constructor
  · rintro ⟨⟨u, xs⟩, ⟨r1, ⟨l, rfl, hl⟩, evs, hne, rfl, hxs, hch, _⟩, rfl⟩
    simp only at hxs hl
    subst hxs
    exact ⟨l, evs, ⟨by simp [wfUuid, hl], hne, Chain.wf hch⟩, by simp [DocCmd.render],
      by simp [DocCmd.denote, uuidVal, hl]⟩
  · rintro ⟨l, evs, ⟨hl, hne, hevs⟩, rfl, rfl⟩
    exact ⟨(uuidVal l, evs.map EventDoc.denote),
      ⟨renderAll EventDoc.render evs ++ [], ⟨l, by simp [DocCmd.render], uuid_some hl⟩,
        evs, hne, rfl, rfl, emappend_chain hevs, eventP_perr_nil⟩, rfl⟩

/-! ## ESCAN -/

theorem scanClause_Ok {ts : List Tok} {v : ScanVal} {r : List Tok} :
    Ok (scanClause ts) v r ↔ ∃ c : ScanClause, c.WF ∧ ts = c.render ++ r ∧ v = c.denote ∧ True := by
  constructor
  · intro h
    unfold scanClause at h
    rcases orElse_Ok.mp h with h | ⟨_, h⟩
    · obtain ⟨k, a, r1, rfl, hk, hq, rfl⟩ := alt_Ok.mp h
      obtain ⟨l, rfl, hl⟩ := uuidP_Ok.mp hq
      exact ⟨.partitionKey k l, ⟨hk, by simp [wfUuid, hl]⟩, rfl, by simp [ScanClause.denote, uuidVal, hl], trivial⟩
    · obtain ⟨k, a, r1, rfl, hk, hq, rfl⟩ := alt_Ok.mp h
      obtain ⟨l, rfl, hl⟩ := numberU64_Ok.mp hq
      exact ⟨.count k l, ⟨hk, by simp [wfU64, hl]⟩, rfl, by simp [ScanClause.denote, numOf, hl], trivial⟩
  · rintro ⟨c, hw, rfl, rfl, _⟩
    unfold scanClause
    cases c with
    | partitionKey k l =>
      obtain ⟨hk, hl⟩ := hw
      exact orElse_Ok.mpr (Or.inl (alt_Ok.mpr ⟨k, _, _, rfl, hk, uuidP_Ok.mpr ⟨l, rfl, uuid_some hl⟩, rfl⟩))
    | count k l =>
      obtain ⟨hk, hl⟩ := hw
      refine orElse_Ok.mpr (Or.inr ⟨alt_perr (headKw_of_kw hk (by decide)), ?_⟩)
      exact alt_Ok.mpr ⟨k, _, _, rfl, hk, numberU64_Ok.mpr ⟨l, rfl, u64_some hl⟩, rfl⟩

theorem scanClause_consumes : Consumes scanClause :=
  consumes_of_spec (ren := ScanClause.render)
    (fun ts x r h => by obtain ⟨s, _, h2, _⟩ := scanClause_Ok.mp h; exact ⟨s, h2⟩)
    (by intro s; cases s <;> simp [ScanClause.render])

theorem scanClause_perr_nil : scanClause [] = .perr := rfl

theorem foldScan_isSome : ∀ (vs : List ScanVal) (pk c : Option Nat),
    (foldScan pk c vs).isSome = true ↔
      (vs.map (·.kind)).Nodup ∧ (pk.isSome = true → ClauseKind.partitionKey ∉ vs.map (·.kind)) ∧
        (c.isSome = true → ClauseKind.count ∉ vs.map (·.kind)) := by
  intro vs
  induction vs with
  | nil => intro pk c; simp [foldScan]
  | cons v vs ih =>
    intro pk c
    cases v with
    | partitionKey u =>
      simp only [foldScan]
      cases pk with
      | some p => simp [ScanVal.kind]
      | none =>
        simp only [Option.isSome_none, Bool.false_eq_true, if_false, ih, List.map_cons, ScanVal.kind,
          List.nodup_cons, Option.isSome_some, forall_const, false_imp_iff, true_and, List.mem_cons,
          not_or]
        constructor
        · rintro ⟨h1, h2, h3⟩; exact ⟨⟨h2, h1⟩, fun hc => ⟨by decide, h3 hc⟩⟩
        · rintro ⟨⟨h2, h1⟩, h3⟩; exact ⟨h1, h2, fun hc => (h3 hc).2⟩
    | count n =>
      simp only [foldScan]
      cases c with
      | some p => simp [ScanVal.kind]
      | none =>
        simp only [Option.isSome_none, Bool.false_eq_true, if_false, ih, List.map_cons, ScanVal.kind,
          List.nodup_cons, Option.isSome_some, forall_const, false_imp_iff, and_true, List.mem_cons,
          not_or]
        constructor
        · rintro ⟨h1, h2, h3⟩; exact ⟨⟨h3, h1⟩, fun hc => ⟨by decide, h2 hc⟩⟩
        · rintro ⟨⟨h3, h1⟩, h2⟩; exact ⟨h1, fun hc => (h2 hc).2, h3⟩

theorem scanDenote_kind (c : ScanClause) : c.denote.kind = c.kind := by
  cases c <;> rfl

theorem range_some {l : List Char} (h : wfRange l) : rangeOf l = some (rangeVal l) := by
  simp only [wfRange] at h
  cases hu : rangeOf l with
  | none => rw [hu] at h; cases h
  | some u => simp [rangeVal, hu]

theorem psel_some {l : List Char} (h : wfPSel l) : pselOf l = some (pselVal l) := by
  simp only [wfPSel] at h
  cases hu : pselOf l with
  | none => rw [hu] at h; cases h
  | some u => simp [pselVal, hu]

/-- ESCAN -/
theorem escanP_Ok {ts : List Tok} {req : Request} :
    Ok (escanP ts) req [] ↔
      ∃ s a b cl, (DocCmd.escan s a b cl).WF ∧ ts = (DocCmd.escan s a b cl).render ∧
        req = (DocCmd.escan s a b cl).denote := by
  simp only [escanP, andThen_Ok, seq_Ok, streamId_Ok, rangeValue_Ok,
    many_spec scanClause_consumes (fun _ _ _ => scanClause_Ok)]
  constructor
  · rintro ⟨⟨s, va, vb, vs⟩, ⟨r1, ⟨rfl, hs⟩, r2, ⟨a, rfl, ha⟩, r3, ⟨b, rfl, hb⟩, cl, rfl, hvs, hch, _⟩, hf⟩
    simp only at hvs ha hb hf
    subst hvs
    have hk : (cl.map ScanClause.denote).map (·.kind) = cl.map (·.kind) := by
      simp [List.map_map, Function.comp_def, scanDenote_kind]
    cases hfs : foldScan none none (cl.map ScanClause.denote) with
    | none => rw [hfs] at hf; cases hf
    | some pc =>
      rw [hfs] at hf
      simp only [Option.map_some, Option.some.injEq] at hf
      subst hf
      have := (foldScan_isSome (cl.map ScanClause.denote) none none).mp (by rw [hfs]; rfl)
      rw [hk] at this
      exact ⟨s, a, b, cl, ⟨hs, by simp [wfRange, ha], by simp [wfRange, hb], Chain.wf hch, this.1⟩,
        by simp [DocCmd.render], by simp [DocCmd.denote, rangeVal, ha, hb, hfs]⟩
  · rintro ⟨s, a, b, cl, ⟨hs, ha, hb, hcl, hnd⟩, rfl, rfl⟩
    have hk : (cl.map ScanClause.denote).map (·.kind) = cl.map (·.kind) := by
      simp [List.map_map, Function.comp_def, scanDenote_kind]
    have hsome := (foldScan_isSome (cl.map ScanClause.denote) none none).mpr (by rw [hk]; simp [hnd])
    cases hfs : foldScan none none (cl.map ScanClause.denote) with
    | none => rw [hfs] at hsome; cases hsome
    | some pc =>
      refine ⟨(s, rangeVal a, rangeVal b, cl.map ScanClause.denote),
        ⟨.text a :: .text b :: (renderAll ScanClause.render cl ++ []), ⟨by simp [DocCmd.render], hs⟩,
          .text b :: (renderAll ScanClause.render cl ++ []), ⟨a, rfl, range_some ha⟩,
          renderAll ScanClause.render cl ++ [], ⟨b, rfl, range_some hb⟩,
          cl, rfl, rfl, Chain.of_wf (fun _ _ => trivial) hcl, scanClause_perr_nil⟩, ?_⟩
      simp [DocCmd.denote, hfs]

/-! ## EPSCAN -/

theorem countClause_consumes : Consumes (withP (kw KW.count) numberU64) :=
  consumes_of_spec (ren := NumClause.render)
    (fun ts x r h => by obtain ⟨s, _, h2, _⟩ := numClause_Ok.mp h; exact ⟨s, h2⟩)
    (by intro s; simp [NumClause.render])

/-- EPSCAN -/
theorem epscanP_Ok {ts : List Tok} {req : Request} :
    Ok (epscanP ts) req [] ↔
      ∃ p a b c, (DocCmd.epscan p a b c).WF ∧ ts = (DocCmd.epscan p a b c).render ∧
        req = (DocCmd.epscan p a b c).denote := by
  simp only [epscanP, andThen_Ok, seq_Ok, partitionSelector_Ok, rangeValue_Ok,
    many_spec countClause_consumes (fun _ _ _ => numClause_Ok)]
  constructor
  · rintro ⟨⟨vp, va, vb, vs⟩, ⟨r1, ⟨p, rfl, hp⟩, r2, ⟨a, rfl, ha⟩, r3, ⟨b, rfl, hb⟩, cs, rfl, hvs, hch, _⟩, hf⟩
    simp only at hvs ha hb hp hf
    subst hvs
    cases cs with
    | nil =>
      simp only [List.map_nil, Option.some.injEq] at hf
      subst hf
      exact ⟨p, a, b, none, ⟨by simp [wfPSel, hp], by simp [wfRange, ha], by simp [wfRange, hb], by simp⟩,
        by simp [DocCmd.render, renderAll, renderOpt], by simp [DocCmd.denote, pselVal, rangeVal, hp, ha, hb]⟩
    | cons c cs =>
      cases cs with
      | nil =>
        simp only [List.map_cons, List.map_nil, Option.some.injEq] at hf
        subst hf
        refine ⟨p, a, b, some c, ⟨by simp [wfPSel, hp], by simp [wfRange, ha], by simp [wfRange, hb], ?_⟩,
          by simp [DocCmd.render, renderAll, renderOpt], by simp [DocCmd.denote, pselVal, rangeVal, hp, ha, hb]⟩
        rintro x ⟨rfl⟩
        exact hch.1
      | cons c2 cs => simp at hf
  · rintro ⟨p, a, b, c, ⟨hp, ha, hb, hc⟩, rfl, rfl⟩
    cases c with
    | none =>
      exact ⟨(pselVal p, rangeVal a, rangeVal b, []),
        ⟨.text a :: .text b :: [], ⟨p, by simp [DocCmd.render, renderOpt], psel_some hp⟩,
          .text b :: [], ⟨a, rfl, range_some ha⟩, [], ⟨b, rfl, range_some hb⟩,
          [], by simp [renderAll], rfl, trivial, rfl⟩, by simp [DocCmd.denote]⟩
    | some c =>
      exact ⟨(pselVal p, rangeVal a, rangeVal b, [numOf c.num]),
        ⟨.text a :: .text b :: (c.render ++ []), ⟨p, by simp [DocCmd.render, renderOpt], psel_some hp⟩,
          .text b :: (c.render ++ []), ⟨a, rfl, range_some ha⟩, c.render ++ [], ⟨b, rfl, range_some hb⟩,
          [c], by simp [renderAll], rfl, ⟨hc c rfl, trivial, trivial⟩, rfl⟩, by simp [DocCmd.denote]⟩

/-! ## EGET / ESVER / EPSEQ / EACK -/

theorem egetP_Ok {ts : List Tok} {req : Request} :
    Ok (egetP ts) req [] ↔
      ∃ id, (DocCmd.eget id).WF ∧ ts = (DocCmd.eget id).render ∧ req = (DocCmd.eget id).denote := by
  simp only [egetP, pmap_Ok, uuidP_Ok]
  constructor
  · rintro ⟨u, ⟨l, rfl, hl⟩, rfl⟩
    exact ⟨l, by simp [DocCmd.WF, wfUuid, hl], rfl, by simp [DocCmd.denote, uuidVal, hl]⟩
  · rintro ⟨l, hl, rfl, rfl⟩
    exact ⟨uuidVal l, ⟨l, rfl, uuid_some hl⟩, rfl⟩

theorem esverP_Ok {ts : List Tok} {req : Request} :
    Ok (esverP ts) req [] ↔
      ∃ s pk, (DocCmd.esver s pk).WF ∧ ts = (DocCmd.esver s pk).render ∧ req = (DocCmd.esver s pk).denote := by
  simp only [esverP, pmap_Ok, seq_Ok, streamId_Ok, optional_spec (fun _ _ _ => pkClause_Ok)]
  constructor
  · rintro ⟨⟨s, o⟩, ⟨r1, ⟨rfl, hs⟩, pk, hpk, rfl, ho, _⟩, rfl⟩
    simp only at ho; subst ho
    exact ⟨s, pk, ⟨hs, fun p hp => (hpk p hp).1⟩, by simp [DocCmd.render], rfl⟩
  · rintro ⟨s, pk, ⟨hs, hpk⟩, rfl, rfl⟩
    exact ⟨(s, pk.map (fun p => uuidVal p.uuid)),
      ⟨renderOpt PkClause.render pk ++ [], ⟨by simp [DocCmd.render], hs⟩, pk,
        fun p hp => ⟨hpk p hp, trivial⟩, rfl, rfl, fun _ => rfl⟩, rfl⟩

theorem epseqP_Ok {ts : List Tok} {req : Request} :
    Ok (epseqP ts) req [] ↔
      ∃ p, (DocCmd.epseq p).WF ∧ ts = (DocCmd.epseq p).render ∧ req = (DocCmd.epseq p).denote := by
  simp only [epseqP, pmap_Ok, partitionSelector_Ok]
  constructor
  · rintro ⟨u, ⟨l, rfl, hl⟩, rfl⟩
    exact ⟨l, by simp [DocCmd.WF, wfPSel, hl], rfl, by simp [DocCmd.denote, pselVal, hl]⟩
  · rintro ⟨l, hl, rfl, rfl⟩
    exact ⟨pselVal l, ⟨l, rfl, psel_some hl⟩, rfl⟩

theorem eackP_Ok {ts : List Tok} {req : Request} :
    Ok (eackP ts) req [] ↔
      ∃ id n, (DocCmd.eack id n).WF ∧ ts = (DocCmd.eack id n).render ∧ req = (DocCmd.eack id n).denote := by
  simp only [eackP, pmap_Ok, seq_Ok, uuidP_Ok, numberU64_Ok]
  constructor
  · rintro ⟨⟨u, n⟩, ⟨r1, ⟨l, rfl, hl⟩, m, rfl, hm⟩, rfl⟩
    simp only at hl hm
    exact ⟨l, m, ⟨by simp [wfUuid, hl], by simp [wfU64, hm]⟩, rfl, by simp [DocCmd.denote, uuidVal, numOf, hl, hm]⟩
  · rintro ⟨l, m, ⟨hl, hm⟩, rfl, rfl⟩
    exact ⟨(uuidVal l, numOf m), ⟨[.text m], ⟨l, rfl, uuid_some hl⟩, m, rfl, u64_some hm⟩, rfl⟩

/-- every command parser accepts exactly the renderings of the well-formed documented forms of
its command and returns their denotation -/
theorem parser_Ok_iff {cmd : Cmd} {ts : List Tok} {req : Request} :
    Ok (cmd.parser ts) req [] ↔ ∃ c : DocCmd, c.WF ∧ c.cmd = cmd ∧ c.render = ts ∧ c.denote = req := by
  cases cmd
  case esub =>
    simp only [Cmd.parser, esubP_Ok]
    constructor
    · rintro ⟨a, b, c, h1, rfl, rfl⟩; exact ⟨_, h1, rfl, rfl, rfl⟩
    · rintro ⟨c, h1, h2, rfl, rfl⟩; cases c <;> cases h2; exact ⟨_, _, _, h1, rfl, rfl⟩
  case epsub =>
    simp only [Cmd.parser, epsubP_Ok]
    constructor
    · rintro ⟨a, b, c, h1, rfl, rfl⟩; exact ⟨_, h1, rfl, rfl, rfl⟩
    · rintro ⟨c, h1, h2, rfl, rfl⟩; cases c <;> cases h2; exact ⟨_, _, _, h1, rfl, rfl⟩
  case eappend =>
    simp only [Cmd.parser, eappendP_Ok]
    constructor
    · rintro ⟨a, h1, rfl, rfl⟩; exact ⟨_, h1, rfl, rfl, rfl⟩
    · rintro ⟨c, h1, h2, rfl, rfl⟩; cases c <;> cases h2; exact ⟨_, h1, rfl, rfl⟩
  case emappend =>
    simp only [Cmd.parser, emappendP_Ok]
    constructor
    · rintro ⟨a, b, h1, rfl, rfl⟩; exact ⟨_, h1, rfl, rfl, rfl⟩
    · rintro ⟨c, h1, h2, rfl, rfl⟩; cases c <;> cases h2; exact ⟨_, _, h1, rfl, rfl⟩
  case escan =>
    simp only [Cmd.parser, escanP_Ok]
    constructor
    · rintro ⟨a, b, c, d, h1, rfl, rfl⟩; exact ⟨_, h1, rfl, rfl, rfl⟩
    · rintro ⟨c, h1, h2, rfl, rfl⟩; cases c <;> cases h2; exact ⟨_, _, _, _, h1, rfl, rfl⟩
  case epscan =>
    simp only [Cmd.parser, epscanP_Ok]
    constructor
    · rintro ⟨a, b, c, d, h1, rfl, rfl⟩; exact ⟨_, h1, rfl, rfl, rfl⟩
    · rintro ⟨c, h1, h2, rfl, rfl⟩; cases c <;> cases h2; exact ⟨_, _, _, _, h1, rfl, rfl⟩
  case eget =>
    simp only [Cmd.parser, egetP_Ok]
    constructor
    · rintro ⟨a, h1, rfl, rfl⟩; exact ⟨_, h1, rfl, rfl, rfl⟩
    · rintro ⟨c, h1, h2, rfl, rfl⟩; cases c <;> cases h2; exact ⟨_, h1, rfl, rfl⟩
  case esver =>
    simp only [Cmd.parser, esverP_Ok]
    constructor
    · rintro ⟨a, b, h1, rfl, rfl⟩; exact ⟨_, h1, rfl, rfl, rfl⟩
    · rintro ⟨c, h1, h2, rfl, rfl⟩; cases c <;> cases h2; exact ⟨_, _, h1, rfl, rfl⟩
  case epseq =>
    simp only [Cmd.parser, epseqP_Ok]
    constructor
    · rintro ⟨a, h1, rfl, rfl⟩; exact ⟨_, h1, rfl, rfl, rfl⟩
    · rintro ⟨c, h1, h2, rfl, rfl⟩; cases c <;> cases h2; exact ⟨_, h1, rfl, rfl⟩
  case eack =>
    simp only [Cmd.parser, eackP_Ok]
    constructor
    · rintro ⟨a, b, h1, rfl, rfl⟩; exact ⟨_, h1, rfl, rfl, rfl⟩
    · rintro ⟨c, h1, h2, rfl, rfl⟩; cases c <;> cases h2; exact ⟨_, _, h1, rfl, rfl⟩

end SierraModel.Server
