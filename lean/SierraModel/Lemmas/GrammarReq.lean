/-
C21: the stream ids of the request a well-formed documented form denotes are its stream-id lexemes
(none of which is a reserved keyword) — through the set/map canonicalisation of `buildEsub`.
-/
import SierraModel.Lemmas.GrammarCmd2

namespace SierraModel.Server
open SierraModel.Version (parseU64 Expected)

theorem mem_insertUniq {α : Type} [DecidableEq α] {lt : α → α → Bool} {x z : α} :
    ∀ {l : List α}, z ∈ insertUniq lt x l → z = x ∨ z ∈ l := by
  intro l
  induction l with
  | nil => intro h; simp [insertUniq] at h; exact Or.inl h
  | cons y ys ih =>
    intro h
    simp only [insertUniq] at h
    split at h
    · exact Or.inr h
    · split at h
      · rcases List.mem_cons.mp h with rfl | h
        · exact Or.inl rfl
        · exact Or.inr h
      · rcases List.mem_cons.mp h with rfl | h
        · exact Or.inr (by simp)
        · rcases ih h with rfl | h
          · exact Or.inl rfl
          · exact Or.inr (List.mem_cons_of_mem _ h)

theorem mem_canonSet {α : Type} [DecidableEq α] {lt : α → α → Bool} {z : α} {l : List α}
    (h : z ∈ canonSet lt l) : z ∈ l := by
  have key : ∀ (l acc : List α), z ∈ l.foldl (fun acc x => insertUniq lt x acc) acc → z ∈ acc ∨ z ∈ l := by
    intro l
    induction l with
    | nil => intro acc h; exact Or.inl h
    | cons x xs ih =>
      intro acc h
      rcases ih _ h with h | h
      · rcases mem_insertUniq h with rfl | h
        · exact Or.inr (by simp)
        · exact Or.inl h
      · exact Or.inr (List.mem_cons_of_mem _ h)
  rcases key l [] h with h | h
  · cases h
  · exact h

/-- the stream ids of the request an ESUB form denotes are stream-id lexemes of its selectors -/
theorem buildEsub_streamIds {sels : List (List Char × Option Nat)} {f : Option EsubFromV} {w : Option Nat}
    {s : List Char} (h : s ∈ (buildEsub sels f w).streamIds) : s ∈ sels.map (·.1) := by
  unfold buildEsub at h
  have hset : ∀ x ∈ canonSet selLt sels, x.1 ∈ sels.map (·.1) :=
    fun x hx => List.mem_map.mpr ⟨x, mem_canonSet hx, rfl⟩
  split at h
  · rename_i s' pk heq
    simp only [Request.streamIds, List.mem_singleton] at h
    subst h
    exact hset (s, pk) (by rw [heq]; simp)
  · cases f with
    | none =>
      simp only [Request.streamIds] at h
      obtain ⟨x, hx, rfl⟩ := List.mem_map.mp h
      exact hset x hx
    | some fv =>
      cases fv with
      | latest =>
        simp only [Request.streamIds] at h
        obtain ⟨x, hx, rfl⟩ := List.mem_map.mp h
        exact hset x hx
      | all n =>
        simp only [Request.streamIds] at h
        obtain ⟨x, hx, rfl⟩ := List.mem_map.mp h
        exact hset x hx
      | map m =>
        simp only [Request.streamIds, List.mem_append] at h
        rcases h with h | h
        · obtain ⟨x, hx, rfl⟩ := List.mem_map.mp h
          exact hset x hx
        · obtain ⟨e, he, rfl⟩ := List.mem_map.mp h
          have := (List.mem_filter.mp he).2
          simp only [List.any_eq_true, decide_eq_true_eq] at this
          obtain ⟨x, hx, hxe⟩ := this
          rw [← hxe]
          exact hset x hx

theorem finish_stream (a : EvAcc) (s n : List Char) : (a.finish s n).stream = s := rfl

theorem EventDoc.denote_stream (e : EventDoc) : e.denote.stream = e.stream := rfl

/-- no stream id of the request a well-formed form denotes is a reserved keyword -/
theorem denote_streamIds_not_reserved {c : DocCmd} (hw : c.WF) {s : List Char}
    (h : s ∈ c.denote.streamIds) : isReserved s = false := by
  cases c with
  | esub sels f w =>
    obtain ⟨_, hsels, _, _⟩ := hw
    have := buildEsub_streamIds (by simpa [DocCmd.denote] using h)
    simp only [List.map_map, List.mem_map, Function.comp_apply] at this
    obtain ⟨x, hx, rfl⟩ := this
    exact (hsels x hx).1.1
  | epsub sel f w =>
    simp only [DocCmd.denote, buildEpsub] at h
    cases sel <;> simp [EpsubSel.denote, Request.streamIds] at h
  | eappend ev =>
    simp only [DocCmd.denote, Request.streamIds, List.mem_singleton] at h
    subst h
    exact hw.1.1
  | emappend pk evs =>
    obtain ⟨_, _, hevs⟩ := hw
    simp only [DocCmd.denote, Request.streamIds, List.map_map, List.mem_map, Function.comp_apply] at h
    obtain ⟨e, he, rfl⟩ := h
    exact (hevs e he).1.1
  | escan st a b cl =>
    simp only [DocCmd.denote, Request.streamIds, List.mem_singleton] at h
    subst h
    exact hw.1.1
  | epscan p a b c => simp [DocCmd.denote, Request.streamIds] at h
  | eget id => simp [DocCmd.denote, Request.streamIds] at h
  | esver st pk =>
    simp only [DocCmd.denote, Request.streamIds, List.mem_singleton] at h
    subst h
    exact hw.1.1
  | epseq p => simp [DocCmd.denote, Request.streamIds] at h
  | eack id n => simp [DocCmd.denote, Request.streamIds] at h

end SierraModel.Server
